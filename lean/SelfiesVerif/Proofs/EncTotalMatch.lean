/-
  C09 (stage 3, part 1): `find_perfect_matching` is total on simple graphs, for every tape, EVEN
  when the blossom-free BFS returns non-simple paths (finding F9).

  After a non-simple flip the list `matching` is no longer a matching, but it keeps a weaker
  invariant (`WeakValid`): every entry `matching[i] = j` is along an edge `i – j` of the graph and
  `matching[j]` is not `None`.  Under `WeakValid`
    * the BFS never leaves its index ranges, ends within the model's fuel `n + 1`
      (every vertex is enqueued at most once),
    * the walk back through `parents` never meets a `None` entry (no `TypeError`) and ends within
      `n + 1` steps (the parent chains are paths of the BFS tree),
    * the path has even length (no `IndexError` in the flip), its inner vertices are matched, so
      the `unmatched` set stays exactly the set of `None` entries (no `AssertionError` later),
    * the flip keeps `WeakValid`.
  Hence the result, if any, has no `None` entry and every entry is along an edge of the graph:
  exactly what `kekulize` needs in order not to fail.
-/
import SelfiesVerif.Proofs.Augment

namespace SV.C09

/-- what survives of `ValidPartial` when paths are flipped that visit a vertex twice -/
structure WeakValid (g : Graph) (m : Matching) : Prop where
  length_eq : m.length = g.length
  matched : ∀ (i j : Nat), m[i]? = some (some j) →
    j < g.length ∧ Adj g i j ∧ ∃ k, m[j]? = some (some k)

theorem weak_of_valid {g : Graph} {m : Matching} (h : ValidPartial g m) : WeakValid g m :=
  ⟨h.length_eq, fun i j hij =>
    let ⟨h1, h2, h3⟩ := h.matched i j hij
    ⟨h1, h2, i, h3⟩⟩

/-! ### counting the unset entries of `parents` -/

def unset (p : Parents) : Nat := (p.filter Option.isNone).length

theorem unset_replicate (n : Nat) : unset (List.replicate n none) = n := by
  induction n with
  | zero => rfl
  | succ n ih =>
    simp only [unset, List.replicate_succ, List.filter_cons, Option.isNone_none, if_true,
      List.length_cons] at ih ⊢
    omega

theorem unset_set : ∀ (p : Parents) (i : Nat) (v : Option Nat × Option Nat),
    p[i]? = some none → unset (p.set i (some v)) + 1 = unset p := by
  intro p
  induction p with
  | nil => intro i v h; exact absurd h (by simp)
  | cons x p ih =>
    intro i v h
    cases i with
    | zero =>
      simp only [List.getElem?_cons_zero, Option.some.injEq] at h
      subst h
      simp [unset, List.set]
    | succ i =>
      simp only [List.getElem?_cons_succ] at h
      have := ih i v h
      simp only [unset, List.set_cons_succ, List.filter_cons] at this ⊢
      split <;> first | (simp only [List.length_cons]; omega) | omega

theorem unset_le (p : Parents) : unset p ≤ p.length := List.length_filter_le _ _

/-! ### the invariant of the BFS -/

def IsSet (p : Parents) (x : Nat) : Prop := ∃ v, p[x]? = some (some v)

theorem IsSet.lt {p : Parents} {x : Nat} (h : IsSet p x) : x < p.length := by
  obtain ⟨v, hv⟩ := h
  exact lt_of_getElem?_some hv

theorem IsSet.set {p : Parents} {x y : Nat} (h : IsSet p x) (hy : p[y]? = some none)
    (v : Option (Option Nat × Option Nat)) : IsSet (p.set y v) x := by
  obtain ⟨w, hw⟩ := h
  refine ⟨w, ?_⟩
  rw [List.getElem?_set]
  split
  · rename_i e; subst e; rw [hy] at hw; cases hw
  · exact hw

theorem chain_mono {p : Parents} {root x : Nat} {suf : List Nat} (h : Chain p root x suf)
    {y : Nat} (hy : p[y]? = some none) (v : Option (Option Nat × Option Nat)) :
    Chain (p.set y v) root x suf := by
  induction h with
  | nil => exact Chain.nil
  | cons hne hp _ ih =>
    refine Chain.cons hne ?_ ih
    rw [List.getElem?_set]
    split
    · rename_i e; subst e; rw [hy] at hp; cases hp
    · exact hp

/-- the `parents` table while the BFS runs (before an unmatched vertex is found) -/
structure BInv (g : Graph) (m : Matching) (root : Nat) (p : Parents) : Prop where
  len : p.length = g.length
  rootSet : p[root]? = some (some (none, none))
  entry : ∀ (x par via : Nat), p[x]? = some (some (some par, some via)) →
    Adj g par via ∧ m[via]? = some (some x)
  matched : ∀ x, IsSet p x → x = root ∨ ∃ k, m[x]? = some (some k)
  chain : ∀ x, IsSet p x → ∃ suf, Chain p root x suf ∧ suf.length / 2 + 1 + unset p ≤ g.length

/-- the path handed to `_flip_augmenting_path` -/
structure GoodPath (g : Graph) (m : Matching) (root e : Nat) (path : List Nat) : Prop where
  pairs : PairsAdj g path
  inRange : ∀ y ∈ path, y < g.length
  head : path.head? = some e
  last : path.getLast? = some root
  ends : ∀ y ∈ path, m[y]? = some none → y = e ∨ y = root

theorem BInv.init {g : Graph} {m : Matching} {root : Nat} (hr : root < g.length) :
    BInv g m root ((List.replicate g.length none).set root (some (none, none))) := by
  have hget : ∀ x v, ((List.replicate g.length (none : Option (Option Nat × Option Nat))).set root
      (some (none, none)))[x]? = some (some v) → x = root ∧ v = (none, none) := by
    intro x v h
    rw [List.getElem?_set] at h
    split at h
    · rename_i e
      split at h
      · cases h; exact ⟨e.symm, rfl⟩
      · cases h
    · rw [List.getElem?_replicate] at h
      split at h <;> cases h
  refine ⟨by simp, by simp [hr], ?_, ?_, ?_⟩
  · intro x par via h
    have := (hget x _ h).2
    cases this
  · rintro x ⟨v, hv⟩; exact Or.inl (hget x v hv).1
  · rintro x ⟨v, hv⟩
    obtain ⟨rfl, _⟩ := hget x v hv
    refine ⟨[], Chain.nil, ?_⟩
    have h1 := unset_set (List.replicate g.length none) x (none, none)
      (by rw [List.getElem?_replicate, if_pos hr])
    rw [unset_replicate] at h1
    simp only [List.length_nil, Nat.zero_div]
    omega

theorem BInv.set {g : Graph} {m : Matching} {root : Nat} {p : Parents} (hw : WeakValid g m)
    (h : BInv g m root p) {x node via : Nat} (hx : p[x]? = some none) (hnode : IsSet p node)
    (hadj : Adj g node via) (hm : m[via]? = some (some x)) :
    BInv g m root (p.set x (some (some node, some via))) := by
  have hxr : x ≠ root := by
    intro e; subst e; rw [h.rootSet] at hx; cases hx
  have hget : ∀ y v, (p.set x (some (some node, some via)))[y]? = some (some v) →
      (y = x ∧ v = (some node, some via)) ∨ (y ≠ x ∧ p[y]? = some (some v)) := by
    intro y v hy
    rw [List.getElem?_set] at hy
    split at hy
    · rename_i e
      split at hy
      · cases hy; exact Or.inl ⟨e.symm, rfl⟩
      · cases hy
    · rename_i e; exact Or.inr ⟨fun e' => e e'.symm, hy⟩
  have hun := unset_set p x (some node, some via) hx
  refine ⟨by simp [h.len], ?_, ?_, ?_, ?_⟩
  · rw [List.getElem?_set, if_neg hxr]; exact h.rootSet
  · intro y par via' hy
    rcases hget y _ hy with ⟨rfl, hv⟩ | ⟨_, hy'⟩
    · cases hv; exact ⟨hadj, hm⟩
    · exact h.entry y par via' hy'
  · rintro y ⟨v, hy⟩
    rcases hget y _ hy with ⟨rfl, _⟩ | ⟨_, hy'⟩
    · exact Or.inr (hw.matched _ _ hm).2.2
    · exact h.matched y ⟨v, hy'⟩
  · rintro y ⟨v, hy⟩
    rcases hget y _ hy with ⟨rfl, _⟩ | ⟨_, hy'⟩
    · obtain ⟨suf, hc, hb⟩ := h.chain node hnode
      refine ⟨via :: node :: suf, Chain.cons hxr ?_ (chain_mono hc hx _), ?_⟩
      · rw [List.getElem?_set, if_pos rfl, if_pos (lt_of_getElem?_some hx)]
      · simp only [List.length_cons]
        omega
    · obtain ⟨suf, hc, hb⟩ := h.chain y ⟨v, hy'⟩
      exact ⟨suf, chain_mono hc hx _, by omega⟩

/-- along a parent chain: the pairs are edges, all vertices are in range and (apart from the
    root) matched -/
theorem BInv.chain_props {g : Graph} {m : Matching} {root : Nat} {p : Parents} (hg : GraphOK g)
    (hr : root < g.length) (h : BInv g m root p) {x : Nat} {suf : List Nat}
    (hc : Chain p root x suf) :
    PairsAdj g suf ∧ ∀ y ∈ suf, y < g.length ∧ (y = root ∨ ∃ k, m[y]? = some (some k)) := by
  induction hc with
  | nil => exact ⟨trivial, by simp⟩
  | @cons node par via suf hne hp hc ih =>
    obtain ⟨e1, e2⟩ := h.entry _ _ _ hp
    obtain ⟨i1, i2⟩ := ih
    have hpar : par < g.length ∧ (par = root ∨ ∃ k, m[par]? = some (some k)) := by
      cases hc with
      | nil => exact ⟨hr, Or.inl rfl⟩
      | cons _ hp' _ =>
        have hs : IsSet p par := ⟨_, hp'⟩
        exact ⟨h.len ▸ hs.lt, h.matched par hs⟩
    refine ⟨⟨e1, i1⟩, ?_⟩
    intro y hy
    simp only [List.mem_cons] at hy
    rcases hy with rfl | rfl | hy
    · exact ⟨hg.inRange _ _ e1, Or.inr ⟨_, e2⟩⟩
    · exact hpar
    · exact i2 y hy

/-- an unmatched neighbour `e ≠ root` of a queue vertex ends the search with a good path -/
theorem BInv.finish {g : Graph} {m : Matching} {root : Nat} {p : Parents} (hg : GraphOK g)
    (hr : root < g.length) (h : BInv g m root p) {node e : Nat} (hnode : IsSet p node)
    (hadj : Adj g node e) (hm : m[e]? = some none) (hne : e ≠ root) :
    p[e]? = some none ∧
    ∃ suf, Chain (p.set e (some (some node, some e))) root e suf ∧ suf.length / 2 ≤ g.length ∧
      GoodPath g m root e suf := by
  have he : e < p.length := h.len ▸ hg.inRange _ _ hadj
  have hpe : p[e]? = some none := by
    cases hx : p[e] with
    | none => rw [List.getElem?_eq_getElem he, hx]
    | some v =>
      exfalso
      rcases h.matched e ⟨v, by rw [List.getElem?_eq_getElem he, hx]⟩ with e' | ⟨k, hk⟩
      · exact hne e'
      · rw [hm] at hk; cases hk
  obtain ⟨suf, hc, hb⟩ := h.chain node hnode
  obtain ⟨c1, c2⟩ := h.chain_props hg hr hc
  have hun := unset_le p
  refine ⟨hpe, e :: node :: suf, Chain.cons hne ?_ (chain_mono hc hpe _), ?_, ?_⟩
  · rw [List.getElem?_set, if_pos rfl, if_pos he]
  · simp only [List.length_cons]; omega
  · refine ⟨⟨hadj, c1⟩, ?_, rfl, ?_, ?_⟩
    · intro y hy
      simp only [List.mem_cons] at hy
      rcases hy with rfl | rfl | hy
      · exact hg.inRange _ _ hadj
      · exact h.len ▸ hnode.lt
      · exact (c2 y hy).1
    · rw [List.getLast?_cons_cons]; exact hc.getLast
    · intro y hy hn
      simp only [List.mem_cons] at hy
      rcases hy with rfl | rfl | hy
      · exact Or.inl rfl
      · rcases h.matched y hnode with e' | ⟨k, hk⟩
        · exact Or.inr e'
        · rw [hn] at hk; cases hk
      · rcases (c2 y hy).2 with e' | ⟨k, hk⟩
        · exact Or.inr e'
        · rw [hn] at hk; cases hk

/-- what the BFS reports when it stops at an unmatched vertex -/
def Found (g : Graph) (m : Matching) (root : Nat) (p : Parents) (e : Nat) : Prop :=
  m[e]? = some none ∧ e ≠ root ∧
    ∃ suf, Chain p root e suf ∧ suf.length / 2 ≤ g.length ∧ GoodPath g m root e suf

/-- the `for adj in graph[node]` loop never fails -/
theorem bfsScan_total {g : Graph} {m : Matching} {root node : Nat} (hg : GraphOK g)
    (hw : WeakValid g m) (hr : root < g.length) :
    ∀ (l : List Nat) (p : Parents) (added : List Nat),
    (∀ a ∈ l, Adj g node a) → BInv g m root p → IsSet p node → (∀ q ∈ added, IsSet p q) →
    ∃ p' added' oe, bfsScan root node m l p added = .ok (p', added', oe) ∧
      match oe with
      | none => BInv g m root p' ∧ (∀ q ∈ added', IsSet p' q) ∧ (∀ q, IsSet p q → IsSet p' q) ∧
          unset p' + added'.length = unset p + added.length
      | some e => Found g m root p' e := by
  intro l
  induction l with
  | nil =>
    intro p added _ hb _ hq
    exact ⟨p, added, none, rfl, hb, hq, fun _ h => h, rfl⟩
  | cons adj rest ih =>
    intro p added hl hb hnode hq
    have hadj : Adj g node adj := hl adj (by simp)
    have hrest : ∀ a ∈ rest, Adj g node a := fun a ha => hl a (by simp [ha])
    have hal : adj < m.length := hw.length_eq ▸ hg.inRange _ _ hadj
    simp only [bfsScan, bind, Except.bind, getIdx_ok_of_lt hal]
    cases hma : m[adj] with
    | none =>
      have hma' : m[adj]? = some none := by rw [List.getElem?_eq_getElem hal, hma]
      simp only
      by_cases hne : adj = root
      · simp only [hne, bne_self_eq_false, Bool.false_eq_true, if_false]
        exact ih p added hrest hb hnode hq
      · have : (adj != root) = true := by simpa using hne
        simp only [this, if_true]
        obtain ⟨hpe, hfound⟩ := hb.finish hg hr hnode hadj hma' hne
        have hap : adj < p.length := lt_of_getElem?_some hpe
        simp only [getIdx_ok_of_lt hap, pure, Except.pure]
        exact ⟨_, _, some adj, rfl, hma', hne, hfound⟩
    | some adjMate =>
      have hma' : m[adj]? = some (some adjMate) := by rw [List.getElem?_eq_getElem hal, hma]
      have hmate : adjMate < p.length := hb.len ▸ (hw.matched _ _ hma').1
      simp only [getIdx_ok_of_lt hmate]
      cases hpm : p[adjMate] with
      | none =>
        have hpm' : p[adjMate]? = some none := by rw [List.getElem?_eq_getElem hmate, hpm]
        simp only [Option.isNone_none, if_true]
        have hb' := hb.set hw hpm' hnode hadj hma'
        have hset : IsSet (p.set adjMate (some (some node, some adj))) adjMate :=
          ⟨_, by rw [List.getElem?_set, if_pos rfl, if_pos hmate]⟩
        obtain ⟨p', added', oe, e1, e2⟩ := ih _ (added ++ [adjMate]) hrest hb' (hnode.set hpm' _) (by
          intro q hq'
          simp only [List.mem_append, List.mem_singleton] at hq'
          rcases hq' with hq' | rfl
          · exact (hq q hq').set hpm' _
          · exact hset)
        refine ⟨p', added', oe, e1, ?_⟩
        cases oe with
        | some e => exact e2
        | none =>
          obtain ⟨f1, f2, f3, f4⟩ := e2
          refine ⟨f1, f2, fun q hq' => f3 q (hq'.set hpm' _), ?_⟩
          have := unset_set p adjMate (some node, some adj) hpm'
          simp only [List.length_append, List.length_cons, List.length_nil] at f4
          omega
      | some v =>
        simp only [Option.isNone_some, Bool.false_eq_true, if_false]
        exact ih p added hrest hb hnode hq

/-- the BFS never fails and ends within `queue + unset + 1` iterations -/
theorem bfsLoop_total {g : Graph} {m : Matching} {root : Nat} (hg : GraphOK g)
    (hw : WeakValid g m) (hr : root < g.length) :
    ∀ (fuel : Nat) (queue : List Nat) (p : Parents),
    BInv g m root p → (∀ q ∈ queue, IsSet p q) → queue.length + unset p < fuel →
    ∃ p' oe, bfsLoop g root m fuel queue p = .ok (p', oe) ∧ ∀ e, oe = some e → Found g m root p' e := by
  intro fuel
  induction fuel with
  | zero => intro queue p _ _ h; omega
  | succ fuel ih =>
    intro queue p hb hq hf
    cases queue with
    | nil => exact ⟨p, none, rfl, fun e he => by cases he⟩
    | cons node queue =>
      have hnode : IsSet p node := hq node (by simp)
      have hnl : node < g.length := hb.len ▸ hnode.lt
      simp only [bfsLoop, bind, Except.bind, getIdx_ok_of_lt hnl]
      obtain ⟨p1, added, oe, e1, e2⟩ := bfsScan_total hg hw hr g[node] p []
        (fun a ha => ⟨g[node], List.getElem?_eq_getElem hnl, ha⟩) hb hnode (by simp)
      simp only [e1]
      cases oe with
      | some e => exact ⟨p1, some e, rfl, fun e' he' => by cases he'; exact e2⟩
      | none =>
        obtain ⟨f1, f2, f3, f4⟩ := e2
        simp only
        refine ih _ _ f1 ?_ ?_
        · intro q hq'
          simp only [List.mem_append] at hq'
          rcases hq' with hq' | hq'
          · exact f3 q (hq q (by simp [hq']))
          · exact f2 q hq'
        · simp only [List.length_append, List.length_cons, List.length_nil] at hf f4 ⊢
          omega

/-- the walk back through `parents` ends within `len(chain)/2 + 1` steps and meets no `None` -/
theorem buildPath_total {root : Nat} {p : Parents} {x : Nat} {suf : List Nat}
    (hc : Chain p root x suf) : ∀ (fuel : Nat) (path : List Nat), suf.length / 2 < fuel →
    buildPath root p fuel x path = .ok (path ++ suf) := by
  induction hc with
  | nil =>
    intro fuel path hf
    obtain ⟨fuel, rfl⟩ : ∃ f, fuel = f + 1 := ⟨fuel - 1, by omega⟩
    simp [buildPath]
  | @cons node par via suf hne hp _ ih =>
    intro fuel path hf
    obtain ⟨fuel, rfl⟩ : ∃ f, fuel = f + 1 := ⟨fuel - 1, by omega⟩
    have : (node == root) = false := by simpa using hne
    simp only [buildPath, this, Bool.false_eq_true, if_false, bind, Except.bind, getIdx_ok.2 hp]
    rw [ih fuel _ (by simp only [List.length_cons] at hf; omega)]
    simp

/-- `_find_augmenting_path` on a weakly valid matching: no path, or a good path -/
theorem findAugmentingPath_total {g : Graph} {m : Matching} {root : Nat} (hg : GraphOK g)
    (hw : WeakValid g m) (hroot : m[root]? = some none) :
    findAugmentingPath g root m = .ok none ∨
      ∃ path e, findAugmentingPath g root m = .ok (some path) ∧ m[e]? = some none ∧ e ≠ root ∧
        GoodPath g m root e path := by
  have hr : root < g.length := hw.length_eq ▸ lt_of_getElem?_some hroot
  have hinit := BInv.init (g := g) (m := m) hr
  have hun : unset ((List.replicate g.length none).set root (some (none, none))) + 1 = g.length := by
    have := unset_set (List.replicate g.length none) root (none, none)
      (by rw [List.getElem?_replicate, if_pos hr])
    rw [unset_replicate] at this
    exact this
  obtain ⟨p', oe, e1, e2⟩ := bfsLoop_total hg hw hr (g.length + 1) [root] _ hinit
    (by intro q hq; simp only [List.mem_singleton] at hq; subst hq; exact ⟨_, hinit.rootSet⟩)
    (by simp only [List.length_cons, List.length_nil]; omega)
  simp only [findAugmentingPath, bind, Except.bind, getIdx_ok.2 hroot, pyAssert, Option.isNone_none,
    if_true, e1]
  cases oe with
  | none => left; rfl
  | some e =>
    right
    obtain ⟨f1, f2, suf, f3, f4, f5⟩ := e2 e rfl
    refine ⟨suf, e, ?_, f1, f2, f5⟩
    simp only [buildPath_total f3 (g.length + 1) [] (by omega), List.nil_append, pure, Except.pure]

/-! ### the flip along a path that may repeat vertices -/

theorem flipPath_weak {g : Graph} (hg : GraphOK g) : ∀ (path : List Nat) (m : Matching),
    PairsAdj g path → (∀ x ∈ path, x < m.length) →
    ∃ m', flipPath path m = .ok m' ∧ m'.length = m.length ∧ (∀ x : Nat, x ∉ path → m'[x]? = m[x]?) ∧
      ∀ x ∈ path, ∃ y ∈ path, m'[x]? = some (some y) ∧ Adj g x y
  | [], m, _, _ => ⟨m, rfl, rfl, fun _ _ => rfl, by simp⟩
  | [_], _, h, _ => h.elim
  | a :: b :: rest, m, hp, hr => by
    have ha : a < m.length := hr a (by simp)
    have hb : b < m.length := hr b (by simp)
    have hab : a ≠ b := by
      intro e; subst e; exact hg.noLoop _ hp.1
    obtain ⟨m', h1, h2, h3, h4⟩ := flipPath_weak hg rest ((m.set a (some b)).set b (some a)) hp.2
      (fun x hx => by simpa using hr x (by simp [hx]))
    refine ⟨m', ?_, by simpa using h2, ?_, ?_⟩
    · simp only [flipPath, bind, Except.bind]
      rw [getIdx_ok_of_lt ha]
      simp only
      rw [getIdx_ok_of_lt (by simpa using hb)]
      exact h1
    · intro x hx
      simp only [List.mem_cons, not_or] at hx
      rw [h3 x hx.2.2]
      simp [Ne.symm hx.1, Ne.symm hx.2.1]
    · intro x hx
      by_cases hxr : x ∈ rest
      · obtain ⟨y, hy, e1, e2⟩ := h4 x hxr
        exact ⟨y, by simp [hy], e1, e2⟩
      · rw [h3 x hxr]
        simp only [List.mem_cons] at hx
        rcases hx with rfl | rfl | hx
        · exact ⟨b, by simp, by rw [List.getElem?_set, if_neg (Ne.symm hab), List.getElem?_set, if_pos rfl, if_pos ha],
            hg.symm _ _ hp.1⟩
        · exact ⟨a, by simp, by rw [List.getElem?_set, if_pos rfl, if_pos (by simpa using hb)], hp.1⟩
        · exact absurd hx hxr

/-- the flip keeps the weak invariant and matches exactly the two ends -/
theorem flipPath_good {g : Graph} (hg : GraphOK g) {m : Matching} {root e : Nat} {path : List Nat}
    (hw : WeakValid g m) (hp : GoodPath g m root e path) :
    ∃ m', flipPath path m = .ok m' ∧ WeakValid g m' ∧
      ∀ x : Nat, m'[x]? = some none ↔ (m[x]? = some none ∧ x ≠ e ∧ x ≠ root) := by
  obtain ⟨m', h1, h2, h3, h4⟩ := flipPath_weak hg path m hp.pairs
    (fun x hx => hw.length_eq ▸ hp.inRange x hx)
  have hsome : ∀ x ∈ path, ∃ k, m'[x]? = some (some k) := fun x hx =>
    let ⟨y, _, e1, _⟩ := h4 x hx
    ⟨y, e1⟩
  have he : e ∈ path := List.mem_of_mem_head? hp.head
  have hroot : root ∈ path := List.mem_of_mem_getLast? hp.last
  refine ⟨m', h1, ⟨h2.trans hw.length_eq, ?_⟩, ?_⟩
  · intro i j hij
    by_cases hi : i ∈ path
    · obtain ⟨y, hy, e1, e2⟩ := h4 i hi
      rw [e1] at hij; cases hij
      exact ⟨hp.inRange _ hy, e2, hsome _ hy⟩
    · rw [h3 i hi] at hij
      obtain ⟨g1, g2, k, g3⟩ := hw.matched i j hij
      refine ⟨g1, g2, ?_⟩
      by_cases hj : j ∈ path
      · exact hsome j hj
      · exact ⟨k, by rw [h3 j hj]; exact g3⟩
  · intro x
    by_cases hx : x ∈ path
    · obtain ⟨k, hk⟩ := hsome x hx
      constructor
      · intro hn; rw [hk] at hn; cases hn
      · rintro ⟨hn, h5, h6⟩
        rcases hp.ends x hx hn with e' | e'
        · exact absurd e' h5
        · exact absurd e' h6
    · rw [h3 x hx]
      constructor
      · intro hn
        exact ⟨hn, fun e' => hx (e' ▸ he), fun e' => hx (e' ▸ hroot)⟩
      · exact fun h => h.1

/-! ### the `while unmatched:` loop -/

/-- the tape is a legal record of `set.pop()` results for this run: whenever the loop pops, the
    tape has an entry left and that entry is a member of `unmatched` -/
def TapeOKLoop (graph : Graph) : Nat → List Nat → List Nat → Matching → Prop
  | 0, _, _, _ => True
  | fuel + 1, unmatched, tape, m =>
    if unmatched.isEmpty then True
    else
      match tape with
      | [] => False
      | root :: tape =>
        unmatched.contains root = true ∧
          match findAugmentingPath graph root m with
          | .ok (some path) =>
            match flipPath path m with
            | .ok m' =>
              TapeOKLoop graph fuel
                ((unmatched.filter (· != root)).filter fun x =>
                  !(some x == path.head? || some x == path.getLast?)) tape m'
            | .error _ => True
          | _ => True

theorem tapeOKLoop_of_empty (g : Graph) (fuel : Nat) {unmatched : List Nat} (tape : List Nat) (m : Matching)
    (h : unmatched.isEmpty = true) : TapeOKLoop g fuel unmatched tape m := by
  cases fuel with
  | zero => simp only [TapeOKLoop]
  | succ fuel => simp only [TapeOKLoop, h, if_true]

/-- a legal tape for a run: always pop the first element of `unmatched` -/
def legalTape (graph : Graph) : Nat → List Nat → Matching → List Nat
  | 0, _, _ => []
  | fuel + 1, unmatched, m =>
    match unmatched with
    | [] => []
    | root :: rest =>
      root :: (match findAugmentingPath graph root m with
        | .ok (some path) =>
          match flipPath path m with
          | .ok m' =>
            legalTape graph fuel
              (((root :: rest).filter (· != root)).filter fun x =>
                !(some x == path.head? || some x == path.getLast?)) m'
          | .error _ => []
        | _ => [])

/-- every run has a legal tape -/
theorem legalTape_ok (graph : Graph) : ∀ (fuel : Nat) (unmatched : List Nat) (m : Matching),
    TapeOKLoop graph fuel unmatched (legalTape graph fuel unmatched m) m := by
  intro fuel
  induction fuel with
  | zero => intro unmatched m; simp only [TapeOKLoop]
  | succ fuel ih =>
    intro unmatched m
    cases unmatched with
    | nil => simp only [TapeOKLoop, List.isEmpty_nil, if_true]
    | cons root rest =>
      simp only [TapeOKLoop, legalTape, List.isEmpty_cons, Bool.false_eq_true, if_false,
        List.contains_cons, beq_self_eq_true, Bool.true_or, true_and]
      cases hfa : findAugmentingPath graph root m with
      | error e => trivial
      | ok r =>
        cases r with
        | none => trivial
        | some path =>
          simp only
          cases hfl : flipPath path m with
          | error e => trivial
          | ok m' => exact ih _ m'

/-- the result of `find_perfect_matching`, if it is a list, has no `None` entry and every entry
    is along an edge of the graph -/
def MatchingUsable (g : Graph) (m : Matching) : Prop :=
  WeakValid g m ∧ ∀ x : Nat, m[x]? ≠ some none

theorem augmentLoop_total {g : Graph} (hg : GraphOK g) :
    ∀ (fuel : Nat) (unmatched tape : List Nat) (m : Matching), WeakValid g m →
    (∀ x : Nat, x ∈ unmatched ↔ m[x]? = some none) → unmatched.length < fuel →
    augmentLoop g fuel unmatched tape m = .ok none ∨
    (∃ m', augmentLoop g fuel unmatched tape m = .ok (some m') ∧ MatchingUsable g m') ∨
    (augmentLoop g fuel unmatched tape m = .error .KeyError ∧ ¬ TapeOKLoop g fuel unmatched tape m) := by
  intro fuel
  induction fuel with
  | zero => intro unmatched tape m _ _ h; omega
  | succ fuel ih =>
    intro unmatched tape m hw hu hf
    cases hemp : unmatched.isEmpty with
    | true =>
      right; left
      refine ⟨m, by simp only [augmentLoop, hemp, if_true], hw, ?_⟩
      intro x hx
      have := (hu x).2 hx
      rw [List.isEmpty_iff] at hemp
      rw [hemp] at this; cases this
    | false =>
      cases tape with
      | nil =>
        right; right
        exact ⟨by simp only [augmentLoop, hemp, Bool.false_eq_true, if_false],
          by simp only [TapeOKLoop, hemp, Bool.false_eq_true, if_false, not_false_eq_true]⟩
      | cons root tape =>
        cases hc : unmatched.contains root with
        | false =>
          right; right
          exact ⟨by simp only [augmentLoop, hemp, Bool.false_eq_true, if_false, hc, Bool.not_false, if_true],
            by simp only [TapeOKLoop, hemp, Bool.false_eq_true, if_false, hc, false_and, not_false_eq_true]⟩
        | true =>
          have hmem : root ∈ unmatched := by simpa using hc
          have hroot : m[root]? = some none := (hu root).1 hmem
          have hstep : augmentLoop g (fuel + 1) unmatched (root :: tape) m =
              (do
                match ← findAugmentingPath g root m with
                | none => pure none
                | some path => do
                  let m ← flipPath path m
                  augmentLoop g fuel
                    ((unmatched.filter (· != root)).filter fun x =>
                      !(some x == path.head? || some x == path.getLast?)) tape m) := by
            simp only [augmentLoop, hemp, Bool.false_eq_true, if_false, hc, Bool.not_true]
            rfl
          have htape : TapeOKLoop g (fuel + 1) unmatched (root :: tape) m =
              (match findAugmentingPath g root m with
                | .ok (some path) =>
                  match flipPath path m with
                  | .ok m' =>
                    TapeOKLoop g fuel
                      ((unmatched.filter (· != root)).filter fun x =>
                        !(some x == path.head? || some x == path.getLast?)) tape m'
                  | .error _ => True
                | _ => True) := by
            simp only [TapeOKLoop, hemp, Bool.false_eq_true, if_false, hc, true_and]
          rw [hstep, htape]
          rcases findAugmentingPath_total hg hw hroot with h1 | ⟨path, e, h1, h2, h3, h4⟩
          · left; simp only [h1, bind, Except.bind, pure, Except.pure]
          · obtain ⟨m', f1, f2, f3⟩ := flipPath_good hg hw h4
            simp only [h1, f1, bind, Except.bind]
            refine ih _ tape m' f2 ?_ ?_
            · intro x
              rw [f3 x, List.mem_filter, List.mem_filter, hu x, h4.head, h4.last]
              simp only [bne_iff_ne, ne_eq, Bool.not_eq_true', Bool.or_eq_false_iff, beq_eq_false_iff_ne,
                Option.some.injEq]
              constructor
              · rintro ⟨⟨a, b⟩, c, _⟩; exact ⟨a, c, b⟩
              · rintro ⟨a, c, b⟩; exact ⟨⟨a, b⟩, c, b⟩
            · have h5 : ((unmatched.filter (· != root)).filter fun x =>
                  !(some x == path.head? || some x == path.getLast?)).length
                  ≤ (unmatched.filter (· != root)).length := List.length_filter_le _ _
              have h6 : (unmatched.filter (· != root)).length < unmatched.length := by
                apply List.length_filter_lt_length_iff_exists.2
                exact ⟨root, hmem, by simp⟩
              omega

/-- **`find_perfect_matching` is total on simple graphs**, for every tape: it returns `None`, or a
    usable list, or the tape was not a legal record of `set.pop()` results -/
theorem findPerfectMatching_total {g : Graph} (hg : GraphOK g) (tape : List Nat) :
    findPerfectMatching g tape = .ok none ∨
    (∃ m, findPerfectMatching g tape = .ok (some m) ∧ MatchingUsable g m) ∨
    (findPerfectMatching g tape = .error .KeyError ∧
      ∃ m0, greedyMatching g = .ok m0 ∧
        ¬ TapeOKLoop g (g.length + 1)
          ((List.range g.length).filter fun i => (m0.getD i none).isNone) tape m0) := by
  obtain ⟨m0, hm0⟩ := greedyMatching_total hg
  have hv := greedyMatching_valid hg hm0
  have hlen : ((List.range g.length).filter fun i => (m0.getD i none).isNone).length < g.length + 1 := by
    have := List.length_filter_le (fun i => (m0.getD i none).isNone) (List.range g.length)
    simp only [List.length_range] at this
    omega
  have := augmentLoop_total hg (g.length + 1) _ tape m0 (weak_of_valid hv)
    (unmatched_list_spec m0 _ hv.length_eq) hlen
  simp only [findPerfectMatching, bind, Except.bind, hm0]
  rcases this with h | ⟨m, h, hu⟩ | ⟨h, ht⟩
  · exact Or.inl h
  · exact Or.inr (Or.inl ⟨m, h, hu⟩)
  · exact Or.inr (Or.inr ⟨h, m0, rfl, ht⟩)

end SV.C09
