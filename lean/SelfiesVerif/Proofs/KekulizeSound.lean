/-
  C05 (7): what `MolecularGraph.kekulize` does to a well-formed parsed graph, given a perfect
  matching of the pruned delocalisation subgraph.

  Part 1: well-formedness of parsed graphs (`PWF`, decidable), bond-order maps, incident sums.
-/
import SelfiesVerif.Proofs.Augment

namespace SV

/-! ### notions -/

/-- the bonds stored in one row of `_adj_list` (placeholders skipped) -/
def bondsOf (row : List (Option PBond)) : List PBond := row.filterMap id

/-- the bonds stored at `adj[i]` -/
def rowAt (adj : List (List (Option PBond))) (i : Nat) : List PBond := bondsOf (adj.getD i [])

def setOrd (f : PBond → Nat) (b : PBond) : PBond := { b with order2 := f b }

/-- change nothing but the orders of the stored bonds -/
def mapOrders (f : PBond → Nat) (adj : List (List (Option PBond))) : List (List (Option PBond)) :=
  adj.map fun row => row.map (Option.map (setOrd f))

/-- what a stored bond contributes to `_bond_counts[v]`: a chain bond is stored once (at `src`) and
    counts for both ends, a ring bond is stored at both ends and each copy counts for its `src` -/
def contrib (v : Nat) (b : PBond) : Nat :=
  if b.ring then (if b.src = v then b.order2 else 0)
  else (if b.src = v then b.order2 else 0) + (if b.dst = v then b.order2 else 0)

def rowSum (v : Nat) (row : List (Option PBond)) : Nat := ((bondsOf row).map (contrib v)).sum

/-- the sum of the (half-unit) orders of the bonds incident to `v` -/
def incident2 (adj : List (List (Option PBond))) (v : Nat) : Nat := (adj.map (rowSum v)).sum

/-- the bond is the one between `a` and `b` -/
def pairMatch (a b : Nat) (bd : PBond) : Bool :=
  (bd.src == a && bd.dst == b) || (bd.src == b && bd.dst == a)

/-- `update_bond_order(a, b, o)` seen as an order map -/
def updP (a b o : Nat) (bd : PBond) : Nat := if pairMatch a b bd then o else bd.order2

/-- the adjacency lists are stored as Model/SmilesParser.lean stores them:
    `adj[i]` holds bonds with `src = i` to distinct, in-range `dst ≠ i`; a ring bond has a copy of
    the same order at the other end, a chain bond goes from the smaller to the larger index and has
    no copy -/
def AdjOK (adj : List (List (Option PBond))) : Prop :=
  ∀ i, i < adj.length →
    ((rowAt adj i).map (·.dst)).Nodup ∧
    ∀ b ∈ rowAt adj i, b.src = i ∧ b.dst < adj.length ∧ b.dst ≠ i ∧
      (if b.ring = true then ∃ b' ∈ rowAt adj b.dst, b'.dst = i ∧ b'.order2 = b.order2
       else i < b.dst ∧ ∀ b' ∈ rowAt adj b.dst, b'.dst ≠ i)

/-- `ds[k]` (empty if `k` is not a key) -/
def dsAdj (m : PMol) (k : Nat) : List Nat := (lookup k m.ds).getD []

/-- well-formedness of a parsed graph (what `smiles_to_mol` establishes; not proved here, but
    decidable, so the harness evaluates it on the graphs the real parser produces) -/
def PWF (m : PMol) : Prop :=
  AdjOK m.adj ∧ m.atoms.length = m.adj.length ∧ m.counts2.length = m.adj.length ∧
  -- bond counts are the sums of the incident orders
  (∀ v, v < m.adj.length → m.counts2.getD v 0 = incident2 m.adj v) ∧
  -- the only fractional order is the aromatic 1.5
  (∀ i, i < m.adj.length → ∀ b ∈ rowAt m.adj i, b.order2 % 2 = 1 → b.order2 = 3) ∧
  -- the delocalisation subgraph lists exactly the order-1.5 bonds, in both directions
  (m.ds.map (·.1)).Nodup ∧
  (∀ p ∈ m.ds, p.1 < m.adj.length ∧ p.2.Nodup ∧
    ∀ b ∈ p.2, ∃ bd ∈ rowAt m.adj (min p.1 b), bd.dst = max p.1 b ∧ bd.order2 = 3) ∧
  (∀ i, i < m.adj.length → ∀ bd ∈ rowAt m.adj i, bd.order2 = 3 →
    bd.dst ∈ dsAdj m i ∧ i ∈ dsAdj m bd.dst)

instance (adj : List (List (Option PBond))) : Decidable (AdjOK adj) := by
  unfold AdjOK; infer_instance

instance (m : PMol) : Decidable (PWF m) := by
  unfold PWF; infer_instance

def isPWF (m : PMol) : Bool := decide (PWF m)

theorem isPWF_iff (m : PMol) : isPWF m = true ↔ PWF m := by simp [isPWF]

/-! ### rows -/

theorem rowAt_of_getElem? {adj : List (List (Option PBond))} {i : Nat} {row : List (Option PBond)}
    (h : adj[i]? = some row) : rowAt adj i = bondsOf row := by
  unfold rowAt; rw [List.getD_eq_getElem?_getD, h]; rfl

theorem lt_of_mem_rowAt {adj : List (List (Option PBond))} {i : Nat} {b : PBond}
    (h : b ∈ rowAt adj i) : i < adj.length := by
  rcases Nat.lt_or_ge i adj.length with h' | h'
  · exact h'
  · unfold rowAt at h
    rw [List.getD_eq_getElem?_getD, List.getElem?_eq_none h'] at h
    simp [bondsOf] at h

theorem bondsOf_map (g : PBond → PBond) (row : List (Option PBond)) :
    bondsOf (row.map (Option.map g)) = (bondsOf row).map g := by
  unfold bondsOf
  induction row with
  | nil => rfl
  | cons x xs ih => cases x <;> simp [ih]

theorem rowAt_mapOrders (f : PBond → Nat) (adj : List (List (Option PBond))) (i : Nat) :
    rowAt (mapOrders f adj) i = (rowAt adj i).map (setOrd f) := by
  unfold rowAt mapOrders
  rw [List.getD_eq_getElem?_getD, List.getD_eq_getElem?_getD, List.getElem?_map]
  cases adj[i]? with
  | none => simp [bondsOf]
  | some row => simp [bondsOf_map]

theorem mem_bondsOf {row : List (Option PBond)} {b : PBond} : b ∈ bondsOf row ↔ some b ∈ row := by
  simp [bondsOf]

/-- in a row with distinct destinations, a bond is determined by its destination -/
theorem eq_of_dst_eq {l : List PBond} (hnd : (l.map (·.dst)).Nodup) {b b' : PBond}
    (hb : b ∈ l) (hb' : b' ∈ l) (h : b.dst = b'.dst) : b = b' := by
  induction l with
  | nil => cases hb
  | cons x xs ih =>
    simp only [List.map_cons, List.nodup_cons, List.mem_map, not_exists, not_and] at hnd
    simp only [List.mem_cons] at hb hb'
    rcases hb with rfl | hb <;> rcases hb' with rfl | hb'
    · rfl
    · exact absurd h.symm (hnd.1 _ hb')
    · exact absurd h (hnd.1 _ hb)
    · exact ih hnd.2 hb hb'

/-- `_bond_dict[(src, dst)]` finds the bond -/
theorem find_row {row : List (Option PBond)} (hnd : ((bondsOf row).map (·.dst)).Nodup) {b : PBond}
    (hb : b ∈ bondsOf row) (p : Option PBond → Bool) (hp1 : ∀ bd, p (some bd) = (bd.dst == b.dst))
    (hp2 : p none = false) :
    row.find? p = some (some b) := by
  cases hf : row.find? p with
  | none =>
    rw [List.find?_eq_none] at hf
    have := hf (some b) (mem_bondsOf.1 hb)
    simp [hp1] at this
  | some x =>
    have hp := List.find?_some hf
    have hm := List.mem_of_find?_eq_some hf
    cases x with
    | none => simp [hp2] at hp
    | some b' =>
      rw [hp1, beq_iff_eq] at hp
      rw [eq_of_dst_eq hnd (mem_bondsOf.2 hm) hb hp]

theorem getDirBond_ok {m : PMol} {i : Nat} {b : PBond} (hok : AdjOK m.adj) (hb : b ∈ rowAt m.adj i) :
    m.getDirBond i b.dst = .ok b := by
  have hi := lt_of_mem_rowAt hb
  have hrow : m.adj[i]? = some m.adj[i] := List.getElem?_eq_getElem hi
  rw [rowAt_of_getElem? hrow] at hb
  have hnd := (hok i hi).1
  rw [rowAt_of_getElem? hrow] at hnd
  unfold PMol.getDirBond
  rw [hrow]
  simp only
  rw [find_row hnd hb _ (fun _ => rfl) rfl]

/-! ### `update_bond_order` as an order map -/

theorem setOrd_self (b : PBond) : setOrd (fun b => b.order2) b = b := rfl

theorem setOrder2At_eq {adj : List (List (Option PBond))} {src : Nat} {out : List (Option PBond)}
    (h : adj[src]? = some out) (dst o : Nat) :
    PMol.setOrder2At adj src dst o =
      adj.set src (out.map (Option.map (setOrd fun b => if b.dst == dst then o else b.order2))) := by
  unfold PMol.setOrder2At
  rw [h]
  simp only
  congr 1
  apply List.map_congr_left
  intro ob _
  cases ob with
  | none => rfl
  | some b =>
    simp only [Option.map_some, setOrd]
    split <;> rfl

/-- two adjacency lists that agree row by row up to an order map on the stored bonds -/
theorem eq_mapOrders_of_rows {adj adj' : List (List (Option PBond))} (f : PBond → Nat)
    (F : Nat → PBond → Nat) (hlen : adj'.length = adj.length)
    (hrow : ∀ i (h : i < adj.length), adj'[i]? = some (adj[i].map (Option.map (setOrd (F i)))))
    (hF : ∀ i, ∀ b ∈ rowAt adj i, F i b = f b) : adj' = mapOrders f adj := by
  apply List.ext_getElem?
  intro i
  unfold mapOrders
  rw [List.getElem?_map]
  rcases Nat.lt_or_ge i adj.length with hi | hi
  · rw [hrow i hi, List.getElem?_eq_getElem hi]
    simp only [Option.map_some]
    congr 1
    apply List.map_congr_left
    intro ob hob
    cases ob with
    | none => rfl
    | some b =>
      have : b ∈ rowAt adj i := by
        rw [rowAt_of_getElem? (List.getElem?_eq_getElem hi)]
        exact mem_bondsOf.2 hob
      simp only [Option.map_some, setOrd, hF i b this]
  · rw [List.getElem?_eq_none hi, List.getElem?_eq_none (hlen ▸ hi)]; rfl

theorem mapOrders_id_of {adj : List (List (Option PBond))} (f : PBond → Nat)
    (hF : ∀ i, ∀ b ∈ rowAt adj i, f b = b.order2) : mapOrders f adj = adj := by
  symm
  apply eq_mapOrders_of_rows f (fun _ b => b.order2) rfl
  · intro i hi
    rw [List.getElem?_eq_getElem hi]
    congr 1
    symm
    conv => rhs; rw [← List.map_id adj[i]]
    apply List.map_congr_left
    intro ob _
    cases ob <;> rfl
  · intro i b hb; exact (hF i b hb).symm

theorem pairMatch_comm (a b : Nat) (bd : PBond) : pairMatch a b bd = pairMatch b a bd := by
  unfold pairMatch; rw [Bool.or_comm]

theorem pairMatch_minmax (a b : Nat) (bd : PBond) : pairMatch a b bd = pairMatch (min a b) (max a b) bd := by
  rcases Nat.le_total a b with h | h
  · rw [Nat.min_eq_left h, Nat.max_eq_right h]
  · rw [Nat.min_eq_right h, Nat.max_eq_left h, pairMatch_comm]

theorem upd_minmax (a b o : Nat) : updP a b o = updP (min a b) (max a b) o := by
  funext bd; unfold updP; rw [pairMatch_minmax]

/-! ### sums -/

theorem sum_unique_change {l : List PBond} (hnd : (l.map (·.dst)).Nodup) {b0 : PBond} (hb0 : b0 ∈ l)
    (h h' : PBond → Nat) (hh : ∀ b ∈ l, b.dst ≠ b0.dst → h' b = h b) :
    (l.map h').sum + h b0 = (l.map h).sum + h' b0 := by
  induction l with
  | nil => cases hb0
  | cons x xs ih =>
    simp only [List.map_cons, List.nodup_cons, List.mem_map, not_exists, not_and] at hnd
    simp only [List.map_cons, List.sum_cons]
    by_cases hx : x = b0
    · subst hx
      have : xs.map h' = xs.map h := by
        apply List.map_congr_left
        intro b hb
        exact hh b (List.mem_cons_of_mem _ hb) (fun e => hnd.1 b hb e)
      rw [this]; omega
    · have hb0' : b0 ∈ xs := by
        simp only [List.mem_cons] at hb0
        rcases hb0 with e | e
        · exact absurd e.symm hx
        · exact e
      have hxd : x.dst ≠ b0.dst := fun e => hnd.1 b0 hb0' e.symm
      have := ih hnd.2 hb0' (fun b hb => hh b (List.mem_cons_of_mem _ hb))
      rw [hh x (by simp) hxd]
      omega

theorem rowSum_change {row : List (Option PBond)} (hnd : ((bondsOf row).map (·.dst)).Nodup)
    {b0 : PBond} (hb0 : b0 ∈ bondsOf row) (v o : Nat) :
    rowSum v (row.map (Option.map (setOrd fun b => if b.dst == b0.dst then o else b.order2)))
        + contrib v b0
      = rowSum v row + contrib v (setOrd (fun _ => o) b0) := by
  unfold rowSum
  rw [bondsOf_map, List.map_map]
  have := sum_unique_change hnd hb0 (contrib v)
    (contrib v ∘ setOrd fun b => if b.dst == b0.dst then o else b.order2) (by
      intro b _ hne
      simp only [Function.comp, setOrd, beq_iff_eq, hne, if_false])
  rw [this]
  simp [setOrd]

theorem incident2_set {adj : List (List (Option PBond))} {i : Nat} (hi : i < adj.length)
    (r : List (Option PBond)) (v : Nat) :
    incident2 (adj.set i r) v + rowSum v adj[i] = incident2 adj v + rowSum v r := by
  unfold incident2
  induction adj generalizing i with
  | nil => simp at hi
  | cons x xs ih =>
    cases i with
    | zero => simp only [List.set_cons_zero, List.map_cons, List.sum_cons, List.getElem_cons_zero]; omega
    | succ i =>
      simp only [List.set_cons_succ, List.map_cons, List.sum_cons, List.getElem_cons_succ]
      have := ih (i := i) (by simpa using hi)
      omega

/-- the row map `setOrder2At` applies -/
abbrev rowMap (d o : Nat) : Option PBond → Option PBond :=
  Option.map (setOrd fun b => if b.dst == d then o else b.order2)

theorem upd_on_row {adj : List (List (Option PBond))} (hok : AdjOK adj) {i : Nat} {b : PBond}
    (hb : b ∈ rowAt adj i) (lo hi o : Nat) :
    updP lo hi o b = if (i = lo ∧ b.dst = hi) ∨ (i = hi ∧ b.dst = lo) then o else b.order2 := by
  have hsrc := ((hok i (lt_of_mem_rowAt hb)).2 b hb).1
  unfold updP pairMatch
  simp only [hsrc, Bool.or_eq_true, Bool.and_eq_true, beq_iff_eq]

theorem adj_update_ring {adj : List (List (Option PBond))} (hok : AdjOK adj) {lo hi : Nat} (hlt : lo < hi)
    (hlo : lo < adj.length) (hhi : hi < adj.length) (o : Nat) :
    (adj.set lo (adj[lo].map (rowMap hi o))).set hi (adj[hi].map (rowMap lo o))
      = mapOrders (updP lo hi o) adj := by
  apply eq_mapOrders_of_rows (updP lo hi o)
    (fun i b => if i = lo then (if b.dst == hi then o else b.order2)
                else if i = hi then (if b.dst == lo then o else b.order2) else b.order2)
  · simp
  · intro i hi'
    simp only [List.getElem?_set, List.length_set]
    by_cases h1 : hi = i
    · subst h1
      simp only [if_true, hhi, Nat.ne_of_gt hlt, if_false]
    · simp only [h1, if_false]
      by_cases h2 : lo = i
      · subst h2; simp only [if_true, hlo]
      · simp only [h2, if_false, Ne.symm h2, Ne.symm h1]
        rw [List.getElem?_eq_getElem hi']
        congr 1
        conv => lhs; rw [← List.map_id adj[i]]
        apply List.map_congr_left
        intro ob _
        cases ob <;> rfl
  · intro i b hb
    rw [upd_on_row hok hb]
    by_cases h1 : i = lo
    · subst h1; simp [Nat.ne_of_lt hlt]
    · by_cases h2 : i = hi
      · subst h2; simp [h1]
      · simp [h1, h2]

theorem adj_update_chain {adj : List (List (Option PBond))} (hok : AdjOK adj) {lo hi : Nat} (hlt : lo < hi)
    (hlo : lo < adj.length) (hnone : ∀ b' ∈ rowAt adj hi, b'.dst ≠ lo) (o : Nat) :
    adj.set lo (adj[lo].map (rowMap hi o)) = mapOrders (updP lo hi o) adj := by
  apply eq_mapOrders_of_rows (updP lo hi o)
    (fun i b => if i = lo then (if b.dst == hi then o else b.order2) else b.order2)
  · simp
  · intro i hi'
    simp only [List.getElem?_set]
    by_cases h2 : lo = i
    · subst h2; simp only [if_true, hlo]
    · simp only [h2, if_false, Ne.symm h2]
      rw [List.getElem?_eq_getElem hi']
      congr 1
      conv => lhs; rw [← List.map_id adj[i]]
      apply List.map_congr_left
      intro ob _
      cases ob <;> rfl
  · intro i b hb
    rw [upd_on_row hok hb]
    by_cases h1 : i = lo
    · subst h1; simp [Nat.ne_of_lt hlt]
    · by_cases h2 : i = hi
      · subst h2; simp [h1, hnone b hb]
      · simp [h1, h2]

theorem getD_set_eq {l : List Nat} {i : Nat} (hi : i < l.length) (x : Nat) (v : Nat) :
    (l.set i x).getD v 0 = if v = i then x else l.getD v 0 := by
  simp only [List.getD_eq_getElem?_getD, List.getElem?_set]
  by_cases h : i = v
  · subst h; simp [hi]
  · simp [h, Ne.symm h]

/-- `update_bond_order(a, b, o)` on an existing bond: the adjacency lists change by the order map
    `updP a b o`, the bond counts stay the incident sums, nothing else changes -/
theorem updateBondOrder_spec {m : PMol} (hok : AdjOK m.adj) (hlen : m.counts2.length = m.adj.length)
    (hcnt : ∀ v, v < m.adj.length → m.counts2.getD v 0 = incident2 m.adj v)
    {a b o : Nat} (ho : 2 ≤ o ∧ o ≤ 6) {bd : PBond} (hbd : bd ∈ rowAt m.adj (min a b))
    (hdst : bd.dst = max a b) :
    ∃ c', m.updateBondOrder a b o = .ok { m with adj := mapOrders (updP a b o) m.adj, counts2 := c' } ∧
      c'.length = m.adj.length ∧
      ∀ v, v < m.adj.length → c'.getD v 0 = incident2 (mapOrders (updP a b o) m.adj) v := by
  rw [upd_minmax]
  generalize hlo' : min a b = lo at hbd
  generalize hhi' : max a b = hi at hdst
  have hlo : lo < m.adj.length := lt_of_mem_rowAt hbd
  obtain ⟨hnd, hrow⟩ := hok lo hlo
  obtain ⟨hsrc, hhi, hne, hring⟩ := hrow bd hbd
  rw [hdst] at hhi hne hring
  have hlt : lo < hi := by
    have : lo ≤ hi := by rw [← hlo', ← hhi']; exact Nat.le_trans (Nat.min_le_left a b) (Nat.le_max_left a b)
    omega
  have hget : m.getDirBond lo hi = .ok bd := hdst ▸ getDirBond_ok hok hbd
  have hrowlo : m.adj[lo]? = some m.adj[lo] := List.getElem?_eq_getElem hlo
  have hnd' : ((bondsOf m.adj[lo]).map (·.dst)).Nodup := by rw [← rowAt_of_getElem? hrowlo]; exact hnd
  have hbd' : bd ∈ bondsOf m.adj[lo] := by rw [← rowAt_of_getElem? hrowlo]; exact hbd
  unfold PMol.updateBondOrder
  have hassert : pyAssert (2 ≤ o && o ≤ 6) = .ok () := by simp [pyAssert, ho.1, ho.2]
  simp only [bind, Except.bind, hassert, hlo', hhi', hget]
  by_cases heq : o = bd.order2
  · -- nothing to do
    refine ⟨m.counts2, ?_, hlen, ?_⟩
    · simp only [heq, beq_self_eq_true, if_true, pure, Except.pure]
      have : mapOrders (updP lo hi bd.order2) m.adj = m.adj := by
        apply mapOrders_id_of
        intro i b' hb'
        rw [upd_on_row hok hb']
        split
        · rename_i hc
          rcases hc with ⟨rfl, hd⟩ | ⟨rfl, hd⟩
          · rw [eq_of_dst_eq hnd hb' hbd (hd.trans hdst.symm)]
          · cases hr : bd.ring with
            | true =>
              simp only [hr, if_true] at hring
              obtain ⟨b'', hb'', hd'', ho''⟩ := hring
              rw [← ho'', eq_of_dst_eq (hok i hhi).1 hb' hb'' (hd.trans hd''.symm)]
            | false =>
              simp only [hr] at hring
              exact absurd hd (hring.2 b' hb')
        · rfl
      rw [this]
    · intro v hv
      rw [heq]
      have : mapOrders (updP lo hi bd.order2) m.adj = m.adj := by
        apply mapOrders_id_of
        intro i b' hb'
        rw [upd_on_row hok hb']
        split
        · rename_i hc
          rcases hc with ⟨rfl, hd⟩ | ⟨rfl, hd⟩
          · rw [eq_of_dst_eq hnd hb' hbd (hd.trans hdst.symm)]
          · cases hr : bd.ring with
            | true =>
              simp only [hr, if_true] at hring
              obtain ⟨b'', hb'', hd'', ho''⟩ := hring
              rw [← ho'', eq_of_dst_eq (hok i hhi).1 hb' hb'' (hd.trans hd''.symm)]
            | false =>
              simp only [hr] at hring
              exact absurd hd (hring.2 b' hb')
        · rfl
      rw [this]; exact hcnt v hv
  · have hne' : (o == bd.order2) = false := by simpa using heq
    simp only [hne', Bool.false_eq_true, if_false]
    rw [setOrder2At_eq hrowlo]
    have hcl : getIdx m.counts2 lo = .ok m.counts2[lo] := getIdx_ok_of_lt (hlen ▸ hlo)
    have hrl := rowSum_change hnd' hbd'
    rw [hdst] at hrl
    cases hr : bd.ring with
    | true =>
      simp only [hr, if_true] at hring
      obtain ⟨b', hb', hd', ho'⟩ := hring
      have hget' : m.getDirBond hi lo = .ok b' := hd' ▸ getDirBond_ok hok hb'
      have hrowhi : (m.adj.set lo (m.adj[lo].map (rowMap hi o)))[hi]? = some m.adj[hi] := by
        rw [List.getElem?_set_ne (Nat.ne_of_lt hlt)]; exact List.getElem?_eq_getElem hhi
      have hb'row : b' ∈ bondsOf m.adj[hi] := by
        rw [← rowAt_of_getElem? (List.getElem?_eq_getElem hhi)]; exact hb'
      have hndhi : ((bondsOf m.adj[hi]).map (·.dst)).Nodup := by
        rw [← rowAt_of_getElem? (List.getElem?_eq_getElem hhi)]; exact (hok hi hhi).1
      obtain ⟨hsrc', _, _, hring'⟩ := (hok hi hhi).2 b' hb'
      have hr' : b'.ring = true := by
        cases hr'' : b'.ring with
        | true => rfl
        | false =>
          simp only [hr''] at hring'
          have := hring'.1
          omega
      simp only [if_true, hget', pure, Except.pure, hcl]
      rw [setOrder2At_eq hrowhi]
      have hch : getIdx (m.counts2.set lo (m.counts2[lo] + o - bd.order2)) hi = .ok m.counts2[hi] := by
        rw [getIdx_ok, List.getElem?_set_ne (Nat.ne_of_lt hlt)]
        exact List.getElem?_eq_getElem (hlen ▸ hhi)
      simp only [hch]
      refine ⟨(m.counts2.set lo (m.counts2[lo] + o - bd.order2)).set hi (m.counts2[hi] + o - bd.order2), ?_, ?_, ?_⟩
      · rw [adj_update_ring hok hlt hlo hhi]
      · simp [hlen]
      · intro v hv
        rw [← adj_update_ring hok hlt hlo hhi]
        have e1 := incident2_set (adj := m.adj.set lo (m.adj[lo].map (rowMap hi o))) (i := hi)
          (by simpa using hhi) (m.adj[hi].map (rowMap lo o)) v
        rw [List.getElem_set_ne (Nat.ne_of_lt hlt)] at e1
        have e2 := incident2_set hlo (m.adj[lo].map (rowMap hi o)) v
        have e3 := hrl v o
        have e4 := rowSum_change hndhi hb'row v o
        rw [hd'] at e4
        simp only [rowMap] at e1 e2 ⊢
        have hclv := hcnt lo hlo
        have hchv := hcnt hi hhi
        rw [List.getD_eq_getElem?_getD, List.getElem?_eq_getElem (hlen ▸ hlo)] at hclv
        rw [List.getD_eq_getElem?_getD, List.getElem?_eq_getElem (hlen ▸ hhi)] at hchv
        simp only [Option.getD_some] at hclv hchv
        rw [getD_set_eq (by simpa [hlen] using hhi), getD_set_eq (hlen ▸ hlo)]
        have hv' := hcnt v hv
        simp only [contrib, setOrd, hr, hr', if_true, hsrc, hsrc'] at e3 e4
        by_cases h1 : v = hi
        · subst h1
          simp only [if_true, Nat.ne_of_lt hlt, if_false] at e3 e4 ⊢
          omega
        · simp only [h1, if_false]
          by_cases h2 : v = lo
          · subst h2
            simp only [if_true, Ne.symm h1, if_false] at e3 e4 ⊢
            omega
          · simp only [h2, if_false, Ne.symm h2, Ne.symm h1] at e3 e4 ⊢
            omega
    | false =>
      simp only [hr] at hring
      simp only [Bool.false_eq_true, if_false, pure, Except.pure, hcl]
      have hch : getIdx (m.counts2.set lo (m.counts2[lo] + o - bd.order2)) hi = .ok m.counts2[hi] := by
        rw [getIdx_ok, List.getElem?_set_ne (Nat.ne_of_lt hlt)]
        exact List.getElem?_eq_getElem (hlen ▸ hhi)
      simp only [hch]
      refine ⟨(m.counts2.set lo (m.counts2[lo] + o - bd.order2)).set hi (m.counts2[hi] + o - bd.order2), ?_, ?_, ?_⟩
      · rw [adj_update_chain hok hlt hlo hring.2]
      · simp [hlen]
      · intro v hv
        rw [← adj_update_chain hok hlt hlo hring.2]
        have e2 := incident2_set hlo (m.adj[lo].map (rowMap hi o)) v
        have e3 := hrl v o
        simp only [rowMap] at e2 ⊢
        have hclv := hcnt lo hlo
        have hchv := hcnt hi hhi
        rw [List.getD_eq_getElem?_getD, List.getElem?_eq_getElem (hlen ▸ hlo)] at hclv
        rw [List.getD_eq_getElem?_getD, List.getElem?_eq_getElem (hlen ▸ hhi)] at hchv
        simp only [Option.getD_some] at hclv hchv
        rw [getD_set_eq (by simpa [hlen] using hhi), getD_set_eq (hlen ▸ hlo)]
        have hv' := hcnt v hv
        simp only [contrib, setOrd, hr, Bool.false_eq_true, if_false, hsrc, hdst] at e3
        by_cases h1 : v = hi
        · subst h1
          simp only [if_true, Nat.ne_of_lt hlt, if_false] at e3 ⊢
          omega
        · simp only [h1, if_false]
          by_cases h2 : v = lo
          · subst h2
            simp only [if_true, Ne.symm h1, if_false] at e3 ⊢
            omega
          · simp only [h2, if_false, Ne.symm h2, Ne.symm h1] at e3 ⊢
            omega

/-! ### sequences of updates -/

/-- `f` gives both copies of a ring bond the same order -/
def RingSym (adj : List (List (Option PBond))) (f : PBond → Nat) : Prop :=
  ∀ i, ∀ b ∈ rowAt adj i, b.ring = true → ∀ b' ∈ rowAt adj b.dst, b'.dst = i →
    b'.order2 = b.order2 → f b' = f b

theorem AdjOK.mapOrders {adj : List (List (Option PBond))} (hok : AdjOK adj) {f : PBond → Nat}
    (hf : RingSym adj f) : AdjOK (mapOrders f adj) := by
  intro i hi
  have hlen : (SV.mapOrders f adj).length = adj.length := by simp [SV.mapOrders]
  rw [hlen] at hi
  obtain ⟨h1, h2⟩ := hok i hi
  rw [rowAt_mapOrders]
  refine ⟨by rw [List.map_map]; exact h1, ?_⟩
  intro b'' hb''
  obtain ⟨b, hb, rfl⟩ := List.mem_map.1 hb''
  obtain ⟨g1, g2, g3, g4⟩ := h2 b hb
  refine ⟨g1, by rw [hlen]; exact g2, g3, ?_⟩
  show if b.ring = true then _ else _
  split
  · rename_i hr
    rw [if_pos hr] at g4
    obtain ⟨b', hb', hd', ho'⟩ := g4
    refine ⟨setOrd f b', ?_, hd', hf i b hb hr b' hb' hd' ho'⟩
    show setOrd f b' ∈ rowAt (SV.mapOrders f adj) b.dst
    rw [rowAt_mapOrders]; exact List.mem_map_of_mem hb'
  · rename_i hr
    rw [if_neg hr] at g4
    refine ⟨g4.1, ?_⟩
    intro b' hb'
    have : b' ∈ rowAt (SV.mapOrders f adj) b.dst := hb'
    rw [rowAt_mapOrders] at this
    obtain ⟨b0, hb0, rfl⟩ := List.mem_map.1 this
    exact g4.2 b0 hb0

theorem mapOrders_mapOrders (f g : PBond → Nat) (adj : List (List (Option PBond))) :
    mapOrders f (mapOrders g adj) = mapOrders (fun b => f (setOrd g b)) adj := by
  unfold mapOrders
  rw [List.map_map]
  apply List.map_congr_left
  intro row _
  simp only [Function.comp, List.map_map]
  apply List.map_congr_left
  intro ob _
  cases ob <;> rfl

/-- the order map after `update_bond_order(p.1, p.2, o)` for every pair `p` of `ps`, starting from `G` -/
def updAll (o : Nat) (ps : List (Nat × Nat)) (G : PBond → Nat) : PBond → Nat :=
  fun bd => if ps.any (fun p => pairMatch p.1 p.2 bd) then o else G bd

theorem upd_setOrd (a b o : Nat) (G : PBond → Nat) :
    (fun bd => updP a b o (setOrd G bd)) = updAll o [(a, b)] G := by
  funext bd
  simp [updP, updAll, setOrd, pairMatch]

theorem updAll_cons (o : Nat) (p : Nat × Nat) (ps : List (Nat × Nat)) (G : PBond → Nat) :
    updAll o ps (updAll o [p] G) = updAll o (p :: ps) G := by
  funext bd
  simp only [updAll, List.any_cons, List.any_nil, Bool.or_false, Bool.or_eq_true]
  by_cases h1 : pairMatch p.1 p.2 bd = true <;> by_cases h2 : ps.any (fun p => pairMatch p.1 p.2 bd) = true <;>
    simp [h1, h2]

theorem updAll_append (o : Nat) (ps qs : List (Nat × Nat)) (G : PBond → Nat) :
    updAll o qs (updAll o ps G) = updAll o (ps ++ qs) G := by
  funext bd
  simp only [updAll, List.any_append, Bool.or_eq_true]
  by_cases h1 : ps.any (fun p => pairMatch p.1 p.2 bd) = true <;>
    by_cases h2 : qs.any (fun p => pairMatch p.1 p.2 bd) = true <;> simp [h1, h2]

theorem updAll_nil (o : Nat) (G : PBond → Nat) : updAll o [] G = G := by
  funext bd; simp [updAll]

theorem RingSym.updAll {adj : List (List (Option PBond))} (hok : AdjOK adj) {G : PBond → Nat}
    (hG : RingSym adj G) (o : Nat) (ps : List (Nat × Nat)) : RingSym adj (updAll o ps G) := by
  intro i b hb hr b' hb' hd' ho'
  have hs := ((hok i (lt_of_mem_rowAt hb)).2 b hb).1
  have hs' := ((hok b.dst (lt_of_mem_rowAt hb')).2 b' hb').1
  have : ∀ p : Nat × Nat, pairMatch p.1 p.2 b' = pairMatch p.1 p.2 b := by
    intro p
    simp only [pairMatch, hs, hs', hd']
    rw [Bool.or_comm, Bool.and_comm (b.dst == p.2), Bool.and_comm (b.dst == p.1)]
  simp only [SV.updAll, this, hG i b hb hr b' hb' hd' ho']

/-- there is a bond between `p.1` and `p.2` -/
def HasBond (adj : List (List (Option PBond))) (p : Nat × Nat) : Prop :=
  ∃ bd ∈ rowAt adj (min p.1 p.2), bd.dst = max p.1 p.2

theorem foldl_updates {m0 : PMol} (hok : AdjOK m0.adj) (o : Nat) (ho : 2 ≤ o ∧ o ≤ 6) :
    ∀ (ps : List (Nat × Nat)) (G : PBond → Nat) (m : PMol), (∀ p ∈ ps, HasBond m0.adj p) →
    RingSym m0.adj G → m.adj = mapOrders G m0.adj → m.counts2.length = m0.adj.length →
    (∀ v, v < m0.adj.length → m.counts2.getD v 0 = incident2 m.adj v) →
    ∃ c', ps.foldlM (fun m p => m.updateBondOrder p.1 p.2 o) m
        = .ok { m with adj := mapOrders (updAll o ps G) m0.adj, counts2 := c' } ∧
      c'.length = m0.adj.length ∧
      ∀ v, v < m0.adj.length → c'.getD v 0 = incident2 (mapOrders (updAll o ps G) m0.adj) v := by
  intro ps
  induction ps with
  | nil =>
    intro G m _ _ hadj hlen hcnt
    refine ⟨m.counts2, ?_, hlen, ?_⟩
    · simp only [List.foldlM_nil, pure, Except.pure, updAll_nil, ← hadj]
    · intro v hv; rw [updAll_nil, ← hadj]; exact hcnt v hv
  | cons p ps ih =>
    intro G m hps hG hadj hlen hcnt
    have hlen0 : m.adj.length = m0.adj.length := by rw [hadj]; simp [mapOrders]
    have hokm : AdjOK m.adj := by rw [hadj]; exact hok.mapOrders hG
    obtain ⟨bd, hbd, hdst⟩ := hps p (by simp)
    have hbd' : setOrd G bd ∈ rowAt m.adj (min p.1 p.2) := by
      rw [hadj, rowAt_mapOrders]; exact List.mem_map_of_mem hbd
    obtain ⟨c1, h1, h2, h3⟩ := updateBondOrder_spec hokm (hlen0 ▸ hlen) (hlen0 ▸ hcnt) ho hbd' hdst
    have hadj1 : mapOrders (updP p.1 p.2 o) m.adj = mapOrders (updAll o [p] G) m0.adj := by
      rw [hadj, mapOrders_mapOrders, upd_setOrd]
    rw [hadj1] at h1 h3
    rw [hlen0] at h2 h3
    obtain ⟨c', g1, g2, g3⟩ := ih (updAll o [p] G)
      { m with adj := mapOrders (updAll o [p] G) m0.adj, counts2 := c1 }
      (fun q hq => hps q (List.mem_cons_of_mem _ hq)) (hG.updAll hok o [p]) rfl h2 h3
    refine ⟨c', ?_, g2, ?_⟩
    · simp only [List.foldlM_cons, bind, Except.bind, h1]
      rw [g1, updAll_cons]
    · rw [← updAll_cons]; exact g3

/-! ### the pieces of `kekulize` -/

def badCheck (m : PMol) : Py Bool :=
  m.ds.anyM fun (node, adj) => do
    let a ← getIdx m.atoms node
    pure (!adj.isEmpty && (lookup a.element Gen.aromaticValences).isNone)

/-- `kept_nodes`, in the order of the keys of `ds` -/
def keptNodes (m : PMol) : Py (List Nat) :=
  (m.ds.map (·.1)).filterM fun k => do
    let p ← m.pruneFromDs k
    pure !p

/-- `pruned_ds` -/
def prunedGraph (m : PMol) (l2n : List Nat) : Py Graph :=
  l2n.mapM fun node => do
    let adj ← getKey m.ds node
    pure ((adj.filter fun v => l2n.contains v).map fun v => l2n.idxOf v)

def deAromNode (m : PMol) (node : Nat) (adj : List Nat) : Py PMol := do
  let m ← adj.foldlM (fun m a => m.updateBondOrder node a 2) m
  let atom ← getIdx m.atoms node
  let c ← getIdx m.counts2 node
  pure { m with atoms := m.atoms.set node { atom with isAromatic := false },
                counts2 := m.counts2.set node (2 * (c / 2)) }

def doubleStep (l2n : List Nat) (mt : Matching) (m : PMol) (i : Nat) : Py PMol := do
  let mi ← getIdx mt i
  match mi with
  | none => .error .TypeError
  | some j => do
    let a ← getIdx l2n i
    let b ← getIdx l2n j
    m.updateBondOrder a b 4

theorem kekulize_eq (m : PMol) (tape : List Nat) :
    m.kekulize tape =
      (if m.ds.isEmpty then pure (some m)
       else do
        let bad ← badCheck m
        if bad then pure none
        else do
          let kept ← keptNodes m
          let l2n := kept.mergeSort (· ≤ ·)
          let pg ← prunedGraph m l2n
          match ← findPerfectMatching pg tape with
          | none => pure none
          | some mt => do
            let m1 ← m.ds.foldlM (fun m p => deAromNode m p.1 p.2) m
            let m2 ← (List.range mt.length).foldlM (doubleStep l2n mt) m1
            pure (some { m2 with ds := [] })) := by
  rfl

theorem mapOrders_congr {adj : List (List (Option PBond))} {f g : PBond → Nat}
    (h : ∀ i, ∀ b ∈ rowAt adj i, f b = g b) : mapOrders f adj = mapOrders g adj := by
  apply eq_mapOrders_of_rows g (fun _ => f) (by simp [mapOrders])
  · intro i hi
    unfold mapOrders
    rw [List.getElem?_map, List.getElem?_eq_getElem hi]; rfl
  · exact h

theorem mapOrders_ord0 (adj : List (List (Option PBond))) : mapOrders (fun b => b.order2) adj = adj :=
  mapOrders_id_of _ (fun _ _ _ => rfl)

theorem eq_range_map {c : List Nat} {n : Nat} (f : Nat → Nat) (hlen : c.length = n)
    (h : ∀ v, v < n → c.getD v 0 = f v) : c = (List.range n).map f := by
  apply List.ext_getElem?
  intro v
  rcases Nat.lt_or_ge v n with hv | hv
  · have := h v hv
    rw [List.getD_eq_getElem?_getD, List.getElem?_eq_getElem (hlen ▸ hv)] at this
    simp only [Option.getD_some] at this
    rw [List.getElem?_eq_getElem (hlen ▸ hv), this]
    simp [hv]
  · rw [List.getElem?_eq_none (hlen ▸ hv), List.getElem?_eq_none (by simpa using hv)]

theorem sum_even {l : List Nat} (h : ∀ x ∈ l, x % 2 = 0) : l.sum % 2 = 0 := by
  induction l with
  | nil => rfl
  | cons x xs ih =>
    have h1 := h x (by simp)
    have h2 := ih (fun y hy => h y (List.mem_cons_of_mem _ hy))
    simp only [List.sum_cons]; omega

theorem incident2_even {adj : List (List (Option PBond))} {v : Nat}
    (h : ∀ i, ∀ b ∈ rowAt adj i, (b.src = v ∨ b.dst = v) → b.order2 % 2 = 0) :
    incident2 adj v % 2 = 0 := by
  unfold incident2
  apply sum_even
  intro x hx
  obtain ⟨row, hrow, rfl⟩ := List.mem_map.1 hx
  obtain ⟨i, hi⟩ := List.getElem?_of_mem hrow
  unfold rowSum
  apply sum_even
  intro y hy
  obtain ⟨b, hb, rfl⟩ := List.mem_map.1 hy
  have hb' : b ∈ rowAt adj i := by rw [rowAt_of_getElem? hi]; exact hb
  have := h i b hb'
  unfold contrib
  split
  · split
    · rename_i h1; exact this (Or.inl h1)
    · rfl
  · split <;> split
    · rename_i h1 _; have := this (Or.inl h1); omega
    · rename_i h1 _; have := this (Or.inl h1); omega
    · rename_i h1; have := this (Or.inr h1); omega
    · rfl

/-- `is_aromatic = False` on the atoms that are keys of the delocalisation subgraph -/
def deArom (keys : List Nat) (atoms : List Atom) : List Atom :=
  atoms.mapIdx fun i a => if keys.contains i then { a with isAromatic := false } else a

theorem deArom_length (keys : List Nat) (atoms : List Atom) : (deArom keys atoms).length = atoms.length := by
  simp [deArom]

theorem deArom_nil (atoms : List Atom) : deArom [] atoms = atoms := by
  apply List.ext_getElem?
  intro i
  simp only [deArom, List.getElem?_mapIdx, List.contains_nil, Bool.false_eq_true, if_false]
  cases atoms[i]? <;> rfl

theorem deArom_step (keys : List Nat) (atoms : List Atom) (k : Nat) (a : Atom)
    (ha : (deArom keys atoms)[k]? = some a) :
    (deArom keys atoms).set k { a with isAromatic := false } = deArom (keys ++ [k]) atoms := by
  apply List.ext_getElem?
  intro i
  unfold deArom at ha ⊢
  rw [List.getElem?_set, List.getElem?_mapIdx] at *
  by_cases hki : k = i
  · subst hki
    simp only [if_true, List.length_mapIdx, List.getElem?_mapIdx]
    cases hat : atoms[k]? with
    | none => rw [hat] at ha; cases ha
    | some a0 =>
      rw [hat] at ha
      simp only [Option.map_some, Option.some.injEq] at ha
      have hk : k < atoms.length := lt_of_getElem?_some hat
      simp only [hk, if_true, Option.map_some, List.contains_append, List.contains_cons, beq_self_eq_true,
        List.contains_nil, Bool.or_false, Bool.or_true, Option.some.injEq]
      rw [← ha]
      split <;> rfl
  · simp only [hki, if_false, List.getElem?_mapIdx]
    cases atoms[i]? with
    | none => rfl
    | some a0 =>
      simp only [Option.map_some, List.contains_append, List.contains_cons, List.contains_nil,
        Bool.or_false, Option.some.injEq]
      have : (i == k) = false := by simpa using Ne.symm hki
      rw [this, Bool.or_false]

theorem foldlM_map_eq {α β γ : Type} (f : γ → β → Py γ) (h : α → β) (l : List α) (x : γ) :
    (l.map h).foldlM f x = l.foldlM (fun m a => f m (h a)) x := by
  induction l generalizing x with
  | nil => rfl
  | cons a as ih =>
    simp only [List.map_cons, List.foldlM_cons, bind, Except.bind]
    cases f x (h a) with
    | error e => rfl
    | ok y => exact ih y

theorem foldlM_congr_mem {α γ : Type} (f g : γ → α → Py γ) (l : List α)
    (h : ∀ a ∈ l, ∀ x, f x a = g x a) (x : γ) : l.foldlM f x = l.foldlM g x := by
  induction l generalizing x with
  | nil => rfl
  | cons a as ih =>
    simp only [List.foldlM_cons, bind, Except.bind]
    rw [h a (by simp) x]
    cases g x a with
    | error e => rfl
    | ok y => exact ih (fun b hb => h b (List.mem_cons_of_mem _ hb)) y

/-! ### phase 1: de-aromatisation -/

/-- the original orders -/
def ord0 : PBond → Nat := fun b => b.order2

/-- all `(node, adj)` pairs of the delocalisation subgraph, in iteration order -/
def pairsOf (ds : List (Nat × List Nat)) : List (Nat × Nat) :=
  ds.flatMap fun p => p.2.map fun a => (p.1, a)

theorem pairsOf_append (d1 d2 : List (Nat × List Nat)) : pairsOf (d1 ++ d2) = pairsOf d1 ++ pairsOf d2 := by
  simp [pairsOf]

theorem pairsOf_single (k : Nat) (l : List Nat) : pairsOf [(k, l)] = l.map fun a => (k, a) := by
  simp [pairsOf]

theorem mem_pairsOf {ds : List (Nat × List Nat)} {q : Nat × Nat} :
    q ∈ pairsOf ds ↔ ∃ p ∈ ds, q.1 = p.1 ∧ q.2 ∈ p.2 := by
  simp only [pairsOf, List.mem_flatMap, List.mem_map]
  constructor
  · rintro ⟨p, hp, a, ha, rfl⟩; exact ⟨p, hp, rfl, ha⟩
  · rintro ⟨p, hp, h1, h2⟩; exact ⟨p, hp, q.2, h2, by rw [← h1]⟩

theorem lookup_of_mem {ds : List (Nat × List Nat)} (hnd : (ds.map (·.1)).Nodup) {k : Nat} {l : List Nat}
    (h : (k, l) ∈ ds) : lookup k ds = some l := by
  induction ds with
  | nil => cases h
  | cons p ps ih =>
    obtain ⟨k', l'⟩ := p
    simp only [List.map_cons, List.nodup_cons, List.mem_map, not_exists, not_and] at hnd
    simp only [List.mem_cons, Prod.mk.injEq] at h
    unfold lookup
    rcases h with ⟨rfl, rfl⟩ | h
    · simp
    · have : k' ≠ k := fun e => hnd.1 (k, l) h e.symm
      simp only [beq_iff_eq, this, if_false]
      exact ih hnd.2 h

theorem mem_of_lookup {ds : List (Nat × List Nat)} {k : Nat} {l : List Nat}
    (h : lookup k ds = some l) : (k, l) ∈ ds := by
  induction ds with
  | nil => cases h
  | cons p ps ih =>
    obtain ⟨k', l'⟩ := p
    unfold lookup at h
    split at h
    · rename_i e
      have : k' = k := by simpa using e
      cases h; subst this; simp
    · exact List.mem_cons_of_mem _ (ih h)

theorem RingSym.ord0 (adj : List (List (Option PBond))) : RingSym adj ord0 :=
  fun _ _ _ _ _ _ _ h => h

/-- the state during the two loops: only atoms, adjacency lists and bond counts differ from `m0` -/
def st (m0 : PMol) (keys : List Nat) (G : PBond → Nat) (c : List Nat) : PMol :=
  { m0 with atoms := deArom keys m0.atoms, adj := mapOrders G m0.adj, counts2 := c }

theorem pairs_hasBond {m0 : PMol} (hwf : PWF m0) {q : Nat × Nat} (hq : q ∈ pairsOf m0.ds) :
    ∃ bd ∈ rowAt m0.adj (min q.1 q.2), bd.dst = max q.1 q.2 ∧ bd.order2 = 3 := by
  obtain ⟨p, hp, h1, h2⟩ := mem_pairsOf.1 hq
  have := (hwf.2.2.2.2.2.2.1 p hp).2.2 q.2 h2
  rw [← h1] at this
  exact this

theorem set_self {l : List Nat} {i : Nat} (hi : i < l.length) : l.set i l[i] = l := by
  apply List.ext_getElem?
  intro j
  rw [List.getElem?_set]
  split
  · rename_i e; subst e; simp [hi]
  · rfl

theorem phase1_even {m0 : PMol} (hwf : PWF m0) {k : Nat} {l : List Nat} (hkl : (k, l) ∈ m0.ds)
    (ps : List (Nat × Nat)) (hps : ∀ a ∈ l, (k, a) ∈ ps) :
    incident2 (mapOrders (updAll 2 ps ord0) m0.adj) k % 2 = 0 := by
  obtain ⟨hok, _, _, _, hpar, hnd, _, hconv⟩ := hwf
  apply incident2_even
  intro i b hb hinc
  rw [rowAt_mapOrders] at hb
  obtain ⟨b0, hb0, rfl⟩ := List.mem_map.1 hb
  have hi := lt_of_mem_rowAt hb0
  have hsrc := ((hok i hi).2 b0 hb0).1
  show updAll 2 ps ord0 b0 % 2 = 0
  unfold updAll
  split
  · rfl
  · rename_i hany
    show b0.order2 % 2 = 0
    rcases Nat.mod_two_eq_zero_or_one b0.order2 with h | h
    · exact h
    · exfalso
      apply hany
      have h3 := hpar i hi b0 hb0 h
      obtain ⟨c1, c2⟩ := hconv i hi b0 hb0 h3
      have hl : dsAdj m0 k = l := by unfold dsAdj; rw [lookup_of_mem hnd hkl]; rfl
      rw [List.any_eq_true]
      have hinc' : b0.src = k ∨ b0.dst = k := hinc
      rcases hinc' with e | e
      · have : i = k := hsrc.symm.trans e
        subst this
        rw [hl] at c1
        exact ⟨(i, b0.dst), hps _ c1, by simp [pairMatch, hsrc]⟩
      · rw [e, hl] at c2
        exact ⟨(k, i), hps _ c2, by simp [pairMatch, hsrc, e]⟩

theorem phase1 {m0 : PMol} (hwf : PWF m0) :
    ∀ (todo done : List (Nat × List Nat)) (c : List Nat), m0.ds = done ++ todo →
    c.length = m0.adj.length →
    (∀ v, v < m0.adj.length → c.getD v 0 = incident2 (mapOrders (updAll 2 (pairsOf done) ord0) m0.adj) v) →
    ∃ c', todo.foldlM (fun m p => deAromNode m p.1 p.2)
          (st m0 (done.map (·.1)) (updAll 2 (pairsOf done) ord0) c)
        = .ok (st m0 (m0.ds.map (·.1)) (updAll 2 (pairsOf m0.ds) ord0) c') ∧
      c'.length = m0.adj.length ∧
      ∀ v, v < m0.adj.length →
        c'.getD v 0 = incident2 (mapOrders (updAll 2 (pairsOf m0.ds) ord0) m0.adj) v := by
  intro todo
  induction todo with
  | nil =>
    intro done c hds hlen hcnt
    rw [List.append_nil] at hds
    subst hds
    exact ⟨c, rfl, hlen, hcnt⟩
  | cons p todo ih =>
    intro done c hds hlen hcnt
    obtain ⟨k, l⟩ := p
    have hok := hwf.1
    have hkl : (k, l) ∈ m0.ds := by rw [hds]; simp
    have hk : k < m0.adj.length := (hwf.2.2.2.2.2.2.1 _ hkl).1
    -- the inner loop
    have hinner : ∀ q ∈ l.map (fun a => (k, a)), HasBond m0.adj q := by
      intro q hq
      have : q ∈ pairsOf m0.ds := by
        rw [hds, show (k, l) :: todo = [(k, l)] ++ todo from rfl, pairsOf_append, pairsOf_append,
          pairsOf_single]
        simp only [List.mem_append]; exact Or.inr (Or.inl hq)
      obtain ⟨bd, h1, h2, _⟩ := pairs_hasBond hwf this
      exact ⟨bd, h1, h2⟩
    obtain ⟨c1, g1, g2, g3⟩ := foldl_updates hok 2 (by omega) (l.map fun a => (k, a))
      (updAll 2 (pairsOf done) ord0) (st m0 (done.map (·.1)) (updAll 2 (pairsOf done) ord0) c) hinner
      ((RingSym.ord0 _).updAll hok 2 _) rfl hlen hcnt
    rw [foldlM_map_eq, updAll_append] at g1
    rw [updAll_append] at g3
    have hpairs : pairsOf done ++ l.map (fun a => (k, a)) = pairsOf (done ++ [(k, l)]) := by
      rw [pairsOf_append, pairsOf_single]
    rw [hpairs] at g1 g3
    have hkat : k < (deArom (done.map (·.1)) m0.atoms).length := by
      rw [deArom_length, hwf.2.1]; exact hk
    have hc1k : k < c1.length := by rw [g2]; exact hk
    have heven : c1[k] % 2 = 0 := by
      have := g3 k hk
      rw [List.getD_eq_getElem?_getD, List.getElem?_eq_getElem hc1k] at this
      simp only [Option.getD_some] at this
      rw [this]
      apply phase1_even hwf hkl
      intro a ha
      rw [← hpairs]
      exact List.mem_append_right _ (List.mem_map_of_mem ha)
    have hfloor : c1.set k (2 * (c1[k] / 2)) = c1 := by
      have : 2 * (c1[k] / 2) = c1[k] := by omega
      rw [this, set_self hc1k]
    have hstep : deAromNode (st m0 (done.map (·.1)) (updAll 2 (pairsOf done) ord0) c) k l
        = .ok (st m0 ((done ++ [(k, l)]).map (·.1)) (updAll 2 (pairsOf (done ++ [(k, l)])) ord0) c1) := by
      unfold deAromNode
      simp only [bind, Except.bind, g1]
      simp only [st]
      rw [getIdx_ok_of_lt hkat, getIdx_ok_of_lt hc1k]
      simp only [pure, Except.pure, hfloor]
      rw [deArom_step _ _ _ _ (List.getElem?_eq_getElem hkat)]
      simp
    obtain ⟨c', f1, f2, f3⟩ := ih (done ++ [(k, l)]) c1 (by rw [hds]; simp) g2 g3
    refine ⟨c', ?_, f2, f3⟩
    simp only [List.foldlM_cons, bind, Except.bind, hstep]
    exact f1

/-! ### list-monad lemmas -/

theorem filterAuxM_ok {α : Type} (f : α → Py Bool) : ∀ (l acc r : List α),
    List.filterAuxM f l acc = .ok r →
    (∀ a ∈ l, ∃ b, f a = .ok b) ∧ r = (l.filter fun a => f a == .ok true).reverse ++ acc := by
  intro l
  induction l with
  | nil =>
    intro acc r h
    simp only [List.filterAuxM, pure, Except.pure] at h
    cases h
    simp
  | cons x xs ih =>
    intro acc r h
    simp only [List.filterAuxM, bind, Except.bind] at h
    cases hx : f x with
    | error e => rw [hx] at h; cases h
    | ok b =>
      rw [hx] at h
      obtain ⟨h1, h2⟩ := ih _ _ h
      refine ⟨?_, ?_⟩
      · intro a ha
        simp only [List.mem_cons] at ha
        rcases ha with rfl | ha
        · exact ⟨b, hx⟩
        · exact h1 a ha
      · rw [h2, List.filter_cons, hx]
        cases b <;> simp

theorem filterM_ok {α : Type} (f : α → Py Bool) (l r : List α) (h : l.filterM f = .ok r) :
    (∀ a ∈ l, ∃ b, f a = .ok b) ∧ r = l.filter fun a => f a == .ok true := by
  simp only [List.filterM, bind, Except.bind] at h
  cases h' : List.filterAuxM f l [] with
  | error e => rw [h'] at h; cases h
  | ok r' =>
    rw [h'] at h
    simp only [pure, Except.pure] at h
    cases h
    obtain ⟨h1, h2⟩ := filterAuxM_ok f l [] r' h'
    exact ⟨h1, by rw [h2]; simp⟩

theorem mapM_ok {α β : Type} (f : α → Py β) : ∀ (l : List α) (r : List β), l.mapM f = .ok r →
    r.length = l.length ∧ ∀ (i : Nat) (x : α), l[i]? = some x → ∃ y, f x = .ok y ∧ r[i]? = some y := by
  intro l
  induction l with
  | nil =>
    intro r h
    simp only [List.mapM_nil, pure, Except.pure] at h
    cases h
    exact ⟨rfl, fun i x hx => by simp at hx⟩
  | cons a as ih =>
    intro r h
    simp only [List.mapM_cons, bind, Except.bind] at h
    cases ha : f a with
    | error e => rw [ha] at h; cases h
    | ok y =>
      rw [ha] at h
      cases has : as.mapM f with
      | error e => rw [has] at h; cases h
      | ok ys =>
        rw [has] at h
        simp only [pure, Except.pure] at h
        cases h
        obtain ⟨h1, h2⟩ := ih ys has
        refine ⟨by simp [h1], ?_⟩
        intro i x hx
        cases i with
        | zero => simp at hx; subst hx; exact ⟨y, ha, rfl⟩
        | succ i => simpa using h2 i x (by simpa using hx)

theorem anyM_false {α : Type} (f : α → Py Bool) : ∀ (l : List α), (∀ a ∈ l, f a = .ok false) →
    l.anyM f = .ok false := by
  intro l
  induction l with
  | nil => intro _; rfl
  | cons x xs ih =>
    intro h
    simp only [List.anyM, bind, Except.bind, h x (by simp)]
    exact ih (fun a ha => h a (List.mem_cons_of_mem _ ha))

/-! ### the order of the bond between two atoms is unique -/

theorem order_of_pair {adj : List (List (Option PBond))} (hok : AdjOK adj) {x y : Nat} {bd0 : PBond}
    (hbd0 : bd0 ∈ rowAt adj (min x y)) (hdst : bd0.dst = max x y) {i : Nat} {bd : PBond}
    (hbd : bd ∈ rowAt adj i) (hpm : pairMatch x y bd = true) : bd.order2 = bd0.order2 := by
  rw [pairMatch_minmax] at hpm
  generalize min x y = lo at *
  generalize max x y = hi at *
  have hi' := lt_of_mem_rowAt hbd
  obtain ⟨hsrc, _, hne, hring⟩ := (hok i hi').2 bd hbd
  obtain ⟨hsrc0, _, hne0, hring0⟩ := (hok lo (lt_of_mem_rowAt hbd0)).2 bd0 hbd0
  simp only [pairMatch, Bool.or_eq_true, Bool.and_eq_true, beq_iff_eq] at hpm
  rcases hpm with ⟨h1, h2⟩ | ⟨h1, h2⟩
  · have : i = lo := hsrc.symm.trans h1
    subst this
    rw [eq_of_dst_eq (hok i hi').1 hbd hbd0 (h2.trans hdst.symm)]
  · have : i = hi := hsrc.symm.trans h1
    subst this
    cases hr : bd.ring with
    | true =>
      simp only [hr, if_true] at hring
      obtain ⟨b', hb', hd', ho'⟩ := hring
      rw [h2] at hb'
      rw [← ho', eq_of_dst_eq (hok lo (lt_of_mem_rowAt hbd0)).1 hb' hbd0 (hd'.trans hdst.symm)]
    | false =>
      simp only [hr] at hring
      have h3 := hring.1
      rw [h2] at h3
      -- the bond `lo → i` then has to be a ring bond with a copy at `i`, or a chain bond without one
      cases hr0 : bd0.ring with
      | true =>
        simp only [hr0, if_true] at hring0
        obtain ⟨b', hb', hd', _⟩ := hring0
        rw [hdst] at hb'
        have := eq_of_dst_eq (hok i hi').1 hbd hb' (h2.trans hd'.symm)
        subst this
        obtain ⟨_, _, _, hring'⟩ := (hok lo (lt_of_mem_rowAt hbd0)).2 bd0 hbd0
        simp only [hr0, if_true] at hring'
        exfalso
        have := hring.2 bd0 (by rw [h2]; exact hbd0) 
        exact this hdst
      | false =>
        simp only [hr0] at hring0
        have := hring0.1
        rw [hdst] at this
        omega

/-! ### labels -/

/-- atoms `a`, `b` are both kept and their labels are matched to each other -/
def matchedPair (l2n : List Nat) (mt : Matching) (a b : Nat) : Bool :=
  l2n.contains a && l2n.contains b && mt[l2n.idxOf a]? == some (some (l2n.idxOf b))

/-- the final bond orders: aromatic bonds become double (matched) or single, the others stay -/
def kekOrder (l2n : List Nat) (mt : Matching) (bd : PBond) : Nat :=
  if bd.order2 = 3 then (if matchedPair l2n mt bd.src bd.dst then 4 else 2) else bd.order2

/-- the pair of atoms `update_bond_order` is called with for label `i` -/
def pair2 (l2n : List Nat) (mt : Matching) (i : Nat) : Nat × Nat :=
  (l2n.getD i 0, l2n.getD ((mt.getD i none).getD 0) 0)

theorem getD_of_lt {l : List Nat} {i : Nat} (h : i < l.length) : l.getD i 0 = l[i] := by
  rw [List.getD_eq_getElem?_getD, List.getElem?_eq_getElem h]; rfl

theorem idxOf_getD {l : List Nat} (hnd : l.Nodup) {i : Nat} (h : i < l.length) : l.idxOf (l.getD i 0) = i := by
  rw [getD_of_lt h]; exact hnd.idxOf_getElem i h

theorem getD_idxOf {l : List Nat} {a : Nat} (h : a ∈ l) : l.getD (l.idxOf a) 0 = a := by
  have := List.idxOf_lt_length_of_mem h
  rw [getD_of_lt this]; exact List.getElem_idxOf this

theorem getD_mem {l : List Nat} {i : Nat} (h : i < l.length) : l.getD i 0 ∈ l := by
  rw [getD_of_lt h]; exact List.getElem_mem h

/-! ### the hypotheses of the soundness theorem and what they give -/

structure KekCtx (m : PMol) (kept l2n : List Nat) (pg : Graph) (mt : Matching) : Prop where
  hwf : PWF m
  hk : keptNodes m = .ok kept
  hl : l2n = kept.mergeSort (· ≤ ·)
  hp : prunedGraph m l2n = .ok pg
  hpm : PerfectMatching pg mt

namespace KekCtx
variable {m : PMol} {kept l2n : List Nat} {pg : Graph} {mt : Matching}

theorem kept_eq (h : KekCtx m kept l2n pg mt) :
    (∀ k ∈ m.ds.map (·.1), ∃ b, m.pruneFromDs k = .ok b) ∧
    kept = (m.ds.map (·.1)).filter fun k => m.pruneFromDs k == .ok false := by
  obtain ⟨h1, h2⟩ := filterM_ok _ _ _ h.hk
  refine ⟨?_, ?_⟩
  · intro k hk
    obtain ⟨b, hb⟩ := h1 k hk
    simp only [bind, Except.bind] at hb
    cases hp : m.pruneFromDs k with
    | error e => rw [hp] at hb; cases hb
    | ok p => exact ⟨p, rfl⟩
  · rw [h2]
    apply List.filter_congr
    intro k _
    simp only [bind, Except.bind]
    cases m.pruneFromDs k with
    | error e => rfl
    | ok p => cases p <;> rfl

theorem mem_l2n (h : KekCtx m kept l2n pg mt) {a : Nat} :
    a ∈ l2n ↔ a ∈ m.ds.map (·.1) ∧ m.pruneFromDs a = .ok false := by
  rw [h.hl, (List.mergeSort_perm kept _).mem_iff, h.kept_eq.2, List.mem_filter, beq_iff_eq]

theorem l2n_nodup (h : KekCtx m kept l2n pg mt) : l2n.Nodup := by
  rw [h.hl, (List.mergeSort_perm kept _).nodup_iff, h.kept_eq.2]
  exact List.Nodup.sublist List.filter_sublist h.hwf.2.2.2.2.2.1

theorem key_of_l2n (h : KekCtx m kept l2n pg mt) {a : Nat} (ha : a ∈ l2n) :
    (a, dsAdj m a) ∈ m.ds := by
  obtain ⟨p, hp, rfl⟩ := List.mem_map.1 (h.mem_l2n.1 ha).1
  have := lookup_of_mem h.hwf.2.2.2.2.2.1 (show (p.1, p.2) ∈ m.ds from hp)
  unfold dsAdj
  rw [this]
  exact hp

theorem pg_rows (h : KekCtx m kept l2n pg mt) :
    pg.length = l2n.length ∧ ∀ t, t < l2n.length →
      pg[t]? = some (((dsAdj m (l2n.getD t 0)).filter fun v => l2n.contains v).map fun v => l2n.idxOf v) := by
  obtain ⟨h1, h2⟩ := mapM_ok _ _ _ h.hp
  refine ⟨h1, fun t ht => ?_⟩
  obtain ⟨y, hy1, hy2⟩ := h2 t l2n[t] (List.getElem?_eq_getElem ht)
  rw [hy2, getD_of_lt ht]
  simp only [bind, Except.bind] at hy1
  unfold getKey at hy1
  unfold dsAdj
  cases hlk : lookup l2n[t] m.ds with
  | none => rw [hlk] at hy1; cases hy1
  | some adj =>
    rw [hlk] at hy1
    simp only [pure, Except.pure] at hy1
    cases hy1
    rfl

theorem matched (h : KekCtx m kept l2n pg mt) {t j : Nat} (htj : mt[t]? = some (some j)) :
    t < l2n.length ∧ j < l2n.length ∧ l2n.getD j 0 ∈ dsAdj m (l2n.getD t 0) ∧ mt[j]? = some (some t) := by
  obtain ⟨hlen, hrows⟩ := h.pg_rows
  obtain ⟨h1, ⟨row, hrow, hj⟩, h3⟩ := h.hpm.valid.matched t j htj
  have ht : t < l2n.length := by
    rw [← hlen, ← h.hpm.valid.length_eq]; exact lt_of_getElem?_some htj
  rw [hrows t ht] at hrow
  cases hrow
  obtain ⟨v, hv, rfl⟩ := List.mem_map.1 hj
  obtain ⟨hv1, hv2⟩ := List.mem_filter.1 hv
  have hv3 : v ∈ l2n := by simpa using hv2
  rw [getD_idxOf hv3]
  exact ⟨ht, hlen ▸ h1, hv1, h3⟩

theorem mt_length (h : KekCtx m kept l2n pg mt) : mt.length = l2n.length := by
  rw [h.hpm.valid.length_eq, h.pg_rows.1]

theorem mt_some (h : KekCtx m kept l2n pg mt) {t : Nat} (ht : t < l2n.length) :
    ∃ j, mt[t]? = some (some j) := by
  have ht' : t < mt.length := h.mt_length ▸ ht
  cases hx : mt[t] with
  | none => exact absurd (by rw [List.getElem?_eq_getElem ht', hx]) (h.hpm.total t)
  | some j => exact ⟨j, by rw [List.getElem?_eq_getElem ht', hx]⟩

/-- a matched pair of labels is a pair of the delocalisation subgraph -/
theorem matched_pair_mem (h : KekCtx m kept l2n pg mt) {t j : Nat} (htj : mt[t]? = some (some j)) :
    (l2n.getD t 0, l2n.getD j 0) ∈ pairsOf m.ds := by
  obtain ⟨ht, _, hmem, _⟩ := h.matched htj
  exact mem_pairsOf.2 ⟨_, h.key_of_l2n (getD_mem ht), rfl, hmem⟩

theorem pair2_eq (_h : KekCtx m kept l2n pg mt) {t j : Nat} (htj : mt[t]? = some (some j)) :
    pair2 l2n mt t = (l2n.getD t 0, l2n.getD j 0) := by
  have : mt.getD t none = some j := by rw [List.getD_eq_getElem?_getD, htj]; rfl
  unfold pair2
  rw [this]; rfl

theorem matchedPair_iff (h : KekCtx m kept l2n pg mt) (a b : Nat) :
    matchedPair l2n mt a b = true ↔
      ∃ t j, mt[t]? = some (some j) ∧ l2n.getD t 0 = a ∧ l2n.getD j 0 = b := by
  unfold matchedPair
  simp only [Bool.and_eq_true, List.contains_iff_mem, beq_iff_eq]
  constructor
  · rintro ⟨⟨ha, hb⟩, hm⟩
    exact ⟨_, _, hm, getD_idxOf ha, getD_idxOf hb⟩
  · rintro ⟨t, j, hm, rfl, rfl⟩
    obtain ⟨ht, hj, _, _⟩ := h.matched hm
    refine ⟨⟨getD_mem ht, getD_mem hj⟩, ?_⟩
    rw [idxOf_getD h.l2n_nodup ht, idxOf_getD h.l2n_nodup hj]; exact hm

theorem matchedPair_symm (h : KekCtx m kept l2n pg mt) (a b : Nat) :
    matchedPair l2n mt a b = matchedPair l2n mt b a := by
  have : ∀ a b, matchedPair l2n mt a b = true → matchedPair l2n mt b a = true := by
    intro a b hab
    obtain ⟨t, j, hm, ha, hb⟩ := (h.matchedPair_iff a b).1 hab
    exact (h.matchedPair_iff b a).2 ⟨j, t, (h.matched hm).2.2.2, hb, ha⟩
  cases h1 : matchedPair l2n mt a b <;> cases h2 : matchedPair l2n mt b a <;> try rfl
  · rw [this b a h2] at h1; cases h1
  · rw [this a b h1] at h2; cases h2

/-- the pairs of phase 2 -/
theorem any_pairs2 (h : KekCtx m kept l2n pg mt) (bd : PBond) :
    ((List.range mt.length).map (pair2 l2n mt)).any (fun p => pairMatch p.1 p.2 bd)
      = matchedPair l2n mt bd.src bd.dst := by
  rw [Bool.eq_iff_iff, List.any_eq_true]
  constructor
  · rintro ⟨p, hp, hpm⟩
    obtain ⟨t, ht, rfl⟩ := List.mem_map.1 hp
    have ht' : t < l2n.length := by rw [← h.mt_length]; simpa using ht
    obtain ⟨j, hj⟩ := h.mt_some ht'
    rw [h.pair2_eq hj] at hpm
    simp only [pairMatch, Bool.or_eq_true, Bool.and_eq_true, beq_iff_eq] at hpm
    rcases hpm with ⟨h1, h2⟩ | ⟨h1, h2⟩
    · exact (h.matchedPair_iff _ _).2 ⟨t, j, hj, h1.symm, h2.symm⟩
    · rw [h.matchedPair_symm]
      exact (h.matchedPair_iff _ _).2 ⟨t, j, hj, h2.symm, h1.symm⟩
  · intro hmp
    obtain ⟨t, j, hm, ha, hb⟩ := (h.matchedPair_iff _ _).1 hmp
    refine ⟨pair2 l2n mt t, List.mem_map_of_mem (by simpa using lt_of_getElem?_some hm), ?_⟩
    rw [h.pair2_eq hm, ha, hb]
    simp [pairMatch]

theorem any_pairsOf (h : KekCtx m kept l2n pg mt) {i : Nat} {bd : PBond} (hbd : bd ∈ rowAt m.adj i) :
    (pairsOf m.ds).any (fun p => pairMatch p.1 p.2 bd) = true ↔ bd.order2 = 3 := by
  rw [List.any_eq_true]
  constructor
  · rintro ⟨q, hq, hpm⟩
    obtain ⟨bd0, h1, h2, h3⟩ := pairs_hasBond h.hwf hq
    rw [order_of_pair h.hwf.1 h1 h2 hbd hpm, h3]
  · intro h3
    have hi := lt_of_mem_rowAt hbd
    obtain ⟨c1, _⟩ := h.hwf.2.2.2.2.2.2.2 i hi bd hbd h3
    have hsrc := ((h.hwf.1 i hi).2 bd hbd).1
    unfold dsAdj at c1
    cases hlk : lookup i m.ds with
    | none => rw [hlk] at c1; simp at c1
    | some l =>
      rw [hlk] at c1
      refine ⟨(i, bd.dst), mem_pairsOf.2 ⟨(i, l), mem_of_lookup hlk, rfl, c1⟩, ?_⟩
      simp [pairMatch, hsrc]

theorem matched_order3 (h : KekCtx m kept l2n pg mt) {i : Nat} {bd : PBond} (hbd : bd ∈ rowAt m.adj i)
    (hmp : matchedPair l2n mt bd.src bd.dst = true) : bd.order2 = 3 := by
  obtain ⟨t, j, hm, ha, hb⟩ := (h.matchedPair_iff _ _).1 hmp
  have := h.matched_pair_mem hm
  rw [ha, hb] at this
  obtain ⟨bd0, h1, h2, h3⟩ := pairs_hasBond h.hwf this
  rw [order_of_pair h.hwf.1 h1 h2 hbd (by simp [pairMatch]), h3]

/-- the composition of the two phases is `kekOrder` -/
theorem final_orders (h : KekCtx m kept l2n pg mt) :
    mapOrders (updAll 4 ((List.range mt.length).map (pair2 l2n mt)) (updAll 2 (pairsOf m.ds) ord0)) m.adj
      = mapOrders (kekOrder l2n mt) m.adj := by
  apply mapOrders_congr
  intro i bd hbd
  unfold updAll kekOrder
  rw [h.any_pairs2]
  by_cases hmp : matchedPair l2n mt bd.src bd.dst = true
  · simp [hmp, h.matched_order3 hbd hmp]
  · simp only [hmp, Bool.false_eq_true, if_false]
    by_cases h3 : bd.order2 = 3
    · simp [(h.any_pairsOf hbd).2 h3, h3]
    · have : ¬ (pairsOf m.ds).any (fun p => pairMatch p.1 p.2 bd) = true := fun hh => h3 ((h.any_pairsOf hbd).1 hh)
      simp [this, h3, ord0]

end KekCtx

/-- the molecule `kekulize` leaves behind -/
def kekResult (m : PMol) (l2n : List Nat) (mt : Matching) : PMol :=
  { m with
    atoms := deArom (m.ds.map (·.1)) m.atoms,
    adj := mapOrders (kekOrder l2n mt) m.adj,
    counts2 := (List.range m.adj.length).map (incident2 (mapOrders (kekOrder l2n mt) m.adj)),
    ds := [] }

namespace KekCtx
variable {m : PMol} {kept l2n : List Nat} {pg : Graph} {mt : Matching}

theorem badCheck_false (h : KekCtx m kept l2n pg mt) : badCheck m = .ok false := by
  unfold badCheck
  apply anyM_false
  intro p hp
  obtain ⟨node, adj⟩ := p
  have hnode : node < m.atoms.length := by rw [h.hwf.2.1]; exact (h.hwf.2.2.2.2.2.2.1 _ hp).1
  obtain ⟨b, hb⟩ := h.kept_eq.1 node (List.mem_map_of_mem (f := (·.1)) hp)
  simp only [bind, Except.bind, getIdx_ok_of_lt hnode, pure, Except.pure]
  congr 1
  cases hadj : adj.isEmpty with
  | true => rfl
  | false =>
    simp only [Bool.not_false, Bool.true_and]
    unfold PMol.pruneFromDs at hb
    have hlk : lookup node m.ds = some adj := lookup_of_mem h.hwf.2.2.2.2.2.1 hp
    simp only [bind, Except.bind, getKey, hlk, hadj, Bool.false_eq_true, if_false,
      getIdx_ok_of_lt hnode] at hb
    cases hv : lookup m.atoms[node].element Gen.aromaticValences with
    | none => rw [hv] at hb; cases hb
    | some _ => rfl

theorem phase2 (h : KekCtx m kept l2n pg mt) (m1 : PMol) :
    (List.range mt.length).foldlM (doubleStep l2n mt) m1 =
      ((List.range mt.length).map (pair2 l2n mt)).foldlM (fun m p => m.updateBondOrder p.1 p.2 4) m1 := by
  rw [foldlM_map_eq]
  apply foldlM_congr_mem
  intro t ht x
  have ht' : t < l2n.length := by rw [← h.mt_length]; simpa using ht
  obtain ⟨j, hj⟩ := h.mt_some ht'
  obtain ⟨_, hjl, _, _⟩ := h.matched hj
  unfold doubleStep
  simp only [bind, Except.bind, getIdx_ok.2 hj, getIdx_ok_of_lt ht', getIdx_ok_of_lt hjl]
  rw [pair2_eq h hj, getD_of_lt ht', getD_of_lt hjl]

end KekCtx

/-- C05 (7): given a perfect matching of the pruned delocalisation subgraph of a well-formed
    parsed graph, `kekulize` succeeds and returns exactly `kekResult` -/
theorem kekulize_sound {m : PMol} {kept l2n : List Nat} {pg : Graph} {mt : Matching} {tape : List Nat}
    (h : KekCtx m kept l2n pg mt) (hne : m.ds.isEmpty = false)
    (hm : findPerfectMatching pg tape = .ok (some mt)) :
    m.kekulize tape = .ok (some (kekResult m l2n mt)) := by
  have hwf := h.hwf
  rw [kekulize_eq]
  simp only [hne, Bool.false_eq_true, if_false, bind, Except.bind, h.badCheck_false, h.hk, ← h.hl, h.hp, hm]
  -- phase 1
  obtain ⟨c1, p1, p2, p3⟩ := phase1 hwf m.ds [] m.counts2 rfl hwf.2.2.1 (by
    intro v hv
    simp only [pairsOf, List.flatMap_nil, updAll_nil]
    rw [show mapOrders ord0 m.adj = m.adj from mapOrders_ord0 m.adj]
    exact hwf.2.2.2.1 v hv)
  have hst0 : st m (([] : List (Nat × List Nat)).map (·.1)) (updAll 2 (pairsOf []) ord0) m.counts2 = m := by
    simp only [st, List.map_nil, deArom_nil, pairsOf, List.flatMap_nil, updAll_nil]
    rw [show mapOrders ord0 m.adj = m.adj from mapOrders_ord0 m.adj]
  rw [hst0] at p1
  rw [p1]
  simp only
  -- phase 2
  rw [h.phase2]
  have hpairs : ∀ p ∈ (List.range mt.length).map (pair2 l2n mt), HasBond m.adj p := by
    intro p hp
    obtain ⟨t, ht, rfl⟩ := List.mem_map.1 hp
    have ht' : t < l2n.length := by rw [← h.mt_length]; simpa using ht
    obtain ⟨j, hj⟩ := h.mt_some ht'
    rw [h.pair2_eq hj]
    obtain ⟨bd, h1, h2, _⟩ := pairs_hasBond hwf (h.matched_pair_mem hj)
    exact ⟨bd, h1, h2⟩
  obtain ⟨c2, q1, q2, q3⟩ := foldl_updates hwf.1 4 (by omega) _ (updAll 2 (pairsOf m.ds) ord0)
    (st m (m.ds.map (·.1)) (updAll 2 (pairsOf m.ds) ord0) c1) hpairs
    ((RingSym.ord0 _).updAll hwf.1 2 _) rfl p2 p3
  rw [q1]
  simp only [pure, Except.pure]
  rw [h.final_orders] at q3 ⊢
  have hc2 := eq_range_map _ q2 q3
  rw [hc2]
  rfl

/-- `_prune_from_ds` only looks at the atom, the number of its aromatic bonds and its bond count -/
def pruneAtom (a : Atom) (nArom c2 : Nat) : Py Bool :=
  PMol.pruneFromDs { atoms := [a], ds := [(0, List.replicate nArom 0)], counts2 := [c2] } 0

theorem pruneFromDs_eq_pruneAtom {m : PMol} {node : Nat} {adj : List Nat} {a : Atom} {c2 : Nat}
    (h1 : lookup node m.ds = some adj) (h2 : m.atoms[node]? = some a) (h3 : m.counts2[node]? = some c2) :
    m.pruneFromDs node = pruneAtom a adj.length c2 := by
  unfold pruneAtom PMol.pruneFromDs
  have e1 : getKey m.ds node = .ok adj := by unfold getKey; rw [h1]
  have e2 : getIdx m.atoms node = .ok a := getIdx_ok.2 h2
  have e3 : getIdx m.counts2 node = .ok c2 := getIdx_ok.2 h3
  have e4 : adj.isEmpty = (List.replicate adj.length 0).isEmpty := by cases adj <;> rfl
  simp only [e1, e2, e3, bind, Except.bind]
  simp only [e4, getKey, lookup, beq_self_eq_true, if_true, getIdx,
    List.getElem?_cons_zero, List.length_replicate]

structure PruneRow where
  name : String
  element : Str
  hCount : Option Nat
  charge : Int
  nArom : Nat
  other2 : Nat
  needsPi : Bool

def PruneRow.run (r : PruneRow) : Py Bool :=
  pruneAtom { element := r.element, isAromatic := true, hCount := r.hCount, charge := r.charge }
    r.nArom (3 * r.nArom + r.other2)

def pruneTable : List PruneRow := [
  ⟨"c  (ring CH)", ['C'], none, 0, 2, 0, true⟩,
  ⟨"c(C)", ['C'], none, 0, 2, 2, true⟩,
  ⟨"c fused", ['C'], none, 0, 3, 0, true⟩,
  ⟨"c(=O)", ['C'], none, 0, 2, 4, false⟩,
  ⟨"[cH]", ['C'], some 1, 0, 2, 0, true⟩,
  ⟨"[cH-]", ['C'], some 1, -1, 2, 0, false⟩,
  ⟨"[c-](C)", ['C'], some 0, -1, 2, 2, false⟩,
  ⟨"[c-] fused", ['C'], some 0, -1, 3, 0, false⟩,
  ⟨"[cH+]", ['C'], some 1, 1, 2, 0, false⟩,
  ⟨"n pyridine", ['N'], none, 0, 2, 0, true⟩,
  ⟨"n(C)", ['N'], none, 0, 2, 2, false⟩,
  ⟨"n fused", ['N'], none, 0, 3, 0, false⟩,
  ⟨"[nH]", ['N'], some 1, 0, 2, 0, false⟩,
  ⟨"[n+](C)", ['N'], some 0, 1, 2, 2, true⟩,
  ⟨"[nH+]", ['N'], some 1, 1, 2, 0, true⟩,
  ⟨"[n+] fused", ['N'], some 0, 1, 3, 0, true⟩,
  ⟨"[n-]", ['N'], some 0, -1, 2, 0, false⟩,
  ⟨"o", ['O'], none, 0, 2, 0, false⟩,
  ⟨"[o+]", ['O'], some 0, 1, 2, 0, true⟩,
  ⟨"s", ['S'], none, 0, 2, 0, false⟩,
  ⟨"s(=O)", ['S'], none, 0, 2, 4, false⟩,
  ⟨"[s+]", ['S'], some 0, 1, 2, 0, true⟩,
  ⟨"[se]", ['S', 'e'], some 0, 0, 2, 0, false⟩,
  ⟨"p", ['P'], none, 0, 2, 0, true⟩,
  ⟨"p(C)", ['P'], none, 0, 2, 2, false⟩,
  ⟨"[pH]", ['P'], some 1, 0, 2, 0, false⟩,
  ⟨"b", ['B'], none, 0, 2, 0, true⟩,
  ⟨"b(C)", ['B'], none, 0, 2, 2, false⟩ ]


theorem filter_length_one {l : List Nat} (hnd : l.Nodup) {a : Nat} (ha : a ∈ l) (p : Nat → Bool)
    (hp : ∀ b ∈ l, p b = true ↔ b = a) : (l.filter p).length = 1 := by
  induction l with
  | nil => cases ha
  | cons x xs ih =>
    simp only [List.nodup_cons] at hnd
    by_cases hx : x = a
    · subst hx
      have : xs.filter p = [] := by
        rw [List.filter_eq_nil_iff]
        intro b hb hpb
        have := (hp b (List.mem_cons_of_mem _ hb)).1 hpb
        subst this
        exact hnd.1 hb
      rw [List.filter_cons, if_pos ((hp x (by simp)).2 rfl), this]; rfl
    · have hpx : ¬ p x = true := fun h => hx ((hp x (by simp)).1 h)
      rw [List.filter_cons, if_neg hpx]
      simp only [List.mem_cons] at ha
      exact ih hnd.2 (ha.resolve_left (Ne.symm hx)) (fun b hb => hp b (List.mem_cons_of_mem _ hb))

/-- every kept atom gets exactly one double bond inside the former aromatic system, every pruned
    atom none (`l = ds[k]` lists the aromatic neighbours of `k`; the bond `k – b` becomes double iff
    `matchedPair k b`) -/
theorem KekCtx.double_bond_count {m : PMol} {kept l2n : List Nat} {pg : Graph} {mt : Matching}
    (h : KekCtx m kept l2n pg mt) {k : Nat} {l : List Nat} (hkl : (k, l) ∈ m.ds) :
    (l.filter fun b => matchedPair l2n mt k b).length = if k ∈ l2n then 1 else 0 := by
  split
  · rename_i hk
    have hl : dsAdj m k = l := by
      unfold dsAdj; rw [lookup_of_mem h.hwf.2.2.2.2.2.1 hkl]; rfl
    have ht := List.idxOf_lt_length_of_mem hk
    obtain ⟨j, hj⟩ := h.mt_some ht
    obtain ⟨_, hjl, hmem, _⟩ := h.matched hj
    rw [getD_idxOf hk, hl] at hmem
    apply filter_length_one (h.hwf.2.2.2.2.2.2.1 _ hkl).2.1 hmem
    intro b _
    rw [h.matchedPair_iff]
    constructor
    · rintro ⟨t, j', hm, ha, rfl⟩
      have ht' := (h.matched hm).1
      have : t = l2n.idxOf k := by rw [← ha, idxOf_getD h.l2n_nodup ht']
      subst this
      rw [hj] at hm
      cases hm
      rfl
    · rintro rfl
      exact ⟨_, _, hj, getD_idxOf hk, rfl⟩
  · rename_i hk
    rw [List.length_eq_zero_iff, List.filter_eq_nil_iff]
    intro b _ hb
    simp only [matchedPair, Bool.and_eq_true, List.contains_iff_mem] at hb
    exact hk hb.1.1

end SV
