/-
  Optional companion to Proofs/Parity.lean: `inversions` versus Mathlib's `Equiv.Perm.sign`.

  For a permutation `σ` of `Fin n`, written in one-line notation `permList σ = [σ 0, σ 1, …]`,
      `Equiv.Perm.sign σ = (-1) ^ inversions (permList σ)`          (`sign_eq_neg_one_pow_inversions`)
  so `inversions l % 2 = 1` iff the permutation is odd in Mathlib's sense (`sign_eq_neg_one_iff`).
  Every permutation `l` of `List.range n` (such as `decoderOrder out`) is the one-line notation
  of a permutation of `Fin n` (`exists_perm_of_perm_range`).

  This is the only file of the C04 development that imports Mathlib.
-/
import Mathlib.GroupTheory.Perm.Sign
import SelfiesVerif.Proofs.Parity

namespace SV

open List Equiv

/-- one-line notation of a permutation of `Fin n` -/
def permList {n : Nat} (σ : Perm (Fin n)) : List Nat := List.ofFn fun i => (σ i : Nat)

@[simp] theorem permList_length {n : Nat} (σ : Perm (Fin n)) : (permList σ).length = n := by
  simp [permList]

theorem permList_getElem {n : Nat} (σ : Perm (Fin n)) (i : Nat) (h : i < (permList σ).length) :
    (permList σ)[i] = (σ ⟨i, by simpa using h⟩ : Nat) := by
  simp [permList]

theorem permList_perm_range {n : Nat} (σ : Perm (Fin n)) : (permList σ).Perm (List.range n) := by
  have hnd : (permList σ).Nodup := by
    unfold permList
    rw [List.nodup_ofFn]
    intro i j hij
    exact σ.injective (Fin.ext hij)
  have hsub : permList σ ⊆ List.range n := by
    intro x hx
    unfold permList at hx
    rw [List.mem_ofFn] at hx
    obtain ⟨i, rfl⟩ := hx
    exact List.mem_range.2 (σ i).isLt
  exact (List.subperm_of_subset hnd hsub).perm_of_length_le (by simp)

theorem eq_one_of_permList_eq_range {n : Nat} (σ : Perm (Fin n)) (h : permList σ = List.range n) :
    σ = 1 := by
  ext i
  have h1 := permList_getElem σ i (by simp)
  have h2 : (permList σ)[i.val]'(by simp) = (List.range n)[i.val]'(by simp) := by
    simp only [h]
  rw [h1] at h2
  simpa using h2

/-- entries of a list after an adjacent transposition -/
theorem getElem_swap_adjacent (l₁ l₂ : List Nat) (a b : Nat) (i : Nat)
    (h : i < (l₁ ++ b :: a :: l₂).length) :
    (l₁ ++ b :: a :: l₂)[i] =
      (l₁ ++ a :: b :: l₂)[if i = l₁.length then l₁.length + 1
        else if i = l₁.length + 1 then l₁.length else i]'(by
          simp only [length_append, length_cons] at h ⊢; split <;> [omega; (split <;> omega)]) := by
  grind

theorem permList_mul_swap {n : Nat} (σ : Perm (Fin n)) (l₁ l₂ : List Nat) (a b : Nat)
    (h : permList σ = l₁ ++ a :: b :: l₂) (hk : l₁.length + 1 < n) :
    permList (σ * swap ⟨l₁.length, by omega⟩ ⟨l₁.length + 1, hk⟩) = l₁ ++ b :: a :: l₂ := by
  have hlen : n = (l₁ ++ a :: b :: l₂).length := by rw [← h]; simp
  apply List.ext_getElem
  · simp only [permList_length, length_append, length_cons] at hlen ⊢; omega
  · intro i h₁ h₂
    rw [getElem_swap_adjacent, permList_getElem]
    have hi : i < n := by simpa using h₁
    simp only [Perm.coe_mul, Function.comp_apply]
    by_cases c1 : i = l₁.length
    · subst c1
      simp only [if_true]
      have : (⟨l₁.length, hi⟩ : Fin n) = ⟨l₁.length, by omega⟩ := rfl
      rw [swap_apply_left]
      have := permList_getElem σ (l₁.length + 1) (by simpa using hk)
      rw [← this]
      simp only [h]
    · by_cases c2 : i = l₁.length + 1
      · subst c2
        simp only [if_neg c1, if_true]
        rw [swap_apply_right]
        have := permList_getElem σ l₁.length (by simp; omega)
        rw [← this]
        simp only [h]
      · simp only [if_neg c1, if_neg c2]
        rw [swap_apply_of_ne_of_ne (by simpa [Fin.ext_iff] using c1) (by simpa [Fin.ext_iff] using c2)]
        have := permList_getElem σ i (by simpa using hi)
        rw [← this]
        simp only [h]

theorem sign_eq_neg_one_pow_of_inversions {n : Nat} (m : Nat) :
    ∀ σ : Perm (Fin n), inversions (permList σ) = m → Perm.sign σ = (-1) ^ m := by
  induction m with
  | zero =>
    intro σ h
    have := eq_range_of_perm_of_inversions_eq_zero _ n (permList_perm_range σ) h
    rw [eq_one_of_permList_eq_range σ this]
    simp
  | succ m ih =>
    intro σ h
    have hns : ¬ (permList σ).Pairwise (· ≤ ·) := fun hp => by
      rw [(inversions_eq_zero_iff _).2 hp] at h; omega
    obtain ⟨l₁, a, b, l₂, hl, hab⟩ := exists_descent _ hns
    have hk : l₁.length + 1 < n := by
      have : (permList σ).length = n := permList_length σ
      rw [hl] at this
      simp only [length_append, length_cons] at this
      omega
    have hsw := permList_mul_swap σ l₁ l₂ a b hl hk
    have hinv := inversions_swap_adjacent l₁ l₂ b a hab
    rw [← hl, h] at hinv
    have hm : inversions (permList (σ * swap ⟨l₁.length, by omega⟩ ⟨l₁.length + 1, hk⟩)) = m := by
      rw [hsw]; omega
    have hih := ih _ hm
    rw [Perm.sign_mul, Perm.sign_swap (by simp [Fin.ext_iff])] at hih
    rw [pow_succ, ← hih]
    simp

/-- `inversions` of the one-line notation determines Mathlib's `sign` -/
theorem sign_eq_neg_one_pow_inversions {n : Nat} (σ : Perm (Fin n)) :
    Perm.sign σ = (-1) ^ inversions (permList σ) :=
  sign_eq_neg_one_pow_of_inversions _ σ rfl

/-- odd number of inversions iff odd permutation -/
theorem sign_eq_neg_one_iff {n : Nat} (σ : Perm (Fin n)) :
    Perm.sign σ = -1 ↔ inversions (permList σ) % 2 = 1 := by
  rw [sign_eq_neg_one_pow_inversions]
  rcases Nat.even_or_odd (inversions (permList σ)) with he | ho
  · rw [he.neg_one_pow]
    have := Nat.even_iff.1 he
    constructor
    · intro h; exact absurd h (by decide)
    · intro h; omega
  · rw [ho.neg_one_pow]
    have := Nat.odd_iff.1 ho
    simp [this]

/-- every permutation of `List.range n` is the one-line notation of a permutation of `Fin n` -/
theorem exists_perm_of_perm_range {n : Nat} (l : List Nat) (h : l.Perm (List.range n)) :
    ∃ σ : Perm (Fin n), permList σ = l := by
  have hlen : l.length = n := by rw [h.length_eq, length_range]
  have hlt : ∀ i (hi : i < l.length), l[i] < n :=
    fun i hi => List.mem_range.1 (h.subset (getElem_mem hi))
  have hnd : l.Nodup := h.symm.nodup nodup_range
  let f : Fin n → Fin n := fun i => ⟨l[i.val]'(by omega), hlt _ _⟩
  have hinj : Function.Injective f := by
    intro i j hij
    have h1 : l[i.val]'(by omega) = l[j.val]'(by omega) := congrArg Fin.val hij
    exact Fin.ext ((List.Nodup.getElem_inj_iff hnd).1 h1)
  refine ⟨Equiv.ofBijective f (Finite.injective_iff_bijective.1 hinj), ?_⟩
  apply List.ext_getElem (by simp [hlen])
  intro i h1 h2
  rw [permList_getElem]
  rfl

/-- The tag of a stereocentre is flipped iff the permutation that takes the written neighbour
    order to the decoder's neighbour order is odd in the sense of `Equiv.Perm.sign`. -/
theorem shouldInvertChirality_sign (m : PMol) (idx : Nat) (out : List PBond)
    (h : getOut m idx = .ok out) :
    ∃ σ : Perm (Fin out.length), permList σ = decoderOrder out ∧
      shouldInvertChirality m idx = .ok (decide (Perm.sign σ = -1)) := by
  obtain ⟨σ, hσ⟩ := exists_perm_of_perm_range _ (decoderOrder_perm out)
  refine ⟨σ, hσ, ?_⟩
  rw [shouldInvertChirality_eq m idx out h]
  congr 1
  have := sign_eq_neg_one_iff σ
  rw [hσ] at this
  by_cases hs : Perm.sign σ = -1
  · have h1 := this.1 hs
    simp [hs, h1]
  · have h1 : ¬ inversions (decoderOrder out) % 2 = 1 := fun h => hs (this.2 h)
    have h0 : inversions (decoderOrder out) % 2 = 0 := by omega
    simp [hs, h0]

end SV
