/-
  Helper lemmas for the end statement of property C07 (after the repair of finding F10):
  the symbols of the semantically robust alphabet are bracketed symbols in the sense of the
  tokenizer (`IsSymbol`), and a string rendered from items that are valid symbols or dots is
  seen by the decoder as streams of valid symbols without hanging bracket (the hypothesis of
  `C07_no_error`).
-/
import SelfiesVerif.Proofs.Alphabet
import SelfiesVerif.Proofs.DeriveValid
import SelfiesVerif.Proofs.Tokenize

namespace SV

/-! ### `validSymbol` from the dispatch facts -/

theorem validSymbol_branch {T : Table} {x : Str} (h1 : sliceFromEnd x 4 2 = ['c', 'h'])
    (h2 : (processBranchSymbol x).isSome = true) : validSymbol T x = true := by
  simp [validSymbol, h1, h2]

theorem validSymbol_ring {T : Table} {x : Str}
    (h1 : sliceFromEnd x 4 2 = ['n', 'g']) (h2 : (processRingSymbol x).isSome = true) :
    validSymbol T x = true := by
  simp [validSymbol, h1, h2]

theorem validSymbol_atom {T : Table} {x : Str} (h0 : sliceFromEnd x 4 2 ≠ ['c', 'h'])
    (h1 : sliceFromEnd x 4 2 ≠ ['n', 'g']) (h2 : (processAtomSymbol T x).isSome = true) :
    validSymbol T x = true := by
  have e0 : (sliceFromEnd x 4 2 == ['c', 'h']) = false := by simpa using h0
  have e1 : (sliceFromEnd x 4 2 == ['n', 'g']) = false := by simpa using h1
  simp only [validSymbol, e0, e1, Bool.false_eq_true, if_false, h2]
  split <;> rfl

theorem validSymbol_structSyms (T : Table) : ∀ x ∈ structSyms, validSymbol T x = true := by
  have hb : ∀ x ∈ branchSyms, sliceFromEnd x 4 2 = ['c', 'h']
      ∧ (processBranchSymbol x).isSome = true := by decide
  have hr : ∀ x ∈ ringSyms, sliceFromEnd x 4 2 = ['n', 'g']
      ∧ (processRingSymbol x).isSome = true := by decide
  intro x hx
  rcases mem_structSyms.1 hx with h | h
  · exact validSymbol_branch (hb x h).1 (hb x h).2
  · exact validSymbol_ring (hr x h).1 (hr x h).2

/-! ### alphabet symbols are bracketed symbols -/

theorem isSymbol_structSyms : ∀ x ∈ structSyms, IsSymbol x := by decide

theorem isSymbol_indexAlphabet : ∀ x ∈ Gen.indexAlphabet, IsSymbol x := by decide +kernel

theorem isSymbol_atomSym {k : Str} (hk : KeyShape k) {b : Str} {m : Nat}
    (hb : (b, m) ∈ bondPrefixes) : IsSymbol ('[' :: b ++ k ++ [']']) := by
  refine ⟨b ++ k, ?_, rfl⟩
  have hbc : ∀ c ∈ b, c ≠ '[' ∧ c ≠ ']' ∧ c ≠ '.' := by
    simp only [bondPrefixes, List.mem_cons, Prod.mk.injEq, List.not_mem_nil, or_false] at hb
    rcases hb with ⟨rfl, _⟩ | ⟨rfl, _⟩ | ⟨rfl, _⟩ <;> decide
  have hkc := keyShape_chars hk
  have hall : ∀ c ∈ b ++ k, c ≠ '[' ∧ c ≠ ']' ∧ c ≠ '.' := by
    intro c hc
    rcases List.mem_append.1 hc with h | h
    · exact hbc c h
    · exact hkc c h
  exact ⟨fun h => (hall _ h).1 rfl, fun h => (hall _ h).2.1 rfl, fun h => (hall _ h).2.2 rfl⟩

/-- every symbol of the alphabet of a table whose keys (other than `?`) have the shape `E`, `E+C`,
    `E-C` is a bracketed symbol without inner bracket and without dot -/
theorem isSymbol_robustAlphabet {T : Constraints}
    (hT : ∀ k c, (k, c) ∈ T → k ≠ qKey → KeyShape k) : ∀ x ∈ robustAlphabet T, IsSymbol x := by
  intro x hx
  rcases mem_robustAlphabet.1 hx with h | h | h
  · obtain ⟨k, c, hkc, hq, b, m, hb, _, rfl⟩ := mem_atomSyms.1 h
    exact isSymbol_atomSym (hT k c hkc hq) hb
  · exact isSymbol_structSyms x h
  · exact isSymbol_indexAlphabet x h

/-! ### what the decoder sees of a rendered item list -/

theorem fragmentsOf_forall (P : Str → Prop) : ∀ (items : List Str),
    (∀ x ∈ items, x ≠ dotItem → P x) → ∀ f ∈ fragmentsOf items, ∀ s ∈ f, P s
  | [], _ => by simp [fragmentsOf]
  | x :: xs, h => by
    have ih := fragmentsOf_forall P xs (fun y hy => h y (List.mem_cons_of_mem _ hy))
    intro f hf s hs
    unfold fragmentsOf at hf
    split at hf
    · rcases List.mem_cons.1 hf with rfl | hf
      · simp at hs
      · exact ih f hf s hs
    · rename_i hne
      have hx : P x := h x List.mem_cons_self hne
      cases hfr : fragmentsOf xs with
      | nil => exact absurd hfr (fragmentsOf_ne_nil xs)
      | cons hd tl =>
        rw [hfr] at hf ih
        simp only [List.headD_cons, List.tail_cons] at hf
        rcases List.mem_cons.1 hf with rfl | hf
        · rcases List.mem_cons.1 hs with rfl | hs
          · exact hx
          · exact ih hd List.mem_cons_self s hs
        · exact ih f (List.mem_cons_of_mem _ hf) s hs

/-- a string rendered from items each of which is the dot or a bracketed symbol that the decoder
    accepts under `T` satisfies the hypothesis of `C07_no_error` -/
theorem streams_of_valid_items {T : Table} {items : List Str}
    (h : ∀ x ∈ items, x ≠ dotItem → IsSymbol x ∧ validSymbol T x = true) :
    ∀ frag ∈ splitOnChar '.' (render items), (tokenizeFragment frag).hanging = false ∧
      ∀ t ∈ (tokenizeFragment frag).toks, validSymbol T t.2 = true := by
  have hitem : ∀ x ∈ items, IsItem x := by
    intro x hx
    by_cases hd : x = dotItem
    · exact Or.inr hd
    · exact Or.inl (h x hx hd).1
  have hmap := decoder_tokens hitem
  intro frag hfrag
  have hm : tokenizeFragment frag ∈ (splitOnChar '.' (render items)).map tokenizeFragment :=
    List.mem_map.2 ⟨frag, hfrag, rfl⟩
  rw [hmap] at hm
  obtain ⟨f, hf, he⟩ := List.mem_map.1 hm
  rw [← he]
  refine ⟨rfl, ?_⟩
  intro t ht
  have ht2 : t.2 ∈ f.filter (· != nopSym) := (List.of_mem_zip ht).2
  have ht3 : t.2 ∈ f := (List.mem_filter.1 ht2).1
  exact fragmentsOf_forall (fun s => validSymbol T s = true) items (fun x hx hd => (h x hx hd).2)
    f hf t.2 ht3

end SV
