/-
  Reader-side atom facts.

  (1) `smilesToAtom_atomText`: the SMILES atom reader applied to the text the SMILES writer
      produces for a well-formed non-aromatic atom returns exactly that atom.
  (2) `atomText_lex`: the lexical shape of that text (one capital letter, `Br`, `Cl`, or a
      bracketed body without `]`).
  (3) `decodeGraph_atoms_wfb`: every atom of a decoded graph is well formed (`Atom.wfb`), via the
      generic `decodeGraph_atoms_all`.
-/
import SelfiesVerif.Proofs.RoundTripSyms
import SelfiesVerif.Proofs.ParserAtoms
import SelfiesVerif.Proofs.DecoderNonArom
import SelfiesVerif.Spec.SmilesTokens
import SelfiesVerif.Proofs.ReaderAtomLex

namespace SV

/-! ### (1) read-back -/

/-- with `h_count` given, `atom_to_smiles(a, brackets=True)` is the unbracketed text in brackets -/
theorem atomToSmiles_brackets (a : Atom) (n : Nat) (hh : a.hCount = some n) (body : Str)
    (hb : atomToSmiles a false = .ok body) : atomToSmiles a true = .ok ('[' :: (body ++ [']'])) := by
  cases har : a.isAromatic with
  | true => simp [atomToSmiles, har] at hb
  | false =>
    simp only [atomToSmiles, har, hh, Option.isNone_some, Bool.and_false, Bool.false_and,
      Bool.false_eq_true, if_false, if_true, List.nil_append, List.append_nil,
      Except.ok.injEq] at hb ⊢
    rw [← hb]
    simp only [List.append_assoc, List.cons_append, List.nil_append]

theorem hTextM_map_some (h : Option Char) : hTextM (h.map some) = hTextS h := by
  cases h <;> rfl

/-- the bracketed text of an atom with `h_count` given, as a token assembled from pieces -/
theorem atomText_smilesTok (a : Atom) (hs : AtomShape a) (hna : a.isAromatic = false) (n : Nat)
    (hh : a.hCount = some n) (e1 : Char) (e2 : Option Char) (he : a.element = e1 :: e2.toList) :
    atomText a = smilesTok (atomParts none a e1 e2).iso e1 e2 (atomParts none a e1 e2).chir
      ((atomParts none a e1 e2).h.map some) (chgTextS (atomParts none a e1 e2).chg) [] := by
  have hb := atomToSmiles_parts a hs hna none e1 e2 he
  unfold atomText
  rw [atomToSmiles_brackets a n hh _ hb]
  simp only [smilesTok, SelfiesParts.inner, hTextM_map_some, List.append_assoc, List.cons_append,
    List.nil_append]
  rfl

theorem capitalizeAscii_element (e1 : Char) (e2 : Option Char) (h1 : isAsciiUpper e1 = true)
    (h2 : ∀ c, e2 = some c → isAsciiLower c = true) :
    capitalizeAscii (e1 :: e2.toList) = e1 :: e2.toList := by
  have hu : asciiUpperChar e1 = e1 := by
    simp [asciiUpperChar, isAsciiUpper_not_lower h1]
  cases e2 with
  | none => simp [capitalizeAscii, hu]
  | some c =>
    have hl : isAsciiUpper c = false := by
      have := (isAsciiLower_iff c).1 (h2 c rfl)
      rw [Bool.eq_false_iff, ne_eq, isAsciiUpper_iff]; omega
    simp [capitalizeAscii, hu, asciiLowerChar, hl]

/-- the post-processing of the SMILES reader on the writer's pieces gives the atom back -/
theorem smilesPost_atomParts (ok : AsciiDigitsOK) (a : Atom) (hwf : AtomWF a)
    (hna : a.isAromatic = false) (n : Nat) (hh : a.hCount = some n) (e1 : Char) (e2 : Option Char)
    (he : a.element = e1 :: e2.toList) (h1 : isAsciiUpper e1 = true)
    (h2 : ∀ c, e2 = some c → isAsciiLower c = true) :
    smilesPost (atomParts none a e1 e2).iso (e1 :: e2.toList) (atomParts none a e1 e2).chir
      ((atomParts none a e1 e2).h.map some) (chgTextS (atomParts none a e1 e2).chg) = some a := by
  -- isotope
  have F_iso : isoOf (atomParts none a e1 e2).iso = some a.isotope := by
    cases hi : a.isotope with
    | none => simp only [atomParts, isoOf, hi]; rfl
    | some k =>
      simp only [atomParts, isoOf, hi]
      have hne : (natToStr k).isEmpty = false := by
        cases h : natToStr k with
        | nil => exact absurd h (natToStr_ne_nil k)
        | cons _ _ => rfl
      simp only [hne, Bool.false_eq_true, if_false,
        pyIntOfDigits_natToStr ok k (hwf.isotope k hi), Option.map_some]
  -- element
  have F_cap := capitalizeAscii_element e1 e2 h1 h2
  have F_el : memStr (e1 :: e2.toList) Gen.elements = true := by
    rw [memStr_iff, ← he]; exact hwf.element
  have F_ar : ((e1 :: e2.toList).all isAsciiLower && memStr (e1 :: e2.toList) Gen.aromaticSubset)
      = false := by
    simp [List.all_cons, isAsciiUpper_not_lower h1]
  -- charge
  have F_chg : smilesCharge (chgTextS (atomParts none a e1 e2).chg) = some a.charge := by
    simp only [atomParts]
    by_cases h0 : a.charge = 0
    · simp [h0, chgTextS, smilesCharge]
    · by_cases hneg : a.charge < 0
      · simp only [h0, if_false, hneg, if_true, chgTextS,
          smilesCharge_natToStr ok '-' _ hwf.charge, signed]
        simp; omega
      · simp only [h0, if_false, hneg, chgTextS,
          smilesCharge_natToStr ok '+' _ hwf.charge, signed]
        simp; omega
  -- chirality
  have F_chir : optStr (atomParts none a e1 e2).chir = a.chirality := by
    simp only [atomParts]
    exact optStr_getD _ (by rcases hwf.chirality with h | h | h <;> rw [h] <;> simp)
  -- hydrogens
  have F_h : smilesHCount ((atomParts none a e1 e2).h.map some) = n := by
    cases n with
    | zero =>
      simp only [atomParts, hh]
      split
      · simp only [Option.map_some, smilesHCount,
          decimalVal?_of_isAsciiDigit ok (show isAsciiDigit '0' = true by decide)]
        rfl
      · rfl
    | succ m =>
      have hm : m + 1 < 10 := by have := hwf.hCount _ hh; omega
      simp only [atomParts, hh, Option.map_some, smilesHCount, Option.getD_some,
        decimalVal?_of_isAsciiDigit ok (isAsciiDigit_digitChar hm), digitChar_toNat hm]
      omega
  unfold smilesPost
  rw [F_iso, F_chg, F_chir, F_h, F_cap, F_ar, F_el]
  simp only [Bool.not_true, Bool.false_eq_true, if_false, ← he]
  obtain ⟨el, ar, iso, chir, hcount, chg⟩ := a
  simp only at hna hh
  subst hna hh
  rfl

/-- **Read-back (SMILES side).**  The SMILES atom reader applied to the text the SMILES writer
    produces for a well-formed non-aromatic atom returns exactly that atom. -/
theorem smilesToAtom_atomText (a : Atom) (hw : a.wfb = true) (hna : a.isAromatic = false) :
    smilesToAtom (atomText a) = some a := by
  obtain ⟨hW, hrb⟩ := Atom.wfb_sound a hw
  obtain ⟨e1, e2, he, h1, h2⟩ := isElementShape_split (elementTablesOK.shape _ hW.element)
  cases hh : a.hCount with
  | none =>
    obtain ⟨hi, hc, hq⟩ := hW.hNone hh
    have horg : memStr a.element Gen.organicSubset = true := by
      unfold readback at hrb
      rw [hh] at hrb
      simp only at hrb
      split at hrb
      · assumption
      · have := congrArg Atom.hCount hrb
        rw [hh] at this; cases this
    have htxt : atomText a = a.element := by
      unfold atomText atomToSmiles
      simp [hna, hh, hi, hc, hq]
    rw [htxt]
    unfold smilesToAtom
    have hbr : (a.element.head? == some '[' && a.element.getLast? == some ']') = false := by
      rw [he]
      have : e1 ≠ '[' := by rintro rfl; revert h1; decide
      simp [this]
    rw [hbr]
    simp only [Bool.false_eq_true, if_false, horg, if_true]
    obtain ⟨el, ar, iso, chir, hcount, chg⟩ := a
    simp only at hna hh hi hc hq
    subst hna hh hi hc hq
    rfl
  | some n =>
    rw [atomText_smilesTok a hW.toAtomShape hna n hh e1 e2 he]
    have hP := atomParts_ok a hW.toAtomShape none (fun c hc => by cases hc) e1 e2 h1 h2
    have hctx : SmilesCtxOK (atomParts none a e1 e2).iso e1 e2 (atomParts none a e1 e2).chir
        ((atomParts none a e1 e2).h.map some) := by
      refine ⟨fun c hc => isDecimal_of_isAsciiDigit asciiDigitsOK (hP.iso c hc), Or.inl h1, h2,
        hP.chir, ?_⟩
      intro d hd
      cases hph : (atomParts none a e1 e2).h with
      | none => rw [hph] at hd; cases hd
      | some d' =>
        rw [hph] at hd
        simp only [Option.map_some, Option.some.injEq] at hd
        subst hd
        exact isDecimal_of_isAsciiDigit asciiDigitsOK (hP.h _ hph)
    have hchg : ChgOK (chgTextS (atomParts none a e1 e2).chg) := by
      simp only [atomParts]
      split
      · exact ChgOK.none
      · simp only [chgTextS]
        exact ChgOK.natToStr asciiDigitsOK _ (by split <;> simp) _
    rw [smilesToAtom_build asciiDigitsOK _ _ _ _ _ _ _ hctx hchg ClsOK.none]
    exact smilesPost_atomParts asciiDigitsOK a hW hna n hh e1 e2 he h1 h2

/-- non-vacuity: a bracket atom with every field set, `[CH0]` (an explicit `H0`), `[Fe]`
    (`h_count = 0` without H text) and the bare `Cl` (`h_count = None`) satisfy the hypotheses -/
example :
    let a : Atom := { element := ['C'], isAromatic := false, isotope := some 13,
                      chirality := some ['@', '@'], hCount := some 1, charge := -1 }
    let b : Atom := { element := ['C'], isAromatic := false, hCount := some 0 }
    let c : Atom := { element := ['F', 'e'], isAromatic := false, hCount := some 0 }
    let d : Atom := { element := ['C', 'l'], isAromatic := false }
    a.wfb = true ∧ atomText a = "[13C@@H1-1]".toList ∧ b.wfb = true ∧ atomText b = "[CH0]".toList
    ∧ c.wfb = true ∧ atomText c = "[Fe]".toList ∧ d.wfb = true ∧ atomText d = "Cl".toList := by
  decide +kernel

/-! ### (2) lexical shape of the atom text -/

-- what the SMILES tokenizer has to recognise: one capital letter, `Br`, `Cl`, or a bracketed
-- body without `]`: `AtomLex` is defined in Proofs/ReaderAtomLex.lean

/-- executable form of the three unbracketed cases -/
def bareLexOK (e : Str) : Bool :=
  (e.length == 1 && e.all isAsciiUpper) || e == ['B', 'r'] || e == ['C', 'l']

theorem AtomLex.of_bareLexOK {e : Str} (h : bareLexOK e = true) : AtomLex e := by
  simp only [bareLexOK, Bool.or_eq_true, Bool.and_eq_true, beq_iff_eq] at h
  rcases h with (⟨hl, hu⟩ | rfl) | rfl
  · match e, hl, hu with
    | [c], _, hu =>
      simp only [List.all_cons, List.all_nil, Bool.and_true] at hu
      exact AtomLex.one c hu
  · exact AtomLex.br
  · exact AtomLex.cl

/-- side condition on the generated table: every unbracketed atom text is one capital letter,
    `Br` or `Cl` -/
theorem organicSubset_bareLexOK : ∀ e ∈ Gen.organicSubset, bareLexOK e = true := by decide

theorem organicSubset_lex : ∀ e ∈ Gen.organicSubset, AtomLex e :=
  fun e he => AtomLex.of_bareLexOK (organicSubset_bareLexOK e he)

/-- **Lexical shape.**  The text the SMILES writer produces for a well-formed non-aromatic atom is
    one capital letter, `Br`, `Cl`, or `[` body `]` with no `]` in the body. -/
theorem atomText_lex (a : Atom) (hw : a.wfb = true) (hna : a.isAromatic = false) :
    AtomLex (atomText a) := by
  obtain ⟨hW, hrb⟩ := Atom.wfb_sound a hw
  obtain ⟨e1, e2, he, h1, h2⟩ := isElementShape_split (elementTablesOK.shape _ hW.element)
  cases hh : a.hCount with
  | none =>
    obtain ⟨hi, hc, hq⟩ := hW.hNone hh
    have horg : memStr a.element Gen.organicSubset = true := by
      unfold readback at hrb
      rw [hh] at hrb
      simp only at hrb
      split at hrb
      · assumption
      · have := congrArg Atom.hCount hrb
        rw [hh] at this; cases this
    have htxt : atomText a = a.element := by
      unfold atomText atomToSmiles
      simp [hna, hh, hi, hc, hq]
    rw [htxt]
    exact organicSubset_lex _ ((memStr_iff _ _).1 horg)
  | some n =>
    have hP := atomParts_ok a hW.toAtomShape none (fun c hc => by cases hc) e1 e2 h1 h2
    obtain ⟨body, hbody, hsym⟩ := SelfiesParts.isSymbol _ hP
    have hb := atomToSmiles_parts a hW.toAtomShape hna none e1 e2 he
    have htxt : atomText a = '[' :: (body ++ [']']) := by
      unfold atomText
      rw [atomToSmiles_brackets a n hh _ hb]
      simp only [SelfiesParts.sym, symbolOf, atomParts, Option.toList_none, List.nil_append,
        List.cons_append, List.cons.injEq, true_and] at hsym
      simp only [atomParts]
      rw [hsym]
    rw [htxt]
    exact AtomLex.bracket body (fun c hc => by rintro rfl; exact hbody.2.1 hc)

example : AtomLex (atomText ({ element := ['C'], isAromatic := false, isotope := some 13,
                               chirality := some ['@', '@'], hCount := some 1, charge := -1 } : Atom)) :=
  atomText_lex _ (by decide +kernel) rfl

/-! ### (3) every decoded atom is well formed -/

theorem span_snd_suffix {α} (p : α → Bool) (s : List α) : (s.span p).2 <:+ s :=
  ⟨(s.span p).1, span_append_eq p s⟩

theorem takeOpt_snd_suffix (p : Char → Bool) (s : Str) : (takeOpt p s).2 <:+ s := by
  unfold takeOpt
  split
  · split
    · exact List.suffix_cons _ _
    · exact List.suffix_refl _
  · exact List.suffix_refl _

theorem takeChirality_snd_suffix (s : Str) : (takeChirality s).2 <:+ s := by
  unfold takeChirality
  split
  · exact (List.suffix_cons _ _).trans (List.suffix_cons _ _)
  · exact List.suffix_cons _ _
  · exact List.suffix_refl _

theorem takeSelfiesH_snd_suffix (s : Str) : (takeSelfiesH s).2 <:+ s := by
  unfold takeSelfiesH
  split
  · split
    · exact (List.suffix_cons _ _).trans (List.suffix_cons _ _)
    · exact List.suffix_refl _
  · exact List.suffix_refl _

theorem takeSelfiesCharge_snd_suffix (s : Str) : (takeSelfiesCharge s).2 <:+ s := by
  unfold takeSelfiesCharge
  split
  · split
    · exact (span_snd_suffix _ _).trans ((List.suffix_cons _ _).trans (List.suffix_cons _ _))
    · exact List.suffix_refl _
  · exact List.suffix_refl _

/-- the organic shortcut of `_process_atom_selfies_no_cache`: if `symbol[1 + len(bond_char):-1]`
    is in the organic subset, the element the regular expression captured is that string -/
theorem selfies_scan_organic (ok : AsciiDigitsOK) (tok : ElementTablesOK) (r0 : Str) (e1 : Char)
    (r2 : Str) (hspan : (r0.span isDecimal).2 = e1 :: r2)
    (h6 : (takeSelfiesCharge (takeSelfiesH (takeChirality (takeOpt isAsciiLower r2).2).2).2).2
      = [']'])
    (horg : r0.dropLast ∈ Gen.organicSubset) :
    e1 :: (takeOpt isAsciiLower r2).1.toList = r0.dropLast := by
  have hsuf : [']'] <:+ r0 := by
    rw [← h6]
    refine (takeSelfiesCharge_snd_suffix _).trans ((takeSelfiesH_snd_suffix _).trans
      ((takeChirality_snd_suffix _).trans ((takeOpt_snd_suffix _ _).trans ?_)))
    have := span_snd_suffix isDecimal r0
    rw [hspan] at this
    exact (List.suffix_cons _ _).trans this
  obtain ⟨t, ht⟩ := hsuf
  have hdl : r0.dropLast = t := by rw [← ht, List.dropLast_concat]
  rw [hdl] at horg ⊢
  obtain ⟨x1, x2, hx, hx1, hx2⟩ := isElementShape_split (tok.shape _ (tok.organic_sub _ horg))
  subst hx
  have hr0 : r0 = x1 :: (x2.toList ++ [']']) := by rw [← ht]; rfl
  have hsp := span_append_stop isDecimal [] x1 (x2.toList ++ [']']) (by simp)
    (isAsciiUpper_not_decimal ok hx1)
  rw [List.nil_append] at hsp
  rw [hr0, hsp] at hspan
  simp only [List.cons.injEq] at hspan
  obtain ⟨rfl, rfl⟩ := hspan
  rw [takeOpt_toList isAsciiLower x2 [']'] hx2 ⟨']', [], rfl, by decide⟩]

theorem selfiesCharge_bound (chg : Option (Char × Str)) (c : Int) (h : selfiesCharge chg = some c) :
    c.natAbs < 10 ^ Gen.intMaxStrDigits := by
  unfold selfiesCharge at h
  split at h
  · injection h with h; subst h
    exact Nat.pow_pos (by omega)
  · rename_i sgn ds
    cases hm : pyIntOfDigits ds with
    | none => rw [hm] at h; cases h
    | some m =>
      rw [hm] at h
      simp only [bind, Option.bind_some, pure, Option.map_some, Option.some.injEq] at h
      have := pyIntOfDigits_lt _ _ hm
      subst h
      split <;> simpa using this

theorem selfiesHCount_le (h : Option Char) : selfiesHCount h ≤ 9 := by
  unfold selfiesHCount
  split
  · omega
  · have := decimalVal?_getD_lt_ten ‹Char›; omega

/-- every atom `_process_atom_selfies_no_cache` returns is well formed -/
theorem processAtomSelfiesNoCache_wfb {sym : Str} {bi : Nat × Option Char} {a : Atom}
    (h : processAtomSelfiesNoCache sym = some (bi, a)) : a.wfb = true := by
  cases sym with
  | nil => simp [processAtomSelfiesNoCache] at h
  | cons c body =>
    by_cases hc : c = '['
    · subst hc
      rw [processAtomSelfiesNoCache_cons] at h
      split at h
      · rename_i e1 r2 hspan
        split at h
        · cases h
        · split at h
          · cases h
          · rename_i hup h6
            have h6' : (takeSelfiesCharge (takeSelfiesH (takeChirality
                (takeOpt isAsciiLower r2).2).2).2).2 = [']'] := by simpa using h6
            unfold selfiesPost at h
            split at h
            · -- organic shortcut
              rename_i horg
              rw [memStr_iff] at horg
              have hel := selfies_scan_organic asciiDigitsOK elementTablesOK _ e1 r2 hspan h6' horg
              simp only [Option.some.injEq, Prod.mk.injEq] at h
              obtain ⟨_, rfl⟩ := h
              rw [hel]
              refine wfb_of ⟨⟨elementTablesOK.organic_sub _ horg, Or.inl rfl,
                fun _ => ⟨rfl, rfl, rfl⟩, ?_, ?_⟩, Nat.pow_pos (by omega)⟩ (fun _ => horg)
              · intro n hn; cases hn
              · intro n hn; cases hn
            · -- general case
              cases hi : isoOf ((takeOpt isBondChar body).2.span isDecimal).1 with
              | none => rw [hi] at h; cases h
              | some isotope =>
                rw [hi] at h
                simp only at h
                split at h
                · cases h
                · rename_i hel
                  cases hq : selfiesCharge (takeSelfiesCharge (takeSelfiesH (takeChirality
                      (takeOpt isAsciiLower r2).2).2).2).1 with
                  | none => rw [hq] at h; cases h
                  | some charge =>
                    rw [hq] at h
                    simp only [Option.some.injEq, Prod.mk.injEq] at h
                    obtain ⟨_, rfl⟩ := h
                    refine wfb_of ⟨⟨?_, optStr_chirOK _ (takeChirality_fst_ok _), ?_, ?_,
                      isoOf_bound _ isotope hi⟩, selfiesCharge_bound _ charge hq⟩ ?_
                    · simpa [memStr_iff] using hel
                    · intro hn; cases hn
                    · intro n hn
                      simp only [Option.some.injEq] at hn
                      subst hn
                      exact selfiesHCount_le _
                    · intro hn; cases hn
      · cases h
    · unfold processAtomSelfiesNoCache at h
      split at h
      · rename_i heq; simp at heq; exact absurd heq.1 hc
      · cases h

theorem processAtomSymbol_wfb {T : Table} {sym : Str} {bi : Nat × Option Char} {a : Atom}
    (h : processAtomSymbol T sym = some (bi, a)) : a.wfb = true := by
  unfold processAtomSymbol at h
  split at h
  · cases h
  · rename_i bi' a' heq
    split at h
    · cases h
    · cases h
      exact processAtomSelfiesNoCache_wfb heq

/-- every atom of the graph satisfies `P` -/
def AllAtoms (P : Atom → Prop) (m : Mol) : Prop := ∀ a ∈ m.atoms, P a

theorem AllAtoms.addAtom {P : Atom → Prop} {m : Mol} (h : AllAtoms P m) {a : Atom} (ha : P a)
    (r attr) : AllAtoms P (m.addAtom a r attr).1 := by
  intro x hx
  simp only [Mol.addAtom, List.mem_append, List.mem_singleton] at hx
  rcases hx with hx | rfl
  · exact h x hx
  · exact ha

theorem AllAtoms.of_fin {P : Atom → Prop} {mol : Mol} {rings : List RingReq} {r : DState × Nat}
    (hI : AllAtoms P mol) (h : r.1.mol = mol ∧ r.1.rings = rings) : AllAtoms P r.1.mol := by
  rw [h.1]; exact hI

theorem deriveLoop_atoms_all (P : Atom → Prop) (T : Table)
    (hP : ∀ sym bi a, processAtomSymbol T sym = some (bi, a) → P a) (compat : Bool) :
    ∀ (fuel depth : Nat) (st : DState)
    (maxDerive : Option Nat) (nDerived state : Nat) (prev : Option Nat)
    (attrStack : Option (List Attribution)) (attrIndex : Nat) (r : DState × Nat),
    deriveLoop T compat fuel depth st maxDerive nDerived state prev attrStack attrIndex = .ok r →
    AllAtoms P st.mol → AllAtoms P r.1.mol := by
  intro fuel
  induction fuel with
  | zero => intro _ _ _ _ _ _ _ _ _ h; simp [deriveLoop] at h
  | succ fuel ih =>
    intro depth st maxDerive nDerived state prev attrStack attrIndex r h hI
    unfold deriveLoop at h
    dsimp only at h
    split at h
    · exact AllAtoms.of_fin hI (fin_ok h)
    · bind_at h with ⟨nx, hnx, h⟩
      split at h
      · exact AllAtoms.of_fin hI (fin_ok h)
      · rename_i index symbol stream'
        split at h
        · -- branch
          split at h
          · cases h
          · split at h
            · exact ih _ _ _ _ _ _ _ _ _ h hI
            · bind_at h with ⟨⟨binit, nextState⟩, hnb, h⟩
              dsimp only at h
              bind_at h with ⟨⟨q, nRead, stream2⟩, hri, h⟩
              dsimp only at h
              split at h
              · cases h
              · bind_at h with ⟨⟨st1, nb⟩, hrec, h⟩
                dsimp only at h
                have g1 := ih _ _ _ _ _ _ _ _ _ hrec hI
                exact ih _ _ _ _ _ _ _ _ _ h g1
        · split at h
          · -- ring
            split at h
            · cases h
            · split at h
              · exact ih _ _ _ _ _ _ _ _ _ h hI
              · bind_at h with ⟨⟨order, nextState⟩, hnr, h⟩
                dsimp only at h
                bind_at h with ⟨⟨q, nRead, stream2⟩, hri, h⟩
                dsimp only at h
                split at h
                · cases h
                · bind_at h with ⟨_, _, h⟩
                  split at h
                  · exact AllAtoms.of_fin hI (fin_ok h)
                  · exact ih _ _ _ _ _ _ _ _ _ h hI
          · split at h
            · -- epsilon
              split at h
              · exact ih _ _ _ _ _ _ _ _ _ h hI
              · exact AllAtoms.of_fin hI (fin_ok h)
            · -- atom
              split at h
              · cases h
              · rename_i bondOrder stereo atom hpa
                have hna : P atom := hP _ _ _ hpa
                generalize hnas : nextAtomState bondOrder (Atom.bondingCapacity T atom).toNat state = nas at h
                obtain ⟨bo, ns⟩ := nas
                dsimp only at h
                split at h
                · split at h
                  · have hI1 := hI.addAtom hna true (attrPush attrStack (index + attrIndex) symbol)
                    split at h
                    · exact AllAtoms.of_fin hI1 (fin_ok h)
                    · exact ih _ _ _ _ _ _ _ _ _ h hI1
                  · split at h
                    · exact AllAtoms.of_fin hI (fin_ok h)
                    · exact ih _ _ _ _ _ _ _ _ _ h hI
                · have hI1 := hI.addAtom hna false (attrPush attrStack (index + attrIndex) symbol)
                  split at h
                  · cases h
                  · bind_at h with ⟨mol1, hab, h⟩
                    have hI2 : AllAtoms P mol1 := by
                      intro a ha
                      rw [addBond_atomsW hab] at ha
                      exact hI1 a ha
                    split at h
                    · exact AllAtoms.of_fin hI2 (fin_ok h)
                    · exact ih _ _ _ _ _ _ _ _ _ h hI2

theorem deriveFragments_atoms_all (P : Atom → Prop) (T : Table)
    (hP : ∀ sym bi a, processAtomSymbol T sym = some (bi, a) → P a) (compat attrib : Bool) :
    ∀ (frags : List Str) (m : Mol) (rings : List RingReq) (ai : Nat) (r : Mol × List RingReq),
    deriveFragments T compat attrib frags m rings ai = .ok r → AllAtoms P m → AllAtoms P r.1 := by
  intro frags
  induction frags with
  | nil =>
    intro m rings ai r h hI
    simp only [deriveFragments] at h
    cases h; exact hI
  | cons s rest ih =>
    intro m rings ai r h hI
    simp only [deriveFragments] at h
    bind_at h with ⟨⟨st, n⟩, h1, h⟩
    exact ih _ _ _ _ h (deriveLoop_atoms_all P T hP compat _ _ _ _ _ _ _ _ _ _ h1 hI)

/-- **Generic.**  A property of every atom the atom-symbol reader returns (under the table in
    use) holds of every atom of a decoded graph: the decoder creates atoms nowhere else. -/
theorem decodeGraph_atoms_all (P : Atom → Prop) {T : Table}
    (hP : ∀ sym bi a, processAtomSymbol T sym = some (bi, a) → P a)
    {s : Str} {compat attrib : Bool} {g : Mol}
    (h : decodeGraph T s compat attrib = .ok g) : ∀ a ∈ g.atoms, P a := by
  unfold decodeGraph at h
  bind_at h with ⟨⟨m, rings⟩, h1, h⟩
  have hN := deriveFragments_atoms_all P T hP compat attrib _ _ _ _ _ h1 (fun a ha => by cases ha)
  obtain ⟨hD, hR⟩ := deriveFragments_inv T compat attrib _ _ _ _ _ h1 (DInv_empty T)
    (fun r hr => by cases hr)
  obtain ⟨_, hS⟩ := formRings_inv T _ _ _ _ h hD.toRInv hR
  intro a ha
  rw [hS.atoms] at ha
  exact hN a ha

/-- **Every decoded atom is well formed.** -/
theorem decodeGraph_atoms_wfb {T : Table} {s : Str} {compat attrib : Bool} {g : Mol}
    (h : decodeGraph T s compat attrib = .ok g) : ∀ a ∈ g.atoms, a.wfb = true :=
  decodeGraph_atoms_all (fun a => a.wfb = true) (fun _ _ _ hp => processAtomSymbol_wfb hp) h

/-- non-vacuity: a decoded graph with three atoms, one of them a bracket atom -/
example : (match decodeGraph { entries := Gen.preset_default, dflt := 8 }
    "[13CH1+1][=C][Cl]".toList false false with
    | .ok g => g.atoms.length
    | .error _ => 0) = 3 := by decide +kernel

end SV
