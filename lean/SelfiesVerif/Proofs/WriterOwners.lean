/-
  Reading a fragment's token list as SMILES (`labelOwners`: a ring label belongs to the most recent
  atom at the current nesting level) attaches every label to the `src` atom of its directed ring bond.
-/
import SelfiesVerif.Proofs.WriterLabels

namespace SV

/-- (label, owner) of each written ring bond, as the graph has it -/
def occOwners (occ : List ((Nat × Nat) × Nat)) : List (Nat × Option Nat) :=
  occ.map (fun o => (o.2, some o.1.1))

theorem occOwners_append (a b) : occOwners (a ++ b) = occOwners a ++ occOwners b := by
  simp [occOwners]

/-- the labels inside `p` belong to the `src` atoms, whatever surrounds `p` -/
def OwnOK (p : List PTok) : Prop :=
  ∀ log, ∃ c', ∀ cur st rest, labelOwners cur st (labelToks log p ++ rest) =
    occOwners (ringOcc log p) ++ labelOwners c' st rest

/-- same for the out-bond tokens of atom `i`, read with `i` as the current atom -/
def BOwnOK (i : Nat) (q : List PTok) : Prop :=
  ∀ log, ∃ c', ∀ st rest, labelOwners (some i) st (labelToks log q ++ rest) =
    occOwners (ringOcc log q) ++ labelOwners c' st rest

theorem bondsPre_own (sub : Nat → List PTok) (i : Nat) :
    ∀ (row : List DirBond), (∀ b ∈ row, b.src = i) → (∀ c ∈ chainDsts row, OwnOK (sub c)) →
      BOwnOK i (bondsPre sub row) := by
  intro row
  induction row with
  | nil => intro _ _ log; exact ⟨some i, fun st rest => rfl⟩
  | cons b rest ih =>
    intro hsrc hsub
    have hrest : ∀ c ∈ chainDsts rest, OwnOK (sub c) := by
      intro c hc
      apply hsub
      unfold chainDsts at hc ⊢
      cases hr : b.ring <;> simp [hr] <;> simp at hc
      · exact Or.inr hc
      · exact hc
    have ihB := ih (fun x hx => hsrc x (List.mem_cons_of_mem _ hx)) hrest
    have hbs : b.src = i := hsrc b (by simp)
    unfold bondsPre
    cases hr : b.ring with
    | true =>
      simp only [if_true]
      intro log
      obtain ⟨c', hc'⟩ := ihB (ringStep log b.src b.dst).2
      refine ⟨c', fun st rest' => ?_⟩
      rw [hbs] at hc'
      simp only [labelToks, ringOcc, List.cons_append, labelOwners, occOwners, List.map_cons, hbs]
      rw [hc']; rfl
    | false =>
      have hsb : OwnOK (sub b.dst) := by
        apply hsub
        simp [chainDsts, hr]
      cases rest with
      | nil =>
        simp only [Bool.false_eq_true, if_false, List.isEmpty_nil, if_true]
        intro log
        obtain ⟨c', hc'⟩ := hsb log
        refine ⟨c', fun st rest' => ?_⟩
        simp only [labelToks, ringOcc, List.cons_append, labelOwners, hc']
      | cons b' rest' =>
        simp only [Bool.false_eq_true, if_false, List.isEmpty_cons]
        intro log
        obtain ⟨c1, hc1⟩ := hsb log
        obtain ⟨c', hc'⟩ := ihB (logAfter log (sub b.dst))
        refine ⟨c', fun st rest'' => ?_⟩
        simp only [labelToks, ringOcc, labelToks_append, ringOcc_append, List.cons_append,
          List.append_assoc, labelOwners, hc1, hc', occOwners_append]

theorem atomPre_own {g : Mol} (hg : WGraph g) :
    ∀ (f i : Nat), i < g.atoms.length → g.atoms.length ≤ f + i → OwnOK (atomPre g f i) := by
  intro f
  induction f with
  | zero => intro i h1 h2; omega
  | succ f ih =>
    intro i h1 h2
    have hB := bondsPre_own (atomPre g f) i (g.row i) (fun b hb => (hg.row_bonds h1 b hb).1)
      (fun c hc => by
        obtain ⟨c1, c2, _⟩ := hg.mem_chainDsts hc
        exact ih c c2 (by omega))
    intro log
    obtain ⟨c', hc'⟩ := hB log
    refine ⟨c', fun cur st rest => ?_⟩
    simp only [atomPre, labelToks, ringOcc, List.cons_append, labelOwners, hc']

/-- a whole fragment -/
theorem specPre_own {g : Mol} (hg : WGraph g) {r : Nat} (hr : r < g.atoms.length) (log : RingLog) :
    labelOwners none [] (labelToks log (specPre g r)) = occOwners (ringOcc log (specPre g r)) := by
  obtain ⟨c', hc'⟩ := atomPre_own hg g.atoms.length r hr (by omega) log
  have := hc' none [] []
  simpa [labelOwners, specPre] using this

end SV

namespace SV

/-- the (label, owner) pairs read off the fragments' token lists -/
def specOwners (g : Mol) : List (Nat × Option Nat) := (specFrags g).flatMap (labelOwners none [])

theorem specFragsFrom_owners {g : Mol} (hg : WGraph g) :
    ∀ (roots : List Nat), (∀ r ∈ roots, r < g.atoms.length) → ∀ (log : RingLog),
      (specFragsFrom g log roots).flatMap (labelOwners none []) =
        occOwners (ringOcc log ((roots.map (specPre g)).flatten)) := by
  intro roots
  induction roots with
  | nil => intro _ _; rfl
  | cons r rest ih =>
    intro hr log
    simp only [specFragsFrom, List.flatMap_cons, List.map_cons, List.flatten_cons, ringOcc_append,
      occOwners_append]
    rw [specPre_own hg (hr r (by simp)), ih (fun x hx => hr x (by simp [hx]))]

/-- read as SMILES, every label sits on the `src` atom of the directed ring bond it was written for -/
theorem specOwners_eq {g : Mol} (hg : WGraph g) : specOwners g = occOwners (allOcc g) :=
  specFragsFrom_owners hg g.roots hg.rootsLt []

theorem labelNums_append (a b : List Tok) : labelNums (a ++ b) = labelNums a ++ labelNums b := by
  induction a with
  | nil => rfl
  | cons t rest ih => cases t <;> simp [labelNums, ih]

theorem mem_labelNums {n : Nat} : ∀ {ts : List Tok}, n ∈ labelNums ts ↔ Tok.label n ∈ ts
  | [] => by simp [labelNums]
  | t :: ts => by
    have ih := @mem_labelNums n ts
    cases t <;> simp [labelNums, ih]

/-- the labels in the output, in order, are those of `allOcc` -/
theorem labelNums_specFrags (g : Mol) : labelNums (specFrags g).flatten = (allOcc g).map (·.2) := by
  unfold specFrags
  rw [specFragsFrom_flatten, labelNums_labelToks]; rfl

theorem preAtoms_flatten (L : List (List PTok)) : preAtoms L.flatten = (L.map preAtoms).flatten := by
  induction L with
  | nil => rfl
  | cons a L ih => simp [preAtoms_append, ih]

/-- the atom tokens in the output, in order, are the pre-order visit list -/
theorem atomIdxs_specFrags (g : Mol) : atomIdxs (specFrags g).flatten = allVisits g := by
  unfold specFrags allVisits
  rw [specFragsFrom_flatten, atomIdxs_labelToks, preAtoms_flatten, List.map_map, List.flatMap_def]
  congr 1
  apply List.map_congr_left
  intro r _
  exact preAtoms_atomPre g _ r

end SV
