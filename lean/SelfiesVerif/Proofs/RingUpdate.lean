/-
  `updateBondOrder` (a ring request that lands on an already bonded pair) preserves `RInv`.
-/
import SelfiesVerif.Proofs.RingInv
namespace SV

theorem getDirBond_okM {m : Mol} {src dst : Nat} {b : DirBond} (h : m.getDirBond src dst = .ok b) :
    ∃ row, m.adj[src]? = some row ∧ b ∈ row ∧ b.dst = dst := by
  unfold Mol.getDirBond at h
  split at h
  · rename_i out hout
    split at h
    · rename_i b' hb'
      cases h
      have := List.find?_some hb'
      exact ⟨out, hout, List.mem_of_find?_eq_some hb', by simpa using this⟩
    · cases h
  · cases h

theorem setOrderAt_eq {adj : List (List DirBond)} {src dst n : Nat} {row : List DirBond}
    (h : adj[src]? = some row) : Mol.setOrderAt adj src dst n = adj.set src (row.map (upd dst n)) := by
  unfold Mol.setOrderAt
  rw [h]
  rfl

theorem pw_unique : ∀ {row : List DirBond}, row.Pairwise (fun b b' => b.dst ≠ b'.dst) →
    ∀ {x y : DirBond}, x ∈ row → y ∈ row → x.dst = y.dst → x = y
  | [], _, _, _, hx, _, _ => by cases hx
  | z :: row, h, x, y, hx, hy, e => by
    rw [List.pairwise_cons] at h
    rcases List.mem_cons.mp hx with rfl | hx' <;> rcases List.mem_cons.mp hy with rfl | hy'
    · rfl
    · exact absurd e (h.1 y hy')
    · exact absurd e.symm (h.1 x hx')
    · exact pw_unique h.2 hx' hy' e

theorem updateBondOrder_eq {T m} (hI : RInv T m) {l r n : Nat} {m' : Mol} (hlr : l < r)
    (h : m.updateBondOrder l r n = .ok m') :
    m' = m ∨ ∃ ab rowl rowr cl cr, m.adj[l]? = some rowl ∧ ab ∈ rowl ∧ ab.dst = r ∧
      m.adj[r]? = some rowr ∧ m.counts[l]? = some cl ∧ m.counts[r]? = some cr ∧ 1 ≤ n ∧ n ≤ 3 ∧
      (ab.ring = true → ∃ ba ∈ rowr, ba.dst = l ∧ ba.ring = true ∧ ba.order = ab.order) ∧
      (ab.ring = false → ∀ x ∈ rowr, x.dst ≠ l) ∧
      m'.adj = (m.adj.set l (rowl.map (upd r n))).set r (rowr.map (upd l n)) ∧
      m'.counts = (m.counts.set l (cl + n - ab.order)).set r (cr + n - ab.order) ∧
      m'.atoms = m.atoms ∧ m'.roots = m.roots := by
  unfold Mol.updateBondOrder at h
  bind_at h with ⟨_, h0, h⟩
  rw [Nat.min_eq_left (Nat.le_of_lt hlr), Nat.max_eq_right (Nat.le_of_lt hlr)] at h
  bind_at h with ⟨ab, h1, h⟩
  split at h
  · cases h; exact Or.inl rfl
  · right
    bind_at h with ⟨adj', h2, h⟩
    bind_at h with ⟨cl, h3, h⟩
    bind_at h with ⟨ch, h4, h⟩
    dsimp only at h
    cases h
    obtain ⟨rowl, hrowl, habm, habd⟩ := getDirBond_okM h1
    have hn : 1 ≤ n ∧ n ≤ 3 := by
      unfold pyAssert at h0
      split at h0
      · rename_i hc; simpa using hc
      · cases h0
    have hb := hI.bonds l rowl hrowl ab habm
    have hrl : r < m.adj.length := by rw [hI.lenA]; omega
    obtain ⟨rowr, hrowr⟩ : ∃ rowr, m.adj[r]? = some rowr := ⟨_, List.getElem?_eq_getElem hrl⟩
    have hcl : m.counts[l]? = some cl := by
      unfold getIdx at h3; split at h3
      · cases h3; assumption
      · cases h3
    have hcr : m.counts[r]? = some ch := by
      unfold getIdx at h4; split at h4
      · cases h4; rename_i hx; rw [List.getElem?_set_ne (by omega)] at hx; exact hx
      · cases h4
    have hring : ab.ring = true → ∃ ba ∈ rowr, ba.dst = l ∧ ba.ring = true ∧ ba.order = ab.order := by
      intro hr
      obtain ⟨row', hk', y, hy, hy1, hy2, hy3⟩ := hI.mirror l rowl hrowl ab habm hr
      rw [habd, hrowr] at hk'; cases hk'
      exact ⟨y, hy, hy1, hy3, hy2⟩
    have hchain : ab.ring = false → ∀ x ∈ rowr, x.dst ≠ l := by
      intro hr x hx hxl
      have hbx := hI.bonds r rowr hrowr x hx
      cases hxr : x.ring with
      | false => have := hbx.2.2.2.2.2 hxr; omega
      | true =>
        obtain ⟨row', hk', y, hy, hy1, hy2, hy3⟩ := hI.mirror r rowr hrowr x hx hxr
        rw [hxl, hrowl] at hk'; cases hk'
        have : ab = y := pw_unique (hI.nodup l rowl hrowl) habm hy (by omega)
        subst this
        rw [hr] at hy3; cases hy3
    refine ⟨ab, rowl, rowr, cl, ch, hrowl, habm, habd, hrowr, hcl, hcr, hn.1, hn.2, hring, hchain,
      ?_, rfl, rfl, rfl⟩
    simp only
    have hrowr' : (m.adj.set l (rowl.map (upd r n)))[r]? = some rowr := by
      rw [List.getElem?_set_ne (by omega)]; exact hrowr
    rw [setOrderAt_eq hrowl] at h2
    split at h2
    · bind_at h2 with ⟨_, _, h2⟩
      cases h2
      rw [setOrderAt_eq hrowr']
    · cases h2
      rename_i hnr
      have hnr' : ab.ring = false := by simpa using hnr
      rw [map_upd_of_ne l n rowr (hchain hnr'), set_self_of_get _ _ _ hrowr']

/-- what the order update does to a bond `x` stored in row `k` -/
def updU (l r n k : Nat) (x : DirBond) : DirBond :=
  if (k = l ∧ x.dst = r) ∨ (k = r ∧ x.dst = l) then { x with order := n } else x

@[simp] theorem updU_src (l r n k x) : (updU l r n k x).src = x.src := by unfold updU; split <;> rfl
@[simp] theorem updU_dst (l r n k x) : (updU l r n k x).dst = x.dst := by unfold updU; split <;> rfl
@[simp] theorem updU_ring (l r n k x) : (updU l r n k x).ring = x.ring := by unfold updU; split <;> rfl
theorem updU_order (l r n k x) : (updU l r n k x).order =
    if (k = l ∧ x.dst = r) ∨ (k = r ∧ x.dst = l) then n else x.order := by
  unfold updU; split <;> rfl

theorem RInv.update {T m} (h : RInv T m) {l r n : Nat} {ab : DirBond} {rowl rowr : List DirBond}
    {cl cr : Nat} {al ar : Atom} {m' : Mol}
    (hlr : l ≠ r) (hl : m.adj[l]? = some rowl) (habm : ab ∈ rowl) (habd : ab.dst = r)
    (hr : m.adj[r]? = some rowr) (hcl : m.counts[l]? = some cl) (hcr : m.counts[r]? = some cr)
    (hn1 : 1 ≤ n) (hn3 : n ≤ 3) (hge : ab.order ≤ n)
    (hring : ab.ring = true → ∃ ba ∈ rowr, ba.dst = l ∧ ba.ring = true ∧ ba.order = ab.order)
    (hchain : ab.ring = false → ∀ x ∈ rowr, x.dst ≠ l)
    (hal : m.atoms[l]? = some al) (har : m.atoms[r]? = some ar)
    (hcapl : (cl : Int) + (n - ab.order) ≤ al.bondingCapacity T)
    (hcapr : (cr : Int) + (n - ab.order) ≤ ar.bondingCapacity T)
    (eadj : m'.adj = (m.adj.set l (rowl.map (upd r n))).set r (rowr.map (upd l n)))
    (ecnt : m'.counts = (m.counts.set l (cl + n - ab.order)).set r (cr + n - ab.order))
    (eat : m'.atoms = m.atoms) (ert : m'.roots = m.roots) : RInv T m' ∧ SameChain m m' := by
  have hA := h.lenA
  have hC := h.lenC
  have hll : l < m.atoms.length := (List.getElem?_eq_some_iff.mp hal).1
  have hrl : r < m.atoms.length := (List.getElem?_eq_some_iff.mp har).1
  have hget : ∀ k, m'.adj[k]? = if k = r then some (rowr.map (upd l n)) else
      if k = l then some (rowl.map (upd r n)) else m.adj[k]? := by
    intro k; rw [eadj]; exact two_get hl hr k
  have hbl := h.bonds l rowl hl
  have hbr := h.bonds r rowr hr
  have hrows : ∀ (k : Nat) (row : List DirBond), m.adj[k]? = some row →
      m'.adj[k]? = some (row.map (updU l r n k)) := by
    intro k row hk
    rw [hget k]
    split
    · subst_vars; rw [hr] at hk; cases hk
      congr 1
      apply List.map_congr_left
      intro x hx
      have := hbr x hx
      unfold upd updU
      simp [hlr.symm]
    · split
      · subst_vars; rw [hl] at hk; cases hk
        congr 1
        apply List.map_congr_left
        intro x hx
        have := hbl x hx
        unfold upd updU
        simp [hlr]
      · rename_i h1 h2
        rw [hk]; congr 1
        have : updU l r n k = id := by funext x; unfold updU; simp [h1, h2]
        rw [this, List.map_id]
  have hrows' : ∀ (k : Nat) (row' : List DirBond), m'.adj[k]? = some row' →
      ∃ row, m.adj[k]? = some row ∧ row' = row.map (updU l r n k) := by
    intro k row' hk
    have hk' : k < m'.adj.length := (List.getElem?_eq_some_iff.mp hk).1
    have : k < m.adj.length := by rw [eadj] at hk'; simpa using hk'
    have hrow := hrows k _ (List.getElem?_eq_getElem this)
    rw [hk] at hrow; cases hrow
    exact ⟨_, List.getElem?_eq_getElem this, rfl⟩
  have hab := hbl ab habm
  have hsum : ∀ f : DirBond → Nat, (ab.ring = false →
        wsum f m'.adj + f ab = wsum f m.adj + f { ab with order := n }) ∧
      (∀ ba ∈ rowr, ba.dst = l → wsum f m'.adj + f ab + f ba =
        wsum f m.adj + f { ab with order := n } + f { ba with order := n }) := by
    intro f
    have h2 := two_wsum (rowa' := rowl.map (upd r n)) (rowb' := rowr.map (upd l n)) f hlr hl hr
    rw [← eadj] at h2
    have h3 := rsum_map_upd f r n rowl ab habm habd (h.nodup l rowl hl)
    constructor
    · intro hnr
      rw [map_upd_of_ne l n rowr (hchain hnr)] at h2
      omega
    · intro ba hba hbad
      have h4 := rsum_map_upd f l n rowr ba hba hbad (h.nodup r rowr hr)
      omega
  have hcnt : ∀ i, m'.counts[i]? = if i = r then some (cr + n - ab.order) else
      if i = l then some (cl + n - ab.order) else m.counts[i]? := by
    intro i
    have hal' : l < m.counts.length := by omega
    have hbl' : r < m.counts.length := by omega
    rw [ecnt, List.getElem?_set]
    by_cases h1 : r = i
    · subst h1; simp [hbl']
    · rw [if_neg h1, if_neg (fun e => h1 e.symm), List.getElem?_set]
      by_cases h2 : l = i
      · subst h2; simp [hal']
      · rw [if_neg h2, if_neg (fun e => h2 e.symm)]
  refine ⟨⟨?_, ?_, ?_, ?_, ?_, ?_, ?_⟩, ⟨eat, ert, ?_⟩⟩
  · rw [eadj, eat]; simpa using hA
  · rw [ecnt, eat]; simpa using hC
  · intro k row' hk x' hx'
    rw [eat]
    obtain ⟨row, hk0, rfl⟩ := hrows' k row' hk
    obtain ⟨x, hx, rfl⟩ := List.mem_map.mp hx'
    obtain ⟨b1, b2, b3, b4, b5, b6⟩ := h.bonds k row hk0 x hx
    refine ⟨by simpa using b1, by simpa using b2, by simpa using b3, ?_, ?_, by simpa using b6⟩
    · rw [updU_order]; split <;> omega
    · rw [updU_order]; split <;> omega
  · intro k row' hk
    obtain ⟨row, hk0, rfl⟩ := hrows' k row' hk
    rw [List.pairwise_map]
    simpa using h.nodup k row hk0
  · intro k row' hk x' hx' hxr
    obtain ⟨row, hk0, rfl⟩ := hrows' k row' hk
    obtain ⟨x, hx, rfl⟩ := List.mem_map.mp hx'
    simp only [updU_ring, updU_dst] at hxr ⊢
    obtain ⟨row1, hk1, y, hy, hy1, hy2, hy3⟩ := h.mirror k row hk0 x hx hxr
    refine ⟨_, hrows _ _ hk1, updU l r n x.dst y, List.mem_map.mpr ⟨y, hy, rfl⟩, by simpa using hy1,
      ?_, by simpa using hy3⟩
    rw [updU_order, updU_order, hy1, hy2]
    have : ((x.dst = l ∧ k = r) ∨ (x.dst = r ∧ k = l)) ↔ ((k = l ∧ x.dst = r) ∨ (k = r ∧ x.dst = l)) := by
      constructor <;> (intro h; rcases h with ⟨h1, h2⟩ | ⟨h1, h2⟩) <;> simp [h1, h2]
    simp only [this]
  · intro i hi
    rw [eat] at hi
    rw [hcnt i]
    have hci := h.counts i hi
    obtain ⟨hs1, hs2⟩ := hsum (bw i)
    obtain ⟨b1, b2, b3, b4, b5, b6⟩ := hab
    cases hrg : ab.ring with
    | false =>
      have e := hs1 hrg
      simp only [bw, b1, habd, hrg] at e
      simp only [bondSum] at hci ⊢
      by_cases h1 : i = r
      · subst h1
        rw [hcr] at hci; cases hci
        simp [hlr] at e ⊢; omega
      · rw [if_neg h1]
        by_cases h2 : i = l
        · subst h2
          rw [hcl] at hci; cases hci
          simp at e ⊢; omega
        · rw [if_neg h2, hci]
          have h1' : ¬ r = i := fun e => h1 e.symm
          have h2' : ¬ l = i := fun e => h2 e.symm
          simp [h1', h2'] at e; rw [e]
    | true =>
      obtain ⟨ba, hba, hbad, hbar, hbao⟩ := hring hrg
      have e := hs2 ba hba hbad
      have hbas := (hbr ba hba).1
      simp only [bw, b1, habd, hrg, hbas, hbad, hbar, hbao] at e
      simp only [bondSum] at hci ⊢
      by_cases h1 : i = r
      · subst h1
        rw [hcr] at hci; cases hci
        simp [hlr] at e ⊢; omega
      · rw [if_neg h1]
        by_cases h2 : i = l
        · subst h2
          rw [hcl] at hci; cases hci
          simp [hlr.symm] at e ⊢; omega
        · rw [if_neg h2, hci]
          have h1' : ¬ r = i := fun e => h1 e.symm
          have h2' : ¬ l = i := fun e => h2 e.symm
          simp [h1', h2'] at e; rw [e]
  · intro i a' c' h1 h2
    rw [eat] at h1
    rw [hcnt i] at h2
    split at h2
    · subst_vars; cases h2; rw [har] at h1; cases h1; omega
    · split at h2
      · subst_vars; cases h2; rw [hal] at h1; cases h1; omega
      · exact h.cap i a' c' h1 h2
  · intro i
    have h2 := two_wsum (rowa' := rowl.map (upd r n)) (rowb' := rowr.map (upd l n)) (cw i) hlr hl hr
    rw [← eadj, rsum_map_upd_inv _ _ _ _ (cw_upd i r n), rsum_map_upd_inv _ _ _ _ (cw_upd i l n)] at h2
    simp only [chainIn]; omega
end SV
