/-
  Python-semantics layer: the primitives of Python that the modelled code uses,
  with their failures made explicit.  No Mathlib here (this file is linked into
  the driver executable).
-/
namespace SV

/-- Exception classes that can be observed at the API boundary. -/
inductive PyExc
  | DecoderError | EncoderError | SMILESParserError | ValueError | KeyError
  | IndexError | AttributeError | AssertionError | RecursionError
  | ZeroDivisionError | TypeError | StopIteration
  /-- not a Python exception: the model ran out of fuel, i.e. the Python loop would not
      terminate.  Every property theorem about totality shows it unreachable. -/
  | NonTermination
  deriving DecidableEq, Repr, Inhabited

def PyExc.name : PyExc → String
  | .DecoderError => "DecoderError" | .EncoderError => "EncoderError"
  | .SMILESParserError => "SMILESParserError" | .ValueError => "ValueError"
  | .KeyError => "KeyError" | .IndexError => "IndexError"
  | .AttributeError => "AttributeError" | .AssertionError => "AssertionError"
  | .RecursionError => "RecursionError" | .ZeroDivisionError => "ZeroDivisionError"
  | .TypeError => "TypeError" | .StopIteration => "StopIteration"
  | .NonTermination => "NonTermination"

abbrev Py := Except PyExc

deriving instance DecidableEq for Except

/-- Python `str` (without lone surrogates) as a list of code points. -/
abbrev Str := List Char

/-- `l[i]` for a non-negative index. -/
def getIdx {α} (l : List α) (i : Nat) : Py α :=
  match l[i]? with
  | some x => .ok x
  | none => .error .IndexError

/-- `assert c`. -/
def pyAssert (c : Bool) : Py Unit := if c then .ok () else .error .AssertionError

/-- `d[k]` on an insertion-ordered association list. -/
def lookup {α β} [BEq α] (k : α) : List (α × β) → Option β
  | [] => none
  | (k', v) :: rest => if k' == k then some v else lookup k rest

def getKey {α β} [BEq α] (d : List (α × β)) (k : α) : Py β :=
  match lookup k d with
  | some v => .ok v
  | none => .error .KeyError

/-- `d[k] = v` on an insertion-ordered dict: overwrite in place or append. -/
def setKey {α β} [BEq α] (k : α) (v : β) : List (α × β) → List (α × β)
  | [] => [(k, v)]
  | (k', v') :: rest => if k' == k then (k', v) :: rest else (k', v') :: setKey k v rest

/-- `l[i] = v` (no-op out of range; callers check the index first). -/
def setIdx {α} (l : List α) (i : Nat) (v : α) : List α := l.set i v

/-- `l.insert(i, v)` for `0 ≤ i`. -/
def insertAt {α} : List α → Nat → α → List α
  | l, 0, v => v :: l
  | [], _ + 1, v => [v]
  | x :: l, i + 1, v => x :: insertAt l i v

/-! ### characters and numbers -/

def isAsciiDigit (c : Char) : Bool := '0' ≤ c && c ≤ '9'
def isAsciiUpper (c : Char) : Bool := 'A' ≤ c && c ≤ 'Z'
def isAsciiLower (c : Char) : Bool := 'a' ≤ c && c ≤ 'z'

/-- membership of a code point in a sorted table of inclusive ranges -/
def inRanges (tbl : List (Nat × Nat)) (c : Char) : Bool :=
  tbl.any fun (lo, hi) => lo ≤ c.toNat && c.toNat ≤ hi

/-- decimal digits of `n`, most significant first: Python's `str(n)` for `n ≥ 0`. -/
def natToStr (n : Nat) : Str := Nat.toDigits 10 n

/-- `"{:+}".format(z)` -/
def fmtPlus (z : Int) : Str :=
  if z < 0 then '-' :: natToStr z.natAbs else '+' :: natToStr z.natAbs

/-- `str(z)` -/
def intToStr (z : Int) : Str :=
  if z < 0 then '-' :: natToStr z.natAbs else natToStr z.natAbs

/-- value of a string of digit values (Horner, base 10) -/
def digitsVal (ds : List Nat) : Nat := ds.foldl (fun acc d => acc * 10 + d) 0

/-- `s.startswith(p)` -/
def startsWith : Str → Str → Bool
  | _, [] => true
  | [], _ :: _ => false
  | c :: s, d :: p => c == d && startsWith s p

/-- `p in s` (substring) -/
def containsSub : Str → Str → Bool
  | [], p => p.isEmpty
  | c :: s, p => startsWith (c :: s) p || containsSub s p

/-- `s[-k:]` for `k > 0` -/
def lastN (s : Str) (k : Nat) : Str := s.drop (s.length - k)

/-- `s[-a:-b]` for `a > b > 0`, with Python's clamping -/
def sliceFromEnd (s : Str) (a b : Nat) : Str :=
  let n := s.length
  let lo := n - a
  let hi := n - b
  (s.take hi).drop lo

/-- `s.find(c)` as `Option` (Python returns -1) -/
def findChar (c : Char) (s : Str) : Option Nat := s.findIdx? (· == c)

/-- `s.split(sep)` for a one-character separator -/
def splitOnChar (sep : Char) : Str → List Str
  | [] => [[]]
  | c :: s =>
    match splitOnChar sep s with
    | [] => [[]]   -- unreachable
    | hd :: tl => if c == sep then [] :: hd :: tl else (c :: hd) :: tl

/-- `sep.join(parts)` -/
def joinWith (sep : Str) : List Str → Str
  | [] => []
  | [x] => x
  | x :: y :: rest => x ++ sep ++ joinWith sep (y :: rest)

def asciiUpperChar (c : Char) : Char := if isAsciiLower c then Char.ofNat (c.toNat - 32) else c
def asciiLowerChar (c : Char) : Char := if isAsciiUpper c then Char.ofNat (c.toNat + 32) else c

/-- `str.capitalize()` restricted to ASCII letters (the only use) -/
def capitalizeAscii : Str → Str
  | [] => []
  | c :: s => asciiUpperChar c :: s.map asciiLowerChar

end SV
