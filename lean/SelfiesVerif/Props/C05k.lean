/-
  Property C05, the clause "the sigma skeleton, hydrogens and charges are unchanged" —
  UNCONDITIONALLY, also on non-bipartite aromatic systems where `find_perfect_matching` may return
  a list that is not a matching (finding F9, `C05_soundness_false`).

  Props/C05.lean, C05c.lean and C05e.lean describe `kekulize` under the hypothesis `PerfectMatching`
  (which holds whenever the pruned delocalisation subgraph is bipartite).  What holds WITHOUT it:

  `C05_matching_edges`  (EdgeOnly)  Whatever list `find_perfect_matching(g)` returns — on every
      simple graph, for every tape, sound or not — every entry `mt[i] = j` is along an EDGE of `g`,
      in range, and no entry is `None`.
  `C05_sigma_skeleton_unconditional`  Every successful `kekulize()` of a parsed graph `p` leaves
      `p` with the orders of its stored bond records changed by a map `G` (`kekResultWith p G`):
      same rows, same positions, same `src`, `dst`, `stereo`, ring flag; NOTHING added or removed;
      `G` keeps every order that is not 1.5 and turns 1.5 into 1 or 2 (`SigmaOrd`); atoms change
      only in the aromatic flag; bond counts are the incident sums.  In particular a non-aromatic
      bond is never touched: phase 2 doubles only pairs of the returned list, which are edges of
      the pruned subgraph (EdgeOnly), i.e. aromatic bonds between kept atoms.
  `C05_sigma_skeleton_end_to_end`  For every SMILES the (strict) encoder accepts: the decoded
      molecule has the input's atoms (element, isotope, charge, hydrogens; aromatic flag cleared),
      every non-aromatic bond of the input with its order, every aromatic bond as a single or a
      double bond, and no other bond (`SigmaKept.sigma`, `.pi`, `.no_other`).  No `PerfectMatching`,
      no bipartiteness hypothesis.

  WHAT STILL NEEDS `PerfectMatching` (and therefore bipartiteness, or the explicit hypothesis of
  `C05e_aromatic_end_to_end`): the clause "every aromatic atom that needs a pi bond has EXACTLY ONE
  double bond inside the former aromatic system, the others none" (`KekulizedAs.oneDouble`), and
  which of the aromatic bonds become double (`kekOrder`).  That clause is FALSE on unsound runs:
  the last example below is an input the strict encoder ACCEPTS (`s12c(ccc1)cccc3cs2c3/C=C/F`, tape
  `[9]`, the pop order of CPython) whose decoded molecule has two double bonds at sulfur 0 inside the
  former aromatic system — while atoms, sigma skeleton and non-aromatic bonds are intact, as the
  theorems here say.
-/
import SelfiesVerif.Props.C05e
import SelfiesVerif.Proofs.MatchingEdges

namespace SV
open C09

/-! ### 1. EdgeOnly -/

/-- **EdgeOnly.**  `find_perfect_matching` on a simple graph `g` (`GraphOK`: entries in range, no
    loops, symmetric, no duplicates), any tape: a returned list `mt` has the length of `g`, every
    entry `mt[i] = j` has `j < len(g)` and `j ∈ g[i]` (and `i ∈ g[j]`), and every `i < len(g)` has an
    entry.  No bipartiteness, no soundness assumption. -/
theorem C05_matching_edges {g : Graph} (hg : GraphOK g) {tape : List Nat} {mt : Matching}
    (h : findPerfectMatching g tape = .ok (some mt)) :
    mt.length = g.length ∧
    (∀ i j, mt[i]? = some (some j) → j < g.length ∧ Adj g i j ∧ Adj g j i) ∧
    (∀ i, i < g.length → ∃ j, mt[i]? = some (some j)) :=
  findPerfectMatching_edges hg h

/-- decidable form of EdgeOnly -/
def isEdgeOnly (g : Graph) (mt : Matching) : Bool :=
  mt.length == g.length &&
  (List.range mt.length).all fun i =>
    match mt[i]? with
    | some (some j) => decide (j < g.length) && (g.getD i []).contains j
    | _ => false

theorem isEdgeOnly_of {g : Graph} {mt : Matching} (h1 : mt.length = g.length)
    (h2 : ∀ i j, mt[i]? = some (some j) → j < g.length ∧ Adj g i j ∧ Adj g j i)
    (h3 : ∀ i, i < g.length → ∃ j, mt[i]? = some (some j)) : isEdgeOnly g mt = true := by
  unfold isEdgeOnly
  simp only [Bool.and_eq_true, beq_iff_eq, List.all_eq_true, List.mem_range]
  refine ⟨h1, fun i hi => ?_⟩
  obtain ⟨j, hj⟩ := h3 i (h1 ▸ hi)
  rw [hj]
  obtain ⟨g1, g2, _⟩ := h2 i j hj
  simp only [Bool.and_eq_true, decide_eq_true_eq]
  exact ⟨g1, (adj_iff_contains g i j).2 g2⟩

/-- the checker accepts every result of `find_perfect_matching` -/
theorem C05_matching_edges_checked {g : Graph} (hg : GraphOK g) {tape : List Nat} {mt : Matching}
    (h : findPerfectMatching g tape = .ok (some mt)) : isEdgeOnly g mt = true := by
  obtain ⟨h1, h2, h3⟩ := findPerfectMatching_edges hg h
  exact isEdgeOnly_of h1 h2 h3

/-- **non-vacuity on the F9 witness**: on `blossomGraph` with tape `[6]` the hypotheses hold, the
    returned list is NOT a matching (`mt[0] = mt[1] = 2`), and it is EdgeOnly — evaluated
    (`isEdgeOnly … = true` by `decide`) and as an instance of the theorem. -/
example :
    GraphOK blossomGraph ∧
    findPerfectMatching blossomGraph [6] =
      .ok (some [some 2, some 2, some 0, some 4, some 3, some 6, some 5, some 5]) ∧
    isPerfectMatching blossomGraph [some 2, some 2, some 0, some 4, some 3, some 6, some 5, some 5] = false ∧
    isEdgeOnly blossomGraph [some 2, some 2, some 0, some 4, some 3, some 6, some 5, some 5] = true ∧
    (∀ i j, [some 2, some 2, some 0, some 4, some 3, some 6, some 5, some 5][i]? = some (some j) →
      j < blossomGraph.length ∧ Adj blossomGraph i j ∧ Adj blossomGraph j i) := by
  have hg : GraphOK blossomGraph := (isGraphOK_iff _).1 (by decide)
  have hm := C05_no_blossom_witness.2.1
  exact ⟨hg, hm, by decide, by decide, (C05_matching_edges hg hm).2.1⟩

/-- sound runs too: the hexagon, and a bipartite 10-vertex graph -/
example : isEdgeOnly hexagon [some 1, some 0, some 3, some 2, some 5, some 4] = true ∧
    findPerfectMatching hexagon [] = .ok (some [some 1, some 0, some 3, some 2, some 5, some 4]) := by
  decide

/-! ### 2. the sigma skeleton through `kekulize` -/

/-- **C05, sigma skeleton, unconditional.**  `s` parses to `p`, `kekulize` succeeds with tape
    `tape` and leaves `g1`.  Then there is an order map `G` with
      * `g1 = kekResultWith p G`: `p` with the aromatic flag cleared on the atoms of the
        delocalisation subgraph, every stored bond record's `order2` replaced by `G` of the record
        (`mapOrders`: same rows, same slots, same `src`, `dst`, `stereo`, ring flag, attribution),
        bond counts recomputed as incident sums, subgraph cleared, roots / ring flags /
        attributions unchanged;
      * `G` keeps the order of every record that is not aromatic (`order2 ≠ 3`), gives an
        aromatic record order 1 or 2 (`order2 = 2 ∨ 4`), and treats both copies of a ring bond alike.
    No hypothesis on the matching: this holds on non-bipartite systems, for unsound runs. -/
theorem C05_sigma_skeleton_unconditional (s : Str) (tape : List Nat) (p g1 : PMol)
    (hs : smilesToMol s false = .ok p) (hk : p.kekulize tape = .ok (some g1)) :
    ∃ G, SigmaOrd p G ∧ g1 = kekResultWith p G :=
  kekulize_touches_only_ds (smilesToMol_pwf hs) hk

/-- the same, spelled out on atoms and stored bond records -/
theorem C05_sigma_skeleton_records (s : Str) (tape : List Nat) (p g1 : PMol)
    (hs : smilesToMol s false = .ok p) (hk : p.kekulize tape = .ok (some g1)) :
    -- atoms: same number; atom `i` is the input's, aromatic flag cleared iff it is in the subgraph
    g1.atoms.length = p.atoms.length ∧
    (∀ i a, p.atoms[i]? = some a →
      g1.atoms[i]? = some (if i ∈ p.ds.map (·.1) then { a with isAromatic := false } else a)) ∧
    -- a record that is not aromatic is still there, at the same atom, every field equal
    (∀ i, ∀ b ∈ rowAt p.adj i, b.order2 ≠ 3 → b ∈ rowAt g1.adj i) ∧
    -- an aromatic record is still there as a single or a double bond, other fields equal
    (∀ i, ∀ b ∈ rowAt p.adj i, b.order2 = 3 →
      { b with order2 := 2 } ∈ rowAt g1.adj i ∨ { b with order2 := 4 } ∈ rowAt g1.adj i) ∧
    -- nothing added: every record of the result comes from a record of the input at the same atom
    (∀ i, ∀ b1 ∈ rowAt g1.adj i, ∃ b ∈ rowAt p.adj i,
      b1.src = b.src ∧ b1.dst = b.dst ∧ b1.stereo = b.stereo ∧ b1.ring = b.ring ∧ b1.attr = b.attr ∧
      ((b.order2 ≠ 3 ∧ b1 = b) ∨ (b.order2 = 3 ∧ (b1.order2 = 2 ∨ b1.order2 = 4)))) ∧
    -- nothing removed: rows keep their lengths
    (∀ i, (rowAt g1.adj i).length = (rowAt p.adj i).length) ∧
    -- the rest
    g1.roots = p.roots ∧ g1.ringFlags = p.ringFlags ∧ g1.atomAttr = p.atomAttr ∧ g1.ds = [] ∧
    g1.counts2 = (List.range g1.adj.length).map (incident2 g1.adj) := by
  obtain ⟨G, hG, rfl⟩ := C05_sigma_skeleton_unconditional s tape p g1 hs hk
  refine ⟨(kekResultWith_atoms p G).1, (kekResultWith_atoms p G).2,
    fun i b hb hne => hG.keep_mem hb hne, fun i b hb h3 => hG.arom_mem hb h3,
    fun i b1 hb1 => hG.of_mem hb1, fun i => by rw [rowAt_kekResultWith, List.length_map],
    rfl, rfl, rfl, rfl, ?_⟩
  show _ = (List.range (mapOrders G p.adj).length).map _
  rw [mapOrders_length]
  rfl

/-! ### 3. end to end -/

/-- the decoded graph `m` has the atoms of the parsed input `p` and the bonds of `p` with the orders
    replaced by `G` -/
structure SigmaKept (p : PMol) (G : PBond → Nat) (m : Mol) : Prop where
  natoms : m.atoms.length = p.atoms.length
  /-- the `i`-th atom keeps element, isotope, charge and hydrogen count and is not aromatic -/
  atoms : ∀ (i : Nat) (a b : Atom), p.atoms[i]? = some a → m.atoms[i]? = some b → AtomAgrees a b
  /-- the bond records `(min, max, order in half units)` of `m` are those of `p` under `G` -/
  bonds : (p.recordsWith G).Perm m.records

namespace SigmaKept
variable {p : PMol} {G : PBond → Nat} {m : Mol}

/-- the sigma skeleton: every non-aromatic bond of `p` is a bond of `m` with the same order -/
theorem sigma (h : SigmaKept p G m) (hG : SigmaOrd p G) {i : Nat} {b : PBond} (hb : b ∈ rowAt p.adj i)
    (ho : b.order2 ≠ 3) : (min b.src b.dst, max b.src b.dst, b.order2) ∈ m.records := by
  refine h.bonds.mem_iff.1 (mem_recordsWith.2 ⟨i, b, hb, ?_⟩)
  rw [hG.keep i b hb ho]

/-- every aromatic bond of `p` is a bond of `m` of order 1 or 2 -/
theorem pi (h : SigmaKept p G m) (hG : SigmaOrd p G) {i : Nat} {b : PBond} (hb : b ∈ rowAt p.adj i)
    (ho : b.order2 = 3) :
    (min b.src b.dst, max b.src b.dst, 2) ∈ m.records ∨ (min b.src b.dst, max b.src b.dst, 4) ∈ m.records := by
  have := h.bonds.mem_iff.1 (mem_recordsWith.2 ⟨i, b, hb, rfl⟩)
  rcases hG.arom i b hb ho with e | e
  · rw [e] at this; exact .inl this
  · rw [e] at this; exact .inr this

/-- `m` has no other bond: as many records as `p`, each one a stored bond of `p` with its own
    order if that is not 1.5, with order 1 or 2 if it is -/
theorem no_other (h : SigmaKept p G m) (hG : SigmaOrd p G) :
    m.records.length = p.records.length ∧
    ∀ r ∈ m.records, ∃ i, ∃ b ∈ rowAt p.adj i, r.1 = min b.src b.dst ∧ r.2.1 = max b.src b.dst ∧
      ((b.order2 ≠ 3 ∧ r.2.2 = b.order2) ∨ (b.order2 = 3 ∧ (r.2.2 = 2 ∨ r.2.2 = 4))) := by
  refine ⟨?_, fun r hr => ?_⟩
  · rw [← h.bonds.length_eq]
    exact length_recordsWith _ _ p
  · obtain ⟨i, b, hb, rfl⟩ := mem_recordsWith.1 (h.bonds.mem_iff.2 hr)
    refine ⟨i, b, hb, rfl, rfl, ?_⟩
    by_cases ho : b.order2 = 3
    · exact .inr ⟨ho, hG.arom i b hb ho⟩
    · exact .inl ⟨ho, hG.keep i b hb ho⟩

end SigmaKept

/-- **C05, sigma skeleton, end to end, no matching hypothesis.**  Let `s` parse to `p` and let
    `selfies.encoder(s, strict=True)` return `sel` (table `T`, kekulization tape `tape`).  Then
    `kekulize` succeeded, `g1 = kekResultWith p G` for a `SigmaOrd` map `G`, and if spans and nesting
    depth fit (C03) the decoder's graph `m` satisfies `SigmaKept p G m`: the atoms of `p` index for
    index (element, isotope, charge, H count; not aromatic), and as bond records exactly those of
    `p` with orders replaced by `G` — every non-aromatic bond with its order, every aromatic bond
    single or double, no other bond.  Aromatic or not, bipartite or not, sound matching or not. -/
theorem C05_sigma_skeleton_end_to_end (T : Table) (s : Str) (tape : List Nat) (sel : Str) (p : PMol)
    (hlen : s.length ≤ 10 ^ Gen.intMaxStrDigits)
    (hs : smilesToMol s false = .ok p) (henc : encoder T s true tape = .ok sel) :
    ∃ g1 g f G, p.kekulize tape = .ok (some g1) ∧ encodePrepare T s true false tape = .ok g ∧
      forestOf g = some f ∧ SigmaOrd p G ∧ g1 = kekResultWith p G ∧
      ((∀ t ∈ f, t.spanOK = true) → (∀ t ∈ f, t.bdepth + 1 < recursionBudget) →
        ∃ m, decodeGraph T sel = .ok m ∧ SigmaKept p G m) := by
  have hwf : PWF p := smilesToMol_pwf hs
  obtain ⟨g, f, hp, hf, _, hrt⟩ := C03p_roundtrip_strings T s tape sel hlen henc
  obtain ⟨g0, g1, hs0, hkek, ht⟩ := encodePrepare_inv hp
  rw [hs] at hs0
  injection hs0 with hs0
  subst hs0
  obtain ⟨G, hG, hg1⟩ := kekulize_touches_only_ds hwf hkek
  refine ⟨g1, g, f, G, hkek, hp, hf, hG, hg1, ?_⟩
  intro hspan hdepth
  obtain ⟨m, hdec, hsame, hatoms⟩ := hrt hspan hdepth
  obtain ⟨_, _, t2, _, _, _, _, t7, t8⟩ := encodeTail_inv ht
  have hrec : g.records = p.recordsWith G := records_mapOrders _ p g (by rw [t2, hg1]; rfl)
  refine ⟨m, hdec, ?_, ?_, ?_⟩
  · rw [hatoms, t7, hg1]
    exact deArom_length _ _
  · intro i a b ha hb
    have hgb : g.atoms[i]? = some b := by rw [← hatoms]; exact hb
    have hna : b.isAromatic = false := (hsame.2.1 i b b hgb hb).2.2.2.2
    obtain ⟨a1, ha1, hor⟩ := t8 i b hgb
    rw [hg1] at ha1
    obtain ⟨a', ha', e1, e2, e3, e4⟩ := deArom_getElem?_fields _ _ i a1 ha1
    rw [ha] at ha'
    injection ha' with ha'
    subst ha'
    rcases hor with rfl | rfl
    · exact ⟨e1, e2, e3, e4, hna⟩
    · obtain ⟨c1, c2, c3, c4⟩ := invertChirality_fields a1
      exact ⟨c1.trans e1, c2.trans e2, c3.trans e3, c4.trans e4, hna⟩
  · rw [← hrec]; exact hsame.2.2

/-! ### 4. non-vacuity: an UNSOUND run that the strict encoder accepts -/

/-- how the examples get past `List.mergeSort` without a perfect matching: `kekulize` from its
    stages (the two update loops are kernel-evaluable) -/
theorem kekulize_of_stages {m g1 : PMol} {kept l2n : List Nat} {pg : Graph} {mt : Matching}
    {tape : List Nat} (hne : m.ds.isEmpty = false) (hbad : badCheck m = .ok false)
    (hk : keptNodes m = .ok kept) (hl : kept.mergeSort (· ≤ ·) = l2n)
    (hp : prunedGraph m l2n = .ok pg) (hm : findPerfectMatching pg tape = .ok (some mt))
    (hloops : (do
        let m1 ← m.ds.foldlM (fun m p => deAromNode m p.1 p.2) m
        let m2 ← (List.range mt.length).foldlM (doubleStep l2n mt) m1
        pure (some { m2 with ds := [] }) : Py (Option PMol)) = .ok (some g1)) :
    m.kekulize tape = .ok (some g1) := by
  rw [kekulize_eq]
  simp only [hne, Bool.false_eq_true, if_false, bind, Except.bind, hbad, hk, hl, hp, hm]
  exact hloops

/-- two aromatic sulfurs in a fused system with a five-membered and a three-membered ring (the
    pruned subgraph is not bipartite), and a side chain `/C=C/F` with non-aromatic single and double
    bonds and two marks -/
def c05kIn : String := "s12c(ccc1)cccc3cs2c3/C=C/F"
def c05kMol : PMol := parsedOf c05kIn
def c05kGraph : Graph :=
  [[1, 4, 10], [0, 2, 5], [1, 3], [2, 4], [3, 0], [1, 6], [5, 7], [6, 8], [7, 9, 11], [8, 10], [9, 0, 11], [10, 8]]
/-- what `find_perfect_matching` returns with the tape `[9]`: labels 1 and 4 both point to 0,
    labels 9 and 11 both point to 10 -/
def c05kMt : Matching :=
  [some 1, some 0, some 3, some 2, some 0, some 6, some 5, some 8, some 7, some 10, some 9, some 10]
def c05kKek : PMol :=
  match (do
      let m1 ← c05kMol.ds.foldlM (fun m p => deAromNode m p.1 p.2) c05kMol
      let m2 ← (List.range c05kMt.length).foldlM (doubleStep (List.range 12) c05kMt) m1
      pure (some { m2 with ds := [] }) : Py (Option PMol)) with
  | .ok (some g) => g
  | _ => {}
def c05kPrepared : PMol := okOr {} (encodeTail c03T true c05kKek)
def c05kSel : Str :=
  "[S][=C][Branch1][=Branch1][C][=C][C][=Ring1][Branch1][C][=C][C][=C][C][=S][Ring1][O][=C][Ring1][Ring2][/C][=C][/F]".toList

set_option maxRecDepth 100000 in
/-- **non-vacuity of `C05_sigma_skeleton_unconditional` and `C05_sigma_skeleton_end_to_end` on an
    unsound run.**  `s12c(ccc1)cccc3cs2c3/C=C/F`, tape `[9]` (the real library pops the same root and
    returns the same SELFIES): all twelve aromatic atoms are kept, the pruned subgraph `c05kGraph`
    is a simple graph with odd cycles, the tape is legal, `find_perfect_matching` returns `c05kMt`, which is NOT a
    matching but is EdgeOnly; `kekulize` succeeds; the STRICT encoder accepts (sulfur may have six
    bonds) and returns `c05kSel`; spans and depth fit.  Evaluated conclusion: the decoder's graph
    (ring bonds are recorded at both ends) has the 14 aromatic bonds of the input as single or
    double bonds and the three side-chain bonds `11–12` single, `12=13` double, `13–14` single
    unchanged — and sulfur 0 has TWO double bonds (to carbons 1 and 4), as has sulfur 10 (to 9 and
    11): the "exactly one double bond" clause fails, the sigma skeleton stands. -/
theorem c05kRun_facts :
    smilesToMol c05kIn.toList false = .ok c05kMol ∧
    c05kIn.toList.length ≤ 10 ^ Gen.intMaxStrDigits ∧
    keptNodes c05kMol = .ok (List.range 12) ∧
    prunedGraph c05kMol ((List.range 12).mergeSort (· ≤ ·)) = .ok c05kGraph ∧
    GraphOK c05kGraph ∧
    LegalTape c05kGraph [9] ∧
    findPerfectMatching c05kGraph [9] = .ok (some c05kMt) ∧
    isPerfectMatching c05kGraph c05kMt = false ∧ isEdgeOnly c05kGraph c05kMt = true ∧
    c05kMol.kekulize [9] = .ok (some c05kKek) ∧
    encoder c03T c05kIn.toList true [9] = .ok c05kSel ∧
    encodePrepare c03T c05kIn.toList true false [9] = .ok c05kPrepared ∧
    (∃ f, forestOf c05kPrepared = some f ∧ (∀ t ∈ f, t.spanOK = true) ∧
      (∀ t ∈ f, t.bdepth + 1 < recursionBudget) ∧ f.ringDigits ≤ 2 * 99) ∧
    (decodeGraph c03T c05kSel).map (fun m => (m.records, m.atoms.map (·.isAromatic)))
      = .ok ([(0, 4, 4), (0, 10, 2), (0, 1, 4), (1, 2, 2), (1, 5, 2), (2, 3, 4), (3, 4, 2), (0, 4, 4),
              (5, 6, 4), (6, 7, 2), (7, 8, 4), (8, 11, 2), (8, 9, 2), (9, 10, 4), (0, 10, 2),
              (10, 11, 4), (8, 11, 2), (11, 12, 2), (12, 13, 4), (13, 14, 2)],
             List.replicate 15 false) := by
  have hsorted : (List.range 12).mergeSort (· ≤ ·) = List.range 12 :=
    List.mergeSort_of_pairwise (by decide)
  have hs : smilesToMol c05kIn.toList false = .ok c05kMol := by decide +kernel
  have hne : c05kMol.ds.isEmpty = false := by decide +kernel
  have hbad : badCheck c05kMol = .ok false := by decide +kernel
  have hk : keptNodes c05kMol = .ok (List.range 12) := by decide +kernel
  have hp : prunedGraph c05kMol (List.range 12) = .ok c05kGraph := by decide +kernel
  have hg : GraphOK c05kGraph := (isGraphOK_iff _).1 (by decide)
  have hm : findPerfectMatching c05kGraph [9] = .ok (some c05kMt) := by decide +kernel
  have hkek : c05kMol.kekulize [9] = .ok (some c05kKek) :=
    kekulize_of_stages hne hbad hk hsorted hp hm (by decide +kernel)
  have htail : encodeTail c03T true c05kKek = .ok c05kPrepared := by decide +kernel
  have henc : encodeGraph c05kPrepared = .ok c05kSel := by decide +kernel
  obtain ⟨e1, e2⟩ := encoder_of_stages hs hkek htail henc
  have hf : (match forestOf c05kPrepared with
      | some f => decide ((∀ t ∈ f, t.spanOK = true) ∧ (∀ t ∈ f, t.bdepth + 1 < recursionBudget) ∧
          f.ringDigits ≤ 2 * 99)
      | none => false) = true := by decide +kernel
  have ht : LegalTape c05kGraph [9] :=
    legalTape_of_eq (m0 := [some 10, some 2, some 1, some 4, some 3, some 6, some 5, some 8, some 7,
      none, some 0, none]) (by decide +kernel) (by decide +kernel)
  refine ⟨hs, by decide +kernel, hk, by rw [hsorted]; exact hp, hg, ht, hm, by decide +kernel,
    C05_matching_edges_checked hg hm, hkek, e2, e1, ?_, by decide +kernel⟩
  cases hfo : forestOf c05kPrepared with
  | none => rw [hfo] at hf; cases hf
  | some f =>
    rw [hfo] at hf
    exact ⟨f, rfl, of_decide_eq_true hf⟩

/-- the conclusion of `C05_sigma_skeleton_end_to_end` on this run, as an instance of the theorem:
    the decoded graph keeps the side chain `11–12=13–14` bond for bond -/
example : ∃ G m, SigmaOrd c05kMol G ∧ decodeGraph c03T c05kSel = .ok m ∧ SigmaKept c05kMol G m ∧
    (11, 12, 2) ∈ m.records ∧ (12, 13, 4) ∈ m.records ∧ (13, 14, 2) ∈ m.records := by
  obtain ⟨hs, hlen, _, _, _, _, _, _, _, _, henc, hp, ⟨f, hf, hspan, hdepth, _⟩, _⟩ := c05kRun_facts
  obtain ⟨g1, g, f', G, _, hp', hf', hG, _, hrt⟩ :=
    C05_sigma_skeleton_end_to_end c03T _ [9] _ _ hlen hs henc
  rw [hp] at hp'
  injection hp' with hp'
  subst hp'
  rw [hf] at hf'
  injection hf' with hf'
  subst hf'
  obtain ⟨m, hdec, hkept⟩ := hrt hspan hdepth
  have hrow : ∀ (i : Nat) (b : PBond), c05kMol.adj[i]? = some [some b] → b ∈ rowAt c05kMol.adj i := by
    intro i b h
    rw [rowAt_of_getElem? h]
    simp [bondsOf]
  have h12 : (⟨12, 13, 4, none, false, none⟩ : PBond) ∈ rowAt c05kMol.adj 12 := hrow _ _ (by decide +kernel)
  have h13 : (⟨13, 14, 2, some '/', false, none⟩ : PBond) ∈ rowAt c05kMol.adj 13 := hrow _ _ (by decide +kernel)
  have h11 : (⟨11, 12, 2, some '/', false, none⟩ : PBond) ∈ rowAt c05kMol.adj 11 := by
    have h : c05kMol.adj[11]? = some [some ⟨11, 8, 3, none, true, none⟩, some ⟨11, 12, 2, some '/', false, none⟩] := by
      decide +kernel
    rw [rowAt_of_getElem? h]
    simp [bondsOf]
  exact ⟨G, m, hG, hdec, hkept, hkept.sigma hG h11 (by decide), hkept.sigma hG h12 (by decide),
    hkept.sigma hG h13 (by decide)⟩

set_option maxRecDepth 100000 in
/-- **what still needs `PerfectMatching`**: the clause `KekulizedAs.oneDouble` ("exactly one double
    bond into the former aromatic system for every kept atom") is FALSE of this accepted run —
    sulfur 0 is kept, its aromatic neighbours are `[1, 4, 10]`, and in the decoder's graph TWO of
    these bonds are double.  So no `KekulizedAs c05kMol kept mt m` holds for the decoded `m`,
    whatever `mt`: the hypothesis `PerfectMatching pg mt` of `C05e_aromatic_end_to_end` cannot be
    dropped for that clause. -/
theorem C05_one_double_needs_matching :
    ∃ m, decodeGraph c03T c05kSel = .ok m ∧ (0, [1, 4, 10]) ∈ c05kMol.ds ∧
      ([1, 4, 10].filter fun b => decide ((min 0 b, max 0 b, 4) ∈ m.records)).length = 2 ∧
      ∀ kept mt, 0 ∈ kept → ¬ KekulizedAs c05kMol kept mt m := by
  have h : (decodeGraph c03T c05kSel).map (fun m =>
      ([1, 4, 10].filter fun b => decide ((min 0 b, max 0 b, 4) ∈ m.records)).length) = .ok 2 := by
    decide +kernel
  have hds : (0, [1, 4, 10]) ∈ c05kMol.ds := by decide +kernel
  cases hd : decodeGraph c03T c05kSel with
  | error e => rw [hd] at h; cases h
  | ok m =>
    rw [hd] at h
    simp only [Except.map, Except.ok.injEq] at h
    refine ⟨m, rfl, hds, h, ?_⟩
    intro kept mt hk hkek
    have := hkek.oneDouble 0 [1, 4, 10] hds
    rw [if_pos hk, h] at this
    cases this

end SV
