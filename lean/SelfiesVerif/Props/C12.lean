/-
  Property C12 — "Constraint configuration API: faithful set/get, atomic rejection, no aliasing"

  set_semantic_constraints(t) followed by get_semantic_constraints() returns a dict equal to t (or
  to the named preset); presets never change.  An update rejected with ValueError (missing '?',
  malformed key, negative or non-integer capacity, unknown preset name, wrong type) leaves the
  current table, the robust alphabet and all translation behaviour exactly as before.  Objects
  returned by get_semantic_constraints, get_preset_constraints and get_semantic_robust_alphabet
  are private copies: mutating them, or mutating the dict passed to set_semantic_constraints
  afterwards, changes nothing inside the library.

  Formalisation (notions from Proofs/Config.lean):
  * `Op`, `step`, `run`   : histories of API calls interleaved with caller-side mutations; the
                            caller can only mutate objects it HOLDS (`held : List Nat`, every
                            reference returned by a getter or created by `newDict`);
                            `run ops = (final (state, held), observations)` from `CfgState.init`;
  * `dictLibRefs st`      : the dict references reachable from library state (preset dicts and
                            `_current_constraints`); `libRefs st` adds the cached alphabet set;
  * `Spec`, `Spec.run`    : the abstract value-semantics specification (no object identity);
  * `AlphaSafe ops`       : the history never calls `.add` on a set object (every set object of a
                            history was returned by `get_semantic_robust_alphabet`).

  Key grammar (`C12_validation`, `C12_validKey_spec_simple`, `C12_validKey_charge_bound`):
  `?` | `E` | `E+C` | `E-C` with `E ∈ ELEMENTS` and `C` matching `[1-9][0-9]*` with at most
  `Gen.intMaxStrDigits` (= `sys.get_int_max_str_digits()`, 4300) digits.  The bound on the number
  of digits is the repair of finding F10 (`_is_convertible` in bond_constraints.py): a charge
  that `int()` cannot read back is not a valid key.

  All "after any history" theorems are inductions over arbitrary `ops : List Op`
  (`Inv.run`, `Sim.runFrom` in Proofs/Config.lean).

  What is FALSE: privacy of the object returned by `get_semantic_robust_alphabet()`.  The function
  is `functools.lru_cache`d and hands out the cached set itself, so `s = get_..(); s.add("x")`
  pollutes every later call until the next successful `set_semantic_constraints`
  (`C12_alphabet_aliasing_witness`, finding F7).  Consequently the refinement theorem is proved for
  `AlphaSafe` histories only (`C12_refines_value_map_partial`); the dict part of the API (tables,
  presets, capacities) is private in ALL histories.
-/
import SelfiesVerif.Proofs.Config

namespace SV

/-! ### privacy of the dict objects -/

/-- After ANY history: no reference held by the caller is a preset dict or the current dict;
    all library dict references are live heap objects; `nextId` is fresh. -/
theorem C12_privacy_dicts (ops : List Op) :
    (∀ r ∈ dictLibRefs (run ops).1.1, r ∉ (run ops).1.2) ∧
    (∀ r ∈ dictLibRefs (run ops).1.1, (lookup r (run ops).1.1.dicts).isSome = true) ∧
    (∀ r, (lookup r (run ops).1.1.dicts).isSome = true ∨ (lookup r (run ops).1.1.sets).isSome = true
            ∨ r ∈ (run ops).1.2 → r < (run ops).1.1.nextId) := by
  have h := Inv.run ops
  refine ⟨?_, ?_, ?_⟩
  · intro r hr
    simp only [dictLibRefs, List.mem_append, List.mem_map, List.mem_singleton] at hr
    rcases hr with ⟨p, hp, rfl⟩ | rfl
    · exact h.prePriv p hp
    · exact h.curPriv
  · intro r hr
    simp only [dictLibRefs, List.mem_append, List.mem_map, List.mem_singleton] at hr
    rcases hr with ⟨p, hp, rfl⟩ | rfl
    · exact h.preLive p hp
    · exact h.curLive
  · rintro r (hr | hr | hr)
    · exact h.dictsLt r hr
    · exact h.setsLt r hr
    · exact h.heldLt r hr

/-- non-vacuity: a history after which the caller holds four dict objects and one set object,
    none of them a library dict -/
example :
    (run [.getConstraints, .getPreset "octet_rule".toList, .newDict [(.str ['?'], .int 3)],
          .setDict 2, .getConstraints, .getAlphabet]).1.2 = [4, 5, 6, 8, 9] ∧
    dictLibRefs (run [.getConstraints, .getPreset "octet_rule".toList,
          .newDict [(.str ['?'], .int 3)], .setDict 2, .getConstraints, .getAlphabet]).1.1
      = [0, 1, 2, 7] := by decide

/-- the same invariant for an arbitrary reachable configuration, as a reusable record -/
theorem C12_invariant (ops : List Op) : Inv (run ops).1 := Inv.run ops

/-- Presets never change: after any history the preset table has the same names, and each name
    denotes an object whose value is the generated preset. -/
theorem C12_presets_lookup (ops : List Op) (n : Str) :
    (lookup n (run ops).1.1.presets).map (run ops).1.1.dictOf
      = (lookup n Gen.presets).map constraintsToPyDict := by
  rw [← (Inv.run ops).lookup_preset n, lookup_spec_presets]

theorem C12_presets_constant (ops : List Op) (n : Str) (c : Constraints)
    (h : lookup n Gen.presets = some c) :
    ∃ r, lookup n (run ops).1.1.presets = some r ∧
      (run ops).1.1.dictOf r = constraintsToPyDict c := by
  have := C12_presets_lookup ops n
  rw [h] at this
  cases hl : lookup n (run ops).1.1.presets with
  | none => rw [hl] at this; simp at this
  | some r => rw [hl] at this; exact ⟨r, rfl, by simpa using this⟩

theorem C12_presets_domain (ops : List Op) (n : Str) (h : lookup n Gen.presets = none) :
    lookup n (run ops).1.1.presets = none := by
  have := C12_presets_lookup ops n
  rw [h] at this
  simpa using this

example : lookup "hypervalent".toList Gen.presets = some Gen.preset_hypervalent := by decide

/-- `get_preset_constraints(n)` returns, after any history, the generated preset by value
    (or raises `ValueError` for an unknown name, changing nothing). -/
theorem C12_getPreset_obs (ops : List Op) (n : Str) :
    (step (run ops).1 (.getPreset n)).2 =
      match lookup n Gen.presets with
      | some c => .dict (constraintsToPyDict c)
      | none => .exc .ValueError := by
  have hinv := Inv.run ops
  rw [step_getPreset]
  cases hg : lookup n Gen.presets with
  | none => rw [C12_presets_domain ops n hg]
  | some c =>
    obtain ⟨r, h1, h2⟩ := C12_presets_constant ops n c hg
    rw [h1]
    simp only [dictOf_allocDict_new hinv, h2]

example : (step (run [.getConstraints, .mutDict 0 (.str ['C']) (.int 0), .setDict 0]).1
            (.getPreset "default".toList)).2 = .dict (constraintsToPyDict Gen.preset_default) := by
  decide

/-- A caller-side mutation (`d[k] = v` or `s.add(x)` on ANY object the caller holds, at any point
    of any history) never changes the current table - nor which object is current. -/
theorem C12_current_unaffected_by_mutation (ops : List Op) (op : Op)
    (hop : (∃ i k v, op = .mutDict i k v) ∨ (∃ i x, op = .mutSet i x)) :
    (step (run ops).1 op).1.1.currentTable = (run ops).1.1.currentTable ∧
    (step (run ops).1 op).1.1.current = (run ops).1.1.current ∧
    (step (run ops).1 op).1.1.dictOf (run ops).1.1.current
      = (run ops).1.1.dictOf (run ops).1.1.current := by
  have hinv := Inv.run ops
  rcases hop with ⟨i, k, v, rfl⟩ | ⟨i, x, rfl⟩
  · rw [step_mutDict]
    split
    · exact ⟨rfl, rfl, rfl⟩
    · rename_i ref href
      have hmem := List.mem_of_getElem? href
      have hne : (run ops).1.1.current ≠ ref := fun he => hinv.curPriv (he ▸ hmem)
      exact ⟨currentTable_mutateDict hinv hmem k v, rfl, dictOf_mutateDict_ne _ k v hne⟩
  · rw [step_mutSet]
    split
    · exact ⟨rfl, rfl, rfl⟩
    · exact ⟨rfl, rfl, rfl⟩

/-- non-vacuity: the mutated object is the very dict that was passed to
    `set_semantic_constraints` before, and a copy returned by `get_semantic_constraints` -/
example :
    (run [.newDict [(.str ['?'], .int 3)], .setDict 0, .getConstraints,
          .mutDict 0 (.str ['C']) (.int 1), .mutDict 1 (.str ['?']) (.int 0)]).1.1.currentTable
      = [(['?'], 3)] := by decide

/-! ### faithful set / get -/

/-- `get_semantic_constraints()` in any reachable configuration: a fresh reference whose value is
    the current dict -/
theorem getConstraints_reachable {s : Cfg} (h : Inv s) :
    step s .getConstraints =
      (((s.1.allocDict (s.1.dictOf s.1.current)).1, s.2 ++ [s.1.nextId]),
       .dict (s.1.dictOf s.1.current)) := by
  rw [step_getConstraints, dictOf_allocDict_new h]

/-- the core of faithful set/get: right after a commit of `d`, `get_semantic_constraints()`
    returns `d` by value in a new object -/
theorem commit_then_get {s : Cfg} (hinv : Inv s) (d : PyDict) (s1 : Cfg)
    (hs1 : s1 = (s.1.commit d, s.2)) (p2 : Cfg × Obs) (hp2 : p2 = step s1 .getConstraints) :
    s1.1.currentTable = d.toConstraints ∧ p2.2 = .dict d ∧
    ∃ r, p2.1.2 = s.2 ++ [r] ∧ r ∉ s.2 ∧ r ∉ dictLibRefs p2.1.1 ∧
      p2.1.1.dictOf r = d ∧ p2.1.1.currentTable = d.toConstraints := by
  have hinv1 : Inv s1 := by rw [hs1]; exact hinv.commit d
  have hct : s1.1.currentTable = d.toConstraints := by rw [hs1]; exact currentTable_commit hinv d
  have hcur : s1.1.dictOf s1.1.current = d := by rw [hs1]; exact dictOf_commit hinv d
  have hs2 : s1.2 = s.2 := by rw [hs1]
  rw [getConstraints_reachable hinv1, hcur] at hp2
  subst hp2
  have hinv2 : Inv ((s1.1.allocDict d).1, s1.2 ++ [s1.1.nextId]) := hinv1.allocDict_hold d
  have hnew : s1.1.nextId ∉ s.2 := by
    intro hm
    exact Nat.lt_irrefl _ (hinv1.heldLt s1.1.nextId (hs2 ▸ hm))
  refine ⟨hct, rfl, s1.1.nextId, by simp only [hs2], hnew, ?_, dictOf_allocDict_new hinv1 d, ?_⟩
  · intro hm
    have hin : s1.1.nextId ∈ s1.2 ++ [s1.1.nextId] := by simp
    simp only [dictLibRefs, List.mem_append, List.mem_map, List.mem_singleton] at hm
    rcases hm with ⟨p, hp, he⟩ | he
    · exact hinv2.prePriv p hp (he ▸ hin)
    · exact hinv2.curPriv (he ▸ hin)
  · exact (currentTable_allocDict hinv1 d).trans hct

/-- After any history: if the caller passes a dict it holds and validation succeeds, the update is
    accepted, the current table is (the `str ↦ int` reading of) that dict, and an immediately
    following `get_semantic_constraints()` returns a NEW object (not held before, not reachable
    from library state, in particular not the object passed in) whose value equals the dict. -/
theorem C12_set_get (ops : List Op) (i ref : Nat)
    (href : (run ops).1.2[i]? = some ref)
    (hvalid : validateDict ((run ops).1.1.dictOf ref) = none) :
    let s := (run ops).1
    let d := s.1.dictOf ref
    let p1 := step s (.setDict i)
    let p2 := step p1.1 .getConstraints
    p1.2 = .unit ∧ p1.1.1.currentTable = d.toConstraints ∧
    p2.2 = .dict d ∧
    ∃ r, p2.1.2 = s.2 ++ [r] ∧ r ∉ s.2 ∧ r ≠ ref ∧ r ∉ dictLibRefs p2.1.1 ∧
      p2.1.1.dictOf r = d ∧ p2.1.1.currentTable = d.toConstraints := by
  have hinv : Inv (run ops).1 := Inv.run ops
  have hp1 : step (run ops).1 (.setDict i) =
      (((run ops).1.1.commit ((run ops).1.1.dictOf ref), (run ops).1.2), .unit) := by
    rw [step_setDict, href]
    simp only [hvalid]
  simp only [hp1]
  obtain ⟨h1, h2, r, h3, h4, h5, h6, h7⟩ :=
    commit_then_get hinv ((run ops).1.1.dictOf ref) _ rfl _ rfl
  refine ⟨trivial, h1, h2, r, h3, h4, ?_, h5, h6, h7⟩
  rintro rfl
  exact h4 (List.mem_of_getElem? href)

/-- non-vacuity of `C12_set_get`: handle 0 is a caller-built valid table -/
example :
    (run [.newDict [(.str ['?'], .int 3), (.str "Fe+2".toList, .bool true)]]).1.2[0]? = some 4 ∧
    validateDict ((run [.newDict [(.str ['?'], .int 3), (.str "Fe+2".toList, .bool true)]]).1.1.dictOf 4)
      = none := by decide

/-- `set_semantic_constraints(name)` with a preset name, then `get_semantic_constraints()`:
    the preset's value, as a new object. -/
theorem C12_set_get_name (ops : List Op) (n : Str) (c : Constraints)
    (hn : lookup n Gen.presets = some c) :
    let s := (run ops).1
    let p1 := step s (.setName n)
    let p2 := step p1.1 .getConstraints
    p1.2 = .unit ∧ p1.1.1.currentTable = c ∧
    p2.2 = .dict (constraintsToPyDict c) ∧
    ∃ r, p2.1.2 = s.2 ++ [r] ∧ r ∉ s.2 ∧ r ∉ dictLibRefs p2.1.1 ∧
      p2.1.1.dictOf r = constraintsToPyDict c := by
  have hinv : Inv (run ops).1 := Inv.run ops
  obtain ⟨pr, hpr1, hpr2⟩ := C12_presets_constant ops n c hn
  have hp1 : step (run ops).1 (.setName n) =
      (((run ops).1.1.commit (constraintsToPyDict c), (run ops).1.2), .unit) := by
    rw [step_setName, hpr1]
    simp only [hpr2]
  simp only [hp1]
  obtain ⟨h1, h2, r, h3, h4, h5, h6, _⟩ :=
    commit_then_get hinv (constraintsToPyDict c) _ rfl _ rfl
  rw [toConstraints_constraintsToPyDict] at h1
  exact ⟨trivial, h1, h2, r, h3, h4, h5, h6⟩

example : lookup "octet_rule".toList Gen.presets = some Gen.preset_octet_rule := by decide

/-! ### atomic rejection -/

/-- A rejected `set_semantic_constraints` leaves the ENTIRE library state (current table, presets,
    heap, alphabet cache, capacity cache) exactly as before - for all three kinds of argument, in
    every state (reachable or not).  The exception is `ValueError` for an unknown preset name and
    for a non-str/non-dict argument; for a dict it is whatever the validation loop raises, which
    is `ValueError` or `AttributeError` (see `C12_reject_attribute_error_iff`). -/
theorem C12_reject_atomic (st : CfgState) (arg : SetArg) (e : PyExc)
    (h : (setConstraints st arg).2 = .error e) :
    (setConstraints st arg).1 = st ∧
    (∀ n, arg = .name n → e = .ValueError ∧ lookup n st.presets = none) ∧
    (arg = .other → e = .ValueError) ∧
    (∀ ref, arg = .dict ref →
      validateDict (st.dictOf ref) = some e ∧ (e = .ValueError ∨ e = .AttributeError)) := by
  cases arg with
  | name n =>
    rw [setConstraints_name] at h ⊢
    cases hl : lookup n st.presets with
    | none =>
      rw [hl] at h; simp only [Except.error.injEq] at h
      refine ⟨rfl, ?_, by simp, by simp⟩
      intro n' hn'; cases hn'; exact ⟨h.symm, hl⟩
    | some r => rw [hl] at h; simp at h
  | other =>
    simp only [setConstraints_other, Except.error.injEq] at h
    exact ⟨rfl, by simp, fun _ => h.symm, by simp⟩
  | dict ref =>
    rw [setConstraints_dict] at h ⊢
    cases hv : validateDict (st.dictOf ref) with
    | none => rw [hv] at h; simp at h
    | some e' =>
      rw [hv] at h
      simp only [Except.error.injEq] at h
      subst h
      refine ⟨rfl, by simp, by simp, ?_⟩
      intro ref' hr; cases hr
      refine ⟨hv, ?_⟩
      by_cases hq : HasQ (st.dictOf ref)
      · rw [validateDict_of_hasQ hq] at hv; exact go_error_class hv
      · rw [validateDict_of_noQ hq] at hv; simp only [Option.some.injEq] at hv; exact .inl hv.symm

/-- conversely, an accepted update reports no exception: success and failure are decided by
    `lookup` / `validateDict` alone -/
theorem C12_reject_iff (st : CfgState) (arg : SetArg) :
    (∃ e, (setConstraints st arg).2 = .error e) ↔
      match arg with
      | .name n => lookup n st.presets = none
      | .other => True
      | .dict ref => validateDict (st.dictOf ref) ≠ none := by
  cases arg with
  | name n =>
    rw [setConstraints_name]
    cases hl : lookup n st.presets <;> simp [hl]
  | other => rw [setConstraints_other]; simp
  | dict ref =>
    rw [setConstraints_dict]
    cases hv : validateDict (st.dictOf ref) <;> simp [hv]

/-- the same on histories: a `set` step that raises leaves state AND caller handles unchanged -/
theorem C12_reject_atomic_step (s : Cfg) (op : Op) (e : PyExc)
    (hop : (∃ n, op = .setName n) ∨ (∃ i, op = .setDict i) ∨ op = .setOther)
    (h : (step s op).2 = .exc e) : (step s op).1 = s := by
  rcases hop with ⟨n, rfl⟩ | ⟨i, rfl⟩ | rfl
  · rw [step_setName] at h ⊢
    cases hl : lookup n s.1.presets with
    | none => rfl
    | some r => rw [hl] at h; simp at h
  · rw [step_setDict] at h ⊢
    cases hl : s.2[i]? with
    | none => rfl
    | some ref =>
      rw [hl] at h
      simp only [] at h ⊢
      cases hv : validateDict (s.1.dictOf ref) with
      | none => rw [hv] at h; simp at h
      | some e' => rfl
  · rfl

/-- `AttributeError` (from `key.find` on a non-`str` key) is raised exactly when `"?"` is a key
    and the first entry that fails a check has a non-`str` key; every other rejection of a dict is
    a `ValueError`. -/
theorem C12_reject_attribute_error_iff (d : PyDict) :
    validateDict d = some .AttributeError ↔
      HasQ d ∧ ∃ pre v post, d = pre ++ (PyKey.other, v) :: post ∧ ∀ kv ∈ pre, EntryOK kv := by
  by_cases hq : HasQ d
  · rw [validateDict_of_hasQ hq, go_attr_iff]; simp [hq]
  · rw [validateDict_of_noQ hq]; simp [hq]

theorem C12_reject_error_class (d : PyDict) (e : PyExc) (h : validateDict d = some e) :
    e = .ValueError ∨ e = .AttributeError := by
  by_cases hq : HasQ d
  · rw [validateDict_of_hasQ hq] at h; exact go_error_class h
  · rw [validateDict_of_noQ hq] at h; simp only [Option.some.injEq] at h; exact .inl h.symm

/-- non-vacuity: one rejected update of each kind -/
example :
    (setConstraints CfgState.init (.name "nope".toList)).2 = .error .ValueError ∧
    (setConstraints CfgState.init .other).2 = .error .ValueError ∧
    (step (run [.newDict [(.str ['C'], .int 4)]]).1 (.setDict 0)).2 = .exc .ValueError ∧
    (step (run [.newDict [(.str ['?'], .int 4), (.str "C+01".toList, .int 1)]]).1 (.setDict 0)).2
      = .exc .ValueError ∧
    (step (run [.newDict [(.str ['?'], .int (-1))]]).1 (.setDict 0)).2 = .exc .ValueError ∧
    (step (run [.newDict [(.str ['?'], .other)]]).1 (.setDict 0)).2 = .exc .ValueError ∧
    (step (run [.newDict [(.str ['?'], .int 1), (.other, .int 1)]]).1 (.setDict 0)).2
      = .exc .AttributeError ∧
    (step (run [.getAlphabet]).1 (.setDict 0)).2 = .exc .ValueError := by decide

/-! ### what validation accepts -/

/-- A dict is accepted iff `"?"` is a key, every key is a `str` satisfying the key grammar and
    every value is a non-negative `int` (`bool` is an `int` in Python).  The key grammar, spelled
    out for the actual `ELEMENTS`: `?` | `E` | `E+C` | `E-C` with `E ∈ ELEMENTS` and `C` matching
    `[1-9][0-9]*` with AT MOST `Gen.intMaxStrDigits` (= `sys.get_int_max_str_digits()`) DIGITS, so
    that `int(C)` converts (repair of finding F10: before the repair the number of digits was
    unbounded and the robust alphabet could contain a symbol the decoder rejects). -/
theorem C12_validation (d : PyDict) :
    validateDict d = none ↔
      PyKey.str qKey ∈ d.map (·.1) ∧
      ∀ kv ∈ d, ∃ s, kv.1 = .str s ∧ kv.2.validCapacity = true ∧
        (s = ['?'] ∨ s ∈ Gen.elements ∨
          ∃ E sign c cs, s = E ++ sign :: c :: cs ∧ (sign = '+' ∨ sign = '-') ∧ E ∈ Gen.elements ∧
            isDigit19 c = true ∧ (∀ x ∈ cs, isAsciiDigit x = true) ∧
            (c :: cs).length ≤ Gen.intMaxStrDigits) := by
  have hkey : ∀ s : Str, validKey s = true ↔
      (s = ['?'] ∨ s ∈ Gen.elements ∨
        ∃ E sign c cs, s = E ++ sign :: c :: cs ∧ (sign = '+' ∨ sign = '-') ∧ E ∈ Gen.elements ∧
          isDigit19 c = true ∧ (∀ x ∈ cs, isAsciiDigit x = true) ∧
          (c :: cs).length ≤ Gen.intMaxStrDigits) := by
    intro s
    rw [validKey_iff_simple]
    constructor
    · rintro (h | h | ⟨E, sign, C, h1, h2, h3, c, cs, rfl, h4, h5, h6⟩)
      · exact .inl h
      · exact .inr (.inl h)
      · exact .inr (.inr ⟨E, sign, c, cs, h1, h2, h3, h4, h5, h6⟩)
    · rintro (h | h | ⟨E, sign, c, cs, h1, h2, h3, h4, h5, h6⟩)
      · exact .inl h
      · exact .inr (.inl h)
      · exact .inr (.inr ⟨E, sign, c :: cs, h1, h2, h3, c, cs, rfl, h4, h5, h6⟩)
  have hentry : ∀ kv : PyKey × PyVal, EntryOK kv ↔
      ∃ s, kv.1 = .str s ∧ kv.2.validCapacity = true ∧
        (s = ['?'] ∨ s ∈ Gen.elements ∨
          ∃ E sign c cs, s = E ++ sign :: c :: cs ∧ (sign = '+' ∨ sign = '-') ∧ E ∈ Gen.elements ∧
            isDigit19 c = true ∧ (∀ x ∈ cs, isAsciiDigit x = true) ∧
            (c :: cs).length ≤ Gen.intMaxStrDigits) := by
    intro kv
    constructor
    · rintro ⟨s, h1, h2, h3⟩; exact ⟨s, h1, h3, (hkey s).1 h2⟩
    · rintro ⟨s, h1, h2, h3⟩; exact ⟨s, h1, (hkey s).2 h3, h2⟩
  by_cases hq : HasQ d
  · rw [validateDict_of_hasQ hq, go_none_iff]
    exact ⟨fun h => ⟨hq, fun kv hkv => (hentry kv).1 (h kv hkv)⟩,
           fun h kv hkv => (hentry kv).2 (h.2 kv hkv)⟩
  · rw [validateDict_of_noQ hq]
    constructor
    · intro h; simp at h
    · intro h; exact absurd h.1 hq

-- non-vacuity: an accepted dict with a charged key, and the three ways a key can fail the
-- grammar on its charge (leading zero, non-digit, too many digits)
set_option maxRecDepth 100000 in
example :
    validateDict [(.str ['?'], .int 8), (.str "Fe+2".toList, .bool true), (.str "C-10".toList, .int 3)]
      = none ∧
    validateDict [(.str ['?'], .int 8), (.str "C+01".toList, .int 1)] = some .ValueError ∧
    validateDict [(.str ['?'], .int 8), (.str "C+1a".toList, .int 1)] = some .ValueError ∧
    validateDict [(.str ['?'], .int 8),
      (.str ("C+".toList ++ List.replicate (Gen.intMaxStrDigits + 1) '1'), .int 1)]
      = some .ValueError ∧
    validateDict [(.str ['?'], .int 8),
      (.str ("C+".toList ++ List.replicate Gen.intMaxStrDigits '1'), .int 1)] = none := by
  decide +kernel

/-- the key grammar, for an arbitrary `ELEMENTS` table (see `ValidKeySpec`): `?`, or a sign-free
    element, or `E ++ sign :: C` with `E` an element, `sign ∈ {+,-}` not occurring in `E`
    (the split point is the LAST of the first `+` and the first `-`) and `C` matching
    `[1-9][0-9]*` with at most `Gen.intMaxStrDigits` digits (`IsCharge`) -/
theorem C12_validKey_spec (key : Str) : validKey key = true ↔ ValidKeySpec key :=
  validKey_iff key

/-- the key grammar for the actual `ELEMENTS` (no element symbol contains a sign):
    `?` | `E` | `E+C` | `E-C`, where `C` matches `[1-9][0-9]*` and has at most
    `Gen.intMaxStrDigits` digits (the bound `int()` converts; repair of F10) -/
theorem C12_validKey_spec_simple (key : Str) :
    validKey key = true ↔
      key = ['?'] ∨ key ∈ Gen.elements ∨
      ∃ E sign C, key = E ++ sign :: C ∧ (sign = '+' ∨ sign = '-') ∧ E ∈ Gen.elements ∧
        (∃ c cs, C = c :: cs ∧ isDigit19 c = true ∧ (∀ x ∈ cs, isAsciiDigit x = true)) ∧
        C.length ≤ Gen.intMaxStrDigits := by
  rw [validKey_iff_simple]
  constructor
  · rintro (h | h | ⟨E, sign, C, h1, h2, h3, c, cs, h4, h5, h6, h7⟩)
    · exact .inl h
    · exact .inr (.inl h)
    · exact .inr (.inr ⟨E, sign, C, h1, h2, h3, ⟨c, cs, h4, h5, h6⟩, h7⟩)
  · rintro (h | h | ⟨E, sign, C, h1, h2, h3, ⟨c, cs, h4, h5, h6⟩, h7⟩)
    · exact .inl h
    · exact .inr (.inl h)
    · exact .inr (.inr ⟨E, sign, C, h1, h2, h3, c, cs, h4, h5, h6, h7⟩)

/-- **The bound is sharp** (boundary of the repaired grammar): for every element `E`, sign and
    charge text `C` matching `[1-9][0-9]*`, the key `E sign C` is valid iff `C` has at most
    `Gen.intMaxStrDigits` digits. -/
theorem C12_validKey_charge_bound {E : Str} (hE : E ∈ Gen.elements) {sign : Char}
    (hs : sign = '+' ∨ sign = '-') {c : Char} {cs : Str} (hc : isDigit19 c = true)
    (hcs : ∀ x ∈ cs, isAsciiDigit x = true) :
    validKey (E ++ sign :: c :: cs) = true ↔ (c :: cs).length ≤ Gen.intMaxStrDigits := by
  rw [validKey_iff_simple]
  constructor
  · rintro (h | h | ⟨E', sign', C, h1, h2, h3, h4⟩)
    · have := congrArg List.length h
      simp at this
      omega
    · have := (elements_no_sign _ h)
      rcases hs with rfl | rfl
      · exact absurd (by simp) this.1
      · exact absurd (by simp) this.2
    · -- the split is unique: `C` has no sign and `E`, `E'` have no sign
      have hC := h4.no_sign
      have hlen := h4.length_le
      have hE'ns := elements_no_sign _ h3
      have hEns := elements_no_sign _ hE
      have hcns : ∀ x ∈ c :: cs, x ≠ '+' ∧ x ≠ '-' := by
        intro x hx
        rcases List.mem_cons.1 hx with rfl | hx
        · exact isDigit19_ne_sign hc
        · exact isAsciiDigit_ne_sign (hcs x hx)
      have hsuf : c :: cs = C := by
        have key : ∀ (A B : Str) (a b : Char) (X Y : Str),
            A ++ a :: X = B ++ b :: Y → (∀ x ∈ A, x ≠ '+' ∧ x ≠ '-') → (∀ x ∈ B, x ≠ '+' ∧ x ≠ '-') →
            (a = '+' ∨ a = '-') → (b = '+' ∨ b = '-') → X = Y := by
          intro A
          induction A with
          | nil =>
            intro B a b X Y h hA hB ha hb
            cases B with
            | nil => simp at h; exact h.2
            | cons y B =>
              simp at h
              have := hB y (List.mem_cons_self ..)
              rcases ha with rfl | rfl
              · exact absurd h.1.symm this.1
              · exact absurd h.1.symm this.2
          | cons x A ih =>
            intro B a b X Y h hA hB ha hb
            cases B with
            | nil =>
              simp at h
              have := hA x (List.mem_cons_self ..)
              rcases hb with rfl | rfl
              · exact absurd h.1 this.1
              · exact absurd h.1 this.2
            | cons y B =>
              simp at h
              exact ih B a b X Y h.2 (fun z hz => hA z (List.mem_cons_of_mem _ hz))
                (fun z hz => hB z (List.mem_cons_of_mem _ hz)) ha hb
        exact key E E' sign sign' (c :: cs) C h1
          (fun x hx => ⟨fun e => hEns.1 (e ▸ hx), fun e => hEns.2 (e ▸ hx)⟩)
          (fun x hx => ⟨fun e => hE'ns.1 (e ▸ hx), fun e => hE'ns.2 (e ▸ hx)⟩) hs h2
      rw [hsuf]; exact hlen
  · intro hlen
    exact .inr (.inr ⟨E, sign, c :: cs, rfl, hs, hE, c, cs, rfl, hc, hcs, hlen⟩)

-- boundary: exactly `Gen.intMaxStrDigits` charge digits is valid, one more is not
set_option maxRecDepth 100000 in
example :
    validKey ("C+".toList ++ List.replicate Gen.intMaxStrDigits '1') = true ∧
    validKey ("C+".toList ++ List.replicate (Gen.intMaxStrDigits + 1) '1') = false ∧
    validKey ("Zn-9".toList ++ List.replicate (Gen.intMaxStrDigits - 1) '0') = true ∧
    validKey ("Zn-9".toList ++ List.replicate Gen.intMaxStrDigits '0') = false := by
  decide +kernel

theorem C12_validCapacity_spec (v : PyVal) :
    v.validCapacity = true ↔ (∃ z : Int, 0 ≤ z ∧ v = .int z) ∨ ∃ b, v = .bool b := by
  cases v with
  | int z => simp [PyVal.validCapacity]
  | bool b => simp [PyVal.validCapacity]
  | other => simp [PyVal.validCapacity]

/-- non-vacuity / sanity of the grammar: accepted and rejected keys -/
example :
    validKey "?".toList = true ∧ validKey "Fe".toList = true ∧ validKey "Fe+2".toList = true ∧
    validKey "C-10".toList = true ∧ validKey "C+01".toList = false ∧
    validKey "C+".toList = false ∧ validKey "C+1-1".toList = false ∧
    validKey "C-+1".toList = false ∧ validKey "Xx".toList = false ∧
    validKey "C+1a".toList = false ∧ validKey "".toList = false := by decide

example : validateDict (constraintsToPyDict Gen.preset_default) = none := by decide

/-! ### the alphabet is NOT a private copy (finding F7) -/

/-- `s = get_semantic_robust_alphabet(); s.add("x"); get_semantic_robust_alphabet()`:
    the second call returns a set containing `"x"`, although the alphabet of the current table
    does not; the reference the caller holds IS the library's cached object; the observations
    differ from the value-semantics specification. -/
theorem C12_alphabet_aliasing_witness :
    (run [.getAlphabet, .mutSet 0 ['x'], .getAlphabet]).2[2]?
      = some (.set (robustAlphabet (run [.getAlphabet, .mutSet 0 ['x'], .getAlphabet]).1.1.currentTable
                      ++ [['x']])) ∧
    ['x'] ∉ robustAlphabet (run [.getAlphabet, .mutSet 0 ['x'], .getAlphabet]).1.1.currentTable ∧
    (∃ r ∈ (run [.getAlphabet]).1.2, r ∈ libRefs (run [.getAlphabet]).1.1) ∧
    (run [.getAlphabet, .mutSet 0 ['x'], .getAlphabet]).2
      ≠ (Spec.run [.getAlphabet, .mutSet 0 ['x'], .getAlphabet]).2 ∧
    ¬ AlphaSafe [.getAlphabet, .mutSet 0 ['x'], .getAlphabet] := by
  refine ⟨by decide, by decide, ⟨4, by decide, by decide⟩, by decide, by decide⟩

/-! ### refinement of the value-semantics specification -/

/-
  Full statement (FALSE, by `C12_alphabet_aliasing_witness`):

    theorem C12_refines_value_map (ops : List Op) : (run ops).2 = (Spec.run ops).2

  It fails exactly for histories that call `.add` on an object returned by
  `get_semantic_robust_alphabet()` while that object is still the cached one.  What is missing is
  not a proof but a fix of the library (return `set(cached)`); with `getAlphabet` allocating a
  copy, `AlphaSafe` could be dropped.
-/

/-- For every history without `.add` on an alphabet object, EVERY observation (returned dicts and
    sets by value, exception classes, capacities read through the lru_cache) equals the
    observation of the abstract specification `Spec` with value semantics; moreover the final
    configurations are related (`Sim`): the current dict's value is the spec's current value and
    the caller's objects have the values the spec says. -/
theorem C12_refines_value_map_partial (ops : List Op) (h : AlphaSafe ops) :
    (run ops).2 = (Spec.run ops).2 ∧ Sim (run ops).1 (Spec.run ops).1 := by
  have := Sim.init.runFrom ops h
  exact ⟨this.2, this.1⟩

/-- non-vacuity: a safe history exercising every operation, accepted and rejected updates,
    mutation of passed and returned dicts, `.add` through a dict handle and a dangling handle,
    cache hits -/
example : AlphaSafe
    [.getConstraints, .getPreset "octet_rule".toList,
     .newDict [(.str ['?'], .int 3), (.str "Fe+2".toList, .bool true)],
     .mutDict 0 (.str ['C']) (.int 9), .setDict 2, .getAlphabet, .mutSet 0 ['x'], .mutSet 9 ['x'],
     .setDict 0, .mutDict 2 .other (.int 1), .setDict 2, .capacity ['C'] 0, .capacity ['C'] 0,
     .capacity "Fe".toList 2, .setName "nope".toList, .setOther, .getConstraints, .getAlphabet] := by
  decide


/-- `AlphaSafe` can be checked on the specification alone: the history never `.add`s through a
    handle whose abstract value is a set. -/
theorem C12_alphaSafe_iff_spec (ops : List Op) :
    AlphaSafe ops ↔ Spec.safeFrom (Spec.init, []) ops = true := by
  unfold AlphaSafe
  rw [Sim.init.safeFrom_eq ops]

end SV
