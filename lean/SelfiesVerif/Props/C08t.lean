/-
  Properties C08 / C09 at FULL STRENGTH, for the API functions as repaired (finding F2):

      selfies.decoder:  try: return _decode(...)  except RecursionError as err: raise DecoderError(...) from err
      selfies.encoder:  try: return _encode(...)  except RecursionError as err: raise EncoderError(...) from err

  `decoderFull` / `encoderFull` model the bodies, `decoderApi` / `encoderApi` (Model/Api.lean) the
  functions with the `try … except`.  Before the repair only the `_partial` statements of
  Props/C08.lean and Props/C09.lean held (a third alternative `RecursionError`); with it:

  * `C08_total`  for EVERY table, EVERY `str` and both flags `selfies.decoder` returns or raises
                 `DecoderError` — nothing else, and it terminates (`NonTermination` excluded);
  * `C09_total`  for EVERY table, EVERY `str`, both flags and every legal kekulization tape
                 `selfies.encoder` returns or raises `EncoderError`;
  * `decoderApi_ok_iff`, `encoderApi_ok_iff`   a RESULT of the API function is a result of the body
                 and conversely, so every theorem about returned values (C01 … C07, C10, C13, C17,
                 C18) transfers verbatim;
  * `decoderApi_eq_of_shallow`   below the recursion budget the wrapper is the identity;
  * `C08_deep_nesting_rejected`  what the repair does NOT give: when the body runs out of stack the
                 API function raises `DecoderError`, it does not return a molecule.  For strings over
                 the robust alphabet this is still a failure of C07 / C01 ("every string decodes"),
                 recorded as the residual finding F2r.
-/
import SelfiesVerif.Model.Api
import SelfiesVerif.Props.C08
import SelfiesVerif.Props.C09

namespace SV
open C09

theorem catchRecursion_ok {α : Type} (e : PyExc) (r : Py α) (v : α) :
    catchRecursion e r = .ok v ↔ r = .ok v := by
  unfold catchRecursion
  split <;> simp_all

theorem catchRecursion_of_ne {α : Type} (e : PyExc) (r : Py α) (h : r ≠ .error .RecursionError) :
    catchRecursion e r = r := by
  unfold catchRecursion
  split
  · exact absurd rfl h
  · rfl

/-! ### C08 -/

/-- **C08 (full strength).**  `selfies.decoder(s, compatible, attribute)` under any table, on any
    `str`: it terminates and returns its result or raises `DecoderError`. -/
theorem C08_total (T : Table) (s : Str) (compat attrib : Bool) :
    (∃ r, decoderApi T s compat attrib = .ok r) ∨
    decoderApi T s compat attrib = .error .DecoderError := by
  unfold decoderApi
  rcases C08_total_partial T s compat attrib with ⟨r, h⟩ | h | h
  · rw [h]; exact Or.inl ⟨r, rfl⟩
  · rw [h]; exact Or.inr rfl
  · rw [h]; exact Or.inr rfl

/-- a returned value of the API function is a returned value of the body, and conversely -/
theorem decoderApi_ok_iff (T : Table) (s : Str) (compat attrib : Bool) (r : Str × List AttributionMap) :
    decoderApi T s compat attrib = .ok r ↔ decoderFull T s compat attrib = .ok r :=
  catchRecursion_ok _ _ _

/-- below the recursion budget the `try … except` is the identity -/
theorem decoderApi_eq_of_shallow (T : Table) (s : Str) (compat attrib : Bool)
    (h : ∀ frag ∈ splitOnChar '.' s, branchCount compat (tokenizeFragment frag) < recursionBudget) :
    decoderApi T s compat attrib = decoderFull T s compat attrib := by
  unfold decoderApi
  apply catchRecursion_of_ne
  rcases C08_no_recursion_error_if_shallow T s compat attrib h with ⟨r, hr⟩ | hr <;> rw [hr] <;> simp

/-- what the repair does not give: an input on which the body exhausts the stack is REJECTED -/
theorem C08_deep_nesting_rejected (T : Table) (s : Str) (compat attrib : Bool)
    (h : decoderFull T s compat attrib = .error .RecursionError) :
    decoderApi T s compat attrib = .error .DecoderError := by
  unfold decoderApi; rw [h]; rfl

example : decoderApi T0 "[C][Branch4]".toList false false = .error .DecoderError
    ∧ (decoderApi T0 "[C][=C][Branch1][C][O][C][Ring1][Ring2].[N][#C]".toList false false).map (·.1)
        = .ok "C1=C(O)C1.N#C".toList := by decide +kernel

/-! ### C09 -/

/-- **C09 (full strength).**  `selfies.encoder(s, strict, attribute)` under any table, on any
    `str`, with any legal resolution of `set.pop()`: it terminates and returns its result or raises
    `EncoderError`. -/
theorem C09_total (T : Table) (s : Str) (strict attrib : Bool) (tape : List Nat)
    (htape : ∀ g, smilesToMol s attrib = .ok g → TapeOK g tape) :
    (∃ r, encoderApi T s strict attrib tape = .ok r) ∨
    encoderApi T s strict attrib tape = .error .EncoderError := by
  unfold encoderApi
  rcases C09_total_partial T s strict attrib tape htape with ⟨r, h⟩ | h | h
  · rw [h]; exact Or.inl ⟨r, rfl⟩
  · rw [h]; exact Or.inr rfl
  · rw [h]; exact Or.inr rfl

theorem encoderApi_ok_iff (T : Table) (s : Str) (strict attrib : Bool) (tape : List Nat)
    (r : Str × List AttributionMap) :
    encoderApi T s strict attrib tape = .ok r ↔ encoderFull T s strict attrib tape = .ok r :=
  catchRecursion_ok _ _ _

/-- for every string, table and flags there is a tape (namely a legal one) on which the API
    function returns or raises `EncoderError` -/
theorem C09_total_exists_tape_api (T : Table) (s : Str) (strict attrib : Bool) :
    ∃ tape, (∃ r, encoderApi T s strict attrib tape = .ok r) ∨
      encoderApi T s strict attrib tape = .error .EncoderError := by
  obtain ⟨tape, h⟩ := C09_total_exists_tape T s strict attrib
  refine ⟨tape, ?_⟩
  unfold encoderApi
  rcases h with ⟨r, h⟩ | h | h
  · rw [h]; exact Or.inl ⟨r, rfl⟩
  · rw [h]; exact Or.inr rfl
  · rw [h]; exact Or.inr rfl

set_option maxRecDepth 100000 in
example : (encoderApi T0 "C1CC1(F)C".toList true false []).map (·.1)
      = .ok "[C][C][C][Ring1][Ring1][Branch1][C][F][C]".toList
    ∧ encoderApi T0 "C11".toList true false [] = .error .EncoderError
    ∧ encoderApi T0 "C(".toList true false [] = .error .EncoderError := by
  refine ⟨by decide +kernel, by decide +kernel, by decide +kernel⟩

end SV
