/-
  Property C17 — "Attribution is observation-only and truthful about tokens"

  Requesting attribution never changes the translation: encoder and decoder return the same string
  with attribute=True as without.  For the decoder, every attribution entry's output token is found
  in the output SMILES ending at the reported character index, every contributing input token is
  the symbol at the reported position of the input (counting symbols, ignoring [nop] and '.'), and
  every output atom is attributed to the atom symbol that created it together with the branch
  symbols enclosing it; for the encoder, every SELFIES atom symbol is attributed to the SMILES atom
  token it was made from.

  All theorems hold for EVERY table `T`, input `s`, flags and (encoder) kekulization tape.

  Theorems                                   proof files (Proofs/)
  * C17_decoder_same_string                  AttrErase      erasure `Mol.eraseAttr` commutes with
                                                            `deriveLoop`, `formRings`, the writer
  * C17_encoder_same_string                  AttrEraseEnc   `PMol.eraseAttr` commutes with the parser,
                                                            kekulization, chirality flip, `fragmentGo`
  * C17_output_index                         AttrWriter     writer invariant `outLen = |text|`, a map
                                                            is pushed right after its token; fragments:
                                                            offset = `nextOffset acc` (case split on
                                                            whether an OUTPUT fragment was already
                                                            written, `acc = []`; the writer iterates
                                                            over roots, so empty INPUT fragments such
                                                            as in "[C]..[C]" never matter)
  * C17_input_index, C17_input_index_compat  AttrIndex, AttrGlobal
  * C17_atom_attribution_partial, C17_stack_discipline, C17_nested_stack,
    C17_map_sources, C17_every_atom_has_entry                AttrIndex, AttrGlobal, AttrComplete
  * C17_encoder_atoms                        AttrEncAtoms

  Findings
  * `compatible=True`: the recorded input token is the MODERNISED symbol, which need not occur in
    the input (`"[C][Branch1_2][C][O][F]"` reports `(1, "[=Branch1]")`); `C17_input_index` is
    therefore stated for `compatible=False` and `C17_input_index_compat` with `symOf true = modernSym`;
    the literal statement is refuted for `compatible=True` by an `example` below.
  * C17.5 is proved without the word "exactly" (see the comment there).
-/
import SelfiesVerif.Proofs.AttrGlobal
import SelfiesVerif.Proofs.AttrEncAtoms
import SelfiesVerif.Proofs.AttrComplete
import SelfiesVerif.Props.C01

namespace SV

variable {T : Table} {s : Str} {compat : Bool}

/-! ### C17.1  the decoder's string does not depend on `attribute` -/

/-- Same SMILES string, or the same exception, with and without attribution. -/
theorem C17_decoder_same_string (T : Table) (s : Str) (compat : Bool) :
    (decoderFull T s compat true).map (·.1) = (decoderFull T s compat false).map (·.1) :=
  decoderFull_attr_irrelevant T s compat

example : (decoderFull T0 "[C][N][C][Branch1][C][P][C][C][Ring1][=Branch1]".toList false true).map (·.1)
      = .ok "C1NC(P)CC1".toList ∧
    (decoderFull T0 "[C][N][C][Branch1][C][P][C][C][Ring1][=Branch1]".toList false false).map (·.1)
      = .ok "C1NC(P)CC1".toList := by decide +kernel

/-- ... and the same exception -/
example : (decoderFull T0 "[C][Foo]".toList false true).map (·.1) = .error .DecoderError := by
  decide +kernel

/-! ### C17.3  output indices -/

/-- Every attribution entry has a non-empty output token, and that token is found in the output
    SMILES ending at the reported character index. -/
theorem C17_output_index {attrib : Bool} {out : Str} {maps : List AttributionMap}
    (h : decoderFull T s compat attrib = .ok (out, maps)) :
    ∀ m ∈ maps, m.token ≠ [] ∧ 0 ≤ m.index ∧ m.index.toNat + 1 ≥ m.token.length ∧
      (out.drop (m.index.toNat + 1 - m.token.length)).take m.token.length = m.token := by
  unfold decoderFull at h
  bind_at h with ⟨g, _, h⟩
  intro m hm
  obtain ⟨h1, h2, _⟩ := molToSmiles_maps h m hm
  exact ⟨h1, h2.slice h1⟩

example : ∃ r, decoderFull T0 "[C][C].[C][N]".toList false true = .ok r ∧
    (r.1, r.2.map fun m => (m.index, m.token)) =
      ("CC.CN".toList, [(0, ['C']), (1, ['C']), (3, ['C']), (4, ['N'])]) :=
  ok_of_map (f := fun r : Str × List AttributionMap => (r.1, r.2.map fun m => (m.index, m.token)))
    (by decide +kernel)

/-- empty input fragments produce no output fragment (the writer iterates over the roots):
    `"[C]..[C]"` gives `"C.C"` and the second atom is reported at index 2 -/
example : ∃ r, decoderFull T0 "[C]..[C]".toList false true = .ok r ∧
    (r.1, r.2.map fun m => (m.index, m.token)) = ("C.C".toList, [(0, ['C']), (2, ['C'])]) :=
  ok_of_map (f := fun r : Str × List AttributionMap => (r.1, r.2.map fun m => (m.index, m.token)))
    (by decide +kernel)

/-! ### C17.4  input indices -/

-- only for the `Decidable` instances of the examples (nested products of lists)
set_option synthInstance.maxSize 2048

/-- what the examples display: the string, and per map its token and contributing input tokens -/
def mapsView (r : Str × List AttributionMap) : Str × List (Str × List (Nat × Str)) :=
  (r.1, r.2.map fun m => (m.token, (m.attribution.getD []).map fun a => (a.index, a.token)))

/-- the spec: symbols of all fragments in order, `[nop]` and `.` not counted -/
theorem inputSymbols_spec (s : Str) :
    inputSymbols s = (splitOnChar '.' s).flatMap fun f => (tokenizeFragment f).toks.map (·.2) := rfl

example : inputSymbols "[C][nop][C].[nop][N]".toList = ["[C]".toList, "[C]".toList, "[N]".toList] := by
  decide +kernel

/-- Every contributing input token is the symbol at the reported position of the input.  With
    `compatible=True` the recorded token is the modernised symbol (`symOf true = modernSym`). -/
theorem C17_input_index_compat {out : Str} {maps : List AttributionMap}
    (h : decoderFull T s compat true = .ok (out, maps)) :
    ∀ m ∈ maps, ∀ a ∈ m.attribution.getD [],
      ((inputSymbols s)[a.index]?).map (symOf compat) = some a.token := by
  unfold decoderFull at h
  bind_at h with ⟨g, hg, h⟩
  obtain ⟨hA, hG⟩ := decodeGraph_attr hg
  intro m hm a ha
  obtain ⟨_, _, hsrc⟩ := molToSmiles_maps h m hm
  rcases hsrc with ⟨i, at_, h1, _, h3⟩ | ⟨k, row, b, h1, h2, _, h4⟩
  · obtain ⟨o, ho, ht⟩ := hG.atom h1
    rw [h3, ho] at ha
    cases o with
    | none => cases ha
    | some l => exact ht.truthful l rfl a ha
  · obtain ⟨g1, g2⟩ := hA.bonds row (List.mem_of_getElem? h1) b h2
    rw [h4] at ha
    cases hr : b.ring with
    | true => rw [g2 hr] at ha; cases ha
    | false =>
      obtain ⟨at_, _, ht⟩ := hG.attr (g1 hr)
      cases hl : b.attr with
      | none => rw [hl] at ha; cases ha
      | some l => rw [hl] at ha ht; exact ht.truthful l rfl a ha

theorem C17_input_index {out : Str} {maps : List AttributionMap}
    (h : decoderFull T s false true = .ok (out, maps)) :
    ∀ m ∈ maps, ∀ a ∈ m.attribution.getD [], (inputSymbols s)[a.index]? = some a.token := by
  intro m hm a ha
  have := C17_input_index_compat h m hm a ha
  simpa [symOf] using this

/-- `compatible=True`: the recorded token is the modernised symbol `[=Branch1]`, while symbol 1
    of the input is `[Branch1_2]` -/
example : ∃ r, decoderFull T0 "[C][Branch1_2][C][O][F]".toList true true = .ok r ∧ mapsView r =
      ("C(O)F".toList,
       [(['C'], [(0, "[C]".toList)]), (['O'], [(1, "[=Branch1]".toList), (3, "[O]".toList)]),
        (['F'], [(4, "[F]".toList)])]) :=
  ok_of_map (f := mapsView) (by decide +kernel)

example : (inputSymbols "[C][Branch1_2][C][O][F]".toList)[1]? = some "[Branch1_2]".toList ∧
    symOf true "[Branch1_2]".toList = "[=Branch1]".toList := by decide +kernel

/-- so the conclusion of `C17_input_index` (token = input symbol, un-modernised) is FALSE for
    `compatible=True`: some attribution's token is not the input symbol at its index -/
example : ∃ r, decoderFull T0 "[C][Branch1_2][C][O][F]".toList true true = .ok r ∧
    (r.2.any fun m => (m.attribution.getD []).any fun a =>
      (inputSymbols "[C][Branch1_2][C][O][F]".toList)[a.index]? != some a.token) = true :=
  ok_of_map (f := fun r : Str × List AttributionMap => r.2.any fun m => (m.attribution.getD []).any fun a =>
      (inputSymbols "[C][Branch1_2][C][O][F]".toList)[a.index]? != some a.token) (by decide +kernel)

/-- a fragment that ends inside an index read: the `[C]` of the second fragment is symbol 3 -/
example : ∃ r, decoderFull T0 "[C][C][Branch1].[C]".toList false true = .ok r ∧ mapsView r =
      ("CC.C".toList,
       [(['C'], [(0, "[C]".toList)]), (['C'], [(1, "[C]".toList)]), (['C'], [(3, "[C]".toList)])]) :=
  ok_of_map (f := mapsView) (by decide +kernel)

/-- `[nop]` is not counted: `[N]` is symbol 2 -/
example : ∃ r, decoderFull T0 "[C][nop][C].[nop][N]".toList false true = .ok r ∧ mapsView r =
      ("CC.N".toList,
       [(['C'], [(0, "[C]".toList)]), (['C'], [(1, "[C]".toList)]), (['N'], [(2, "[N]".toList)])]) :=
  ok_of_map (f := mapsView) (by decide +kernel)

/-! ### C17.5  what an atom is attributed to -/

/-
  FULL STATEMENT (not proved in this form): "every atom of the decoded graph carries
  `atomAttr = some (stack ++ [own])` where `own` is the atom symbol that created it and `stack`
  lists EXACTLY the branch symbols enclosing it, outermost first."

  "Enclosing" has no definition independent of the run of `_derive_mol_from_symbols` (whether a
  branch symbol opens a branch and how many symbols the branch spans depends on the derivation
  state, the constraint table and the index symbols).  What is proved:

  * `C17_atom_attribution_partial` (graph level): `atomAttr[i] = some (positions.map …)` where the
    positions are strictly increasing positions of the input, the LAST one is an atom symbol that
    `process_atom_symbol` turns into exactly atom `i`, and ALL OTHERS are branch symbols; all
    tokens are the (modernised) symbols at these positions.  Chain bonds carry the attribution of
    the atom they lead to, ring bonds none.
  * `C17_stack_discipline` (call level, the invariant of `deriveLoop`): a call entered with stack
    `S` gives every atom it creates, directly or in nested calls, an attribution
    `S ++ (ext ++ [own]).map …` with `ext ++ [own]` an in-order sublist of the tokens THIS call
    consumed.  Since the nested call for a branch symbol `b` is itself such a call with stack
    `S ++ [b]` (by definition of `deriveLoop`, see `C17_nested_stack`), everything created inside
    the branch is attributed to `b`, and to nothing the enclosing calls did not put on the stack.
  Missing for "exactly": the converse direction as a statement about the input alone (no branch
  symbol whose branch contains the atom is left out) -- it holds by the structure of the recursion
  but is not stated independently of it.
-/

/-- the decoded graph (with attribution) -/
theorem C17_atom_attribution_partial {g : Mol} (h : decodeGraph T s compat true = .ok g) :
    g.atomAttr.length = g.atoms.length ∧
    (∀ (i : Nat) (a : Atom), g.atoms[i]? = some a → ∃ (pos : List Nat) (k : Nat),
      (pos ++ [k]).Pairwise (· < ·) ∧ (∀ j ∈ pos ++ [k], j < (inputSymbols s).length) ∧
      g.atomAttr[i]? = some (some ((pos ++ [k]).map fun j =>
        ({ index := j, token := symOf compat ((inputSymbols s).getD j []) } : Attribution))) ∧
      (∃ bo, processAtomSymbol T (symOf compat ((inputSymbols s).getD k [])) = some (bo, a)) ∧
      ∀ j ∈ pos, (processBranchSymbol (symOf compat ((inputSymbols s).getD j []))).isSome) ∧
    (∀ row ∈ g.adj, ∀ b ∈ row,
      (b.ring = false → g.atomAttr[b.dst]? = some b.attr) ∧ (b.ring = true → b.attr = none)) := by
  obtain ⟨hA, hG⟩ := decodeGraph_attr h
  refine ⟨hA.len, ?_, hA.bonds⟩
  intro i a ha
  obtain ⟨o, ho, pos, k, h1, h2, h3, h4, h5⟩ := hG.atom ha
  simp only at h3
  exact ⟨pos, k, h1, h2, by rw [ho, h3], h4, h5⟩

/-- `[P]` (symbol 5) lies in the branch opened by `[Branch1]` (symbol 3; symbol 4 is its index) -/
example : ∃ g, decodeGraph T0 "[C][N][C][Branch1][C][P][C][C][Ring1][=Branch1]".toList false true = .ok g ∧
    g.atomAttr.map (fun o => (o.getD []).map fun a => (a.index, a.token)) =
      [[(0, "[C]".toList)], [(1, "[N]".toList)], [(2, "[C]".toList)],
       [(3, "[Branch1]".toList), (5, "[P]".toList)], [(6, "[C]".toList)], [(7, "[C]".toList)]] :=
  ok_of_map (f := fun g : Mol => g.atomAttr.map (fun o => (o.getD []).map fun a => (a.index, a.token)))
    (by decide +kernel)

/-- nested branches: `[O]` lies in the branch of symbol 4, which lies in the branch of symbol 1 -/
example : ∃ g, decodeGraph T0 "[C][Branch1][Ring2][C][Branch1][C][O][N][F]".toList false true = .ok g ∧
    g.atomAttr.map (fun o => (o.getD []).map fun a => (a.index, a.token)) =
      [[(0, "[C]".toList)], [(1, "[Branch1]".toList), (3, "[C]".toList)],
       [(1, "[Branch1]".toList), (4, "[Branch1]".toList), (6, "[O]".toList)],
       [(7, "[N]".toList)], [(8, "[F]".toList)]] :=
  ok_of_map (f := fun g : Mol => g.atomAttr.map (fun o => (o.getD []).map fun a => (a.index, a.token)))
    (by decide +kernel)

/-- The invariant of `_derive_mol_from_symbols` (`AInv m`: `atomAttr` is as long as `atoms`, chain
    bonds carry their destination's attribution, ring bonds none; it holds of the empty graph and
    is maintained): a call with stack `S` and offset `ai` consumes a
    prefix `pre` of its tokens, returns `n = n_derived + |pre|` (everything if it has no budget),
    appends atoms to the graph, and every appended atom's attribution is
    `S ++ (ext ++ [own]).map …` with `ext ++ [own]` an in-order sublist of `pre`, `own` the atom
    symbol that made the atom and `ext` branch symbols. -/
theorem C17_stack_discipline {fuel depth : Nat} {st : DState} {md : Option Nat} {nd state : Nat}
    {prev : Option Nat} {S : List Attribution} {ai : Nat} {r : DState × Nat}
    (h : deriveLoop T compat fuel depth st md nd state prev (some S) ai = .ok r)
    (hA : AInv st.mol) :
    AInv r.1.mol ∧ ∃ (pre : List (Nat × Str)) (new : List (Atom × Option (List Attribution))),
      st.stream.toks = pre ++ r.1.stream.toks ∧ r.2 = nd + pre.length ∧
      (md = none → r.1.stream.toks = []) ∧
      r.1.mol.atoms = st.mol.atoms ++ new.map (·.1) ∧
      r.1.mol.atomAttr = st.mol.atomAttr ++ new.map (·.2) ∧
      ∀ x ∈ new, ∃ (ext : List (Nat × Str)) (own : Nat × Str), (ext ++ [own]).Sublist pre ∧
        x.2 = some (S ++ (ext ++ [own]).map fun p =>
          ({ index := p.1 + ai, token := symOf compat p.2 } : Attribution)) ∧
        (∃ bo, processAtomSymbol T (symOf compat own.2) = some (bo, x.1)) ∧
        ∀ b ∈ ext, (processBranchSymbol (symOf compat b.2)).isSome := by
  obtain ⟨pre, ⟨e1, new, a1, a2, a3⟩, e2, e3, hA'⟩ :=
    deriveLoop_attr T compat fuel depth st md nd state prev S ai r h hA
  exact ⟨hA', pre, new, e1, e2, e3, a1, a2, a3⟩

/-- non-vacuity: the top-level call on `[C][Branch1][C][O][N]` (no budget, stack `[]`) consumes all
    5 tokens and returns `n = 5` -/
example : ∃ r, deriveLoop T0 false 6 0
      { stream := tokenizeFragment "[C][Branch1][C][O][N]".toList, mol := {}, rings := [] }
      none 0 0 none (some []) 0 = .ok r ∧ (r.1.stream.toks, r.2, r.1.mol.atoms.length) = ([], 5, 3) :=
  ok_of_map (f := fun r : DState × Nat => (r.1.stream.toks, r.2, r.1.mol.atoms.length)) (by decide +kernel)

/-- the stack handed to the nested call of a branch symbol is the caller's stack plus that symbol
    (`attribute_stack + [Attribution(index + attribution_index, symbol)]`) -/
theorem C17_nested_stack (S : List Attribution) (i : Nat) (sym : Str) :
    attrPush (some S) i sym = some (S ++ [{ index := i, token := sym }]) := rfl

/-- Every attribution entry of the decoder is made from an atom of the decoded graph (token = the
    atom's SMILES, attribution = that atom's `atomAttr` entry) or from a stored bond (token = the
    bond's SMILES, attribution = the bond's, i.e. by `C17_atom_attribution_partial` the attribution
    of the atom the bond leads to, or none for a ring bond). -/
theorem C17_map_sources {attrib : Bool} {out : Str} {maps : List AttributionMap}
    (h : decoderFull T s compat attrib = .ok (out, maps)) :
    ∃ g, decodeGraph T s compat attrib = .ok g ∧ ∀ m ∈ maps,
      (∃ (i : Nat) (a : Atom), g.atoms[i]? = some a ∧ atomToSmiles a = .ok m.token ∧
        m.attribution = (g.atomAttr[i]?).getD none) ∨
      (∃ (k : Nat) (row : List DirBond) (b : DirBond), g.adj[k]? = some row ∧ b ∈ row ∧
        bondToSmiles b.order b.stereo = .ok m.token ∧ m.attribution = b.attr) := by
  unfold decoderFull at h
  bind_at h with ⟨g, hg, h⟩
  exact ⟨g, hg, fun m hm => (molToSmiles_maps h m hm).2.2⟩

/-- Every atom of the decoded graph has an attribution entry in the decoder's output: the writer
    visits every atom reachable from a root along chain bonds, and by the forest invariant of
    C01 (`C01_forest`, `C01_simple_graph`, derived here, not assumed) these are all atoms.  The
    entry's token is the atom's SMILES and its attribution is the atom's `atomAttr` entry, which
    `C17_atom_attribution_partial` describes.  (That no atom gets a SECOND entry is not proved.) -/
theorem C17_every_atom_has_entry {out : Str} {maps : List AttributionMap}
    (h : decoderFull T s compat true = .ok (out, maps)) :
    ∃ g, decodeGraph T s compat true = .ok g ∧ ∀ (i : Nat) (a : Atom), g.atoms[i]? = some a →
      ∃ m ∈ maps, atomToSmiles a = .ok m.token ∧ m.attribution = (g.atomAttr[i]?).getD none := by
  unfold decoderFull at h
  bind_at h with ⟨g, hg, h⟩
  refine ⟨g, hg, ?_⟩
  obtain ⟨hsimple, _, _, _, _⟩ := C01_simple_graph hg
  obtain ⟨_, _, hdeg, hlt⟩ := C01_forest hg
  obtain ⟨_, hG⟩ := decodeGraph_attr hg
  refine molToSmiles_complete h (forest_reach (fun k row hk b hb => (hsimple k row hk b hb).1) hlt ?_) ?_
  · intro i hi hr
    have h1 := hdeg i hi
    simp only [hr, if_false] at h1
    unfold Mol.chainInDeg at h1
    have : 0 < (g.adj.flatten.filter fun b => decide (b.dst = i) && !b.ring).length := by omega
    obtain ⟨b, hb⟩ := List.exists_mem_of_length_pos this
    obtain ⟨hb1, hb2⟩ := List.mem_filter.mp hb
    simp only [Bool.and_eq_true, decide_eq_true_eq, Bool.not_eq_eq_eq_not, Bool.not_true] at hb2
    exact ⟨b, hb1, hb2.1, hb2.2⟩
  · intro i a tok ha htok
    obtain ⟨o, _, pos, k, _, _, _, ⟨bo, hpa⟩, _⟩ := hG.atom ha
    unfold processAtomSymbol at hpa
    split at hpa
    · cases hpa
    · rename_i bi a' heq
      split at hpa
      · cases hpa
      · cases hpa
        exact atomToSmiles_ne_nil (processAtomSelfiesNoCache_elem heq).1 htok

/-- all six atoms of `C1NC(P)CC1` have an entry -/
example : ∃ r, decoderFull T0 "[C][N][C][Branch1][C][P][C][C][Ring1][=Branch1]".toList false true = .ok r ∧
    mapsView r = ("C1NC(P)CC1".toList,
      [(['C'], [(0, "[C]".toList)]), (['N'], [(1, "[N]".toList)]), (['C'], [(2, "[C]".toList)]),
       (['P'], [(3, "[Branch1]".toList), (5, "[P]".toList)]), (['C'], [(6, "[C]".toList)]),
       (['C'], [(7, "[C]".toList)])]) :=
  ok_of_map (f := mapsView) (by decide +kernel)

/-! ### C17.2  the encoder's string does not depend on `attribute` -/

/-- Same SELFIES string, or the same exception, with and without attribution (for every
    kekulization choice tape). -/
theorem C17_encoder_same_string (T : Table) (s : Str) (strict : Bool) (tape : List Nat) :
    (encoderFull T s strict true tape).map (·.1) = (encoderFull T s strict false tape).map (·.1) :=
  encoderFull_attr_irrelevant T s strict tape

example : (encoderFull T0 "C1([O-])C=CC=C1Cl".toList true true []).map (·.1)
    = .ok "[C][Branch1][C][O-1][C][=C][C][=C][Ring1][=Branch1][Cl]".toList := by decide +kernel

/-! ### C17.6  encoder: atom symbols are attributed to the SMILES atom token they were made from -/

/-- Every attribution entry of the encoder is either
    * made by `_atom_to_selfies` from atom `i` of the graph that is written out, and then its
      attribution is `some [⟨k, text⟩]` with `text` the text of the `i`-th ATOM token of
      `tokenize_smiles(s)` (the position `k` is not part of the property), or
    * a Ring / Branch symbol or one of their index symbols, carrying the attribution of a bond. -/
theorem C17_encoder_atoms {strict : Bool} {tape : List Nat} {sel : Str} {maps : List AttributionMap}
    (h : encoderFull T s strict true tape = .ok (sel, maps)) :
    ∃ g toks, encodePrepare T s strict true tape = .ok g ∧
      tokenizeSmiles (s.length + 1) s = some toks ∧
      ∀ m ∈ maps,
        (∃ (i : Nat) (a : Atom) (b : Option PBond) (t : SmilesTok) (k : Nat),
          g.atoms[i]? = some a ∧ atomToSelfies b a = .ok m.token ∧
          (toks.filter (·.kind == .atom))[i]? = some t ∧
          m.attribution = some [{ index := k, token := t.text }]) ∨
        (∃ bond : PBond, m.attribution = bond.attr ∧
          ((∃ pre n, m.token = ringSymbol pre "Ring".toList n ∨
              m.token = ringSymbol pre "Branch".toList n) ∨
           (∃ z q, getSelfiesFromIndex z = .ok q ∧ m.token ∈ q))) := by
  obtain ⟨g, toks, hg, ht, hp, hm⟩ := encoderFull_maps h
  refine ⟨g, toks, hg, ht, ?_⟩
  intro m hmm
  rcases hm m hmm with ⟨i, a, b, h1, h2, h3⟩ | ⟨bond, h1, h2⟩
  · obtain ⟨t, k, e1, e2⟩ := hp.atom h1
    exact .inl ⟨i, a, b, t, k, h1, h2, e1, by rw [h3, e2]; rfl⟩
  · exact .inr ⟨bond, h1, h2⟩

example : ∃ r, encoderFull T0 "C1([O-])C=CC=C1Cl".toList true true [] = .ok r ∧ mapsView r =
    ("[C][Branch1][C][O-1][C][=C][C][=C][Ring1][=Branch1][Cl]".toList,
     [("[C]".toList, [(0, "C".toList)]), ("[O-1]".toList, [(3, "[O-]".toList)]),
      ("[C]".toList, [(3, "[O-]".toList)]), ("[Branch1]".toList, [(3, "[O-]".toList)]),
      ("[C]".toList, [(5, "C".toList)]), ("[=C]".toList, [(7, "C".toList)]),
      ("[C]".toList, [(8, "C".toList)]), ("[=C]".toList, [(10, "C".toList)]),
      ("[Ring1]".toList, []), ("[=Branch1]".toList, []), ("[Cl]".toList, [(12, "Cl".toList)])]) :=
  ok_of_map (f := mapsView) (by decide +kernel)

end SV
