/-
  Property C09 — "the encoder is total: it returns or raises EncoderError, and always terminates"

  "For every Python str - syntactically broken SMILES, unsupported features, self-referencing or
   mismatched ring closures, aromatic bond symbols on atoms that cannot be aromatic, arbitrary
   characters - and every combination of the strict and attribute flags, selfies.encoder terminates
   and either returns its result or raises selfies.EncoderError.  No other exception type escapes."

  Dictionary.  `encoderFull T s strict attribute tape` is `selfies.encoder(s, strict, attribute)`
  under the constraint table `T`; `tape` is the list of results of `unmatched.pop()` (a `set`) in
  `find_perfect_matching`, the only nondeterministic choice of the code, recorded from the real run
  by the harness.  Every Python failure is explicit in the model (`Py = Except PyExc`):
  `.NonTermination` is "the model's fuel ran out", i.e. the Python loop would not end.

  STATUS.  The full-strength statement is FALSE of the real code in one known way (finding F2):
  `RecursionError` escapes when branches nest deeper than the interpreter's recursion limit
  (`_fragment_to_selfies` recurses once per branch).  What is proved, for EVERY string, both flags,
  every table and every tape:

    1 `C09_tokenize_total`        the tokenizer never runs out of fuel, every token consumes a
                                  character, token texts (so the argument of `smiles_to_atom`) are
                                  non-empty; it fails only where Python raises `SMILESParserError`
    2 `C09_parse_total`           `smiles_to_mol` returns a graph or raises `SMILESParserError`
                                  (no IndexError / AttributeError / AssertionError / non-termination);
      `C09_parse_shape`           the graph has one entry per atom in every per-atom list, roots
                                  that are atoms, NO ring placeholder left, bond orders 1, 1.5, 2, 3,
                                  at most `len(smiles)` atoms, at most `smiles.count("(")` chain bonds that
                                  are not the last of their atom, unbracketed atoms carry no charge
    3 `C09_matching_total`        `find_perfect_matching` on a simple graph returns `None` or a list
                                  without `None` entries whose entries are along edges of the graph
                                  (`MatchingUsable`) — also when the blossom-free BFS returns
                                  non-simple paths and the list is NOT a matching (finding F9);
      `C09_kekulize_total_partial` hence `kekulize` returns `False`, or `True` leaving a graph of the
                                  same shape with every aromatic order replaced by 1 or 2.
                                  (`_partial`: needs `PWF` of the graph, see below)
    4 `C09_emit_total`            the fragment loop returns or raises `RecursionError`, the latter
                                  only for graphs with at least `recursion budget − 1` atoms and
                                  at least that many non-last chain bonds (branch points);
                                  NO forest hypothesis is needed (the model's fuel bounds the depth
                                  of the call chain, and chain bonds go to larger atom indices)
    5 `C09_total_partial`         `encoder` returns, or raises `EncoderError`, or `RecursionError`;
      `C09_no_recursion_error_if_shallow`   … and not `RecursionError` for strings shorter than the
                                  recursion budget or with fewer than `budget − 1` characters `(`.

  F9 DOWNSTREAM ANALYSIS (the question "what happens after `find_perfect_matching` returned a
  non-matching?"): nothing that raises.  A non-simple flip leaves a list in which every entry
  `i ↦ j` is along an edge `i – j` and `j` has an entry (`WeakValid`), and the `unmatched` set stays
  exactly the set of `None` entries because the inner vertices of every path the BFS returns are
  matched.  Under `WeakValid` the BFS stays in range and within its fuel, the walk back through
  `parents` meets no `None` (no `TypeError`) and the flip gets an even-length path.  `kekulize` then
  finds a bond for every `update_bond_order` call.  The result can be chemically wrong (an atom with
  two double bonds: C05/F9, then `EncoderError` under strict or a mistranslation), but no
  `TypeError`, `KeyError`, `AssertionError` or `ValueError` can arise from it.

  REMAINING HYPOTHESIS of `C09_total_partial`: only `TapeOK g tape` — the tape is a legal record
  of `set.pop()` results (each entry a member of `unmatched` when it is popped, enough entries).
  For an illegal tape the MODEL returns `KeyError` (`C09_total_anyTape`, `C09_bad_tape_witness`);
  Python's `set.pop()` always returns a member, so this is not a behaviour of the real code, and
  every graph has a legal tape (`C09_legal_tape_exists`, `C09_total_exists_tape`).
  `PWF` of the parsed graph (well-formedness of bond counts / adjacency lists / delocalisation
  subgraph, Proofs/KekulizeSound.lean) is discharged by `smilesToMol_pwf` (Proofs/ParserPWF.lean,
  with Proofs/ParserSteps.lean and Proofs/ParserOps.lean: the parallel worker's files, copied
  unchanged); the `…_of_pwf` theorems are the versions that take it as a hypothesis and do not
  depend on those files.  Everything else about parser output is proved here.

  The full-strength statement is FALSE of the model as of the real code: `C09_recursionError_witness`
  (the graph of `"C(" * 960 + "C" + ")C" * 960`), `C09_emit_always_returns_false`.
-/
import SelfiesVerif.Proofs.EncTotalAll
import SelfiesVerif.Proofs.EncTotalDeep
import SelfiesVerif.Proofs.ParserPWF
import SelfiesVerif.Props.C05

namespace SV
open C09

/-! ### 1. the tokenizer -/

/-- `tokenizeSmilesI` is `tokenizeSmiles` with the three reasons for `none` told apart (`lex`: the
    Python tokenizer raises `SMILESParserError`; `fuel`: the model's fuel ran out; `stuck`: a token
    consumed no character).  With the fuel `len(smiles) + 1` that `smilesToMol` passes, only `lex`
    occurs; on success there are at most `len(smiles)` tokens and every token text is non-empty
    (so `smiles_to_atom` is never called on the empty string). -/
theorem C09_tokenize_total (s : Str) :
    tokenizeSmiles (s.length + 1) s = Except.toOption' (tokenizeSmilesI (s.length + 1) s) ∧
    ((∃ toks, tokenizeSmilesI (s.length + 1) s = .ok toks ∧ (∀ t ∈ toks, t.text ≠ []) ∧
        toks.length ≤ s.length)
      ∨ tokenizeSmilesI (s.length + 1) s = .error .lex) :=
  ⟨tokenizeSmilesI_eq _ s, tokenizeSmilesI_total _ s (Nat.le_succ _)⟩

/-- every token consumes at least one character -/
theorem C09_token_progress (bond : Option Char) (s : Str) (tok : SmilesTok) (rest : Str)
    (h : lexSymbol bond s = some (tok, rest)) : rest.length < s.length ∧ tok.text ≠ [] :=
  lexSymbol_progress bond s tok rest h

set_option maxRecDepth 100000 in
example : (tokenizeSmilesI 10 "C(=O)[O-]".toList).toOption'.map List.length = some 5
    ∧ tokenizeSmilesI 4 "C$C".toList = .error .lex
    ∧ tokenizeSmilesI 3 "C=".toList = .error .lex
    ∧ tokenizeSmilesI 2 "CCC".toList = .error .fuel := by decide +kernel

/-! ### 2. the parser -/

/-- **`smiles_to_mol` returns a graph or raises `SMILESParserError`**, for every string and both
    values of `attributable`: `prev_stack` is never empty, every index handed to a list is in range,
    a ring digit is only reached behind an atom, `src < dst` in `add_bond`, the position remembered
    for an opened ring number still holds its placeholder when the ring is closed, and the outer
    loop consumes a token per fragment. -/
theorem C09_parse_total (s : Str) (attrib : Bool) :
    (∃ g, smilesToMol s attrib = .ok g) ∨ smilesToMol s attrib = .error .SMILESParserError := by
  rcases smilesToMol_total s attrib with ⟨g, h, _⟩ | h
  · exact Or.inl ⟨g, h⟩
  · exact Or.inr h

/-- what the parser guarantees about its result, besides `PWF` -/
theorem C09_parse_shape {s : Str} {attrib : Bool} {g : PMol} (h : smilesToMol s attrib = .ok g) :
    MolOK g ∧ g.atoms.length ≤ s.length ∧ phi g.adj ≤ s.count '(' ∧ ChargeInv g ∧ AromInv g := by
  rcases smilesToMol_total s attrib with ⟨g', h', h1, h2, h3⟩ | h'
  · rw [h] at h'; cases h'
    exact ⟨h1, h2, h3, chargeInv_of_parse h, smilesToMol_aromInv h⟩
  · rw [h] at h'; cases h'

/-- the invariant of the `while tokens:` loop (`C09.PInv`) is kept by every step that does not
    raise `SMILESParserError` -/
theorem C09_parse_loop_invariant (attrib : Bool) (toks : List SmilesTok) (st : ParseSt) (h : PInv st) :
    (∃ st' rest, parseFragmentLoop attrib toks st = .ok (st', rest) ∧ PInv st') ∨
      parseFragmentLoop attrib toks st = .error .SMILESParserError := by
  rcases parseFragmentLoop_total attrib toks st h with ⟨st', rest, h1, h2, _⟩ | h1
  · exact Or.inl ⟨st', rest, h1, h2⟩
  · exact Or.inr h1

set_option maxRecDepth 100000 in
example :
    (match smilesToMol "C1CC1(".toList false with | .error .SMILESParserError => true | _ => false) = true
    ∧ (match smilesToMol "C11".toList true with | .error .SMILESParserError => true | _ => false) = true
    ∧ (match smilesToMol "C%1".toList true with | .error .SMILESParserError => true | _ => false) = true
    ∧ (match smilesToMol "C(C)(=O)c1ccccc1.[Na+]".toList true with | .ok g => g.atoms.length == 10 | _ => false) = true := by
  refine ⟨by decide +kernel, by decide +kernel, by decide +kernel, by decide +kernel⟩

/-! ### 3. the matching routine and `kekulize`, downstream of finding F9 -/

/-- **`find_perfect_matching` is total on simple graphs, for every tape.**  It returns `None`, or a
    list `m` that is *usable* (`WeakValid`: every entry `m[i] = j` has `j` in range, `j ∈ graph[i]`
    and `m[j] ≠ None`; and no entry is `None`), or the tape was not a legal record of `set.pop()`
    results.  `m` need NOT be a matching (`C05_no_blossom_witness`). -/
theorem C09_matching_total {g : Graph} (hg : GraphOK g) (tape : List Nat) :
    findPerfectMatching g tape = .ok none ∨
    (∃ m, findPerfectMatching g tape = .ok (some m) ∧ MatchingUsable g m) ∨
    (findPerfectMatching g tape = .error .KeyError ∧
      ∃ m0, greedyMatching g = .ok m0 ∧
        ¬ TapeOKLoop g (g.length + 1)
          ((List.range g.length).filter fun i => (m0.getD i none).isNone) tape m0) :=
  findPerfectMatching_total hg tape

/-- the F9 witness: the result is not a matching, but it is usable -/
example :
    findPerfectMatching blossomGraph [6] =
      .ok (some [some 2, some 2, some 0, some 4, some 3, some 6, some 5, some 5])
    ∧ isPerfectMatching blossomGraph [some 2, some 2, some 0, some 4, some 3, some 6, some 5, some 5] = false
    ∧ MatchingUsable blossomGraph [some 2, some 2, some 0, some 4, some 3, some 6, some 5, some 5] := by
  have h1 := C05_no_blossom_witness.2.1
  refine ⟨h1, by decide, ?_⟩
  rcases C09_matching_total ((isGraphOK_iff _).1 C05_no_blossom_witness.1) [6] with h | ⟨m, h, hu⟩ | ⟨h, _⟩
  · rw [h1] at h; cases h
  · rw [h1] at h; cases h; exact hu
  · rw [h1] at h; cases h

/-- an illegal tape (here: too short) gives `KeyError` in the MODEL; Python's `set.pop()` cannot do
    that.  The pentagon is the pruned subgraph of `c1cccc1`. -/
theorem C09_bad_tape_witness :
    findPerfectMatching [[1, 4], [0, 2], [1, 3], [2, 4], [3, 0]] [] = .error .KeyError
    ∧ findPerfectMatching [[1, 4], [0, 2], [1, 3], [2, 4], [3, 0]] [4] = .ok none := by decide

/-- **`kekulize` is total on well-formed parsed graphs, for every tape** — with NO hypothesis on
    the result of the matching routine.  `KekShape g g'`: `g'` is `g` with the bond orders mapped by
    a function that treats both copies of a ring bond alike and sends every order to 1, 2 or an
    original order ≠ 1.5; same number of atoms, same roots, same ring flags.
    `ChargeInv` (unbracketed atoms carry no charge) holds for every parsed graph (`C09_parse_shape`).

    Full-strength form (not proved here: `PWF` of parser output is the parallel worker's part):
      `smilesToMol s a = .ok g → g.kekulize tape ∈ {ok none, ok (some g'), KeyError with ¬TapeOK}` -/
theorem C09_kekulize_total_partial {g : PMol} (hwf : PWF g) (hchg : ChargeInv g) (tape : List Nat) :
    g.kekulize tape = .ok none ∨
    (∃ g', g.kekulize tape = .ok (some g') ∧ KekShape g g') ∨
    (g.kekulize tape = .error .KeyError ∧ ¬ TapeOK g tape) :=
  kekulize_total hwf hchg tape

/-- sub-lemma: `_prune_from_ds` never fails on the nodes of the delocalisation subgraph once the
    pre-check at the top of `kekulize` has passed -/
theorem C09_prune_total {m : PMol} (hwf : PWF m) (hchg : ChargeInv m)
    (hbad : ∀ p ∈ m.ds, ∀ a, m.atoms[p.1]? = some a →
      p.2.isEmpty = false → (lookup a.element Gen.aromaticValences).isSome = true) :
    ∃ kept, keptNodes m = .ok kept :=
  keptNodes_total hwf hchg hbad

/-- sub-lemma: the pruned, relabelled delocalisation subgraph is a simple graph -/
theorem C09_pruned_graphOK {m : PMol} {kept : List Nat} {pg : Graph} (hwf : PWF m)
    (hk : keptNodes m = .ok kept) (hp : prunedGraph m (kept.mergeSort (· ≤ ·)) = .ok pg) : GraphOK pg :=
  KekPre.graphOK ⟨hwf, hk, rfl, hp⟩

theorem C09_tapeOK_benzene : TapeOK benzene [] := by
  intro kept pg m0 hk hp hm
  have hk' : keptNodes benzene = .ok [0, 1, 2, 3, 4, 5] := by decide
  rw [hk'] at hk; cases hk
  rw [List.mergeSort_of_pairwise (by decide)] at hp
  have hp' : prunedGraph benzene [0, 1, 2, 3, 4, 5] = .ok hexagon := by decide
  rw [hp'] at hp; cases hp
  have hm' : greedyMatching hexagon = .ok [some 1, some 0, some 3, some 2, some 5, some 4] := by decide
  rw [hm'] at hm; cases hm
  exact tapeOKLoop_of_empty _ _ _ _ (by decide)

/-- non-vacuity: benzene satisfies the hypotheses, and with a legal tape the third case is excluded -/
example : PWF benzene ∧ ChargeInv benzene ∧ TapeOK benzene [] ∧
    (benzene.kekulize [] = .ok none ∨ ∃ g', benzene.kekulize [] = .ok (some g') ∧ KekShape benzene g') := by
  have h1 : PWF benzene := (isPWF_iff _).1 (by decide)
  have h2 : ChargeInv benzene := by unfold ChargeInv; decide
  refine ⟨h1, h2, C09_tapeOK_benzene, ?_⟩
  rcases C09_kekulize_total_partial h1 h2 [] with h | h | ⟨_, h⟩
  · exact Or.inl h
  · exact Or.inr h
  · exact absurd C09_tapeOK_benzene h

/-! ### 4. the emission phase -/

/-- **The fragment loop returns or raises `RecursionError`** on every graph with one adjacency
    row per atom, rows as the parser stores them (`AdjOK`), no placeholder, no aromatic atom and
    bond orders 1, 2, 3 (`EmitOK`), whose roots are atoms — and it can raise `RecursionError` only
    if the graph has at least `recursion budget − 1` atoms AND at least `recursion budget − 1`
    chain bonds that are not the last chain bond of their atom (`phiFrom m.adj 0`: these are the
    bonds at which `_fragment_to_selfies` calls itself).  Attribution (`attribute=True`) only adds
    entries to `maps`; the statement is for every `maps` and every graph, with or without
    attribution fields. -/
theorem C09_emit_total {m : PMol} (he : EmitOK m) (hr : ∀ r ∈ m.roots, r < m.atoms.length)
    (ai : Nat) (acc : List Str) (maps : List AttributionMap) :
    (∃ r, encoderFull.frags m m.roots ai acc maps = .ok r) ∨
      (encoderFull.frags m m.roots ai acc maps = .error .RecursionError ∧
        ¬ m.atoms.length + 1 < recursionBudget ∧ ¬ phiFrom m.adj 0 + 1 < recursionBudget) :=
  frags_total' he m.roots hr ai acc maps

/-- one call of `_fragment_to_selfies`, for any potential `pot` that does not increase with the
    atom index and drops behind every atom with two or more chain bonds -/
theorem C09_fragment_total {m : PMol} (he : EmitOK m) {pot : Nat → Nat} (hp : Pot m pot) {root : Nat}
    (hr : root < m.atoms.length) (maps : List AttributionMap) (ai : Nat) :
    (∃ r, fragmentToSelfies m root maps ai = .ok r) ∨
      (fragmentToSelfies m root maps ai = .error .RecursionError ∧ ¬ pot 0 + 1 < recursionBudget) :=
  fragmentToSelfies_total he hp hr maps ai

/-- the kekulized graph of a well-formed parsed graph can be emitted -/
theorem C09_emitOK_after_kekulize {s : Str} {attrib : Bool} {g g' : PMol} {tape : List Nat}
    (hp : smilesToMol s attrib = .ok g) (hwf : PWF g) (hk : g.kekulize tape = .ok (some g'))
    (hs : KekShape g g') : EmitOK g' ∧ ∀ r ∈ g'.roots, r < g'.atoms.length :=
  emitOK_of_kek hwf (C09_parse_shape hp).1 (smilesToMol_aromInv hp) hk hs

/-- `C1CC1(F)C` as the parser builds it (orders in half units) -/
def c09Ring : PMol :=
  { atoms := [⟨['C'], false, none, none, none, 0⟩, ⟨['C'], false, none, none, none, 0⟩,
              ⟨['C'], false, none, none, none, 0⟩, ⟨['F'], false, none, none, none, 0⟩,
              ⟨['C'], false, none, none, none, 0⟩],
    roots := [0],
    adj := [[some { src := 0, dst := 2, order2 := 2, stereo := none, ring := true },
             some { src := 0, dst := 1, order2 := 2, stereo := none, ring := false }],
            [some { src := 1, dst := 2, order2 := 2, stereo := none, ring := false }],
            [some { src := 2, dst := 0, order2 := 2, stereo := none, ring := true },
             some { src := 2, dst := 3, order2 := 2, stereo := none, ring := false },
             some { src := 2, dst := 4, order2 := 2, stereo := none, ring := false }],
            [], []],
    counts2 := [4, 4, 8, 2, 2],
    ringFlags := [true, false, true, false, false],
    atomAttr := [none, none, none, none, none] }

set_option maxRecDepth 100000 in
example : EmitOK c09Ring ∧ (∀ r ∈ c09Ring.roots, r < c09Ring.atoms.length)
    ∧ (encoderFull.frags c09Ring c09Ring.roots 0 [] []).map (·.1) =
        .ok ["[C][C][C][Ring1][Ring1][Branch1][C][F][C]".toList] := by
  refine ⟨⟨by decide, by decide, by decide, by decide, orders_of_rows (by decide)⟩, by decide, by decide +kernel⟩

/-- the SMILES `"C(" * n + "C" + ")C" * n` -/
def c09Nest (n : Nat) : Str :=
  (List.replicate n ['C', '(']).flatten ++ ['C'] ++ (List.replicate n [')', 'C']).flatten

/-- **F2 in the model: the `RecursionError` alternative is real.**  `combGraph n` is the graph of
    `"C(" * n + "C" + ")C" * n` (atom `k < n` bonded to `k + 1` inside the parentheses and to
    `2n − k` behind them); it satisfies the hypotheses of `C09_emit_total`, and for
    `n ≥ recursion budget = 960` the fragment loop raises `RecursionError`.  Proved by reasoning
    (`comb_recursionError`); the kernel cannot evaluate a 960-level nesting in reasonable time. -/
theorem C09_recursionError_witness (n : Nat) (hn : recursionBudget ≤ n) :
    EmitOK (combGraph n) ∧ (∀ r ∈ (combGraph n).roots, r < (combGraph n).atoms.length) ∧
    encoderFull.frags (combGraph n) (combGraph n).roots 0 [] [] = .error .RecursionError :=
  ⟨(combGraph_emitOK n).1, (combGraph_emitOK n).2, combGraph_recursionError n hn⟩

/-- so "the emission phase always returns" is false of the model -/
theorem C09_emit_always_returns_false :
    ¬ ∀ m : PMol, EmitOK m → (∀ r ∈ m.roots, r < m.atoms.length) →
      ∃ r, encoderFull.frags m m.roots 0 [] [] = .ok r := by
  intro h
  obtain ⟨h1, h2, h3⟩ := C09_recursionError_witness 960 (by decide)
  obtain ⟨r, hr⟩ := h _ h1 h2
  rw [h3] at hr; cases hr

set_option maxRecDepth 100000 in
/-- `combGraph n` is what the parser builds from `c09Nest n` (checked here for `n = 3`, i.e.
    `C(C(C(C)C)C)C`), and the budget is 960 -/
example : (match smilesToMol (c09Nest 3) false with | .ok g => g.same (combGraph 3) | _ => false) = true
    ∧ c09Nest 3 = "C(C(C(C)C)C)C".toList ∧ recursionBudget = 960 := by
  refine ⟨by decide +kernel, by decide, by decide⟩

/-! ### 5. the whole encoder -/

/-- **C09, for every tape**: `encoder` returns, or raises `EncoderError`, or raises `RecursionError`
    (only for strings at least as long as the recursion budget), or — in the MODEL only — reports
    an illegal tape as `KeyError`.  Hypothesis: `PWF` of the parsed graph. -/
theorem C09_total_anyTape_of_pwf (T : Table) (s : Str) (strict attrib : Bool) (tape : List Nat)
    (hpwf : ∀ g, smilesToMol s attrib = .ok g → PWF g) :
    (∃ r, encoderFull T s strict attrib tape = .ok r) ∨
    encoderFull T s strict attrib tape = .error .EncoderError ∨
    (encoderFull T s strict attrib tape = .error .RecursionError ∧
      ¬ (s.length + 1 < recursionBudget ∨ s.count '(' + 1 < recursionBudget)) ∨
    (encoderFull T s strict attrib tape = .error .KeyError ∧
      ¬ ∀ g, smilesToMol s attrib = .ok g → TapeOK g tape) := by
  have h := encoderFull_total T s strict attrib tape hpwf
  revert h
  generalize encoderFull T s strict attrib tape = x
  intro h
  cases h with
  | ok r => exact Or.inl ⟨r, rfl⟩
  | encoderError => exact Or.inr (Or.inl rfl)
  | recursionError hn => exact Or.inr (Or.inr (Or.inl ⟨rfl, hn⟩))
  | badTape hn => exact Or.inr (Or.inr (Or.inr ⟨rfl, hn⟩))

/-- **C09 (partial).**  For every string, every table, both flags and every legal tape,
    `selfies.encoder` terminates and returns its result, or raises `EncoderError`, or raises
    `RecursionError` (finding F2).  No `IndexError`, `KeyError`, `AttributeError`, `AssertionError`,
    `TypeError`, `ValueError`, `StopIteration`, `ZeroDivisionError`, and the model never runs out
    of fuel.

    Full-strength statement (FALSE of the real code because of F2, and the `PWF` hypothesis is
    discharged by the parallel worker's theorem about `smilesToMol`):
      `∀ T s strict attrib tape, TapeOK … → (∃ r, encoderFull … = .ok r) ∨ encoderFull … = .error .EncoderError` -/
theorem C09_total_of_pwf (T : Table) (s : Str) (strict attrib : Bool) (tape : List Nat)
    (hpwf : ∀ g, smilesToMol s attrib = .ok g → PWF g)
    (htape : ∀ g, smilesToMol s attrib = .ok g → TapeOK g tape) :
    (∃ r, encoderFull T s strict attrib tape = .ok r) ∨
    encoderFull T s strict attrib tape = .error .EncoderError ∨
    encoderFull T s strict attrib tape = .error .RecursionError := by
  rcases C09_total_anyTape_of_pwf T s strict attrib tape hpwf with h | h | ⟨h, _⟩ | ⟨_, h⟩
  · exact Or.inl h
  · exact Or.inr (Or.inl h)
  · exact Or.inr (Or.inr h)
  · exact absurd htape h

/-- **No `RecursionError` on short inputs or inputs with few `(`** (version with `PWF` as a
    hypothesis).  A bound in terms of the NESTING depth of the parentheses is not proved. -/
theorem C09_no_recursion_error_of_pwf (T : Table) (s : Str) (strict attrib : Bool) (tape : List Nat)
    (hpwf : ∀ g, smilesToMol s attrib = .ok g → PWF g)
    (htape : ∀ g, smilesToMol s attrib = .ok g → TapeOK g tape)
    (hshort : s.length + 1 < recursionBudget ∨ s.count '(' + 1 < recursionBudget) :
    (∃ r, encoderFull T s strict attrib tape = .ok r) ∨
    encoderFull T s strict attrib tape = .error .EncoderError := by
  rcases C09_total_anyTape_of_pwf T s strict attrib tape hpwf with h | h | ⟨_, h⟩ | ⟨_, h⟩
  · exact Or.inl h
  · exact Or.inr h
  · exact absurd hshort h
  · exact absurd htape h

/-- the same for the string-only entry point -/
theorem C09_encoder_total_of_pwf (T : Table) (s : Str) (strict : Bool) (tape : List Nat)
    (hpwf : ∀ g, smilesToMol s false = .ok g → PWF g)
    (htape : ∀ g, smilesToMol s false = .ok g → TapeOK g tape) :
    (∃ r, encoder T s strict tape = .ok r) ∨ encoder T s strict tape = .error .EncoderError ∨
    encoder T s strict tape = .error .RecursionError := by
  unfold encoder
  rcases C09_total_of_pwf T s strict false tape hpwf htape with ⟨r, h⟩ | h | h
  · exact Or.inl ⟨r.1, by simp only [bind, Except.bind, h, pure, Except.pure]⟩
  · exact Or.inr (Or.inl (by simp only [bind, Except.bind, h]))
  · exact Or.inr (Or.inr (by simp only [bind, Except.bind, h]))

/-! ### 5'. … with `PWF` of parser output discharged (`smilesToMol_pwf`, Proofs/ParserPWF.lean) -/

/-- `kekulize` on the graph of ANY string: `False`, or `True` with a graph of the same shape, or
    (model only) an illegal tape.  No hypothesis. -/
theorem C09_kekulize_total {s : Str} {attrib : Bool} {g : PMol} (h : smilesToMol s attrib = .ok g)
    (tape : List Nat) :
    g.kekulize tape = .ok none ∨
    (∃ g', g.kekulize tape = .ok (some g') ∧ KekShape g g') ∨
    (g.kekulize tape = .error .KeyError ∧ ¬ TapeOK g tape) :=
  kekulize_total (smilesToMol_pwf h) (chargeInv_of_parse h) tape

/-- **C09 for every string, table, flag combination and tape, without hypotheses**: `encoder`
    returns, or raises `EncoderError`, or raises `RecursionError` (only for strings at least as
    long as the recursion budget; finding F2), or — in the MODEL only — reports a tape that is not
    a legal record of `set.pop()` results as `KeyError`. -/
theorem C09_total_anyTape (T : Table) (s : Str) (strict attrib : Bool) (tape : List Nat) :
    (∃ r, encoderFull T s strict attrib tape = .ok r) ∨
    encoderFull T s strict attrib tape = .error .EncoderError ∨
    (encoderFull T s strict attrib tape = .error .RecursionError ∧
      ¬ (s.length + 1 < recursionBudget ∨ s.count '(' + 1 < recursionBudget)) ∨
    (encoderFull T s strict attrib tape = .error .KeyError ∧
      ¬ ∀ g, smilesToMol s attrib = .ok g → TapeOK g tape) :=
  C09_total_anyTape_of_pwf T s strict attrib tape (fun _ h => smilesToMol_pwf h)

/-- **C09 (partial: `RecursionError` is not excluded, finding F2).**  For every string, every
    table, both flags and every legal tape, `selfies.encoder` terminates and returns its result,
    or raises `EncoderError`, or raises `RecursionError`.

    Full-strength statement, FALSE of the real code and of the model (F2, `C09_recursionError_witness`):
      `TapeOK … → (∃ r, encoderFull T s strict attrib tape = .ok r) ∨ encoderFull … = .error .EncoderError` -/
theorem C09_total_partial (T : Table) (s : Str) (strict attrib : Bool) (tape : List Nat)
    (htape : ∀ g, smilesToMol s attrib = .ok g → TapeOK g tape) :
    (∃ r, encoderFull T s strict attrib tape = .ok r) ∨
    encoderFull T s strict attrib tape = .error .EncoderError ∨
    encoderFull T s strict attrib tape = .error .RecursionError :=
  C09_total_of_pwf T s strict attrib tape (fun _ h => smilesToMol_pwf h) htape

/-- **The full-strength statement holds for shallow inputs**: strings shorter than the recursion
    budget, or with fewer than `budget − 1` opening parentheses.  (Every level of recursion of
    `_fragment_to_selfies` moves to an atom with a larger index and is entered through a chain
    bond that is not the last chain bond of its atom; there are at most `len(smiles)` atoms and at
    most as many such bonds as `(` characters — `C09_parse_shape`.) -/
theorem C09_no_recursion_error_if_shallow (T : Table) (s : Str) (strict attrib : Bool) (tape : List Nat)
    (htape : ∀ g, smilesToMol s attrib = .ok g → TapeOK g tape)
    (hshort : s.length + 1 < recursionBudget ∨ s.count '(' + 1 < recursionBudget) :
    (∃ r, encoderFull T s strict attrib tape = .ok r) ∨
    encoderFull T s strict attrib tape = .error .EncoderError :=
  C09_no_recursion_error_of_pwf T s strict attrib tape (fun _ h => smilesToMol_pwf h) htape hshort

/-- the string-only entry point -/
theorem C09_encoder_total_partial (T : Table) (s : Str) (strict : Bool) (tape : List Nat)
    (htape : ∀ g, smilesToMol s false = .ok g → TapeOK g tape) :
    (∃ r, encoder T s strict tape = .ok r) ∨ encoder T s strict tape = .error .EncoderError ∨
    encoder T s strict tape = .error .RecursionError :=
  C09_encoder_total_of_pwf T s strict tape (fun _ h => smilesToMol_pwf h) htape

/-- every graph has a legal tape -/
theorem C09_legal_tape_exists (g : PMol) : ∃ tape, TapeOK g tape := tapeOK_exists g

/-- for every string, table and flag combination there is a tape (namely a legal one) on which
    `encoder` returns or raises `EncoderError` or `RecursionError` -/
theorem C09_total_exists_tape (T : Table) (s : Str) (strict attrib : Bool) :
    ∃ tape, (∃ r, encoderFull T s strict attrib tape = .ok r) ∨
      encoderFull T s strict attrib tape = .error .EncoderError ∨
      encoderFull T s strict attrib tape = .error .RecursionError := by
  cases hp : smilesToMol s attrib with
  | error e =>
    exact ⟨[], C09_total_partial T s strict attrib [] (fun g hg => by rw [hp] at hg; cases hg)⟩
  | ok g =>
    obtain ⟨tape, ht⟩ := tapeOK_exists g
    exact ⟨tape, C09_total_partial T s strict attrib tape (fun g' hg => by rw [hp] at hg; cases hg; exact ht)⟩

/-- non-vacuity: `c1ccccc1` parses to `benzene`, which is `PWF`, and the empty tape is legal -/
theorem C09_benzene_parse : smilesToMol "c1ccccc1".toList false = .ok benzene := by
  have : (match smilesToMol "c1ccccc1".toList false with | .ok m => m.same benzene | _ => false) = true := by
    decide +kernel
  cases h : smilesToMol "c1ccccc1".toList false with
  | error e => rw [h] at this; cases this
  | ok m => rw [h] at this; rw [PMol.eq_of_same this]

example : (∀ g, smilesToMol "c1ccccc1".toList false = .ok g → PWF g)
    ∧ (∀ g, smilesToMol "c1ccccc1".toList false = .ok g → TapeOK g [])
    ∧ ("c1ccccc1".toList.length + 1 < recursionBudget ∨ "c1ccccc1".toList.count '(' + 1 < recursionBudget) := by
  refine ⟨?_, ?_, Or.inl (by decide)⟩
  · intro g hg; rw [C09_benzene_parse] at hg; cases hg; exact (isPWF_iff _).1 (by decide)
  · intro g hg; rw [C09_benzene_parse] at hg; cases hg; exact C09_tapeOK_benzene

def c09T : Table := { entries := Gen.preset_default, dflt := 8 }

set_option maxRecDepth 100000 in
/-- … and broken inputs of every kind named in the property end in `EncoderError` -/
example :
    encoder c09T "C(".toList = .error .EncoderError ∧
    encoder c09T "C11".toList = .error .EncoderError ∧
    encoder c09T "C=1CC#1".toList = .error .EncoderError ∧
    encoder c09T "F:F".toList = .error .EncoderError ∧
    encoder c09T "C*".toList = .error .EncoderError ∧
    encoder c09T "[C@TH1]".toList = .error .EncoderError ∧
    encoder c09T "".toList = .error .EncoderError ∧
    encoder c09T "\x00é ".toList = .error .EncoderError ∧
    encoder c09T "C(C)(C)(C)(C)C".toList = .error .EncoderError ∧
    encoder c09T "C(C)(C)(C)(C)C".toList false = .ok "[C][Branch1][C][C][Branch1][C][C][Branch1][C][C][Branch1][C][C][C]".toList := by
  decide +kernel

/-
  NOT PROVED / FALSE:

  * the full-strength statement without `RecursionError`: FALSE of the real code and of the model
    (finding F2: `"C(" * 2000 + "C" + ")C" * 2000` on the real code; in the model `fragmentGo`
    returns `.error .RecursionError` when `depth + 1 ≥ recursionBudget`).  Graph-level witness
    `C09_recursionError_witness`; at the SMILES level the witness `c09Nest 960` is not evaluated
    here (parsing 3841 characters in the kernel takes > 10 minutes; `#eval` gives
    `RecursionError` for `c09Nest 960` and success for `c09Nest 959`).
  * a bound on `RecursionError` in terms of the NESTING depth of parentheses rather than the
    length of the string or the NUMBER of `(` (`C09_no_recursion_error_if_shallow` uses
    `len(smiles) + 1 < budget ∨ smiles.count("(") + 1 < budget`).
-/

end SV
