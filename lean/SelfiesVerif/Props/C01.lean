/-
  Property C01 (graph-level part): every SELFIES string the decoder accepts decodes, under
  every constraint table, to a valence-valid, simple molecular graph.

  All theorems hold for ALL `T : Table`, `s : Str`, `compat attrib : Bool` under the sole
  hypothesis `decodeGraph T s compat attrib = .ok g`; the proofs are inductions over the fuel of
  `deriveLoop`, the fragment list and the ring-request list (Proofs/DecoderInv.lean and the files
  it imports).  No bound on the length, nesting, number of rings or fragments is used.
-/
import SelfiesVerif.Proofs.DecoderInv

namespace SV

/-! ### specification-side definitions (independent of the tracked `counts`) -/

/-- sum of the orders of all bonds incident to atom `i`, computed from the adjacency lists:
    a chain bond `src → dst` is stored once (in `adj[src]`) and counts for both ends, a ring bond
    is stored in both directions and each copy counts for its own `src`. -/
def Mol.bondSum (m : Mol) (i : Nat) : Nat :=
  (m.adj.flatten.map fun b => if b.src = i ∨ (b.dst = i ∧ b.ring = false) then b.order else 0).sum

/-- number of chain (non-ring) bonds that end in atom `i` -/
def Mol.chainInDeg (m : Mol) (i : Nat) : Nat :=
  (m.adj.flatten.filter fun b => decide (b.dst = i) && !b.ring).length

theorem Mol.bondSum_eq (m : Mol) (i : Nat) : m.bondSum i = SV.bondSum m.adj i := rfl

theorem Mol.chainInDeg_eq (m : Mol) (i : Nat) : m.chainInDeg i = SV.chainIn m.adj i := by
  unfold Mol.chainInDeg SV.chainIn wsum
  induction m.adj.flatten with
  | nil => rfl
  | cons b l ih =>
    simp only [List.map_cons, List.sum_cons, List.filter_cons, ← ih]
    by_cases h1 : b.dst = i <;> cases h2 : b.ring <;> simp [cw, h1, h2] <;> omega

/-! ### helpers for the non-vacuity examples -/

/-- the default constraint table with `?` = 8 -/
def T0 : Table := { entries := Gen.preset_default, dflt := 8 }

/-- what the examples display of a molecule:
    (#atoms, roots, counts, bonds as `[src, dst, order, ring?1:0]`) -/
def Mol.summary (g : Mol) : Nat × List Nat × List Nat × List (List (List Nat)) :=
  (g.atoms.length, g.roots, g.counts,
   g.adj.map (·.map fun b => [b.src, b.dst, b.order, if b.ring then 1 else 0]))

theorem ok_of_map {α β} {x : Py α} {f : α → β} {y : β} (h : x.map f = .ok y) :
    ∃ g, x = .ok g ∧ f g = y := by
  cases x with
  | error e => cases h
  | ok g => exact ⟨g, rfl, by cases h; rfl⟩

variable {T : Table} {s : Str} {compat attrib : Bool} {g : Mol}

/-! ### C01.1  valence -/

/-- Bond orders plus explicit hydrogens never exceed the capacity of the atom's
    (element, charge) under `T`  (`bondingCapacity = capacity − hCount`). -/
theorem C01_valence (h : decodeGraph T s compat attrib = .ok g) :
    ∀ i a, g.atoms[i]? = some a → (g.bondSum i : Int) ≤ a.bondingCapacity T := by
  intro i a ha
  obtain ⟨hI, _⟩ := decodeGraph_inv h
  have hi := (List.getElem?_eq_some_iff.mp ha).1
  exact hI.cap i a _ ha (hI.counts i hi)

/-- non-vacuity: `C1=C(O)C1`; and clipping: in `[C][#C][#C]` the second triple bond is clipped to
    a single bond, in `[F][=C]` the double bond is clipped to a single bond -/
example : ∃ g, decodeGraph T0 "[C][=C][Branch1][C][O][C][Ring1][Ring2]".toList false false = .ok g ∧
    g.summary = (4, [0], [3, 4, 1, 2],
      [[[0, 3, 1, 1], [0, 1, 2, 0]], [[1, 2, 1, 0], [1, 3, 1, 0]], [],
       [[3, 0, 1, 1]]]) :=
  ok_of_map (by decide)
example : ∃ g, decodeGraph T0 "[C][#C][#C]".toList false false = .ok g ∧
    g.summary = (3, [0], [3, 4, 1], [[[0, 1, 3, 0]], [[1, 2, 1, 0]], []]) :=
  ok_of_map (by decide)
example : ∃ g, decodeGraph T0 "[F][=C]".toList false false = .ok g ∧
    g.summary = (2, [0], [1, 1], [[[0, 1, 1, 0]], []]) :=
  ok_of_map (by decide)
/-- the theorem applied: carbon 1 of `[C][#C][#C]` carries exactly its capacity 4 -/
example : ∃ g, decodeGraph T0 "[C][#C][#C]".toList false false = .ok g ∧
    (g.atoms[1]?.map (·.bondingCapacity T0), g.bondSum 1) = (some 4, 4) :=
  ok_of_map (f := fun g : Mol => (g.atoms[1]?.map (·.bondingCapacity T0), g.bondSum 1)) (by decide)

/-! ### C01.2  the incrementally tracked counts are the true bond sums -/

theorem C01_counts_consistent (h : decodeGraph T s compat attrib = .ok g) :
    g.counts.length = g.atoms.length ∧ g.adj.length = g.atoms.length ∧
    ∀ i, i < g.atoms.length → g.counts[i]? = some (g.bondSum i) := by
  obtain ⟨hI, _⟩ := decodeGraph_inv h
  exact ⟨hI.lenC, hI.lenA, hI.counts⟩

/-- non-vacuity: a ring request onto an existing chain bond raises its order (and both counts);
    a table with capacity 0 for C (the C is never added) and one with capacities > 8 -/
example : ∃ g, decodeGraph T0 "[C][C][Ring1][C]".toList false false = .ok g ∧
    g.summary = (2, [0], [2, 2], [[[0, 1, 2, 0]], []]) :=
  ok_of_map (by decide)
example : ∃ g, decodeGraph { entries := [("C".toList, 0)], dflt := 9 } "[N][C][N]".toList false false = .ok g ∧
    g.summary = (1, [0], [0], [[]]) :=
  ok_of_map (by decide)
example : ∃ g, decodeGraph { entries := [], dflt := 12 } "[C][=C][=C][=C]".toList false false = .ok g ∧
    g.summary = (4, [0], [2, 4, 4, 2], [[[0, 1, 2, 0]], [[1, 2, 2, 0]], [[2, 3, 2, 0]], []]) :=
  ok_of_map (by decide)

/-! ### C01.3  the graph is simple -/

theorem C01_simple_graph (h : decodeGraph T s compat attrib = .ok g) :
    -- (a) every stored bond is well formed: right row, end point exists, no self-bond,
    --     order 1..3, chain bonds point from the smaller to the larger index
    (∀ (k : Nat) (row : List DirBond), g.adj[k]? = some row → ∀ b ∈ row,
        b.src = k ∧ b.dst < g.atoms.length ∧ b.src ≠ b.dst ∧ 1 ≤ b.order ∧ b.order ≤ 3 ∧
        (b.ring = false → b.src < b.dst)) ∧
    -- (b) no second bond between a bonded pair (per direction)
    (∀ (k : Nat) (row : List DirBond), g.adj[k]? = some row →
        row.Pairwise (fun b b' => b.dst ≠ b'.dst)) ∧
    -- (c) a ring bond a→b in adj[a] has its mirror b→a in adj[b], same order, ring = true
    (∀ (k : Nat) (row : List DirBond), g.adj[k]? = some row → ∀ b ∈ row, b.ring = true →
        ∃ row', g.adj[b.dst]? = some row' ∧ ∃ b' ∈ row',
          b'.src = b.dst ∧ b'.dst = b.src ∧ b'.order = b.order ∧ b'.ring = true) ∧
    -- (d) at most one undirected bond per unordered pair: two stored bonds that join the same
    --     pair are the same bond, or the two halves of one ring bond
    (∀ (k k' : Nat) (row row' : List DirBond), g.adj[k]? = some row → g.adj[k']? = some row' →
        ∀ b ∈ row, ∀ b' ∈ row',
        ((b'.src = b.src ∧ b'.dst = b.dst) ∨ (b'.src = b.dst ∧ b'.dst = b.src)) →
        b' = b ∨ (b.ring = true ∧ b'.ring = true ∧ b'.src = b.dst ∧ b'.dst = b.src ∧
                  b'.order = b.order)) ∧
    -- (e) in particular never both a chain bond and a ring bond between the same pair
    (∀ (k k' : Nat) (row row' : List DirBond), g.adj[k]? = some row → g.adj[k']? = some row' →
        ∀ b ∈ row, ∀ b' ∈ row', b.ring = false → b'.ring = true →
        ¬ ((b'.src = b.src ∧ b'.dst = b.dst) ∨ (b'.src = b.dst ∧ b'.dst = b.src))) := by
  obtain ⟨hI, _⟩ := decodeGraph_inv h
  have ha : ∀ (k : Nat) (row : List DirBond), g.adj[k]? = some row → ∀ b ∈ row,
      b.src = k ∧ b.dst < g.atoms.length ∧ b.src ≠ b.dst ∧ 1 ≤ b.order ∧ b.order ≤ 3 ∧
      (b.ring = false → b.src < b.dst) := by
    intro k row hk b hb
    obtain ⟨h1, h2, h3, h4, h5, h6⟩ := hI.bonds k row hk b hb
    exact ⟨h1, h2, by omega, h4, h5, fun hr => by have := h6 hr; omega⟩
  have hc : ∀ (k : Nat) (row : List DirBond), g.adj[k]? = some row → ∀ b ∈ row, b.ring = true →
      ∃ row', g.adj[b.dst]? = some row' ∧ ∃ b' ∈ row',
        b'.src = b.dst ∧ b'.dst = b.src ∧ b'.order = b.order ∧ b'.ring = true := by
    intro k row hk b hb hr
    obtain ⟨row', hk', y, hy, hy1, hy2, hy3⟩ := hI.mirror k row hk b hb hr
    have := (hI.bonds _ row' hk' y hy).1
    have := (hI.bonds k row hk b hb).1
    exact ⟨row', hk', y, hy, by omega, by omega, hy2, hy3⟩
  have hd : ∀ (k k' : Nat) (row row' : List DirBond), g.adj[k]? = some row →
      g.adj[k']? = some row' → ∀ b ∈ row, ∀ b' ∈ row',
      ((b'.src = b.src ∧ b'.dst = b.dst) ∨ (b'.src = b.dst ∧ b'.dst = b.src)) →
      b' = b ∨ (b.ring = true ∧ b'.ring = true ∧ b'.src = b.dst ∧ b'.dst = b.src ∧
                b'.order = b.order) := by
    intro k k' row row' hk hk' b hb b' hb' hpair
    obtain ⟨s1, _, _, _, _, c1⟩ := ha k row hk b hb
    obtain ⟨s2, _, _, _, _, c2⟩ := ha k' row' hk' b' hb'
    rcases hpair with ⟨e1, e2⟩ | ⟨e1, e2⟩
    · left
      have : k' = k := by omega
      subst this
      rw [hk] at hk'; cases hk'
      exact pw_unique (hI.nodup _ _ hk) hb' hb e2
    · right
      -- a ring bond's mirror is the unique bond of the other row with that end point
      have key : ∀ (k k' : Nat) (row row' : List DirBond), g.adj[k]? = some row →
          g.adj[k']? = some row' → ∀ b ∈ row, ∀ b' ∈ row', b.src = k → b'.src = k' →
          b'.src = b.dst → b'.dst = b.src → b'.ring = true →
          b.ring = true ∧ b.order = b'.order := by
        intro k k' row row' hk hk' b hb b' hb' s1 s2 e1 e2 hr'
        obtain ⟨row'', hk'', y, hy, _, y2, y3, y4⟩ := hc k' row' hk' b' hb' hr'
        have : b'.dst = k := by omega
        rw [this, hk] at hk''; cases hk''
        have : y = b := pw_unique (hI.nodup _ _ hk) hy hb (by omega)
        subst this
        exact ⟨y4, y3⟩
      cases hr' : b'.ring with
      | true =>
        obtain ⟨r1, o1⟩ := key k k' row row' hk hk' b hb b' hb' s1 s2 e1 e2 hr'
        exact ⟨r1, rfl, e1, e2, o1.symm⟩
      | false =>
        cases hr : b.ring with
        | true =>
          obtain ⟨r1, _⟩ := key k' k row' row hk' hk b' hb' b hb s2 s1 e2.symm e1.symm hr
          rw [hr'] at r1; cases r1
        | false =>
          have := c1 hr; have := c2 hr'; omega
  refine ⟨ha, hI.nodup, hc, hd, ?_⟩
  intro k k' row row' hk hk' b hb b' hb' hr hr' hpair
  rcases hd k k' row row' hk hk' b hb b' hb' hpair with rfl | ⟨r1, _⟩
  · rw [hr] at hr'; cases hr'
  · rw [hr] at r1; cases r1

/-- non-vacuity: two fragments, a repeated ring request 2→0 (the ring bond grows to order 2,
    both mirrored halves), a ring across the `.` (3→2) whose order 2 is clipped to 1 -/
example : ∃ g, decodeGraph T0 "[C][C][C][Ring1][Ring1][Ring1][Ring1].[O][=Ring1][C]".toList false false
      = .ok g ∧
    g.summary = (4, [0, 3], [3, 2, 4, 1],
      [[[0, 2, 2, 1], [0, 1, 1, 0]], [[1, 2, 1, 0]],
       [[2, 0, 2, 1], [2, 3, 1, 1]], [[3, 2, 1, 1]]]) :=
  ok_of_map (by decide)

/-! ### C01.4  the chain bonds form a forest rooted at `g.roots` -/

/-- Roots are existing atoms, listed in strictly increasing order (so without repetition);
    a root has no incoming chain bond, every other atom has exactly one; chain bonds come from
    a smaller index.  Hence the SMILES writer visits every atom exactly once. -/
theorem C01_forest (h : decodeGraph T s compat attrib = .ok g) :
    (∀ r ∈ g.roots, r < g.atoms.length) ∧ g.roots.Pairwise (· < ·) ∧
    (∀ i, i < g.atoms.length → g.chainInDeg i = if i ∈ g.roots then 0 else 1) ∧
    (∀ b ∈ g.adj.flatten, b.ring = false → b.src < b.dst) := by
  obtain ⟨hI, hF⟩ := decodeGraph_inv h
  refine ⟨hF.rootsLt, hF.rootsSorted, ?_, ?_⟩
  · intro i hi
    rw [Mol.chainInDeg_eq]; exact hF.chainIn i hi
  · intro b hb hr
    obtain ⟨row, hrow, hbr⟩ := List.mem_flatten.mp hb
    obtain ⟨k, hk⟩ := List.mem_iff_getElem?.mp hrow
    obtain ⟨h1, _, _, _, _, h6⟩ := hI.bonds k row hk b hbr
    have := h6 hr; omega

/-- non-vacuity: a branched, two-fragment input; atoms 0 and 5 are the roots -/
example : ∃ g, decodeGraph T0 "[C][Branch1][Ring1][O][C][=N][C].[S][P]".toList false false = .ok g ∧
    (g.roots, (List.range g.atoms.length).map g.chainInDeg) = ([0, 5], [0, 1, 1, 1, 1, 0, 1]) :=
  ok_of_map (f := fun g : Mol => (g.roots, (List.range g.atoms.length).map g.chainInDeg)) (by decide)

/-! ### link to the API function -/

/-- Whenever `selfies.decoder` returns a string, that string is the SMILES writer's rendering of a
    graph `g` to which the four theorems above apply. -/
theorem C01_decoder_graph {out : Str} (h : decoder T s compat = .ok out) :
    ∃ g maps, decodeGraph T s compat false = .ok g ∧ molToSmiles g = .ok (out, maps) := by
  unfold decoder decoderFull at h
  bind_at h with ⟨r, h1, h⟩
  bind_at h1 with ⟨g, hg, h1⟩
  cases h
  exact ⟨g, r.2, hg, h1⟩

example : decoder T0 "[C][=C][Branch1][C][O][C][Ring1][Ring2]".toList = .ok "C1=C(O)C1".toList := by
  decide

end SV
