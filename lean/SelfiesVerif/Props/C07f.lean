/-
  Property C07, end statement (after the repair of finding F10 in the library).

  "Any string over the semantically robust alphabet is a valid molecule":
  for every constraint table the library accepts - after ANY history of API calls and caller-side
  mutations - every symbol of `get_semantic_robust_alphabet()` is accepted by the decoder
  (`validSymbol`), hence every string made of alphabet symbols and dots decodes: `selfies.decoder`
  returns a SMILES string, or - only when the string nests branches deeper than the interpreter's
  recursion budget (residual finding F2r, `C08_recursion_error_reachable`) - raises
  `RecursionError`; with the depth bound it returns.

  Composition of
    `C07_alphabet_symbols_valid`  (Props/C07.lean: symbols of the alphabet of an accepted dict),
    `CurAccepted.run`             (Proofs/ConfigAccepted.lean: the dict in force is an accepted one),
    `streams_of_valid_items`      (Proofs/AlphabetValid.lean: what the tokenizer returns),
    `C07_no_error`, `C07_no_error_shallow` (Props/C08.lean).
  That the decoded molecule obeys the table is `C01_valence` (Props/C01.lean).

  Dictionary: `run ops` plays the history `ops : List Op` from the state right after
  `import selfies`; `(run ops).1.1.currentTable` is the table in force, `robustAlphabet` of it is
  what `get_semantic_robust_alphabet()` computes (`C07_reflects_current_table`); a string over the
  alphabet is `render items = items.flatten` for a list of items each of which is an alphabet
  symbol or the dot `"."`.
-/
import SelfiesVerif.Props.C07
import SelfiesVerif.Props.C08
import SelfiesVerif.Proofs.ConfigAccepted

namespace SV

/-- **The table in force is always an accepted one.**  After any history, the dict object
    `_current_constraints` passes the validation of `set_semantic_constraints` (it is the initial
    table, a copy of a preset, or a copy of a validated dict, and the caller cannot reach it),
    so it has a total form `Tb` (`?` is present). -/
theorem C07_current_table_accepted (ops : List Op) :
    validateDict ((run ops).1.1.dictOf (run ops).1.1.current) = none
    ∧ ∃ Tb, Table.ofDict (run ops).1.1.currentTable = some Tb :=
  ⟨CurAccepted.run ops, ofDict_of_valid (CurAccepted.run ops)⟩

-- non-vacuity: a history with an accepted update, a rejected one (long charge: F10), a rejected
-- one (leading zero) and a mutation of the dict that was passed in
set_option maxRecDepth 100000 in
example :
    (run [.newDict [(.str ['?'], .int 3), (.str "Fe+2".toList, .int 2)], .setDict 0,
          .newDict [(.str ['?'], .int 8),
                    (.str ("C+".toList ++ List.replicate (Gen.intMaxStrDigits + 1) '1'), .int 1)],
          .setDict 1,
          .newDict [(.str ['?'], .int 8), (.str "C+01".toList, .int 1)], .setDict 2,
          .mutDict 0 (.str "C+01".toList) (.int 1)]).2
      = [.unit, .unit, .unit, .exc .ValueError, .unit, .exc .ValueError, .unit]
    ∧ (run [.newDict [(.str ['?'], .int 3), (.str "Fe+2".toList, .int 2)], .setDict 0,
          .newDict [(.str ['?'], .int 8),
                    (.str ("C+".toList ++ List.replicate (Gen.intMaxStrDigits + 1) '1'), .int 1)],
          .setDict 1,
          .newDict [(.str ['?'], .int 8), (.str "C+01".toList, .int 1)], .setDict 2,
          .mutDict 0 (.str "C+01".toList) (.int 1)]).1.1.currentTable
      = [(['?'], 3), ("Fe+2".toList, 2)] := by decide +kernel

/-- **Every symbol of the alphabet is valid, after any history.**  Whatever the history, every
    symbol of the robust alphabet of the table in force is accepted by the decoder's dispatch
    cascade under (the total form of) that table, and is a bracketed symbol. -/
theorem C07_alphabet_valid_any_history (ops : List Op) {Tb : Table}
    (hT : Table.ofDict (run ops).1.1.currentTable = some Tb) :
    ∀ x ∈ robustAlphabet (run ops).1.1.currentTable, validSymbol Tb x = true ∧ IsSymbol x :=
  C07_alphabet_symbols_valid (CurAccepted.run ops) hT

/-- the same for a dict accepted by `set_semantic_constraints` in an arbitrary state: the call
    succeeds iff the validation passes, and then every symbol of the alphabet of the new table in
    force is valid -/
theorem C07_alphabet_valid_after_set (st : CfgState) (ref : Nat)
    (hok : (setConstraints st (.dict ref)).2 = .ok ()) {Tb : Table}
    (hT : Table.ofDict (st.dictOf ref).toConstraints = some Tb) :
    validateDict (st.dictOf ref) = none
    ∧ ∀ x ∈ robustAlphabet (st.dictOf ref).toConstraints, validSymbol Tb x = true ∧ IsSymbol x := by
  have hv : validateDict (st.dictOf ref) = none := by
    rw [setConstraints_dict] at hok
    cases hv : validateDict (st.dictOf ref) with
    | none => rfl
    | some e => rw [hv] at hok; cases hok
  exact ⟨hv, C07_alphabet_symbols_valid hv hT⟩

/-- **C07, end to end.**  Let `d` be a dictionary accepted by `set_semantic_constraints`, `Tb` the
    total form of the stored table.  Every string made of symbols of
    `get_semantic_robust_alphabet()` and dots is decoded by `selfies.decoder` without
    `DecoderError` or any other exception: it returns, or (only for strings nested deeper than the
    recursion budget: residual finding F2r) raises `RecursionError`. -/
theorem C07_strings_over_alphabet_decode {d : PyDict} (hd : validateDict d = none) {Tb : Table}
    (hT : Table.ofDict d.toConstraints = some Tb) (items : List Str)
    (hitems : ∀ x ∈ items, x ∈ robustAlphabet d.toConstraints ∨ x = ".".toList) (attrib : Bool) :
    (∃ r, decoderFull Tb items.flatten false attrib = .ok r) ∨
    decoderFull Tb items.flatten false attrib = .error .RecursionError := by
  apply C07_no_error
  apply streams_of_valid_items
  intro x hx hdot
  rcases hitems x hx with h | h
  · exact ⟨(C07_alphabet_symbols_valid hd hT x h).2, (C07_alphabet_symbols_valid hd hT x h).1⟩
  · exact absurd h hdot

/-- ... and with the depth bound of `C08_no_recursion_error_if_shallow` the decoder returns. -/
theorem C07_strings_over_alphabet_decode_shallow {d : PyDict} (hd : validateDict d = none)
    {Tb : Table} (hT : Table.ofDict d.toConstraints = some Tb) (items : List Str)
    (hitems : ∀ x ∈ items, x ∈ robustAlphabet d.toConstraints ∨ x = ".".toList) (attrib : Bool)
    (hdepth : ∀ frag ∈ splitOnChar '.' items.flatten,
      branchCount false (tokenizeFragment frag) < recursionBudget) :
    ∃ r, decoderFull Tb items.flatten false attrib = .ok r := by
  apply C07_no_error_shallow _ _ _ _ hdepth
  apply streams_of_valid_items
  intro x hx hdot
  rcases hitems x hx with h | h
  · exact ⟨(C07_alphabet_symbols_valid hd hT x h).2, (C07_alphabet_symbols_valid hd hT x h).1⟩
  · exact absurd h hdot

/-- **C07 over histories.**  After any history of API calls and caller-side mutations, every
    string over the alphabet of the table in force decodes (or hits the recursion limit). -/
theorem C07_strings_decode_any_history (ops : List Op) {Tb : Table}
    (hT : Table.ofDict (run ops).1.1.currentTable = some Tb) (items : List Str)
    (hitems : ∀ x ∈ items, x ∈ robustAlphabet (run ops).1.1.currentTable ∨ x = ".".toList)
    (attrib : Bool) :
    (∃ r, decoderFull Tb items.flatten false attrib = .ok r) ∨
    decoderFull Tb items.flatten false attrib = .error .RecursionError :=
  C07_strings_over_alphabet_decode (CurAccepted.run ops) hT items hitems attrib

-- non-vacuity: under the default table a string of alphabet symbols with a branch, a ring bond,
-- a charged atom and a dot; all items are in the alphabet; the decoder returns
example :
    validateDict (constraintsToPyDict Gen.preset_default) = none
    ∧ Table.ofDict (constraintsToPyDict Gen.preset_default).toConstraints
        = some ⟨Gen.preset_default, 8⟩
    ∧ (∀ x ∈ ["[C]".toList, "[=C]".toList, "[Branch1]".toList, "[C]".toList, "[O]".toList,
              "[C]".toList, "[Ring1]".toList, "[Ring2]".toList, ".".toList, "[N+1]".toList,
              "[#C]".toList],
        x ∈ robustAlphabet (constraintsToPyDict Gen.preset_default).toConstraints ∨ x = ".".toList)
    ∧ (decoderFull ⟨Gen.preset_default, 8⟩
        "[C][=C][Branch1][C][O][C][Ring1][Ring2].[N+1][#C]".toList false false).isOk = true := by
  decide +kernel

end SV
