/-
  Property C10, clause "Encoding the decoded SMILES again reproduces exactly the same SELFIES
  string" (re-encoding stability), and the string-level form of C04 (neighbour order and
  handedness, end to end).

  `C10_reencode_stable`: for every SMILES `s` the strict encoder accepts under `T` (kekulization
  tape `tape`), with `sel = encoder(s)`: if every ring span and branch length of the input fits
  three index symbols, the branch nesting stays below the recursion budget (the hypotheses of
  `C03p_roundtrip_strings`) and the input has at most 99 ring bonds (beyond that the decoder writes
  `%100`, finding F1), then `out = decoder(sel)` exists and `encoder(out) = sel` for EVERY tape
  (the decoder's output has no aromatic atom: `kekulize` returns at once).

  Route: `decodeGraph T sel = finalMol f` (C03) — `out = specSmiles (finalMol f)` (C01w) —
  `smilesToMol out = readMol (finalMol f)` (C01r: the library's parser reads the decoder's output
  back, rows in the decoder's order) — this graph is `graphOf f.reord`, the graph of the forest
  with every atom's items in decoder order (Proofs/ReaderEnc*.lean) — no constraint violation, no
  chirality flip (`decoderOrder` of a row that is already in decoder order is the identity: 0
  inversions) — `encodeGraph (graphOf f.reord) = f.reord.encode = f.encode` (`C03_encode_graph`;
  the encoder reads only the atoms, the CLOSING ring bonds of each atom in order and the chain
  bonds in order).
  No ring bond of the decoded molecule joins two fragments because the input was parsed by the
  library's parser, whose ring log is per fragment (Proofs/ReaderLocal.lean).

  `C04_end_to_end`: in `out` every atom lists its neighbours in the order `decoderOrder` of the
  input's row, and its chirality tag is the input's, inverted iff that permutation is odd.
-/
import SelfiesVerif.Props.C01r
import SelfiesVerif.Proofs.ReaderEnc6
import SelfiesVerif.Proofs.ReaderPrepare

namespace SV

/-! ### on forests -/

/-- **Re-encoding stability on forests.**  `f` ready (well formed, kekulized, atoms well formed,
    obeys the table, spans and depth fit), not empty, rings inside fragments, at most 99 rings:
    the decoder turns `f.encode` into a string that the parser reads back as `readMol (finalMol f)`
    and that the encoder (any tape) turns into `f.encode` again. -/
theorem C10_reencode_stable_forest (T : Table) (f : PForest) (h : f.ready T = true) (hne : f ≠ [])
    (hloc : (finalMol f).RingsLocal) (h99 : (finalMol f).ringHalves ≤ 2 * 99) :
    decoder T f.encode = .ok (specSmiles (finalMol f)) ∧
    smilesToMol (specSmiles (finalMol f)) false = .ok (readMol (finalMol f)) ∧
    ∀ tape, encoder T (specSmiles (finalMol f)) true tape = .ok f.encode := by
  obtain ⟨_, hdec, _, hat, _⟩ := C03_decode_encode T f h
  have hne' : (finalMol f).atoms ≠ [] := by
    rw [hat, graphOf_atoms]
    intro h0
    exact PForest.nodes_ne_nil hne (List.map_eq_nil_iff.mp h0)
  have hread := C01r_reader_recovers hdec hne' h99 hloc
  refine ⟨C01w_decoder_total hdec, hread, fun tape => ?_⟩
  exact reencode_of_reader T f h _ _ tape hread rfl rfl rfl rfl

set_option maxRecDepth 100000 in
/-- non-vacuity: the cage `C12(F)CC2C1` (the decoder writes `C12(F)CC1C2`: the row of atom 0 is
    reordered) and the chiral `[C@]12(F)CC(C2)1`: every hypothesis is checked by evaluation -/
example : ∀ f ∈ [c03Cage, rdChiral, [c03Ring, c03Chain5]], PForest.ready c03T f = true ∧ f ≠ [] ∧
    (finalMol f).RingsLocal ∧ (finalMol f).ringHalves ≤ 2 * 99 := by decide +kernel

example : ∀ tape, encoder c03T (specSmiles (finalMol rdChiral)) true tape = .ok rdChiral.encode :=
  (C10_reencode_stable_forest c03T rdChiral (by decide +kernel) (by decide +kernel) (by decide +kernel)
    (by decide +kernel)).2.2

/-! ### on strings -/

/-- **C10, re-encoding stability.**  Let `selfies.encoder(s, strict=True)` return `sel` under table
    `T`.  Then the prepared graph is `graphOf f` for the forest `f = forestOf g`, and if spans and
    nesting depth fit and `s` has at most 99 ring bonds, `selfies.decoder(sel)` returns a string
    `out` that the library's parser reads back as the decoded molecule (rows in the decoder's
    order) and `selfies.encoder(out, strict=True) = sel`, whatever the kekulization tape. -/
theorem C10_reencode_stable (T : Table) (s : Str) (tape : List Nat) (sel : Str)
    (hlen : s.length ≤ 10 ^ Gen.intMaxStrDigits) (henc : encoder T s true tape = .ok sel) :
    ∃ g f, encodePrepare T s true false tape = .ok g ∧ forestOf g = some f ∧ g = graphOf f ∧
      ((∀ t ∈ f, t.spanOK = true) → (∀ t ∈ f, t.bdepth + 1 < recursionBudget) →
        f.ringDigits ≤ 2 * 99 →
        ∃ out, decoder T sel = .ok out ∧ smilesToMol out false = .ok (readMol (finalMol f)) ∧
          ∀ tape', encoder T out true tape' = .ok sel) := by
  rw [encoder_eq_prepare_encodeGraph] at henc
  cases hp : encodePrepare T s true false tape with
  | error e => rw [hp] at henc; cases henc
  | ok g =>
    rw [hp] at henc
    obtain ⟨f, h1, h2, h3, h4, h6, h5'⟩ := C03p_kekulized_ready T s tape g hp
    have h5 := h5' hlen
    refine ⟨g, f, rfl, h1, h2, ?_⟩
    intro hspan hdepth hrings
    have hready : f.ready T = true := by
      unfold PForest.ready
      simp only [Bool.and_eq_true, List.all_eq_true, decide_eq_true_eq]
      exact ⟨⟨⟨⟨⟨h3, h4⟩, h5⟩, h6⟩, hspan⟩, hdepth⟩
    obtain ⟨e1, _⟩ := C03_decode_encode T f hready
    have hsel : sel = f.encode := by
      have : encodeGraph g = .ok sel := henc
      rw [h2, e1] at this
      injection this with this
      exact this.symm
    have hne : f ≠ [] := by
      intro h0
      have := encodePrepare_roots hp
      rw [h2, h0] at this
      exact this rfl
    have hloc : (finalMol f).RingsLocal :=
      finalMol_ringsLocal f h3 (by rw [← h2]; exact encodePrepare_ringsLocal hp)
    have h99 : (finalMol f).ringHalves ≤ 2 * 99 := by
      rw [finalMol_ringHalves f h3]; exact hrings
    obtain ⟨c1, c2, c3⟩ := C10_reencode_stable_forest T f hready hne hloc h99
    rw [hsel]
    exact ⟨_, c1, c2, c3⟩

set_option maxRecDepth 100000 in
/-- non-vacuity on strings: `C12(F)CC2C1` (written back as `C12(F)CC1C2`), a ring with a branch and
    a second fragment, and a chiral atom next to a ring -/
example : ∀ x ∈ ["C12(F)CC2C1", "OC1=C(O)C1.C#N", "C1CC1[C@](F)(Cl)Br"],
    x.toList.length ≤ 10 ^ Gen.intMaxStrDigits ∧
    ∃ sel g f, encoder c03T x.toList true [] = .ok sel ∧ encodePrepare c03T x.toList true false [] = .ok g ∧
      forestOf g = some f ∧ (∀ t ∈ f, t.spanOK = true) ∧ (∀ t ∈ f, t.bdepth + 1 < recursionBudget) ∧
      f.ringDigits ≤ 2 * 99 := by
  have key : ∀ x ∈ ["C12(F)CC2C1", "OC1=C(O)C1.C#N", "C1CC1[C@](F)(Cl)Br"],
      x.toList.length ≤ 10 ^ Gen.intMaxStrDigits ∧
      ((encoder c03T x.toList true []).toOption.isSome &&
        (match encodePrepare c03T x.toList true false [] with
         | .ok g => (match forestOf g with
            | some f => decide ((∀ t ∈ f, t.spanOK = true) ∧ (∀ t ∈ f, t.bdepth + 1 < recursionBudget) ∧
                f.ringDigits ≤ 2 * 99)
            | none => false)
         | .error _ => false)) = true := by decide +kernel
  intro x hx
  obtain ⟨k1, k2⟩ := key x hx
  refine ⟨k1, ?_⟩
  rw [Bool.and_eq_true] at k2
  obtain ⟨k2, k3⟩ := k2
  cases he : encoder c03T x.toList true [] with
  | error e => rw [he] at k2; cases k2
  | ok sel =>
    cases hp : encodePrepare c03T x.toList true false [] with
    | error e => rw [hp] at k3; cases k3
    | ok g =>
      rw [hp] at k3
      simp only at k3
      cases hf : forestOf g with
      | none => rw [hf] at k3; cases k3
      | some f =>
        rw [hf] at k3
        simp only [decide_eq_true_eq] at k3
        exact ⟨sel, g, f, rfl, rfl, hf, k3⟩

/-! ### C04 end to end -/

/-- **C04, end to end, on strings.**  For an accepted SMILES `s` (hypotheses as in
    `C10_reencode_stable`): let `g1` be the parsed and kekulized graph and `out` the decoder's output
    for the encoder's result.  Reading `out` with the library's parser gives a graph `p` in which,
    for every atom `n`,
      * the neighbours are listed in the order `decoderOrder` of the input's row `n.row`
        (position `k` holds the bond the input wrote at position `(decoderOrder n.row)[k]`), and
      * the atom is the input's atom with its chirality tag inverted exactly when the atom is a
        tagged ring atom and that permutation is odd (otherwise unchanged). -/
theorem C04_end_to_end (T : Table) (s : Str) (tape : List Nat) (sel : Str)
    (hlen : s.length ≤ 10 ^ Gen.intMaxStrDigits) (henc : encoder T s true tape = .ok sel) :
    ∃ g0 g1 g f, smilesToMol s false = .ok g0 ∧ g0.kekulize tape = .ok (some g1) ∧
      encodePrepare T s true false tape = .ok g ∧ forestOf g = some f ∧ g = graphOf f ∧
      ((∀ t ∈ f, t.spanOK = true) → (∀ t ∈ f, t.bdepth + 1 < recursionBudget) →
        f.ringDigits ≤ 2 * 99 →
        ∃ out p, decoder T sel = .ok out ∧ smilesToMol out false = .ok p ∧
          ∀ n ∈ f.nodes,
            getOut g1 n.idx = .ok n.row ∧
            p.adj[n.idx]? = some ((posBonds n.row (decoderOrder n.row)).map fun b => some (readBond b)) ∧
            (decoderOrder n.row).Perm (List.range n.row.length) ∧
            ∃ a1, g1.atoms[n.idx]? = some a1 ∧
              p.atoms[n.idx]? = some
                (if (a1.chirality.isSome && g1.ringFlags.getD n.idx false) = true ∧
                    inversions (decoderOrder n.row) % 2 = 1
                 then a1.invertChirality else a1)) := by
  obtain ⟨g, f, hp, hf, hg, hrest⟩ := C10_reencode_stable T s tape sel hlen henc
  obtain ⟨g0, g1, hs0, hk, ht⟩ := encodePrepare_inv hp
  refine ⟨g0, g1, g, f, hs0, hk, hp, hf, hg, ?_⟩
  intro hspan hdepth hrings
  obtain ⟨out, hout, hread, _⟩ := hrest hspan hdepth hrings
  obtain ⟨f', hf1, _, h3, h4, h6, h5'⟩ := C03p_kekulized_ready T s tape g hp
  -- `forestOf g` is unique
  have hf' : f = f' := by
    rw [hf] at hf1
    injection hf1 with hf1
  subst hf'
  have hready : f.ready T = true := by
    unfold PForest.ready
    simp only [Bool.and_eq_true, List.all_eq_true, decide_eq_true_eq]
    exact ⟨⟨⟨⟨⟨h3, h4⟩, h5' hlen⟩, h6⟩, hspan⟩, hdepth⟩
  obtain ⟨_, t1, t2, t3, t4, _, _, _, _⟩ := encodeTail_inv ht
  refine ⟨out, _, hout, hread, ?_⟩
  intro n hn
  obtain ⟨hgo, hrow, b, hb, hbodd⟩ := C03_handedness T f hready n hn
  have hgo1 : getOut g1 n.idx = .ok n.row := by
    have : getOut g n.idx = .ok n.row := by rw [hg]; exact hgo
    unfold getOut at this ⊢
    rw [← t2]; exact this
  have hsh : shouldInvertChirality g1 n.idx = .ok b := by
    have e1 := shouldInvertChirality_eq g1 n.idx n.row hgo1
    have e2 := shouldInvertChirality_eq (graphOf f) n.idx n.row hgo
    rw [e1, ← e2]; exact hb
  refine ⟨hgo1, ?_, (C03_neighbour_order T f hready n hn).2.2, ?_⟩
  · have := hrow
    simp only [readMol, readAdj, List.getElem?_map, this, Option.map_some]
  · -- the atom
    obtain ⟨hwf, _⟩ := PForest.ready_parts hready
    obtain ⟨hnum, _, _⟩ := PForest.wf_parts hwf
    have hnk := nodes_getElem_of_mem hnum hn
    have hga : g.atoms[n.idx]? = some n.atom := by
      rw [hg, graphOf_atoms, List.getElem?_map, hnk]; rfl
    have hlen1 : n.idx < g1.atoms.length := by
      have := (encodeTail_inv ht).2.2.2.2.2.2.2.1
      rw [← this]
      exact (List.getElem?_eq_some_iff.mp hga).1
    obtain ⟨a1, ha1, _⟩ := getElem?_lt hlen1
    refine ⟨a1, ha1, ?_⟩
    have hpa : (readMol (finalMol f)).atoms[n.idx]? = some n.atom := by
      show (finalMol f).atoms[n.idx]? = some n.atom
      rw [(C03_decode_encode T f hready).2.2.2.1, ← hg]; exact hga
    rw [hpa]
    rcases encodeTail_atoms_exact ht n.idx a1 ha1 with ⟨hc, he⟩ | ⟨hc, inv, hinv, he⟩
    · rw [hga] at he
      injection he with he
      rw [he, hc]
      simp
    · rw [hsh] at hinv
      injection hinv with hinv
      subst hinv
      rw [hga] at he
      injection he with he
      rw [he, hc]
      by_cases hbt : b = true
      · have := hbodd.mp hbt
        simp [hbt, this]
      · have hbf : b = false := by simpa using hbt
        have : ¬ inversions (decoderOrder n.row) % 2 = 1 := fun h => hbt (hbodd.mpr h)
        simp [hbf, this]

set_option maxRecDepth 100000 in
/-- non-vacuity of `C04_end_to_end`: its hypotheses are those of `C10_reencode_stable` (example
    above).  In the cage `C12(F)CC2C1` atom 0 writes ring 1 (closed by atom 4) before ring 2 (closed
    by atom 3); the decoder's output lists them the other way round — `decoderOrder = [1, 0, 2, 3]`,
    one inversion, an odd permutation — and that is the row the parser reads back. -/
example : (c03Cage.nodes.map fun n => (n.row.map (·.dst), decoderOrder n.row,
      inversions (decoderOrder n.row) % 2)).head? = some ([4, 3, 1, 2], [1, 0, 2, 3], 1)
    ∧ ((readMol (finalMol c03Cage)).adj.map (·.map (·.map (·.dst)))).head?
        = some [some 3, some 4, some 1, some 2]
    ∧ smilesToMol (specSmiles (finalMol c03Cage)) false = .ok (readMol (finalMol c03Cage)) := by
  refine ⟨by decide +kernel, by decide +kernel, by decide +kernel⟩

end SV
