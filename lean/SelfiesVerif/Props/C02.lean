/-
  Property C02 — "The decoder implements the published SELFIES derivation grammar exactly"

  For every well-formed SELFIES string and every constraint table, the molecule selfies.decoder
  returns - atoms in derivation order with element, isotope, chirality tag, hydrogen count and
  charge; bonded pairs with bond orders; cis/trans marks; and the written neighbour order that
  fixes each chiral centre's sense - equals the molecule obtained by applying the documented
  derivation rules (state transitions for atom, branch, ring and [epsilon] symbols, base-16 index
  symbols, symbols after termination ignored, second-pass ring formation in order of appearance
  with minimal bond-order reduction, '.' starting a new fragment, [nop] skipped).  The string is
  rejected with DecoderError exactly when the derivation reaches a symbol outside the grammar or
  the string has an unclosed bracket.

  * The documented rules are `Spec.decodeGraph` (SelfiesVerif/Spec/Derivation.lean): an
    independent, executable rendering of docs/source/derivation.rst + CHANGELOG v2.0.0 +
    tests/test_specific_cases.py (count-down budget over a plain symbol list, bond list with
    free valence recomputed from it, second pass over the ring queue).  Its header lists the
    places where the stale .rst is superseded.  Spec/DerivationExamples.lean checks it against
    the documented examples.
  * The implementation is the line-by-line model `decodeGraph` (Model/Decoder.lean), tied to the
    Python code by differential testing.
  * `SpecMol.ofMol` forgets the tracked bond counts and the attribution and keeps everything the
    property names: atoms, fragment roots, and for every atom its written neighbours with bond
    order, cis/trans mark at that end and ring/chain kind, in written order.

  The theorems hold for EVERY string (not only well-formed ones), every table, both values of
  `compatible` and of `attribute`, with unbounded length (induction over the token stream).  The
  specification has no recursion limit, so results `RecursionError` of the implementation
  (branch nesting deeper than Python's stack; finding F2) are excluded, as the property intends.

  Proof: Proofs/SpecRefineBasic.lean (stream in closed form, budgets), SpecRefineMol.lean (the
  relation between `Mol` and `Spec.Build`), SpecRefineDerive.lean (derive phase, induction on
  fuel), SpecRefineRings.lean (second pass), SpecRefine.lean (fragments, `compatible`, result).
-/
import SelfiesVerif.Proofs.SpecRefine

namespace SV
open SV.Spec

/-- **C02, graph equality.**  Unless the implementation runs out of Python stack, it returns
    exactly the documented molecule, or fails with exactly the documented error. -/
theorem C02_graph_eq_general (T : Table) (s : Str) (compat attrib : Bool)
    (h : decodeGraph T s compat attrib ≠ .error .RecursionError) :
    (decodeGraph T s compat attrib).map SpecMol.ofMol = Spec.decodeGraph T s compat := by
  have key := decodeGraph_spec T s compat attrib
  unfold GraphRes at key
  split at key
  · rename_i g hg; rw [hg, key]; rfl
  · rename_i hg; exact absurd hg h
  · rename_i hg; rw [hg, key]; rfl
  · exact key.elim

/-- the statement for the default flags -/
theorem C02_graph_eq (T : Table) (s : Str)
    (h : decodeGraph T s false false ≠ .error .RecursionError) :
    (decodeGraph T s false false).map SpecMol.ofMol = Spec.decodeGraph T s false :=
  C02_graph_eq_general T s false false h

/-- The only ways the implementation's graph construction can fail: `DecoderError`, or Python's
    recursion limit.  (No `AttributeError`, `IndexError`, `KeyError`, `AssertionError`, and the
    loops terminate.) -/
theorem C02_error_classes (T : Table) (s : Str) (compat attrib : Bool) (e : PyExc)
    (h : decodeGraph T s compat attrib = .error e) : e = .DecoderError ∨ e = .RecursionError := by
  have key := decodeGraph_spec T s compat attrib
  rw [h] at key
  unfold GraphRes at key
  cases e <;> first | exact Or.inl rfl | exact Or.inr rfl | exact key.elim

/-- the specification itself only ever rejects with `DecoderError` when the implementation
    answers at all -/
theorem C02_spec_ok_of_ok (T : Table) (s : Str) (compat attrib : Bool) (g : Mol)
    (h : decodeGraph T s compat attrib = .ok g) : Spec.decodeGraph T s compat = .ok (SpecMol.ofMol g) := by
  have key := decodeGraph_spec T s compat attrib
  rw [h] at key
  exact key

theorem spec_decodeGraph_error_iff (T : Table) (s : Str) (compat : Bool) :
    (∃ e, Spec.decodeGraph T s compat = .error e) ↔
      ((splitOnChar '.' s).any (fun f => (splitSelfies f).2) = true ∨ reachesInvalid T s compat = true) := by
  unfold Spec.decodeGraph reachesInvalid
  have hany : ((splitOnChar '.' s).map (symbolsOf compat)).any (·.2)
      = (splitOnChar '.' s).any (fun f => (splitSelfies f).2) := by
    rw [List.any_map]; rfl
  have hmap : ((splitOnChar '.' s).map (symbolsOf compat)).map (·.1)
      = (splitOnChar '.' s).map (fun f => (symbolsOf compat f).1) := by
    rw [List.map_map]; rfl
  dsimp only
  rw [hany, hmap]
  cases (splitOnChar '.' s).any (fun f => (splitSelfies f).2) with
  | true => simp
  | false =>
    simp only [Bool.false_eq_true, if_false, false_or]
    cases deriveAll T ((splitOnChar '.' s).map fun f => (symbolsOf compat f).1) {} with
    | error e => simp
    | ok ds => simp

/-- **C02, rejection.**  The string is rejected with `DecoderError` exactly when some fragment
    has an unclosed bracket or the documented derivation reaches a symbol outside the grammar. -/
theorem C02_reject_iff (T : Table) (s : Str) (compat attrib : Bool)
    (h : decodeGraph T s compat attrib ≠ .error .RecursionError) :
    decodeGraph T s compat attrib = .error .DecoderError ↔
      (hasUnclosed s = true ∨ reachesInvalid T s compat = true) := by
  have key := decodeGraph_spec T s compat attrib
  have hiff := spec_decodeGraph_error_iff T s compat
  unfold hasUnclosed
  unfold GraphRes at key
  constructor
  · intro hd
    rw [hd] at key
    exact hiff.mp ⟨_, key⟩
  · intro hr
    obtain ⟨e, he⟩ := hiff.mpr hr
    split at key
    · rw [key] at he; cases he
    · rename_i hg; exact absurd hg h
    · rename_i hg; exact hg
    · exact key.elim

/-- ... in particular an accepted string has all brackets closed and a derivation inside the
    grammar, and the other way round -/
theorem C02_accept_iff (T : Table) (s : Str) (compat attrib : Bool)
    (h : decodeGraph T s compat attrib ≠ .error .RecursionError) :
    (∃ g, decodeGraph T s compat attrib = .ok g) ↔
      (hasUnclosed s = false ∧ reachesInvalid T s compat = false) := by
  have hrej := C02_reject_iff T s compat attrib h
  constructor
  · rintro ⟨g, hg⟩
    rw [hg] at hrej
    have : ¬(hasUnclosed s = true ∨ reachesInvalid T s compat = true) := fun hh => by
      have := hrej.mpr hh; cases this
    cases h1 : hasUnclosed s <;> cases h2 : reachesInvalid T s compat <;> simp_all
  · rintro ⟨h1, h2⟩
    cases hd : decodeGraph T s compat attrib with
    | ok g => exact ⟨g, rfl⟩
    | error e =>
      rcases C02_error_classes T s compat attrib e hd with rfl | rfl
      · have := hrej.mp hd
        rw [h1, h2] at this
        simp at this
      · exact absurd hd h

/-! ### non-vacuity -/

def T0c : Table := { entries := Gen.preset_default, dflt := 8 }

/-- error class of a result (`none` = accepted); `Mol` has no decidable equality -/
def errOf {α} : Py α → Option PyExc
  | .ok _ => none
  | .error e => some e

theorem ne_recursion_of_errOf {α} {r : Py α} (h : errOf r ≠ some .RecursionError) :
    r ≠ .error .RecursionError := fun hr => h (by rw [hr]; rfl)

set_option maxRecDepth 100000 in
/-- accepted: nested branch, ring spending state, ring on an existing bond, two fragments, `[nop]`;
    the hypothesis of the theorems holds and the two sides are equal and not errors -/
example :
    errOf (decodeGraph T0c "[C][=Branch1][Branch1][Branch1][C][Br][Cl][C][C][Ring1][Ring2][=Ring1][C].[nop][O]".toList false false)
      = none ∧
    (decodeGraph T0c "[C][=Branch1][Branch1][Branch1][C][Br][Cl][C][C][Ring1][Ring2][=Ring1][C].[nop][O]".toList false false).map SpecMol.ofMol
      = Spec.decodeGraph T0c "[C][=Branch1][Branch1][Branch1][C][Br][Cl][C][C][Ring1][Ring2][=Ring1][C].[nop][O]".toList ∧
    hasUnclosed "[C][=Branch1][Branch1][Branch1][C][Br][Cl][C][C][Ring1][Ring2][=Ring1][C].[nop][O]".toList = false ∧
    reachesInvalid T0c "[C][=Branch1][Branch1][Branch1][C][Br][Cl][C][C][Ring1][Ring2][=Ring1][C].[nop][O]".toList = false := by
  decide +kernel

set_option maxRecDepth 100000 in
/-- rejected: an invalid symbol is reached / a bracket is left open (reached or not) -/
example :
    errOf (decodeGraph T0c "[C][C][CH5]".toList false false) = some .DecoderError ∧
    reachesInvalid T0c "[C][C][CH5]".toList = true ∧
    errOf (decodeGraph T0c "[C][F][C".toList false false) = some .DecoderError ∧
    hasUnclosed "[C][F][C".toList = true ∧ reachesInvalid T0c "[C][F][C".toList = false := by
  decide +kernel

set_option maxRecDepth 100000 in
/-- `compatible=True` -/
example :
    errOf (decodeGraph T0c "[C@@Hexpl][Branch1_2][Branch1_1][Branch1_1][C][C][Cl][F]".toList true false) = none ∧
    (decodeGraph T0c "[C@@Hexpl][Branch1_2][Branch1_1][Branch1_1][C][C][Cl][F]".toList true false).map SpecMol.ofMol
      = Spec.decodeGraph T0c "[C@@Hexpl][Branch1_2][Branch1_1][Branch1_1][C][C][Cl][F]".toList true := by
  decide +kernel

end SV
