/-
  Property C13, second sentence — "In particular a string padded by selfies_to_encoding and
  recovered with encoding_to_selfies decodes exactly like the original."

  `Props/C13.lean` proves that `[nop]`s inserted anywhere are invisible to the decoder;
  `Props/C15.lean` proves what the two encoding functions compute.  This file composes them into
  the end-to-end statement the property spells out, for both encodings and every pad length
  (also `pad ≤ len` and negative `pad`, where nothing is appended):

      decoder(encoding_to_selfies(selfies_to_encoding(s, stoi, pad, enc), itos, enc)) = decoder(s)

  for every constraint table and all four flag combinations (`attrib = true` included: the
  attribution indices of the padded string are those of the original).

  Hypotheses: exactly those under which `selfies_to_encoding` returns at all (`C15_errors_*`):
  the vocabulary pair is a bijection onto `0 … n-1` (`VocabOK`), the string is well formed, each of
  its symbols is a key, and `[nop]` is a key when padding is actually appended.
-/
import SelfiesVerif.Props.C13
import SelfiesVerif.Props.C15

namespace SV

/-- appending `[nop]`s is an instance of inserting them -/
theorem C13p_nopIns_padItems (items : List Str) (pad : Int) : NopIns items (padItems items pad) := by
  unfold padItems
  induction items generalizing pad with
  | nil =>
    simp only [List.nil_append]
    generalize pad.toNat - ([] : List Str).length = k
    induction k with
    | zero => exact .nil
    | succ k ih => exact .ins ih
  | cons x xs ih =>
    have h : pad.toNat - (x :: xs).length = (pad - 1).toNat - xs.length := by
      simp only [List.length_cons]; omega
    rw [h]
    exact .keep x (ih (pad - 1))

/-- the text `encoding_to_selfies` returns for the padded encoding is the padded item list -/
theorem C13p_padded_text (items : List Str) (pad : Int) :
    render items ++ (List.replicate (pad.toNat - items.length) nopSym).flatten =
      render (padItems items pad) := by
  rw [render_padItems]; rfl

/-- the padded string decodes exactly like the original (any table, any flags) -/
theorem C13p_padded_decodes_same (T : Table) (items : List Str) (pad : Int) (compat attrib : Bool)
    (hwf : WF items) :
    decoderFull T (render items ++ (List.replicate (pad.toNat - items.length) nopSym).flatten)
        compat attrib = decoderFull T (render items) compat attrib := by
  rw [C13p_padded_text]
  exact C13_nop_invisible T items (padItems items pad) compat attrib hwf
    ⟨C13p_nopIns_padItems items pad, wf_padItems hwf pad⟩

/-- Property C13, second sentence, label encoding. -/
theorem C13p_padding_roundtrip_label (T : Table) (stoi : VocabStoi) (itos : VocabItos)
    (items : List Str) (pad : Int) (compat attrib : Bool)
    (hv : VocabOK stoi itos) (hwf : WF items) (hk : ∀ x ∈ items, HasKey stoi x)
    (hnop : pad > (items.length : Int) → HasKey stoi nopSym) :
    ∃ (labels : List Int) (t : Str),
      selfiesToEncoding (render items) stoi pad .label =
        .ok { label := some labels, oneHot := none } ∧
      labelToSelfies labels itos = .ok t ∧
      decoderFull T t compat attrib = decoderFull T (render items) compat attrib := by
  obtain ⟨h1, h2⟩ := C15_inverse_label stoi itos items pad hv hwf hk hnop
  exact ⟨_, _, h1, h2, C13p_padded_decodes_same T items pad compat attrib hwf⟩

/-- Property C13, second sentence, one-hot encoding. -/
theorem C13p_padding_roundtrip_onehot (T : Table) (stoi : VocabStoi) (itos : VocabItos)
    (items : List Str) (pad : Int) (compat attrib : Bool)
    (hv : VocabOK stoi itos) (hwf : WF items) (hk : ∀ x ∈ items, HasKey stoi x)
    (hnop : pad > (items.length : Int) → HasKey stoi nopSym) :
    ∃ (rows : List (List Nat)) (t : Str),
      selfiesToEncoding (render items) stoi pad .oneHot =
        .ok { label := none, oneHot := some rows } ∧
      oneHotToSelfies (toIntRows rows) itos = .ok t ∧
      decoderFull T t compat attrib = decoderFull T (render items) compat attrib := by
  obtain ⟨rows, h1, h2⟩ := C15_inverse_onehot stoi itos items pad hv hwf hk hnop
  exact ⟨rows, _, h1, h2, C13p_padded_decodes_same T items pad compat attrib hwf⟩

/-- the hypotheses are satisfiable with real padding, a dot and a branch symbol whose index symbol
    is followed by the padding: vocabulary `{"[nop]":0, "[C]":1, "[Branch1]":2, ".":3}`,
    string `[C].[C][Branch1]`, `pad = 7` (three `[nop]`s appended, the first one lands where the
    index symbol of `[Branch1]` is read) -/
example :
    let stoi : VocabStoi := [("[nop]".toList, 0), ("[C]".toList, 1), ("[Branch1]".toList, 2), (['.'], 3)]
    let itos : VocabItos := [(0, "[nop]".toList), (1, "[C]".toList), (2, "[Branch1]".toList), (3, ['.'])]
    let items : List Str := ["[C]".toList, ['.'], "[C]".toList, "[Branch1]".toList]
    VocabOK stoi itos ∧ WF items ∧ (∀ x ∈ items, HasKey stoi x) ∧ HasKey stoi nopSym ∧
    padItems items 7 = items ++ [nopSym, nopSym, nopSym] ∧
    selfiesToEncoding (render items) stoi 7 .label =
      .ok { label := some [1, 3, 1, 2, 0, 0, 0], oneHot := none } := by decide

end SV
