/-
  Property C15 — "Label / one-hot encodings are exact inverses of their decoders"

  For every SELFIES string whose symbols are in the vocabulary and every pad length,
  selfies_to_encoding returns a label list of length max(symbol length, pad length) whose entries
  are the vocabulary indices of the symbols followed by [nop] padding, and a one-hot matrix with
  exactly one 1 per row at that index; encoding_to_selfies applied to either returns the original
  string followed by the padding.  The batch flat-hot functions equal the per-string functions
  applied element-wise and are inverse to each other; missing symbols, bad enc_type or ragged
  vectors raise instead of returning wrong data.

  Notions (Proofs/Encoding.lean, Proofs/Tokenize.lean):
  * `WF items`, `render items`      : well-formed item list and the string it stands for (C14).
                                       A trailing dot is allowed; padding after it gives
                                       `"[C]." → "[C].[nop]"`, which is again well formed and is
                                       split into `[C]`, `.`, `[nop]` (example below).
  * `HasKey d k`                     : `k in d`.
  * `vidx stoi x`                    : `stoi[x]` (guarded by `HasKey` everywhere).
  * `VocabOK stoi itos`              : `stoi` and `itos` are dictionaries (distinct keys) of the
                                       same size `n`, the values of `stoi` are exactly `0 … n-1`, and
                                       `stoi[k] = v ↔ itos[v] = k` (`VocabOK.inv/range/surj/inj`).
                                       The vocabulary may or may not contain `"."` or `"[nop]"`.
  * `labelsOf stoi items pad`        : `items.map stoi[·] ++ [stoi["[nop]"]] * (pad - len)`
                                       (`pad.toNat - items.length` copies: none for `pad ≤ len`,
                                       in particular for negative `pad`).
  * `nopPad items pad`               : the text `"[nop]" * (pad - len)`.
  * `toIntRows rows`                 : the one-hot matrix (entries `0/1 : Nat`) as lists of `Int`,
                                       the input type of `encoding_to_selfies`.
  * `flatHotToSelfies flat itos`     : what `batch_flat_hot_to_selfies` does with one vector.
-/
import SelfiesVerif.Proofs.Encoding

namespace SV

/-! ### the vocabulary of the examples: `{"[nop]":0, "[C]":1, "[F]":2, ".":3}` -/

private abbrev exStoi : VocabStoi :=
  [("[nop]".toList, 0), ("[C]".toList, 1), ("[F]".toList, 2), (['.'], 3)]
private abbrev exItos : VocabItos :=
  [(0, "[nop]".toList), (1, "[C]".toList), (2, "[F]".toList), (3, ['.'])]
/-- a vocabulary without `"."` and without `"[nop]"`, in a different order -/
private abbrev exStoi2 : VocabStoi := [("[F]".toList, 1), ("[C]".toList, 0)]
private abbrev exItos2 : VocabItos := [(0, "[C]".toList), (1, "[F]".toList)]
private abbrev iCF : List Str := ["[C]".toList, "[F]".toList]
private abbrev iCdF : List Str := ["[C]".toList, ['.'], "[F]".toList]
private abbrev iCd : List Str := ["[C]".toList, ['.']]

example : VocabOK exStoi exItos ∧ VocabOK exStoi2 exItos2 := by decide
/-- `VocabOK` rejects: a gap in the values, a duplicate value, a wrong inverse, a size mismatch -/
example : ¬ VocabOK [("[C]".toList, 0), ("[F]".toList, 2)] [(0, "[C]".toList), (2, "[F]".toList)] ∧
    ¬ VocabOK [("[C]".toList, 0), ("[F]".toList, 0)] [(0, "[C]".toList)] ∧
    ¬ VocabOK exStoi2 [(0, "[F]".toList), (1, "[C]".toList)] ∧
    ¬ VocabOK exStoi2 (exItos2 ++ [(2, "[N]".toList)]) := by decide

/-! ### label encoding -/

/-- `selfies_to_encoding(s, stoi, pad, "label")` is the list of the vocabulary indices of the
    items followed by the index of `[nop]`, `pad - len` times; its length is `max(len, pad)`.
    (No condition on the values of `stoi` is needed here; `[nop]` must be a key only if padding is
    actually added.) -/
theorem C15_label (stoi : VocabStoi) (items : List Str) (pad : Int)
    (hwf : WF items) (hk : ∀ x ∈ items, HasKey stoi x)
    (hnop : pad > (items.length : Int) → HasKey stoi nopSym) :
    selfiesToEncoding (render items) stoi pad .label =
      .ok { label := some (items.map (vidx stoi) ++
                      List.replicate (pad.toNat - items.length) (vidx stoi nopSym)),
            oneHot := none } ∧
    ((items.map (vidx stoi) ++
        List.replicate (pad.toNat - items.length) (vidx stoi nopSym)).length : Int) =
      max (items.length : Int) pad := by
  refine ⟨?_, length_labelsOf stoi items pad⟩
  rw [selfiesToEncoding_render hwf stoi pad (by decide),
    labelEncode_ok stoi _ (hasKey_padItems hk hnop), map_padItems]
  rfl

/-- pads `-1`, `1`, `2`, `5` (negative, smaller, equal, larger), with and without `"."` -/
example : WF iCF ∧ WF iCdF ∧ (∀ x ∈ iCF, HasKey exStoi x) ∧ (∀ x ∈ iCdF, HasKey exStoi x) ∧
    HasKey exStoi nopSym ∧
    selfiesToEncoding "[C][F]".toList exStoi (-1) .label = .ok ⟨some [1, 2], none⟩ ∧
    selfiesToEncoding "[C][F]".toList exStoi 1 .label = .ok ⟨some [1, 2], none⟩ ∧
    selfiesToEncoding "[C][F]".toList exStoi 2 .label = .ok ⟨some [1, 2], none⟩ ∧
    selfiesToEncoding "[C][F]".toList exStoi 5 .label = .ok ⟨some [1, 2, 0, 0, 0], none⟩ ∧
    selfiesToEncoding "[C].[F]".toList exStoi 5 .label = .ok ⟨some [1, 3, 2, 0, 0], none⟩ ∧
    labelsOf exStoi iCdF 5 = [1, 3, 2, 0, 0] := by decide

/-- no `[nop]` in the vocabulary is fine as long as no padding is added -/
example : WF iCF ∧ (∀ x ∈ iCF, HasKey exStoi2 x) ∧ ¬ HasKey exStoi2 nopSym ∧
    ((2 : Int) > (iCF.length : Int) → HasKey exStoi2 nopSym) ∧
    selfiesToEncoding "[C][F]".toList exStoi2 2 .label = .ok ⟨some [0, 1], none⟩ := by decide

/-- trailing dot and padding: `"[C]."` padded to 4 is `"[C].[nop][nop]"`, split into
    `[C]`, `.`, `[nop]`, `[nop]` -/
example : WF iCd ∧ render iCd = "[C].".toList ∧
    render (padItems iCd 4) = "[C].[nop][nop]".toList ∧
    selfiesToEncoding "[C].".toList exStoi 4 .label = .ok ⟨some [1, 3, 0, 0], none⟩ := by decide

/-! ### one-hot encoding -/

/-- For `enc_type = "one_hot"` / `"both"`: the matrix has one row per label; the row of label `v`
    has length `n = len(vocab_stoi)`, `0 ≤ v < n`, its entry `j` is `1` if `j = v` and `0`
    otherwise, and it contains exactly one `1`.  (`"both"` also returns the label list.) -/
theorem C15_onehot_rows (stoi : VocabStoi) (itos : VocabItos) (items : List Str) (pad : Int)
    (enc : EncType) (hv : VocabOK stoi itos)
    (hwf : WF items) (hk : ∀ x ∈ items, HasKey stoi x)
    (hnop : pad > (items.length : Int) → HasKey stoi nopSym)
    (henc : enc = .oneHot ∨ enc = .both) :
    ∃ rows : List (List Nat),
      selfiesToEncoding (render items) stoi pad enc =
        .ok { label := if enc = .both then some (labelsOf stoi items pad) else none,
              oneHot := some rows } ∧
      rows.length = (labelsOf stoi items pad).length ∧
      ∀ (i : Nat) (v : Int), (labelsOf stoi items pad)[i]? = some v →
        ∃ row : List Nat, rows[i]? = some row ∧ row.length = stoi.length ∧
          0 ≤ v ∧ v < (stoi.length : Int) ∧
          (∀ j, j < stoi.length → row[j]? = some (if (j : Int) = v then 1 else 0)) ∧
          row.count 1 = 1 := by
  have hr := labelsOf_range hv hk hnop
  refine ⟨hotRowsOf stoi items pad, ?_, by simp [hotRowsOf], ?_⟩
  · have hne : enc ≠ .other := by rcases henc with rfl | rfl <;> decide
    rw [selfiesToEncoding_render hwf stoi pad hne,
      labelEncode_ok stoi _ (hasKey_padItems hk hnop), ← labelsOf_eq]
    show encFinish stoi.length enc (labelsOf stoi items pad) = _
    unfold encFinish
    rw [mapM_oneHotRow _ hr]
    rcases henc with rfl | rfl <;> rfl
  · intro i v hi
    have hmem : v ∈ labelsOf stoi items pad := List.mem_of_getElem? hi
    have hv' := hr v hmem
    refine ⟨hotRow stoi.length v.toNat, ?_, hotRow_length _ _, hv'.1, hv'.2, ?_,
      hotRow_count (by omega)⟩
    · simp [hotRowsOf, hi]
    · intro j hj
      rw [hotRow_getElem? hj]
      have : (j = v.toNat) ↔ ((j : Int) = v) := by omega
      simp only [this]

example : VocabOK exStoi exItos ∧ WF iCdF ∧ (∀ x ∈ iCdF, HasKey exStoi x) ∧
    HasKey exStoi nopSym ∧
    selfiesToEncoding "[C].[F]".toList exStoi 4 .oneHot =
      .ok ⟨none, some [[0, 1, 0, 0], [0, 0, 0, 1], [0, 0, 1, 0], [1, 0, 0, 0]]⟩ ∧
    selfiesToEncoding "[C][F]".toList exStoi (-1) .both =
      .ok ⟨some [1, 2], some [[0, 1, 0, 0], [0, 0, 1, 0]]⟩ := by decide

/-- `"both"` returns exactly the `"label"` result and the `"one_hot"` result together, and raises
    what they raise (first the label part).  For EVERY input: no hypothesis on the string, the
    vocabulary or the pad length. -/
theorem C15_both_consistent (s : Str) (stoi : VocabStoi) (pad : Int) :
    selfiesToEncoding s stoi pad .both =
      (do let l ← selfiesToEncoding s stoi pad .label
          let o ← selfiesToEncoding s stoi pad .oneHot
          pure { label := l.label, oneHot := o.oneHot }) := by
  unfold selfiesToEncoding
  simp only [bind, Except.bind, pure, Except.pure]
  have h1 : (EncType.both == EncType.other) = false := by decide
  have h2 : (EncType.label == EncType.other) = false := by decide
  have h3 : (EncType.oneHot == EncType.other) = false := by decide
  have h4 : (EncType.both == EncType.label) = false := by decide
  have h5 : (EncType.oneHot == EncType.label) = false := by decide
  have h6 : (EncType.both == EncType.oneHot) = false := by decide
  simp only [h1, h2, h3, h4, h5, h6, Bool.false_eq_true, if_false, beq_self_eq_true, if_true]
  generalize splitSelfies (if pad > (lenSelfies s : Int)
    then s ++ (List.replicate (pad - (lenSelfies s : Int)).toNat nopSym).flatten else s) = sp
  obtain ⟨its, hanging⟩ := sp
  cases labelEncode stoi its with
  | error e => rfl
  | ok labels =>
    cases hanging with
    | true => rfl
    | false =>
      dsimp only [Bool.false_eq_true, if_false]
      cases List.mapM (oneHotRow stoi.length) labels <;> rfl

example :
    selfiesToEncoding "[C].[F]".toList exStoi 4 .both =
      .ok ⟨some [1, 3, 2, 0], some [[0, 1, 0, 0], [0, 0, 0, 1], [0, 0, 1, 0], [1, 0, 0, 0]]⟩ ∧
    selfiesToEncoding "[C].[F]".toList exStoi 4 .label = .ok ⟨some [1, 3, 2, 0], none⟩ ∧
    selfiesToEncoding "[C][N]".toList exStoi 4 .both = .error .KeyError ∧
    selfiesToEncoding "[C][F".toList exStoi (-1) .both = .error .ValueError := by decide

/-! ### decoding inverts encoding -/

/-- `encoding_to_selfies(selfies_to_encoding(s, stoi, pad, "label"), itos, "label")` is `s`
    followed by the padding `"[nop]" * (pad - len)`. -/
theorem C15_inverse_label (stoi : VocabStoi) (itos : VocabItos) (items : List Str) (pad : Int)
    (hv : VocabOK stoi itos) (hwf : WF items) (hk : ∀ x ∈ items, HasKey stoi x)
    (hnop : pad > (items.length : Int) → HasKey stoi nopSym) :
    selfiesToEncoding (render items) stoi pad .label =
      .ok { label := some (labelsOf stoi items pad), oneHot := none } ∧
    labelToSelfies (labelsOf stoi items pad) itos =
      .ok (render items ++ (List.replicate (pad.toNat - items.length) nopSym).flatten) := by
  refine ⟨(C15_label stoi items pad hwf hk hnop).1, ?_⟩
  rw [labelsOf_eq, labelToSelfies_ok (padItems items pad)
    (fun x hx => hv.itos_vidx (hasKey_padItems hk hnop x hx)), render_padItems]
  rfl

example : VocabOK exStoi exItos ∧ WF iCdF ∧ (∀ x ∈ iCdF, HasKey exStoi x) ∧
    HasKey exStoi nopSym ∧
    labelToSelfies (labelsOf exStoi iCdF 5) exItos = .ok "[C].[F][nop][nop]".toList ∧
    labelToSelfies (labelsOf exStoi iCdF (-1)) exItos = .ok "[C].[F]".toList ∧
    labelToSelfies (labelsOf exStoi iCd 3) exItos = .ok "[C].[nop]".toList := by decide

/-- `encoding_to_selfies(selfies_to_encoding(s, stoi, pad, "one_hot"), itos, "one_hot")` is `s`
    followed by the padding. -/
theorem C15_inverse_onehot (stoi : VocabStoi) (itos : VocabItos) (items : List Str) (pad : Int)
    (hv : VocabOK stoi itos) (hwf : WF items) (hk : ∀ x ∈ items, HasKey stoi x)
    (hnop : pad > (items.length : Int) → HasKey stoi nopSym) :
    ∃ rows : List (List Nat),
      selfiesToEncoding (render items) stoi pad .oneHot =
        .ok { label := none, oneHot := some rows } ∧
      oneHotToSelfies (toIntRows rows) itos =
        .ok (render items ++ (List.replicate (pad.toNat - items.length) nopSym).flatten) := by
  have hr := labelsOf_range hv hk hnop
  refine ⟨hotRowsOf stoi items pad, ?_, ?_⟩
  · rw [selfiesToEncoding_render hwf stoi pad (by decide),
      labelEncode_ok stoi _ (hasKey_padItems hk hnop), ← labelsOf_eq]
    show encFinish stoi.length .oneHot (labelsOf stoi items pad) = _
    unfold encFinish
    rw [mapM_oneHotRow _ hr]
    rfl
  · unfold hotRowsOf
    rw [oneHotToSelfies_hot _ hr]
    exact (C15_inverse_label stoi itos items pad hv hwf hk hnop).2

example : VocabOK exStoi exItos ∧ WF iCdF ∧ (∀ x ∈ iCdF, HasKey exStoi x) ∧
    HasKey exStoi nopSym ∧
    oneHotToSelfies [[0, 1, 0, 0], [0, 0, 0, 1], [0, 0, 1, 0], [1, 0, 0, 0]] exItos =
      .ok "[C].[F][nop]".toList ∧
    toIntRows (hotRowsOf exStoi iCdF 4) =
      [[0, 1, 0, 0], [0, 0, 0, 1], [0, 0, 1, 0], [1, 0, 0, 0]] := by decide

/-! ### the batch functions -/

/-- `batch_selfies_to_flat_hot` is `selfies_to_encoding(·, stoi, pad, "one_hot")` followed by
    flattening, applied element-wise (and raises what the first failing element raises).
    For every input. -/
theorem C15_batch_pointwise (batch : List Str) (stoi : VocabStoi) (pad : Int) :
    batchSelfiesToFlatHot batch stoi pad =
      batch.mapM (fun s => (selfiesToEncoding s stoi pad .oneHot).map
        (fun e => (e.oneHot.getD []).flatten)) := by
  unfold batchSelfiesToFlatHot
  congr 1

/-- `batch_flat_hot_to_selfies` is, element-wise: reshape the vector into `L = len // M` rows
    `flat[M*i : M*(i+1)]` (`M = len(vocab_itos)`; `ZeroDivisionError` for the empty vocabulary,
    `ValueError` if `M` does not divide the length), then
    `encoding_to_selfies(·, itos, "one_hot")`.  For every input. -/
theorem C15_batch_pointwise_decode (batch : List (List Int)) (itos : VocabItos) :
    batchFlatHotToSelfies batch itos =
      batch.mapM (fun flat =>
        if itos.length = 0 then .error .ZeroDivisionError
        else if flat.length % itos.length ≠ 0 then .error .ValueError
        else oneHotToSelfies (unflatten itos.length (flat.length / itos.length) flat) itos) ∧
    ∀ (flat : List Int) (l : Nat), (unflatten itos.length l flat).length = l ∧
      ∀ i, i < l →
        (unflatten itos.length l flat)[i]? = some ((flat.drop (itos.length * i)).take itos.length) :=
  ⟨batchFlatHotToSelfies_eq batch itos,
    fun flat l => ⟨unflatten_length _ l flat, unflatten_getElem? _ l flat⟩⟩

example :
    batchSelfiesToFlatHot ["[C]".toList, "[C][F]".toList] exStoi 2 =
      .ok [[0, 1, 0, 0, 1, 0, 0, 0], [0, 1, 0, 0, 0, 0, 1, 0]] ∧
    batchFlatHotToSelfies [[0, 1, 0, 0, 1, 0, 0, 0], [0, 1, 0, 0, 0, 0, 1, 0]] exItos =
      .ok ["[C][nop]".toList, "[C][F]".toList] ∧
    unflatten 4 2 [0, 1, 0, 0, 1, 0, 0, 0] = [[0, 1, 0, 0], [1, 0, 0, 0]] := by decide

/-- `batch_flat_hot_to_selfies(batch_selfies_to_flat_hot(batch, stoi, pad), itos)` is the batch
    with every string followed by its own padding.  The vocabulary must be non-empty: for the
    empty vocabulary and `batch = [""]` Python raises `ZeroDivisionError` (next example). -/
theorem C15_batch_inverse (stoi : VocabStoi) (itos : VocabItos) (itemss : List (List Str))
    (pad : Int) (hv : VocabOK stoi itos) (hne : stoi ≠ [])
    (h : ∀ items ∈ itemss, WF items ∧ (∀ x ∈ items, HasKey stoi x) ∧
      (pad > (items.length : Int) → HasKey stoi nopSym)) :
    ∃ flats : List (List Nat),
      batchSelfiesToFlatHot (itemss.map render) stoi pad = .ok flats ∧
      batchFlatHotToSelfies (flats.map (·.map Int.ofNat)) itos =
        .ok (itemss.map fun items =>
          render items ++ (List.replicate (pad.toNat - items.length) nopSym).flatten) := by
  have hpos : 0 < itos.length := by
    rw [hv.len]; exact List.length_pos_iff.2 hne
  refine ⟨itemss.map (fun items => (hotRowsOf stoi items pad).flatten), ?_, ?_⟩
  · unfold batchSelfiesToFlatHot
    apply mapM_map_ok
    intro items hi
    obtain ⟨hwf, hk, hnop⟩ := h items hi
    have hr := labelsOf_range hv hk hnop
    rw [selfiesToEncoding_render hwf stoi pad (by decide),
      labelEncode_ok stoi _ (hasKey_padItems hk hnop), ← labelsOf_eq]
    show (encFinish stoi.length .oneHot (labelsOf stoi items pad) >>= _) = _
    unfold encFinish
    rw [mapM_oneHotRow _ hr]
    rfl
  · rw [batchFlatHotToSelfies_eq, List.map_map]
    apply mapM_map_ok
    intro items hi
    obtain ⟨hwf, hk, hnop⟩ := h items hi
    have hr := labelsOf_range hv hk hnop
    show flatHotToSelfies ((hotRowsOf stoi items pad).flatten.map Int.ofNat) itos = _
    rw [flatHotToSelfies_flatten hpos]
    · unfold hotRowsOf
      rw [oneHotToSelfies_hot _ hr]
      exact (C15_inverse_label stoi itos items pad hv hwf hk hnop).2
    · intro r hr'
      obtain ⟨v, _, rfl⟩ := List.mem_map.1 hr'
      rw [hotRow_length, hv.len]

example : VocabOK exStoi exItos ∧ exStoi ≠ [] ∧
    (∀ items ∈ [iCF, iCdF, iCd, []], WF items ∧ (∀ x ∈ items, HasKey exStoi x) ∧
      ((3 : Int) > (items.length : Int) → HasKey exStoi nopSym)) ∧
    (∃ flats, batchSelfiesToFlatHot ([iCF, iCdF, iCd, []].map render) exStoi 3 = .ok flats ∧
      batchFlatHotToSelfies (flats.map (·.map Int.ofNat)) exItos =
        .ok ["[C][F][nop]".toList, "[C].[F]".toList, "[C].[nop]".toList,
          "[nop][nop][nop]".toList]) := by
  refine ⟨by decide, by decide, by decide, _, rfl, by decide⟩

/-- the hypothesis `stoi ≠ []` of `C15_batch_inverse` cannot be dropped: empty vocabulary,
    `batch = [""]`, `pad_to_len = -1` -/
example : VocabOK [] [] ∧ (∀ items ∈ [([] : List Str)], WF items ∧
      (∀ x ∈ items, HasKey ([] : VocabStoi) x) ∧
      ((-1 : Int) > (items.length : Int) → HasKey ([] : VocabStoi) nopSym)) ∧
    batchSelfiesToFlatHot ([([] : List Str)].map render) [] (-1) = .ok [[]] ∧
    batchFlatHotToSelfies [[]] [] = .error .ZeroDivisionError := by decide

/-! ### errors: never a wrong value -/

/-- (a) a bad `enc_type` raises `ValueError`, for every input -/
theorem C15_errors_enc_type (s : Str) (stoi : VocabStoi) (pad : Int) :
    selfiesToEncoding s stoi pad .other = .error .ValueError := rfl

/-- (b) if some item of the padded string (a symbol, a `"."`, or the `[nop]` of the padding) is
    not a key of the vocabulary, `KeyError` is raised, for every legal `enc_type` -/
theorem C15_errors_missing_symbol (stoi : VocabStoi) (items : List Str) (pad : Int)
    (enc : EncType) (hwf : WF items) (henc : enc ≠ .other)
    (h : (∃ x ∈ items, ¬ HasKey stoi x) ∨
      (pad > (items.length : Int) ∧ ¬ HasKey stoi nopSym)) :
    selfiesToEncoding (render items) stoi pad enc = .error .KeyError := by
  rw [selfiesToEncoding_render hwf stoi pad henc, labelEncode_error]
  rcases h with ⟨x, hx, hn⟩ | ⟨hp, hn⟩
  · exact ⟨x, List.mem_append_left _ hx, hn⟩
  · refine ⟨nopSym, List.mem_append_right _ ?_, hn⟩
    rw [List.mem_replicate]
    exact ⟨by omega, rfl⟩

/-- (b') the special case in the code: a `"."` in the string and no `"."` key -/
theorem C15_errors_missing_dot (stoi : VocabStoi) (items : List Str) (pad : Int)
    (enc : EncType) (hwf : WF items) (henc : enc ≠ .other)
    (hdot : ['.'] ∈ items) (hn : ¬ HasKey stoi ['.']) :
    selfiesToEncoding (render items) stoi pad enc = .error .KeyError :=
  C15_errors_missing_symbol stoi items pad enc hwf henc (Or.inl ⟨_, hdot, hn⟩)

/-- (c) a one-hot row without a `1` raises `ValueError` (whatever the other rows and the
    vocabulary are) -/
theorem C15_errors_no_one (rows : List (List Int)) (itos : VocabItos)
    (h : ∃ row ∈ rows, (1 : Int) ∉ row) : oneHotToSelfies rows itos = .error .ValueError :=
  oneHotToSelfies_error h

/-- (d) a vector whose length is not divisible by the vocabulary size raises `ValueError`
    (the vectors before it being decodable); and whatever stands before it, the result is never
    a value -/
theorem C15_errors_ragged (itos : VocabItos) (pre post : List (List Int)) (flat : List Int)
    (res : List Str) (hpos : 0 < itos.length) (hbad : flat.length % itos.length ≠ 0)
    (hpre : batchFlatHotToSelfies pre itos = .ok res) :
    batchFlatHotToSelfies (pre ++ flat :: post) itos = .error .ValueError := by
  rw [batchFlatHotToSelfies_eq] at hpre ⊢
  rw [List.mapM_append, hpre, List.mapM_cons]
  have : flatHotToSelfies flat itos = .error .ValueError := by
    unfold flatHotToSelfies
    rw [if_neg (by omega), if_pos hbad]
  rw [this]; rfl

theorem C15_errors_ragged_never_ok (itos : VocabItos) (batch : List (List Int))
    (flat : List Int) (hmem : flat ∈ batch) (hbad : flat.length % itos.length ≠ 0) :
    ∀ res, batchFlatHotToSelfies batch itos ≠ .ok res := by
  intro res hres
  rw [batchFlatHotToSelfies_eq] at hres
  obtain ⟨y, hy⟩ := mapM_ok_inv batch res hres flat hmem
  unfold flatHotToSelfies at hy
  by_cases h0 : itos.length = 0
  · rw [if_pos h0] at hy; cases hy
  · rw [if_neg h0, if_pos hbad] at hy; cases hy

/-- (e) a label that is not a key of `vocab_itos` raises `KeyError` -/
theorem C15_errors_bad_label (labels : List Int) (itos : VocabItos)
    (h : ∃ v ∈ labels, ¬ HasKey itos v) : labelToSelfies labels itos = .error .KeyError :=
  labelToSelfies_error h

/-- all of (a)–(e) -/
theorem C15_errors :
    (∀ (s : Str) (stoi : VocabStoi) (pad : Int),
      selfiesToEncoding s stoi pad .other = .error .ValueError) ∧
    (∀ (stoi : VocabStoi) (items : List Str) (pad : Int) (enc : EncType), WF items →
      enc ≠ .other →
      ((∃ x ∈ items, ¬ HasKey stoi x) ∨ (pad > (items.length : Int) ∧ ¬ HasKey stoi nopSym)) →
      selfiesToEncoding (render items) stoi pad enc = .error .KeyError) ∧
    (∀ (stoi : VocabStoi) (items : List Str) (pad : Int) (enc : EncType), WF items →
      enc ≠ .other → ['.'] ∈ items → ¬ HasKey stoi ['.'] →
      selfiesToEncoding (render items) stoi pad enc = .error .KeyError) ∧
    (∀ (rows : List (List Int)) (itos : VocabItos), (∃ row ∈ rows, (1 : Int) ∉ row) →
      oneHotToSelfies rows itos = .error .ValueError) ∧
    (∀ (itos : VocabItos) (pre post : List (List Int)) (flat : List Int) (res : List Str),
      0 < itos.length → flat.length % itos.length ≠ 0 →
      batchFlatHotToSelfies pre itos = .ok res →
      batchFlatHotToSelfies (pre ++ flat :: post) itos = .error .ValueError) ∧
    (∀ (itos : VocabItos) (batch : List (List Int)) (flat : List Int), flat ∈ batch →
      flat.length % itos.length ≠ 0 → ∀ res, batchFlatHotToSelfies batch itos ≠ .ok res) ∧
    (∀ (labels : List Int) (itos : VocabItos), (∃ v ∈ labels, ¬ HasKey itos v) →
      labelToSelfies labels itos = .error .KeyError) :=
  ⟨C15_errors_enc_type, C15_errors_missing_symbol, C15_errors_missing_dot, C15_errors_no_one,
    C15_errors_ragged, C15_errors_ragged_never_ok, C15_errors_bad_label⟩

/-- each error case on a concrete input -/
example :
    selfiesToEncoding "[C][F]".toList exStoi 2 .other = .error .ValueError ∧
    -- missing symbol, in the middle; missing `[nop]`; missing `"."`
    (WF ["[C]".toList, "[N]".toList, "[F]".toList] ∧ ¬ HasKey exStoi "[N]".toList ∧
      selfiesToEncoding "[C][N][F]".toList exStoi 2 .both = .error .KeyError) ∧
    (WF iCF ∧ (3 : Int) > (iCF.length : Int) ∧ ¬ HasKey exStoi2 nopSym ∧
      selfiesToEncoding "[C][F]".toList exStoi2 3 .oneHot = .error .KeyError) ∧
    (WF iCdF ∧ ['.'] ∈ iCdF ∧ ¬ HasKey exStoi2 ['.'] ∧
      selfiesToEncoding "[C].[F]".toList exStoi2 (-1) .label = .error .KeyError) ∧
    -- a row without a 1 (all zero; a 2 instead)
    ((1 : Int) ∉ [0, 0, 0, 0] ∧
      oneHotToSelfies [[0, 1, 0, 0], [0, 0, 0, 0]] exItos = .error .ValueError ∧
      oneHotToSelfies [[0, 2, 0, 0]] exItos = .error .ValueError) ∧
    -- ragged vector (second of three)
    (batchFlatHotToSelfies [[0, 1, 0, 0]] exItos = .ok ["[C]".toList] ∧
      batchFlatHotToSelfies [[0, 1, 0, 0], [0, 1, 0, 0, 1], [1, 0, 0, 0]] exItos =
        .error .ValueError) ∧
    -- label outside the vocabulary
    (¬ HasKey exItos 4 ∧ ¬ HasKey exItos (-1) ∧
      labelToSelfies [1, 4] exItos = .error .KeyError ∧
      labelToSelfies [-1] exItos = .error .KeyError) := by decide

/-- `encoding_to_selfies` checks its own `enc_type` first: only `"label"` and `"one_hot"` are accepted there
    (`"both"` and every other value raise `ValueError`); for the two accepted values it is the corresponding decoder. -/
theorem C15_errors_enc_type_decode (labels : List Int) (rows : List (List Int)) (vocab : VocabItos) :
    encodingToSelfies labels rows vocab .both = .error .ValueError ∧
    encodingToSelfies labels rows vocab .other = .error .ValueError ∧
    encodingToSelfies labels rows vocab .label = labelToSelfies labels vocab ∧
    encodingToSelfies labels rows vocab .oneHot = oneHotToSelfies rows vocab := by
  simp [encodingToSelfies]

example : encodingToSelfies [1] [[0, 1]] [(0, "[nop]".toList), (1, "[C]".toList)] .both = .error .ValueError
    ∧ encodingToSelfies [1] [[0, 1]] [(0, "[nop]".toList), (1, "[C]".toList)] .label = .ok "[C]".toList := by decide


end SV
