/-
  Property C06.  "Strict encoding rejects exactly the constraint-violating molecules."

  "With strict=True, selfies.encoder raises EncoderError for a parseable, kekulizable SMILES if
   and only if some atom's bond-order sum plus explicit hydrogens exceeds its bonding capacity
   under the current constraints.  With strict=False it never raises for that reason, and the
   SELFIES string it returns does not depend on the current constraints at all."

  Dictionary: `encoderFull T s strict attribute tape` is `selfies.encoder(s, strict, attribute)`
  under the table `T` (`tape` = the recorded choices of `unmatched.pop()` in the matching code);
  `encodePrepare` is everything `encoder` does up to the graph that is written out (parse,
  kekulize, `_check_bond_constraints`, chirality inversion) — the fragment loop after it never
  raises `EncoderError` and consults neither `strict` nor `T`.  Bond counts are kept in HALF
  units (`counts2`, aromatic bond = 3), so "bond-order sum > capacity − explicit H" reads
  `counts2[i] > 2 * (capacity − hCount)`.  `smilesToMol s a = .ok g` is "parseable",
  `g.kekulize tape = .ok (some g')` is "kekulizable" (`g'` = the kekulized graph).

  The `atom_to_smiles` calls that `_check_bond_constraints` makes for its error message assert
  that the atom is not aromatic; `Proofs/Strict.lean` proves the invariant that makes them safe
  (the parser files every aromatic atom in the delocalisation subgraph and a successful
  `kekulize()` clears the flag of every node of that subgraph), so `C06_strict_iff` is proved at
  full strength, without an extra hypothesis.
-/
import SelfiesVerif.Proofs.Strict
import SelfiesVerif.Proofs.Alphabet

namespace SV

/-! ### non-strict: the table is never consulted -/

/-- **Non-strict encoding is table-free**: with `strict=False` the result of `encoder` — value or
    exception, SELFIES string and attribution maps — is the same under any two tables. -/
theorem C06_nonstrict_table_free (T₁ T₂ : Table) (s : Str) (attrib : Bool) (tape : List Nat) :
    encoderFull T₁ s false attrib tape = encoderFull T₂ s false attrib tape := by
  unfold encoderFull
  rw [encodePrepare_nonstrict T₁ T₂]

-- non-vacuity: sulfuric acid under the default and the octet-rule table (which caps S at 2)
example :
    encoder ⟨Gen.preset_default, 8⟩ "O=S(=O)(O)O".toList false
      = .ok "[O][=S][=Branch1][C][=O][Branch1][C][O][O]".toList
    ∧ encoder ⟨Gen.preset_octet_rule, 8⟩ "O=S(=O)(O)O".toList false
      = .ok "[O][=S][=Branch1][C][=O][Branch1][C][O][O]".toList
    ∧ encoder ⟨Gen.preset_default, 8⟩ "O=S(=O)(O)O".toList true
      = .ok "[O][=S][=Branch1][C][=O][Branch1][C][O][O]".toList
    ∧ encoder ⟨Gen.preset_octet_rule, 8⟩ "O=S(=O)(O)O".toList true = .error .EncoderError := by
  decide +kernel

/-! ### strict: `EncoderError` iff some atom violates -/

/--
**Strict iff.**  For a parseable (`hp`), kekulizable (`hk`) SMILES, everything `encoder` does
before writing out fails with `EncoderError` under `strict=True` iff some atom `a` at index `i`
of the kekulized graph has a bond-order sum (half units) exceeding twice
`capacity(a) − explicit H`; and when no atom violates, `strict=True` behaves exactly like
`strict=False`.
-/
theorem C06_strict_iff {T : Table} {s : Str} {attrib : Bool} {tape : List Nat} {g g' : PMol}
    (hp : smilesToMol s attrib = .ok g) (hk : g.kekulize tape = .ok (some g')) :
    (encodePrepare T s true attrib tape = .error .EncoderError ↔
      ∃ i a, g'.atoms[i]? = some a ∧
        (g'.counts2.getD i 0 : Int) >
          2 * ((T.capacity a.element a.charge : Int) - (a.hCount.getD 0 : Nat)))
    ∧ ((¬ ∃ i a, g'.atoms[i]? = some a ∧
        (g'.counts2.getD i 0 : Int) >
          2 * ((T.capacity a.element a.charge : Int) - (a.hCount.getD 0 : Nat))) →
        encodePrepare T s true attrib tape = encodePrepare T s false attrib tape) := by
  have hE : ∀ strict, encodePrepare T s strict attrib tape = encodeTail T strict g' := by
    intro strict
    rw [encodePrepare_eq, hp]; simp only; rw [hk]
  have hv := violatesConstraints_iff T g'
  simp only [Atom.bondingCapacity] at hv
  rw [hE true, hE false, ← hv]
  constructor
  · constructor
    · intro h
      cases hvc : violatesConstraints T g' with
      | true => rfl
      | false =>
        rw [encodeTail_strict_ok T g' hvc] at h
        exact absurd h (encodeTail_nonstrict_ne_encoderError T g')
    · intro h
      exact encodeTail_strict_violation T g' h
        (kekulize_no_aromatic (smilesToMol_aromInv hp) hk)
  · intro h
    exact encodeTail_strict_ok T g' (by simpa using h)

-- non-vacuity: `C(F)(F)(F)(F)F` parses, kekulizes, and its carbon (index 0) has 5 bonds against
-- capacity 4 under the default table; `FC=C(F)Cl` parses, kekulizes and violates nothing
-- (aromatic inputs such as benzene cannot be replayed by `decide`: `kekulize` sorts with
-- `List.mergeSort`, which is defined by well-founded recursion and does not reduce in the kernel)
example :
    (match smilesToMol "C(F)(F)(F)(F)F".toList false with
     | .ok g =>
       (match g.kekulize [] with
        | .ok (some g') =>
          violatesConstraints ⟨Gen.preset_default, 8⟩ g'
            && g'.counts2.getD 0 0 == 10 && (g'.atoms[0]?.map Atom.element) == some "C".toList
        | _ => false)
     | _ => false) = true
    ∧ (match smilesToMol "FC=C(F)Cl".toList false with
     | .ok g =>
       (match g.kekulize [] with
        | .ok (some g') => !violatesConstraints ⟨Gen.preset_default, 8⟩ g'
        | _ => false)
     | _ => false) = true
    ∧ encoder ⟨Gen.preset_default, 8⟩ "C(F)(F)(F)(F)F".toList true = .error .EncoderError
    ∧ encoder ⟨Gen.preset_default, 8⟩ "C(F)(F)(F)(F)F".toList false
        = .ok "[C][Branch1][C][F][Branch1][C][F][Branch1][C][F][Branch1][C][F][F]".toList := by
  decide +kernel

/--
**Strict iff, at the level of `selfies.encoder` itself.**  For a parseable, kekulizable SMILES,
`encoder(s, strict=True)` raises `EncoderError` iff some atom violates its capacity, and
`encoder(s, strict=False)` never raises `EncoderError` (the fragment loop after
`_check_bond_constraints` cannot raise it: `encoderFull_encoderError_iff`).
-/
theorem C06_strict_raises_iff {T : Table} {s : Str} {attrib : Bool} {tape : List Nat} {g g' : PMol}
    (hp : smilesToMol s attrib = .ok g) (hk : g.kekulize tape = .ok (some g')) :
    (encoderFull T s true attrib tape = .error .EncoderError ↔
      ∃ i a, g'.atoms[i]? = some a ∧
        (g'.counts2.getD i 0 : Int) >
          2 * ((T.capacity a.element a.charge : Int) - (a.hCount.getD 0 : Nat)))
    ∧ encoderFull T s false attrib tape ≠ .error .EncoderError := by
  refine ⟨by rw [encoderFull_encoderError_iff]; exact (C06_strict_iff hp hk).1, ?_⟩
  rw [Ne, encoderFull_encoderError_iff, encodePrepare_eq, hp]
  simp only
  rw [hk]
  exact encodeTail_nonstrict_ne_encoderError T g'

-- non-vacuity: see the example above (`C(F)(F)(F)(F)F` raises under strict, `FC=C(F)Cl` does not)
example : encoder ⟨Gen.preset_default, 8⟩ "FC=C(F)Cl".toList true
    = .ok "[F][C][=C][Branch1][C][F][Cl]".toList := by decide +kernel

/-- **Strict changes nothing but the rejection**: whenever `strict=True` returns a result,
    `strict=False` returns the same result (string and attribution maps). -/
theorem C06_strict_success_same_as_nonstrict {T : Table} {s : Str} {a : Bool} {tape : List Nat}
    {r : Str × List AttributionMap} (h : encoderFull T s true a tape = .ok r) :
    encoderFull T s false a tape = .ok r := by
  unfold encoderFull at h ⊢
  obtain ⟨m, hm, h⟩ := bind_ok h
  rw [encodePrepare_strict_ok_imp hm]
  exact h

example : encoderFull ⟨Gen.preset_default, 8⟩ "C[C@H](N)O".toList true true
    = encoderFull ⟨Gen.preset_default, 8⟩ "C[C@H](N)O".toList false true
    ∧ (encoderFull ⟨Gen.preset_default, 8⟩ "C[C@H](N)O".toList true true).toOption.isSome = true := by
  decide +kernel

/-! ### the capacity lookup -/

/-- **Capacity key.**  `get_bonding_capacity(e, c)` looks up `e` when `c = 0`, `e+n` when
    `c = n > 0`, `e-n` when `c = -n < 0`, and falls back to the `?` entry; `n` is spelled in
    decimal without leading zeros (`natToStr n` matches `[1-9][0-9]*` and evaluates back to `n`). -/
theorem C06_capacity_key (T : Table) (e : Str) :
    T.capacity e 0 = (lookup e T.entries).getD T.dflt
    ∧ (∀ n : Nat, 0 < n →
        T.capacity e (n : Int) = (lookup (e ++ '+' :: natToStr n) T.entries).getD T.dflt)
    ∧ (∀ n : Nat, 0 < n →
        T.capacity e (-(n : Int)) = (lookup (e ++ '-' :: natToStr n) T.entries).getD T.dflt)
    ∧ (∀ n : Nat, 0 < n → ∃ d ds, natToStr n = d :: ds ∧ isDigit19 d = true
        ∧ ds.all isAsciiDigit = true ∧ digitsVal ((d :: ds).map asciiVal) = n) := by
  have hcap : ∀ c, T.capacity e c = (lookup (capKey e c) T.entries).getD T.dflt := by
    intro c; unfold Table.capacity; cases lookup (capKey e c) T.entries <;> rfl
  refine ⟨?_, ?_, ?_, natToStr_canonical⟩
  · rw [hcap, capKey_zero]
  · intro n hn; rw [hcap, capKey_pos e hn]
  · intro n hn; rw [hcap, capKey_neg e hn]

/-- the total `Table.capacity` is the library's `get_bonding_capacity` on an accepted table -/
theorem C06_capacity_is_get_bonding_capacity {T : Constraints} {Tb : Table}
    (h : Table.ofDict T = some Tb) (e : Str) (c : Int) :
    getBondingCapacity T e c = .ok (Tb.capacity e c) := by
  unfold Table.ofDict at h
  split at h
  · rename_i q hq
    simp only [Option.some.injEq] at h
    subst h
    unfold getBondingCapacity Table.capacity
    cases lookup (capKey e c) T with
    | some v => rfl
    | none => simp [getKey, hq]
  · cases h

-- non-vacuity: `[Zn]` is not listed, so it gets the `?` capacity; `N+1` and `O-1` are listed
example :
    let T : Table := ⟨Gen.preset_default, 8⟩
    Table.ofDict Gen.preset_default = some T
    ∧ lookup "Zn".toList T.entries = none ∧ T.capacity "Zn".toList 0 = 8
    ∧ T.capacity "N".toList 1 = 4 ∧ T.capacity "O".toList (-1) = 1 ∧ T.capacity "N".toList 0 = 3
    ∧ capKey "Fe".toList 12 = "Fe+12".toList ∧ capKey "Fe".toList (-3) = "Fe-3".toList
    ∧ encoder T "[Zn](F)(F)(F)(F)(F)(F)(F)F".toList true
        = .ok "[Zn][Branch1][C][F][Branch1][C][F][Branch1][C][F][Branch1][C][F][Branch1][C][F][Branch1][C][F][Branch1][C][F][F]".toList
    ∧ encoder T "[Zn](F)(F)(F)(F)(F)(F)(F)(F)F".toList true = .error .EncoderError := by
  decide +kernel

end SV
