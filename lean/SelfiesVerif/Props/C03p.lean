/-
  Property C03p — the hypotheses of C05 (kekulization) and C03 (round trip) hold of EVERY graph the
  SMILES parser model produces, so that those theorems speak about every SMILES string the encoder
  accepts.

  Stage A  `C03p_parser_pwf`         `smilesToMol s attrib = .ok g → PWF g`
           (`PWF`: the hypothesis of `C05_kekulize_sound`).
  Stage B  `C03p_parser_forest`      `smilesToMol s false = .ok g → isParsedWF { g with ds := [] } = true`
           (`isParsedWF`/`ParsedWF`: the tree view of C03: atoms numbered in pre-order of the
           chain-bond forest, rows in written order, simple graph, ring items in matching pairs).
           The literal statement `isParsedWF g = true` is FALSE for strings with aromatic atoms
           (`graphOf` has an empty delocalisation subgraph): `C03p_parser_forest_literal_false`.
           `C03p_parser_no_placeholder` / `C03p_ring_log`: no placeholder survives a fragment.
           `C03p_isParsedWF_iff`, `C03p_forestOf_graphOf`: `forestOf` finds THE forest.
  Stage C  `C03p_kekulize_struct`    what any successful `kekulize()` does to a parsed graph
           `C03p_kekulized_ready`    the graph `encodePrepare` returns is the graph of its `forestOf`
                                     forest, which is well formed, kekulized, has well-formed atoms
                                     and obeys the table
           `C03p_roundTripReady_iff` so `roundTripReady` is exactly "spans and depth fit"
           `C03p_roundtrip_strings`  the round trip for strings; hypotheses left: spans < 16^3,
                                     nesting depth < recursion budget, and C10's length bound
                                     (`len(smiles) ≤ 10^4300`).

  Proof structure (Proofs/Parser*.lean): the parser loop as a transition system (`PStep`,
  `smilesToMol_invariant`); stage A: `PWF` itself is the loop invariant; stage B: flat invariants
  (`HoleInv`: a `none` sits exactly at `pos` of `adj[atom]` for every entry of the ring log and
  nowhere else; `MFlat`) + a ghost forest-with-zipper whose rows have the SHAPE of the adjacency
  rows (`TreeI`, stack discipline = pre-order: `StackOK`, `foldTo`); the ring contents are read off
  the graph at the end (`Tree.realize`, `forestFor_graph`, `forestFor_wf`, ring pairing from `AdjOK`);
  stage C: any successful `kekulize` is an order map (`kekulize_struct`), the skeleton survives it.
-/
import SelfiesVerif.Props.C03
import SelfiesVerif.Props.C05
import SelfiesVerif.Proofs.ParserPrepare
import SelfiesVerif.Proofs.ParserForestOf

namespace SV

/-! ### examples used for non-vacuity -/

def c03pStrings : List String := ["C1CC1(F)C", "C(CCC1CC)1", "c1ccccc1O", "C.C", "[C@]12(F)CC(C2)1"]

def parsedOf (s : String) : PMol := okOr {} (smilesToMol s.toList false)

/-! ### stage A -/

/-- **Stage A.**  Every graph `smiles_to_mol` returns (with or without attribution) satisfies
    `PWF`, the well-formedness hypothesis of `C05_kekulize_sound`: lengths agree; a chain bond is
    stored once, at the smaller index; a ring bond at both ends with the same order; no atom is
    bonded twice to the same atom or to itself; `_bond_counts` are the incident sums; the only
    fractional order is 1.5; the delocalisation subgraph lists exactly the order-1.5 bonds, in both
    directions, without repetition. -/
theorem C03p_parser_pwf (s : Str) (attrib : Bool) (g : PMol) (h : smilesToMol s attrib = .ok g) :
    PWF g :=
  smilesToMol_pwf h

set_option maxRecDepth 100000 in
example : ∀ s ∈ c03pStrings, (smilesToMol s.toList false).toOption.isSome = true
    ∧ (smilesToMol s.toList true).toOption.isSome = true ∧ isPWF (parsedOf s) = true := by
  decide +kernel

/-- … so `C05_kekulize_sound` applies to every parsed graph: its hypothesis `PWF m` is a theorem. -/
theorem C03p_kekulize_sound_parsed (s : Str) (attrib : Bool) {m : PMol} {kept l2n : List Nat}
    {pg : Graph} {mt : Matching} {tape : List Nat} (hs : smilesToMol s attrib = .ok m)
    (hne : m.ds.isEmpty = false) (hk : keptNodes m = .ok kept) (hl : l2n = kept.mergeSort (· ≤ ·))
    (hp : prunedGraph m l2n = .ok pg)
    (hm : findPerfectMatching pg tape = .ok (some mt)) (hpm : PerfectMatching pg mt) :
    m.kekulize tape = .ok (some (kekResult m l2n mt)) :=
  C05_kekulize_sound (smilesToMol_pwf hs) hne hk hl hp hm hpm

set_option maxRecDepth 100000 in
example : smilesToMol "c1ccccc1".toList false = .ok (parsedOf "c1ccccc1")
    ∧ (parsedOf "c1ccccc1").ds.isEmpty = false
    ∧ keptNodes (parsedOf "c1ccccc1") = .ok [0, 1, 2, 3, 4, 5]
    ∧ prunedGraph (parsedOf "c1ccccc1") [0, 1, 2, 3, 4, 5] = .ok hexagon := by
  refine ⟨by decide +kernel, by decide +kernel, by decide +kernel, by decide +kernel⟩

/-! ### stage B -/

/-- `forestOf` finds the forest of the graph of a well-formed forest … -/
theorem C03p_forestOf_graphOf (f : PForest) (hwf : f.wf = true) : forestOf (graphOf f) = some f :=
  forestOf_graphOf hwf

/-- … so the executable check and the existential notion coincide. -/
theorem C03p_isParsedWF_iff (g : PMol) : isParsedWF g = true ↔ ParsedWF g := isParsedWF_iff g

set_option maxRecDepth 100000 in
example : PForest.wf [c03Ring] = true ∧ forestOf (graphOf [c03Ring]) = some [c03Ring] := by
  refine ⟨by decide +kernel, by decide +kernel⟩

/-- **Stage B.**  Every graph `smiles_to_mol(s, attributable=False)` returns is — up to its
    delocalisation subgraph — `graphOf` of the well-formed forest `forestOf` reconstructs from it:
    atoms are numbered in pre-order of the chain-bond forest, one tree per fragment; `adj[i]` lists
    the bonds of atom `i` in written order (ring digits and branches interleaved, no placeholder
    left); no atom is bonded twice to the same atom or to itself; ring items come in matching
    open/close pairs (same order, the two stereo marks swapped); `_bond_counts[i]` is the bond into
    `i` plus its out-bonds; ring flags and (absent) attributions are as `graphOf` says. -/
theorem C03p_parser_forest (s : Str) (g : PMol) (h : smilesToMol s false = .ok g) :
    isParsedWF g.clearDs = true := by
  obtain ⟨F, hF⟩ := parsedInv_assemblable (smilesToMol_parsedInv h)
  exact (isParsedWF_iff _).2 ⟨forestFor g.clearDs F, forestFor_wf hF, forestFor_graph hF⟩

set_option maxRecDepth 100000 in
example : ∀ s ∈ c03pStrings, isParsedWF (parsedOf s).clearDs = true := by decide +kernel

/-- the Prop form, and the literal statement for graphs without aromatic bonds or atoms -/
theorem C03p_parser_forest_prop (s : Str) (g : PMol) (h : smilesToMol s false = .ok g)
    (hds : g.ds = []) : ParsedWF g ∧ isParsedWF g = true := by
  have := C03p_parser_forest s g h
  have e : g.clearDs = g := by cases g; simp only [PMol.clearDs] at *; rw [hds]
  rw [e] at this
  exact ⟨isParsedWF_sound g this, this⟩

set_option maxRecDepth 100000 in
example : (parsedOf "C1CC1(F)C").ds = [] ∧ (parsedOf "[C@]12(F)CC(C2)1").ds = []
    ∧ forestOf (parsedOf "C1CC1(F)C") = some [c03Ring] := by
  refine ⟨by decide +kernel, by decide +kernel, by decide +kernel⟩

/-- The literal statement `smilesToMol s false = .ok g → isParsedWF g = true` is FALSE: the graph
    of `c1ccccc1O` has a non-empty delocalisation subgraph, `graphOf` of any forest has none. -/
theorem C03p_parser_forest_literal_false :
    ¬ ∀ (s : Str) (g : PMol), smilesToMol s false = .ok g → isParsedWF g = true := by
  intro h
  have h1 : smilesToMol "c1ccccc1O".toList false = .ok (parsedOf "c1ccccc1O") := by decide +kernel
  have h2 := h _ _ h1
  have h3 : isParsedWF (parsedOf "c1ccccc1O") = false := by decide +kernel
  rw [h3] at h2; cases h2

/-- no placeholder of a ring number is left in a parsed graph -/
theorem C03p_parser_no_placeholder (s : Str) (g : PMol) (h : smilesToMol s false = .ok g)
    (a p : Nat) : (g.adj.getD a [])[p]? ≠ some none :=
  (smilesToMol_parsedInv h).noHoles a p

set_option maxRecDepth 100000 in
example : (smilesToMol "C(CCC1CC)1".toList false).toOption.isSome = true
    ∧ (parsedOf "C(CCC1CC)1").adj.all (·.all Option.isSome) = true := by
  refine ⟨by decide +kernel, by decide +kernel⟩

/-- **the ring log and the placeholders** (the loop invariant behind it): in every state the
    parser loop reaches from a state with the invariant, a `none` sits exactly at position `pos` of
    `adj[atom]` for every entry of the open ring log and nowhere else, and the entries have distinct
    labels and places; the closing ring bond therefore FILLS its placeholder. -/
theorem C03p_ring_log {Q : SmilesTok → Prop} (st st' : ParseSt) (hw : PWF st.mol) (hm : MFlat st.mol)
    (hh : HoleInv st) (hs : PStep false Q st st') : HoleInv st' :=
  (flat_step hw hm hh hs).2

/-- the hypotheses hold of the initial state, which can take a step (the atom token `C`) -/
example : ∃ st', PStep false (fun _ => True) (fragInit {} 0) st' ∧ PWF (fragInit {} 0).mol
    ∧ MFlat (fragInit {} 0).mol ∧ HoleInv (fragInit {} 0) :=
  ⟨_, .atomRoot (fragInit {} 0) ⟨none, .atom, ['C']⟩ { element := ['C'], isAromatic := false } [] rfl
      (by decide) rfl trivial,
    pwf_empty, mflat_empty, ⟨List.Pairwise.nil, by intro a p; simp [rowOf, fragInit]⟩⟩

/-! ### stage C -/

/-- **what any successful `kekulize()` does** to a parsed graph (no assumption on the matching):
    an order map `G` on the stored bonds that gives both copies of a ring bond the same order, maps
    order 1.5 to 1 or 2 and keeps every other order; bond counts stay the incident sums; atoms only
    lose aromatic flags; everything else is untouched and the subgraph is cleared. -/
theorem C03p_kekulize_struct (s : Str) (attrib : Bool) (g g1 : PMol) (tape : List Nat)
    (hs : smilesToMol s attrib = .ok g) (hk : g.kekulize tape = .ok (some g1)) :
    (∃ G, RingSym g.adj G
        ∧ (∀ i, ∀ b ∈ rowAt g.adj i, G b = 2 ∨ G b = 4 ∨ (G b = b.order2 ∧ b.order2 ≠ 3))
        ∧ g1.adj = mapOrders G g.adj)
    ∧ (∀ v, v < g.adj.length → g1.counts2.getD v 0 = incident2 g1.adj v)
    ∧ (∃ keys, g1.atoms = deArom keys g.atoms) ∧ (∀ a ∈ g1.atoms, a.isAromatic = false)
    ∧ g1.roots = g.roots ∧ g1.ringFlags = g.ringFlags ∧ g1.atomAttr = g.atomAttr ∧ g1.ds = [] := by
  obtain ⟨hst, hds, hat⟩ := kekulize_struct (smilesToMol_pwf hs) hk
  obtain ⟨G, hG, hadj⟩ := hst.adj
  exact ⟨⟨G, hG.1, hG.2, hadj⟩, hst.cnt, hat, kekulize_no_aromatic (smilesToMol_aromInv hs) hk,
    hst.roots, hst.flags, hst.atomAttr, hds⟩

set_option maxRecDepth 100000 in
example : (parsedOf "C1CC1(F)C").kekulize [] = .ok (some (parsedOf "C1CC1(F)C")) := by decide +kernel

/-- **Stage C.**  If `selfies.encoder(smiles, strict=True)` gets as far as the prepared graph `g`
    (parsed, kekulized, constraint check passed, chirality adjusted), then `forestOf g` is a forest
    `f` with `g = graphOf f` that is well formed, kekulized (no aromatic atom, every order 1, 2 or
    3, stereo marks `/` `\`) and obeys the table (= `_check_bond_constraints` found nothing); if the
    string is not longer than `int()`'s digit limit (C10) its atoms are ones `smiles_to_atom` can
    produce and the SELFIES symbols read back: every conjunct of `PForest.ready` but the span and
    depth bounds. -/
theorem C03p_kekulized_ready (T : Table) (s : Str) (tape : List Nat) (g : PMol)
    (hp : encodePrepare T s true false tape = .ok g) :
    ∃ f, forestOf g = some f ∧ g = graphOf f ∧ f.wf = true ∧ f.kekulized = true ∧ f.obeys T = true
      ∧ (s.length ≤ 10 ^ Gen.intMaxStrDigits → f.atomsOK = true) := by
  obtain ⟨F, hF⟩ := encodePrepare_graph hp
  obtain ⟨h1, h2, h3, h5⟩ := preparedGraph_forest hF
  refine ⟨forestFor g F, ?_, h2, h1, h3, h5,
    fun hlen => preparedGraph_atomsOK hF (encodePrepare_atoms_wfb hlen hp)⟩
  have := forestOf_graphOf h1
  rw [← h2] at this
  exact this

set_option maxRecDepth 100000 in
example : "C1CC1(F)C".toList.length ≤ 10 ^ Gen.intMaxStrDigits
    ∧ encodePrepare c03T "C1CC1(F)C".toList true false [] = .ok (graphOf [c03Ring])
    ∧ forestOf (graphOf [c03Ring]) = some [c03Ring] := by
  refine ⟨by decide +kernel, by decide +kernel, by decide +kernel⟩

/-- `ParsedWF` of the prepared graph: kekulization and the chirality adjustment keep the tree view -/
theorem C03p_prepared_parsedWF (T : Table) (s : Str) (tape : List Nat) (g : PMol)
    (hp : encodePrepare T s true false tape = .ok g) : isParsedWF g = true := by
  obtain ⟨f, _, h2, h3, _⟩ := C03p_kekulized_ready T s tape g hp
  exact (isParsedWF_iff g).2 ⟨f, h3, h2⟩

set_option maxRecDepth 100000 in
example : (encodePrepare c03T "F/C=C/F".toList true false []).toOption.isSome = true
    ∧ isParsedWF (okOr {} (encodePrepare c03T "F/C=C/F".toList true false [])) = true := by
  refine ⟨by decide +kernel, by decide +kernel⟩

/-- the executable hypothesis of `C03_roundtrip` is exactly "spans and nesting depth fit" -/
theorem C03p_roundTripReady_iff (T : Table) (s : Str) (tape : List Nat) (g : PMol)
    (hlen : s.length ≤ 10 ^ Gen.intMaxStrDigits) (hp : encodePrepare T s true false tape = .ok g) :
    roundTripReady T g = true ↔
      ∃ f, forestOf g = some f ∧ (∀ t ∈ f, t.spanOK = true) ∧ (∀ t ∈ f, t.bdepth + 1 < recursionBudget) := by
  obtain ⟨f, h1, h2, h3, h4, h6, h5'⟩ := C03p_kekulized_ready T s tape g hp
  have h5 := h5' hlen
  unfold roundTripReady
  rw [h1]
  simp only [Bool.and_eq_true, decide_eq_true_eq]
  constructor
  · rintro ⟨hr, _⟩
    obtain ⟨_, _, _, _, g5, g6⟩ := PForest.ready_parts hr
    exact ⟨f, rfl, g5, g6⟩
  · rintro ⟨f', hf', g5, g6⟩
    injection hf' with hf'
    subst hf'
    refine ⟨?_, h2⟩
    unfold PForest.ready
    simp only [Bool.and_eq_true, List.all_eq_true, decide_eq_true_eq]
    exact ⟨⟨⟨⟨⟨h3, h4⟩, h5⟩, h6⟩, g5⟩, g6⟩

set_option maxRecDepth 100000 in
example : "OC(=O)C1=CC=CC=C1".toList.length ≤ 10 ^ Gen.intMaxStrDigits
    ∧ (encodePrepare c03T "OC(=O)C1=CC=CC=C1".toList true false []).toOption.isSome = true
    ∧ roundTripReady c03T (okOr {} (encodePrepare c03T "OC(=O)C1=CC=CC=C1".toList true false [])) = true := by
  refine ⟨by decide +kernel, by decide +kernel, by decide +kernel⟩

/-- **C03 for strings.**  Let `selfies.encoder(smiles, strict=True)` return `sel` (table `T`,
    kekulization tape `tape`).  Then the prepared graph `g` is the graph of the forest `f` that
    `forestOf` reconstructs, and if every ring span and branch length of `f` fits three index
    symbols and the branch nesting stays below the recursion budget, decoding `sel` under `T` gives
    the same molecule as `g`, atom for atom and bond for bond.  No well-formedness hypothesis on the
    graph is left; the only other hypothesis is C10's bound on the length of the string. -/
theorem C03p_roundtrip_strings (T : Table) (s : Str) (tape : List Nat) (sel : Str)
    (hlen : s.length ≤ 10 ^ Gen.intMaxStrDigits) (henc : encoder T s true tape = .ok sel) :
    ∃ g f, encodePrepare T s true false tape = .ok g ∧ forestOf g = some f ∧ g = graphOf f ∧
      ((∀ t ∈ f, t.spanOK = true) → (∀ t ∈ f, t.bdepth + 1 < recursionBudget) →
        ∃ m, decodeGraph T sel = .ok m ∧ SameMolecule g m ∧ m.atoms = g.atoms) := by
  rw [encoder_eq_prepare_encodeGraph] at henc
  cases hp : encodePrepare T s true false tape with
  | error e => rw [hp] at henc; cases henc
  | ok g =>
    rw [hp] at henc
    obtain ⟨f, h1, h2, h3, h4, h6, h5'⟩ := C03p_kekulized_ready T s tape g hp
    have h5 := h5' hlen
    refine ⟨g, f, rfl, h1, h2, ?_⟩
    intro hspan hdepth
    have hready : f.ready T = true := by
      unfold PForest.ready
      simp only [Bool.and_eq_true, List.all_eq_true, decide_eq_true_eq]
      exact ⟨⟨⟨⟨⟨h3, h4⟩, h5⟩, h6⟩, hspan⟩, hdepth⟩
    obtain ⟨e1, e2, e3, e4, _⟩ := C03_decode_encode T f hready
    have hsel : sel = f.encode := by
      have : encodeGraph g = .ok sel := henc
      rw [h2, e1] at this
      injection this with this
      exact this.symm
    refine ⟨finalMol f, by rw [hsel]; exact e2, by rw [h2]; exact e3, by rw [h2]; exact e4⟩

set_option maxRecDepth 100000 in
example : encoder c03T "C1CC1(F)C".toList true [] = .ok "[C][C][C][Ring1][Ring1][Branch1][C][F][C]".toList
    ∧ forestOf (graphOf [c03Ring]) = some [c03Ring]
    ∧ (∀ t ∈ [c03Ring], t.spanOK = true) ∧ (∀ t ∈ [c03Ring], t.bdepth + 1 < recursionBudget) := by
  refine ⟨by decide +kernel, by decide +kernel, by decide +kernel, by decide +kernel⟩

end SV
