/-
  Property C03 — "SMILES → SELFIES → SMILES preserves the molecule atom for atom" — stated about the
  OUTPUT STRING.

  `C03p_roundtrip_strings` ends at the graph the decoder builds (`decodeGraph T sel = .ok m`,
  `SameMolecule g m`); `C10_reencode_stable` knows what the library's parser reads from the
  decoder's output, but hides the decoded graph.  This file composes the two into one theorem
  about the string `out = selfies.decoder(selfies.encoder(s))`:

  `C03s_roundtrip_output`   if `encoder T s true tape = .ok sel` (and: C10's length bound, every
      ring span / branch length fits three index symbols, nesting depth below the recursion budget,
      at most 99 ring bonds — beyond that the writer emits `%100`, finding F1) then there are `out`
      and `m` with
        `decoder T sel = .ok out`,  `decodeGraph T sel = .ok m`,
        `SameMolecule g m ∧ m.atoms = g.atoms ∧ m.roots = g.roots`     (g = prepared graph of `s`),
        `smilesToMol out false = .ok (readMol m)`
      i.e. the library's own parser reads the output string back as exactly the decoded molecule.

  `C03s_roundtrip_parsed`   the consequence between the two PARSED graphs, with `readMol` eliminated
      by `C01r_readMol_spec`: `p = parse(out)` and the prepared graph `g` of the input satisfy
      `SameParsed g p` — equal atom lists (element, isotope, charge, H count, chirality tag and
      aromatic flag of the i-th atom: `readMol` keeps `atoms` EXACTLY, and `g.atoms` already carries
      the chirality adjustment of C04), equal fragment roots, and the same stored bond records
      `(min, max, order)` as multisets — no bond dropped, added, merged, moved to other atoms or
      changed in order.  `SameParsed.bonded_iff` / `C03s_bonds_iff` unfold the multiset statement
      into "atoms `a` and `b` are joined by a bond of order `o` in the input iff they are in the
      output".

  `g` is the graph the encoder works on (parsed, kekulized, constraint check passed, chirality
  adjusted); its relation to the raw parse of `s` is `C03p_kekulize_struct` (bonds: orders 1.5
  become 1 or 2, everything else untouched) and `C04_end_to_end` (chirality tags).
-/
import SelfiesVerif.Props.C10r

namespace SV

/-! ### the relation between two parsed graphs -/

/-- atoms `a` and `b` are joined by a stored bond of order `o2` (half units) in the parsed graph -/
def PMol.Bonded (g : PMol) (a b o2 : Nat) : Prop :=
  ∃ row ∈ g.adj, ∃ bd : PBond, some bd ∈ row ∧
    ((bd.src = a ∧ bd.dst = b) ∨ (bd.src = b ∧ bd.dst = a)) ∧ bd.order2 = o2

/-- **Same parsed molecule, index for index.**  Equal atom lists, equal fragment roots, and the
    stored bond records `(min, max, order2)` (`PMol.records`: a chain bond is stored once, a ring
    bond at both of its atoms) agree as multisets. -/
def SameParsed (g p : PMol) : Prop :=
  p.atoms = g.atoms ∧ p.roots = g.roots ∧ g.records.Perm p.records

theorem PMol.mem_records_iff (g : PMol) (a b o2 : Nat) :
    (min a b, max a b, o2) ∈ g.records ↔ g.Bonded a b o2 := by
  unfold PMol.records PMol.Bonded
  simp only [List.mem_flatMap, List.mem_filterMap, Option.map_eq_some_iff, Prod.mk.injEq]
  constructor
  · rintro ⟨row, hrow, ob, hob, bd, rfl, h1, h2, h3⟩
    refine ⟨row, hrow, bd, hob, ?_, h3⟩
    omega
  · rintro ⟨row, hrow, bd, hbd, hab, ho⟩
    refine ⟨row, hrow, some bd, hbd, bd, rfl, ?_, ?_, ho⟩ <;> omega

/-- the multiset statement unfolded: the same atom pairs are bonded, with the same orders -/
theorem SameParsed.bonded_iff {g p : PMol} (h : SameParsed g p) (a b o2 : Nat) :
    g.Bonded a b o2 ↔ p.Bonded a b o2 := by
  rw [← PMol.mem_records_iff, ← PMol.mem_records_iff]
  exact h.2.2.mem_iff

/-- the parser's view of a decoded graph has the decoded graph's bond records -/
theorem readMol_records (m : Mol) : (readMol m).records = m.records := by
  unfold PMol.records Mol.records
  show List.flatMap _ (readAdj m) = _
  unfold readAdj
  rw [List.flatMap_map]
  congr 1
  funext row
  rw [List.filterMap_map]
  induction row with
  | nil => rfl
  | cons b rest ih => simp only [List.filterMap_cons, Function.comp, Option.map_some, List.map_cons, ih]; rfl

/-- `SameMolecule` (parsed vs decoded) + equal atoms and roots, read back by the parser -/
theorem sameParsed_readMol {g : PMol} {m : Mol} (h : SameMolecule g m) (ha : m.atoms = g.atoms)
    (hr : m.roots = g.roots) : SameParsed g (readMol m) := by
  obtain ⟨e1, e2, _, _, _, _⟩ := C01r_readMol_spec m
  exact ⟨e1.trans ha, e2.trans hr, by rw [readMol_records]; exact h.2.2⟩

/-! ### the round trip, on the output string -/

/-- **C03 on the output string.**  Let `selfies.encoder(s, strict=True)` return `sel` under table
    `T`.  The prepared graph `g` is `graphOf f` for `f = forestOf g`, and if spans and nesting depth
    fit and `s` has at most 99 ring bonds, then `selfies.decoder(sel)` returns a string `out`, the
    decoder's graph `m` is the same molecule as `g` atom for atom and bond for bond, and the
    library's own SMILES parser reads `out` back as exactly `m` (`readMol m`: same atoms, roots, and
    every adjacency row bond for bond in the decoder's order). -/
theorem C03s_roundtrip_output (T : Table) (s : Str) (tape : List Nat) (sel : Str)
    (hlen : s.length ≤ 10 ^ Gen.intMaxStrDigits) (henc : encoder T s true tape = .ok sel) :
    ∃ g f, encodePrepare T s true false tape = .ok g ∧ forestOf g = some f ∧ g = graphOf f ∧
      ((∀ t ∈ f, t.spanOK = true) → (∀ t ∈ f, t.bdepth + 1 < recursionBudget) →
        f.ringDigits ≤ 2 * 99 →
        ∃ out m, decoder T sel = .ok out ∧ decodeGraph T sel = .ok m ∧
          (SameMolecule g m ∧ m.atoms = g.atoms ∧ m.roots = g.roots) ∧
          smilesToMol out false = .ok (readMol m)) := by
  have henc0 := henc
  rw [encoder_eq_prepare_encodeGraph] at henc
  cases hp : encodePrepare T s true false tape with
  | error e => rw [hp] at henc; cases henc
  | ok g =>
    rw [hp] at henc
    obtain ⟨f, h1, h2, h3, h4, h6, h5'⟩ := C03p_kekulized_ready T s tape g hp
    refine ⟨g, f, rfl, h1, h2, ?_⟩
    intro hspan hdepth hrings
    have hready : f.ready T = true := by
      unfold PForest.ready
      simp only [Bool.and_eq_true, List.all_eq_true, decide_eq_true_eq]
      exact ⟨⟨⟨⟨⟨h3, h4⟩, h5' hlen⟩, h6⟩, hspan⟩, hdepth⟩
    obtain ⟨e1, e2, e3, e4, e5⟩ := C03_decode_encode T f hready
    have hsel : sel = f.encode := by
      have : encodeGraph g = .ok sel := henc
      rw [h2, e1] at this
      injection this with this
      exact this.symm
    have hne : f ≠ [] := by
      intro h0
      have := encodePrepare_roots hp
      rw [h2, h0] at this
      exact this rfl
    have hloc : (finalMol f).RingsLocal :=
      finalMol_ringsLocal f h3 (by rw [← h2]; exact encodePrepare_ringsLocal hp)
    have h99 : (finalMol f).ringHalves ≤ 2 * 99 := by
      rw [finalMol_ringHalves f h3]; exact hrings
    obtain ⟨c1, c2, _⟩ := C10_reencode_stable_forest T f hready hne hloc h99
    rw [hsel]
    exact ⟨_, finalMol f, c1, e2, ⟨by rw [h2]; exact e3, by rw [h2]; exact e4, by rw [h2]; exact e5⟩, c2⟩

/-- the hypotheses of `C03s_roundtrip_output`, as one decidable check on a concrete string -/
def c03sReady (T : Table) (x : String) : Bool :=
  (encoder T x.toList true []).toOption.isSome &&
    (match encodePrepare T x.toList true false [] with
     | .ok g => (match forestOf g with
        | some f => decide ((∀ t ∈ f, t.spanOK = true) ∧ (∀ t ∈ f, t.bdepth + 1 < recursionBudget) ∧
            f.ringDigits ≤ 2 * 99)
        | none => false)
     | .error _ => false)

theorem c03sReady_spec {T : Table} {x : String} (h : c03sReady T x = true) :
    ∃ sel g f, encoder T x.toList true [] = .ok sel ∧ encodePrepare T x.toList true false [] = .ok g ∧
      forestOf g = some f ∧ (∀ t ∈ f, t.spanOK = true) ∧ (∀ t ∈ f, t.bdepth + 1 < recursionBudget) ∧
      f.ringDigits ≤ 2 * 99 := by
  unfold c03sReady at h
  rw [Bool.and_eq_true] at h
  obtain ⟨k2, k3⟩ := h
  cases he : encoder T x.toList true [] with
  | error e => rw [he] at k2; cases k2
  | ok sel =>
    cases hp : encodePrepare T x.toList true false [] with
    | error e => rw [hp] at k3; cases k3
    | ok g =>
      rw [hp] at k3
      simp only at k3
      cases hf : forestOf g with
      | none => rw [hf] at k3; cases k3
      | some f =>
        rw [hf] at k3
        simp only [decide_eq_true_eq] at k3
        exact ⟨sel, g, f, rfl, rfl, hf, k3⟩

set_option maxRecDepth 100000 in
/-- non-vacuity: a cage whose output is spelled differently from the input (`C12(F)CC2C1` is
    written back as `C12(F)CC1C2`), two fragments with a ring and a branch, a chiral atom next to a
    ring, and stereo bonds: all hypotheses hold.  (An AROMATIC input is instantiated in
    Props/C05e.lean: `kekulize` calls `List.mergeSort`, which does not reduce in the kernel, so the
    hypotheses have to be established there through `C05_kekulize_sound`.) -/
example : ∀ x ∈ ["C12(F)CC2C1", "OC1=C(O)C1.C#N", "C1CC1[C@](F)(Cl)Br", "F/C=C/F"],
    x.toList.length ≤ 10 ^ Gen.intMaxStrDigits ∧
    ∃ sel g f, encoder c03T x.toList true [] = .ok sel ∧ encodePrepare c03T x.toList true false [] = .ok g ∧
      forestOf g = some f ∧ (∀ t ∈ f, t.spanOK = true) ∧ (∀ t ∈ f, t.bdepth + 1 < recursionBudget) ∧
      f.ringDigits ≤ 2 * 99 := by
  have key : ∀ x ∈ ["C12(F)CC2C1", "OC1=C(O)C1.C#N", "C1CC1[C@](F)(Cl)Br", "F/C=C/F"],
      x.toList.length ≤ 10 ^ Gen.intMaxStrDigits ∧ c03sReady c03T x = true := by decide +kernel
  intro x hx
  exact ⟨(key x hx).1, c03sReady_spec (key x hx).2⟩

set_option maxRecDepth 100000 in
/-- … and the conclusion, evaluated: the output strings, and that the parser reads them back as the
    decoded graph -/
example : (decoder c03T (okOr [] (encoder c03T "C12(F)CC2C1".toList true []))).map String.ofList
      = .ok "C12(F)CC1C2"
    ∧ (decoder c03T (okOr [] (encoder c03T "OC1=C(O)C1.C#N".toList true []))).map String.ofList
      = .ok "OC1=C(O)C1.C#N"
    ∧ (decodeGraph c03T (okOr [] (encoder c03T "C12(F)CC2C1".toList true []))).map
        (fun m => decide (smilesToMol "C12(F)CC1C2".toList false = .ok (readMol m))) = .ok true := by
  refine ⟨by decide +kernel, by decide +kernel, by decide +kernel⟩

/-- **C03 between the two parsed graphs.**  Under the hypotheses of `C03s_roundtrip_output`, parsing
    the decoder's output with the library's parser succeeds with a graph `p` that is the prepared
    graph `g` of the input index for index: the same atom list, the same fragment roots, the same
    bond records. -/
theorem C03s_roundtrip_parsed (T : Table) (s : Str) (tape : List Nat) (sel : Str)
    (hlen : s.length ≤ 10 ^ Gen.intMaxStrDigits) (henc : encoder T s true tape = .ok sel) :
    ∃ g f, encodePrepare T s true false tape = .ok g ∧ forestOf g = some f ∧ g = graphOf f ∧
      ((∀ t ∈ f, t.spanOK = true) → (∀ t ∈ f, t.bdepth + 1 < recursionBudget) →
        f.ringDigits ≤ 2 * 99 →
        ∃ out p, decoder T sel = .ok out ∧ smilesToMol out false = .ok p ∧ SameParsed g p) := by
  obtain ⟨g, f, hp, hf, hg, hrest⟩ := C03s_roundtrip_output T s tape sel hlen henc
  refine ⟨g, f, hp, hf, hg, fun h1 h2 h3 => ?_⟩
  obtain ⟨out, m, hout, _, ⟨hsm, hat, hro⟩, hread⟩ := hrest h1 h2 h3
  exact ⟨out, readMol m, hout, hread, sameParsed_readMol hsm hat hro⟩

/-- … spelled out: the output has the input's atoms, and atoms `a`, `b` are joined by a bond of
    order `o2 / 2` in the prepared input graph iff they are in the parsed output. -/
theorem C03s_bonds_iff (T : Table) (s : Str) (tape : List Nat) (sel : Str)
    (hlen : s.length ≤ 10 ^ Gen.intMaxStrDigits) (henc : encoder T s true tape = .ok sel) :
    ∃ g f, encodePrepare T s true false tape = .ok g ∧ forestOf g = some f ∧ g = graphOf f ∧
      ((∀ t ∈ f, t.spanOK = true) → (∀ t ∈ f, t.bdepth + 1 < recursionBudget) →
        f.ringDigits ≤ 2 * 99 →
        ∃ out p, decoder T sel = .ok out ∧ smilesToMol out false = .ok p ∧ p.atoms = g.atoms ∧
          ∀ a b o2, g.Bonded a b o2 ↔ p.Bonded a b o2) := by
  obtain ⟨g, f, hp, hf, hg, hrest⟩ := C03s_roundtrip_parsed T s tape sel hlen henc
  refine ⟨g, f, hp, hf, hg, fun h1 h2 h3 => ?_⟩
  obtain ⟨out, p, hout, hread, hsp⟩ := hrest h1 h2 h3
  exact ⟨out, p, hout, hread, hsp.1, hsp.bonded_iff⟩

set_option maxRecDepth 100000 in
/-- non-vacuity of the conclusion on the cage: `SameParsed` holds between the prepared graph of
    `C12(F)CC2C1` and the parse of the output `C12(F)CC1C2`, by evaluation (the hypotheses are those
    of the example above); atom 0 is bonded to 1, 2, 3 and 4 in both, although the two strings
    close the rings at different digits. -/
example : (encodePrepare c03T "C12(F)CC2C1".toList true false []).map (fun g =>
      let p := parsedOf "C12(F)CC1C2"
      decide (p.atoms = g.atoms ∧ p.roots = g.roots) && g.records.isPerm p.records
        && decide ((0, 1, 2) ∈ p.records ∧ (0, 2, 2) ∈ p.records ∧ (0, 3, 2) ∈ p.records
            ∧ (0, 4, 2) ∈ p.records ∧ (2, 3, 2) ∈ p.records ∧ (3, 4, 2) ∈ p.records)) = .ok true := by
  decide +kernel


end SV
