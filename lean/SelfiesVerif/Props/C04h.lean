/-
  Property C04 in semantic form — "Round trip preserves tetrahedral and double-bond stereochemistry"

  "For every SMILES the encoder accepts, each atom marked @ or @@ has the same handedness after
   encoder then decoder, where handedness is judged from the written neighbour order (preceding
   atom, implicit hydrogen, ring-closure positions, branches) in the input and in the output.
   Every '/' or '\' mark is found again on the same bond with the same direction, including marks
   carried by ring-closure bonds on either end."

  Props/C04.lean has the parity theory and Props/C10r.lean the string-level composition
  (`C04_end_to_end`: which permutation, which tag).  This file states the property the way the text
  reads, with a notion of handedness that does not mention encoder or decoder.

  HANDEDNESS.  A tetrahedral centre is spelled by a tag (`@` or `@@`) and the order in which its
  neighbours are written.  The preceding atom and the implicit hydrogen always come first and keep
  their places in input and output, so only the out-bond neighbours matter (see Props/C04.lean).
  Fix a reference numbering of these neighbours — here: the position in the INPUT's row — and let
  `order` list the reference numbers of the neighbours in the order a spelling writes them.  Then
      `handed tag order := (tag = "@@") xor (inversions order is odd)`
  ("the sense of rotation of the neighbours taken in REFERENCE order").  Two spellings of the same
  centre over the same reference numbering denote the same handedness iff their `handed` agree:
  `handed_swap_adjacent` (exchanging two adjacent neighbours flips it), `handed_invert` (exchanging
  `@` and `@@` flips it), `handed_swap_and_invert` (both together keep it), `handed_adjSwaps`
  (`k` adjacent exchanges flip it `k` times), `handed_range` (in reference order it is the tag).
  `ranksIn ref l` computes the reference numbers from the graphs: the position in `ref` of each
  element of `l`.

  `C04_handedness_preserved`  every tagged atom has the same `handed` in input and output, where the
      output's order is computed from the two parsed graphs (`ranksIn`), and is `decoderOrder row`;
      untagged atoms come back unchanged.
  `C04_marks_preserved`       every stored bond half (chain bonds once, ring-closure bonds at both
      atoms) is found again at the same atom, to the same atom, with the same order, ring flag and
      mark; the output row is the input row rearranged by `decoderOrder`, nothing else.

  Precise form of "the same mark": the output's mark is `if order = 1 then the input's else none`.
  A `/` or `\` in a SMILES string is itself the bond symbol, so a marked bond is PARSED as a single
  bond (`smilesToMol_marks_single`, Proofs/ParserMarks.lean) and the two agree.  The guard is there
  because `g1` is the graph AFTER `kekulize`, and what the project knows about kekulized graphs
  (`PForest.kekulized`: order 1, 2 or 3, mark `/`, `\` or none; `kekulize_struct`: every order
  becomes 1 or 2 or stays) does not include "a marked bond is still single".  Stated in the theorem:
  on every single bond and on every unmarked bond the marks are equal.
  `C04_marks_preserved_nonaromatic`: for an input without aromatic atoms (`g0.ds = []`, `kekulize`
  is the identity) the guard disappears: every output row is the input row rearranged by
  `decoderOrder`, with EQUAL bond records.
-/
import SelfiesVerif.Props.C10r
import SelfiesVerif.Props.C03s
import SelfiesVerif.Proofs.ParserMarks

namespace SV

open List

/-! ### 1. handedness -/

/-- the two tetrahedral tags of SMILES -/
def IsTetraTag (t : Str) : Prop := t = ['@'] ∨ t = ['@', '@']

instance (t : Str) : Decidable (IsTetraTag t) := by unfold IsTetraTag; infer_instance

/-- **Handedness** of a centre spelled with `tag` whose neighbours are written in the order `order`
    (each neighbour named by its number in a fixed reference numbering): the tag's sense, reversed
    once for every inversion of `order`. -/
def handed (tag : Str) (order : List Nat) : Bool :=
  xor (tag == ['@', '@']) (inversions order % 2 == 1)

/-- the reference numbers of the elements of `l`: their positions in `ref` -/
def ranksIn (ref l : List Nat) : List Nat := l.map fun d => ref.idxOf d

/-- in reference order the handedness is the tag -/
theorem handed_range (tag : Str) (n : Nat) : handed tag (List.range n) = (tag == ['@', '@']) := by
  unfold handed
  rw [inversions_range]
  simp

/-- exchanging two adjacent neighbours reverses the handedness (same tag) -/
theorem handed_swap_adjacent (tag : Str) (l₁ l₂ : List Nat) (a b : Nat) (h : a ≠ b) :
    handed tag (l₁ ++ b :: a :: l₂) = !handed tag (l₁ ++ a :: b :: l₂) := by
  have hp := inversions_swap_adjacent_parity l₁ l₂ a b h
  unfold handed
  generalize inversions (l₁ ++ b :: a :: l₂) = p at hp ⊢
  generalize inversions (l₁ ++ a :: b :: l₂) = q at hp ⊢
  rcases Nat.mod_two_eq_zero_or_one p with h1 | h1 <;>
    rcases Nat.mod_two_eq_zero_or_one q with h2 | h2 <;>
    rw [h1, h2] at hp ⊢ <;> first | exact absurd rfl hp | (cases (tag == ['@', '@']) <;> rfl)

/-- `k` adjacent exchanges reverse it `k` times -/
theorem handed_adjSwaps (tag : Str) {k : Nat} {l l' : List Nat} (h : AdjSwaps k l l') :
    handed tag l' = xor (handed tag l) (k % 2 == 1) := by
  have hp := h.parity
  unfold handed
  generalize inversions l = p at hp ⊢
  generalize inversions l' = q at hp ⊢
  rcases Nat.mod_two_eq_zero_or_one p with h1 | h1 <;>
    rcases Nat.mod_two_eq_zero_or_one q with h2 | h2 <;>
    rcases Nat.mod_two_eq_zero_or_one k with h3 | h3 <;>
    rw [h1, h2, h3] <;> first | (exfalso; omega) | (cases (tag == ['@', '@']) <;> rfl)

/-- exchanging `@` and `@@` reverses the handedness (same neighbour order) -/
theorem handed_invert (a : Atom) (t : Str) (ht : IsTetraTag t) (h : a.chirality = some t) :
    ∃ t', a.invertChirality.chirality = some t' ∧ IsTetraTag t' ∧
      ∀ l, handed t' l = !handed t l := by
  obtain ⟨_, i1, i2, _⟩ := C04_invert_involutive a
  rcases ht with rfl | rfl
  · refine ⟨_, i1 h, Or.inr rfl, fun l => ?_⟩
    unfold handed
    cases (inversions l % 2 == 1) <;> rfl
  · refine ⟨_, i2 h, Or.inl rfl, fun l => ?_⟩
    unfold handed
    cases (inversions l % 2 == 1) <;> rfl

/-- one exchange of neighbours together with the exchange of the tag keeps the handedness -/
theorem handed_swap_and_invert (a : Atom) (t : Str) (ht : IsTetraTag t) (h : a.chirality = some t)
    (l₁ l₂ : List Nat) (x y : Nat) (hxy : x ≠ y) :
    ∃ t', a.invertChirality.chirality = some t' ∧
      handed t' (l₁ ++ y :: x :: l₂) = handed t (l₁ ++ x :: y :: l₂) := by
  obtain ⟨t', h1, _, h3⟩ := handed_invert a t ht h
  refine ⟨t', h1, ?_⟩
  rw [h3, handed_swap_adjacent t l₁ l₂ x y hxy, Bool.not_not]

/-! ### 2. the facts behind both theorems -/

/-- the rows of a forest: every bond starts at the atom, carries no attribution -/
theorem Items.row_src_attr (i : Nat) : ∀ (its : Items), ∀ b ∈ its.row i, b.src = i ∧ b.attr = none
  | .nil, _, h => by simp [Items.row] at h
  | .ring _ _ _ _ rest, b, h => by
    simp only [Items.row, List.mem_cons] at h
    rcases h with rfl | h
    · exact ⟨rfl, rfl⟩
    · exact Items.row_src_attr i rest b h
  | .child _ _ _ rest, b, h => by
    simp only [Items.row, List.mem_cons] at h
    rcases h with rfl | h
    · exact ⟨rfl, rfl⟩
    · exact Items.row_src_attr i rest b h

theorem wfb_chirality {a : Atom} (h : a.wfb = true) :
    a.chirality = none ∨ a.chirality = some ['@'] ∨ a.chirality = some ['@', '@'] := by
  unfold Atom.wfb at h
  simp only [Bool.and_eq_true, Bool.or_eq_true, beq_iff_eq] at h
  rcases h.1.1.1.2 with (h | h) | h
  · exact Or.inl h
  · exact Or.inr (Or.inl h)
  · exact Or.inr (Or.inr h)

theorem chirality_of_invert {a : Atom}
    (h : a.invertChirality.chirality = none ∨ a.invertChirality.chirality = some ['@'] ∨
      a.invertChirality.chirality = some ['@', '@']) :
    a.chirality = none ∨ a.chirality = some ['@'] ∨ a.chirality = some ['@', '@'] := by
  obtain ⟨_, _, _, i4, _⟩ := C04_invert_involutive a
  by_cases h1 : a.chirality = some ['@']
  · exact Or.inr (Or.inl h1)
  · by_cases h2 : a.chirality = some ['@', '@']
    · exact Or.inr (Or.inr h2)
    · rw [i4 h1 h2] at h; exact h

/-- `C04_end_to_end` per atom index, with the side facts both theorems below need: the input row
    has distinct neighbours, its bonds start at the atom and have order 1, 2, 3 and a mark `/`, `\`
    or none; the tag is `@`, `@@` or absent; the ring flag of the atom is "some out-bond is a ring
    bond". -/
theorem C04h_core (T : Table) (s : Str) (tape : List Nat) (sel : Str)
    (hlen : s.length ≤ 10 ^ Gen.intMaxStrDigits) (henc : encoder T s true tape = .ok sel) :
    ∃ g0 g1 g f, smilesToMol s false = .ok g0 ∧ g0.kekulize tape = .ok (some g1) ∧
      encodePrepare T s true false tape = .ok g ∧ forestOf g = some f ∧ g = graphOf f ∧
      ((∀ t ∈ f, t.spanOK = true) → (∀ t ∈ f, t.bdepth + 1 < recursionBudget) →
        f.ringDigits ≤ 2 * 99 →
        ∃ out p, decoder T sel = .ok out ∧ smilesToMol out false = .ok p ∧
          ∀ i a1, g1.atoms[i]? = some a1 →
            ∃ row, getOut g1 i = .ok row ∧ g1.adj[i]? = some (row.map some) ∧
              (row.map (·.dst)).Nodup ∧
              (∀ b ∈ row, b.src = i ∧ b.attr = none ∧ okOrder2 b.order2 ∧ okStereo b.stereo) ∧
              p.adj[i]? = some ((posBonds row (decoderOrder row)).map fun b => some (readBond b)) ∧
              (a1.chirality = none ∨ a1.chirality = some ['@'] ∨ a1.chirality = some ['@', '@']) ∧
              p.atoms[i]? = some
                (if (a1.chirality.isSome && row.any (·.ring)) = true ∧
                    inversions (decoderOrder row) % 2 = 1
                 then a1.invertChirality else a1)) := by
  obtain ⟨g0, g1, g, f, hs0, hk, hp, hf, hg, hrest⟩ := C04_end_to_end T s tape sel hlen henc
  refine ⟨g0, g1, g, f, hs0, hk, hp, hf, hg, ?_⟩
  intro hspan hdepth hrings
  obtain ⟨out, p, hout, hread, hall⟩ := hrest hspan hdepth hrings
  refine ⟨out, p, hout, hread, ?_⟩
  obtain ⟨f', hf1, _, hwf, hkek, _, hat'⟩ := C03p_kekulized_ready T s tape g hp
  have hff : f = f' := by
    rw [hf] at hf1; injection hf1
  subst hff
  have hat := hat' hlen
  obtain ⟨g0', g1', hs0', hk', ht⟩ := encodePrepare_inv hp
  have e0 : g0 = g0' := by
    rw [hs0] at hs0'; injection hs0'
  subst e0
  have e1 : g1 = g1' := by
    rw [hk] at hk'; injection hk' with h; injection h
  subst e1
  obtain ⟨_, _, t2, _, t4, _, _, t7, t8⟩ := encodeTail_inv ht
  obtain ⟨hnum, hsimple, _⟩ := PForest.wf_parts hwf
  intro i a1 ha1
  have hi : i < f.nodes.length := by
    have h1 := (List.getElem?_eq_some_iff.1 ha1).1
    rw [← t7, hg, graphOf_atoms] at h1
    simpa using h1
  obtain ⟨n, hn, hnm⟩ := getElem?_lt hi
  have hidx := nodes_idx_of_getElem hnum hn
  subst hidx
  obtain ⟨c1, c2, _, a1', ha1', c4⟩ := hall n hnm
  have ea : a1 = a1' := by
    rw [ha1] at ha1'; injection ha1'
  subst ea
  have hflag : g1.ringFlags.getD n.idx false = n.row.any (·.ring) := by
    rw [← t4, hg]
    show (f.nodes.map fun n => n.row.any (·.ring)).getD n.idx false = _
    rw [List.getD_eq_getElem?_getD, List.getElem?_map, hn]
    rfl
  have hga : g.atoms[n.idx]? = some n.atom := by
    rw [hg, graphOf_atoms, List.getElem?_map, hn]; rfl
  have hwfb : n.atom.wfb = true := by
    unfold PForest.atomsOK at hat
    exact List.all_eq_true.1 hat n hnm
  have hch : a1.chirality = none ∨ a1.chirality = some ['@'] ∨ a1.chirality = some ['@', '@'] := by
    obtain ⟨a, ha, hor⟩ := t8 n.idx n.atom hga
    have : a1 = a := by
      rw [ha1] at ha; injection ha
    subst this
    rcases hor with e | e
    · rw [← e]; exact wfb_chirality hwfb
    · apply chirality_of_invert
      rw [← e]; exact wfb_chirality hwfb
  have hadj1 : g1.adj[n.idx]? = some (n.row.map some) := by
    rw [← t2, hg]
    show (f.nodes.map fun n => n.row.map some)[n.idx]? = _
    rw [List.getElem?_map, hn]
    rfl
  refine ⟨n.row, c1, hadj1, (PForest.simple_node hsimple hnm).1, ?_, c2, hch, ?_⟩
  · intro b hb
    obtain ⟨k1, k2⟩ := Items.row_src_attr n.idx n.items b hb
    obtain ⟨k3, k4⟩ := (PForest.kekulized_node hkek hnm).2.1 b hb
    exact ⟨k1, k2, k3, k4⟩
  · rw [c4, hflag]

/-! ### 3. the output row -/

/-- what the decoder writes and the parser reads back for an input bond: the same bond; a mark on a
    bond that is not single (it cannot be spelled in SMILES) would be dropped (`normB`) -/
theorem readBond_decDir (b : PBond) (ha : b.attr = none) (ho : okOrder2 b.order2)
    (hs : okStereo b.stereo) : readBond (decDir b) = normB b := by
  unfold decDir
  split
  · rename_i hr
    obtain ⟨src, dst, o, st, r, a⟩ := b
    simp only at ha ho hs hr
    subst ha hr
    show readBond ⟨src, dst, o / 2, if o = 2 then st else none, true, none⟩
      = ⟨src, dst, o, normS o st, true, none⟩
    simp only [readBond, two_mul_half o ho, readStereo_eq src dst o st true none ho hs]
  · exact readBond_dirOf b ha ho hs

/-- the row the parser reads back, as a list of bonds -/
theorem outRow_eq (row : List PBond)
    (hrow : ∀ b ∈ row, b.attr = none ∧ okOrder2 b.order2 ∧ okStereo b.stereo) :
    (posBonds row (decoderOrder row)).map (fun b => some (readBond b)) =
      ((decoderOrder row).map fun j => normB (row.getD j default)).map some := by
  unfold posBonds
  rw [List.map_map, List.map_map]
  apply List.map_congr_left
  intro j hj
  have hjl : j < row.length := by
    have := (decoderOrder_perm row).subset hj
    simpa using this
  have hmem : row.getD j default ∈ row := by
    rw [List.getD_eq_getElem?_getD, List.getElem?_eq_getElem hjl]
    exact List.getElem_mem hjl
  obtain ⟨k1, k2, k3⟩ := hrow _ hmem
  show some (readBond (decDir (row.getD j default))) = some (normB (row.getD j default))
  rw [readBond_decDir _ k1 k2 k3]

theorem ranksIn_self (l : List Nat) (h : l.Nodup) : ranksIn l l = List.range l.length := by
  unfold ranksIn
  apply List.ext_getElem
  · simp
  · intro k h1 h2
    simp only [List.getElem_map, List.getElem_range]
    exact h.idxOf_getElem k _

theorem ranksIn_decoderOrder (row : List PBond) (h : (row.map (·.dst)).Nodup) :
    ranksIn (row.map (·.dst)) (((decoderOrder row).map fun j => normB (row.getD j default)).map (·.dst))
      = decoderOrder row := by
  unfold ranksIn
  rw [List.map_map, List.map_map]
  conv => rhs; rw [← List.map_id (decoderOrder row)]
  apply List.map_congr_left
  intro j hj
  have hjl : j < row.length := by
    have := (decoderOrder_perm row).subset hj
    simpa using this
  have hjl' : j < (row.map (·.dst)).length := by simpa using hjl
  have e : (normB (row.getD j default)).dst = (row.map (·.dst))[j] := by
    rw [List.getD_eq_getElem?_getD, List.getElem?_eq_getElem hjl]
    simp [normB]
  show List.idxOf (normB (row.getD j default)).dst (row.map (·.dst)) = j
  rw [e]
  exact h.idxOf_getElem j hjl'

theorem decoderOrder_of_not_any_ring (row : List PBond) (h : row.any (·.ring) = false) :
    decoderOrder row = List.range row.length := by
  apply decoderOrder_of_no_ring
  intro b hb
  have := List.any_eq_false.1 h b hb
  simpa using this

/-! ### 4. the two theorems -/

/-- the destinations of a row: the written out-neighbours of the atom -/
def nbrs (row : List PBond) : List Nat := row.map (·.dst)

theorem handed_keep_or_flip (a1 : Atom) (t : Str) (ht : IsTetraTag t) (h : a1.chirality = some t)
    (l : List Nat) (n : Nat) (ring : Bool) (hnr : ring = false → l = List.range n) :
    ∃ t', (if (a1.chirality.isSome && ring) = true ∧ inversions l % 2 = 1
            then a1.invertChirality else a1).chirality = some t' ∧ IsTetraTag t' ∧
      handed t' l = handed t (List.range n) := by
  rw [handed_range]
  cases ring with
  | false =>
    rw [hnr rfl]
    simp only [Bool.and_false, Bool.false_eq_true, false_and, if_false]
    exact ⟨t, h, ht, handed_range t n⟩
  | true =>
    simp only [h, Option.isSome_some, Bool.and_self, true_and]
    rcases Nat.mod_two_eq_zero_or_one (inversions l) with h0 | h1
    · rw [if_neg (by omega)]
      refine ⟨t, h, ht, ?_⟩
      unfold handed
      rw [h0]; simp
    · rw [if_pos h1]
      obtain ⟨t', e1, e2, e3⟩ := handed_invert a1 t ht h
      refine ⟨t', e1, e2, ?_⟩
      rw [e3]
      unfold handed
      rw [h1]; simp

/-- **C04, tetrahedral centres, semantic form.**  For an accepted SMILES `s` (hypotheses of
    `C04_end_to_end`), let `g1` be the parsed, kekulized input graph and `p` the graph the library's
    parser reads from the decoder's output `out`.  For every atom `i` (same index in `g1` and `p`),
    with `row` / `prow` the out-bonds of `i` as written in `s` / in `out`:
      * the output writes the same neighbours (`nbrs prow` is a permutation of the duplicate-free
        `nbrs row`); `ranksIn (nbrs row) (nbrs prow)`, the ranks of the output's neighbours in the
        input's numbering, is the list `decoderOrder row`, and the input's own ranks are `0, 1, …`;
      * an untagged atom comes back unchanged;
      * a tagged atom carries `@` or `@@` in both graphs, and the output's tag with the output's
        neighbour order denotes the SAME HANDEDNESS as the input's tag with the input's order:
        `handed t' (decoderOrder row) = handed t (List.range row.length)`;
      * in every case the atom is the input's atom up to `invertChirality`. -/
theorem C04_handedness_preserved (T : Table) (s : Str) (tape : List Nat) (sel : Str)
    (hlen : s.length ≤ 10 ^ Gen.intMaxStrDigits) (henc : encoder T s true tape = .ok sel) :
    ∃ g0 g1 g f, smilesToMol s false = .ok g0 ∧ g0.kekulize tape = .ok (some g1) ∧
      encodePrepare T s true false tape = .ok g ∧ forestOf g = some f ∧ g = graphOf f ∧
      ((∀ t ∈ f, t.spanOK = true) → (∀ t ∈ f, t.bdepth + 1 < recursionBudget) →
        f.ringDigits ≤ 2 * 99 →
        ∃ out p, decoder T sel = .ok out ∧ smilesToMol out false = .ok p ∧
          ∀ i a1, g1.atoms[i]? = some a1 →
            ∃ row prow a2, getOut g1 i = .ok row ∧ getOut p i = .ok prow ∧ p.atoms[i]? = some a2 ∧
              (nbrs row).Nodup ∧ (nbrs prow).Perm (nbrs row) ∧
              ranksIn (nbrs row) (nbrs prow) = decoderOrder row ∧
              ranksIn (nbrs row) (nbrs row) = List.range row.length ∧
              (a2 = a1 ∨ a2 = a1.invertChirality) ∧
              (a1.chirality = none → a2 = a1) ∧
              (∀ t, a1.chirality = some t → IsTetraTag t ∧
                ∃ t', a2.chirality = some t' ∧ IsTetraTag t' ∧
                  handed t' (decoderOrder row) = handed t (List.range row.length) ∧
                  handed t' (ranksIn (nbrs row) (nbrs prow)) = handed t (ranksIn (nbrs row) (nbrs row)))) := by
  obtain ⟨g0, g1, g, f, hs0, hk, hp, hf, hg, hrest⟩ := C04h_core T s tape sel hlen henc
  refine ⟨g0, g1, g, f, hs0, hk, hp, hf, hg, ?_⟩
  intro hspan hdepth hrings
  obtain ⟨out, p, hout, hread, hall⟩ := hrest hspan hdepth hrings
  refine ⟨out, p, hout, hread, ?_⟩
  intro i a1 ha1
  obtain ⟨row, c1, _, hnd, hrow, hadj, hch, hatom⟩ := hall i a1 ha1
  have hrow' : ∀ b ∈ row, b.attr = none ∧ okOrder2 b.order2 ∧ okStereo b.stereo :=
    fun b hb => (hrow b hb).2
  rw [outRow_eq row hrow'] at hadj
  have hgo := getOut_eq p i _ hadj
  have hr1 := ranksIn_decoderOrder row hnd
  have hr2 : ranksIn (nbrs row) (nbrs row) = List.range row.length := by
    have := ranksIn_self (nbrs row) hnd
    simpa [nbrs] using this
  have hperm : (nbrs ((decoderOrder row).map fun j => normB (row.getD j default))).Perm (nbrs row) := by
    have e : nbrs ((decoderOrder row).map fun j => normB (row.getD j default))
        = (decoderOrder row).map fun j => (nbrs row).getD j 0 := by
      unfold nbrs
      rw [List.map_map]
      apply List.map_congr_left
      intro j hj
      have hjl : j < row.length := by
        have := (decoderOrder_perm row).subset hj
        simpa using this
      simp [normB, List.getD_eq_getElem?_getD, hjl]
    rw [e]
    have h1 := (decoderOrder_perm row).map fun j => (nbrs row).getD j 0
    refine h1.trans (List.Perm.of_eq ?_)
    apply List.ext_getElem
    · simp [nbrs]
    · intro k h1 h2
      simp [nbrs] at h1 h2 ⊢
      simp [h2]
  refine ⟨row, _, _, c1, hgo, hatom, hnd, hperm, hr1, hr2, ?_, ?_, ?_⟩
  · split
    · exact Or.inr rfl
    · exact Or.inl rfl
  · intro hnone
    simp [hnone]
  · intro t htag
    have ht : IsTetraTag t := by
      rcases hch with h | h | h
      · rw [htag] at h; cases h
      · rw [htag] at h; injection h with h; exact Or.inl h
      · rw [htag] at h; injection h with h; exact Or.inr h
    obtain ⟨t', e1, e2, e3⟩ := handed_keep_or_flip a1 t ht htag (decoderOrder row) row.length
      (row.any (·.ring)) (fun h => decoderOrder_of_not_any_ring row h)
    refine ⟨ht, t', e1, e2, e3, ?_⟩
    show handed t' (ranksIn (nbrs row) (nbrs _)) = _
    rw [hr2]
    unfold nbrs at hr1 ⊢
    rw [hr1]
    exact e3

/-- **C04, `/` and `\` marks, semantic form.**  Same setting.  For every atom `i`, with `row` /
    `prow` its out-bonds as written in the input / in the decoder's output:
      * `prow` has as many bonds as `row`; the bond the input wrote at position `j` stands at the
        position `k` of `prow` with `(decoderOrder row)[k] = j`, and it has the same source `i`, the
        same destination, the same order, the same ring flag and the same mark.  Chain bonds are
        stored once (at the earlier atom), ring-closure bonds at BOTH atoms, each half with its own
        mark, and the statement is about every stored half.
      * the mark: the parsed bond's `stereo` field is `/`, `\` or none (`okStereo`); the output's is
        `if b.order2 = 2 then b.stereo else none`, i.e. equal to the input's on every single bond
        (the only bonds on which SMILES can spell a mark) and on every unmarked bond;
      * conversely every bond of `prow` is one of these. -/
theorem C04_marks_preserved (T : Table) (s : Str) (tape : List Nat) (sel : Str)
    (hlen : s.length ≤ 10 ^ Gen.intMaxStrDigits) (henc : encoder T s true tape = .ok sel) :
    ∃ g0 g1 g f, smilesToMol s false = .ok g0 ∧ g0.kekulize tape = .ok (some g1) ∧
      encodePrepare T s true false tape = .ok g ∧ forestOf g = some f ∧ g = graphOf f ∧
      ((∀ t ∈ f, t.spanOK = true) → (∀ t ∈ f, t.bdepth + 1 < recursionBudget) →
        f.ringDigits ≤ 2 * 99 →
        ∃ out p, decoder T sel = .ok out ∧ smilesToMol out false = .ok p ∧
          ∀ i a1, g1.atoms[i]? = some a1 →
            ∃ row prow, getOut g1 i = .ok row ∧ getOut p i = .ok prow ∧
              prow.length = row.length ∧
              prow = (decoderOrder row).map (fun j => normB (row.getD j default)) ∧
              (∀ (j : Nat) (b : PBond), row[j]? = some b →
                okStereo b.stereo ∧
                ∃ (k : Nat) (b' : PBond), (decoderOrder row)[k]? = some j ∧ prow[k]? = some b' ∧
                  b.src = i ∧ b'.src = i ∧ b'.dst = b.dst ∧ b'.order2 = b.order2 ∧ b'.ring = b.ring ∧
                  b'.stereo = (if b.order2 = 2 then b.stereo else none) ∧
                  (b.order2 = 2 → b'.stereo = b.stereo) ∧ (b.stereo = none → b'.stereo = none)) ∧
              (∀ b' ∈ prow, ∃ b ∈ row, b'.src = b.src ∧ b'.dst = b.dst ∧ b'.order2 = b.order2 ∧
                  b'.ring = b.ring ∧ b'.stereo = (if b.order2 = 2 then b.stereo else none))) := by
  obtain ⟨g0, g1, g, f, hs0, hk, hp, hf, hg, hrest⟩ := C04h_core T s tape sel hlen henc
  refine ⟨g0, g1, g, f, hs0, hk, hp, hf, hg, ?_⟩
  intro hspan hdepth hrings
  obtain ⟨out, p, hout, hread, hall⟩ := hrest hspan hdepth hrings
  refine ⟨out, p, hout, hread, ?_⟩
  intro i a1 ha1
  obtain ⟨row, c1, _, hnd, hrow, hadj, _, _⟩ := hall i a1 ha1
  have hrow' : ∀ b ∈ row, b.attr = none ∧ okOrder2 b.order2 ∧ okStereo b.stereo :=
    fun b hb => (hrow b hb).2
  rw [outRow_eq row hrow'] at hadj
  have hgo := getOut_eq p i _ hadj
  refine ⟨row, _, c1, hgo, by rw [List.length_map, decoderOrder_length], rfl, ?_, ?_⟩
  · intro j b hjb
    have hjl : j < row.length := (List.getElem?_eq_some_iff.1 hjb).1
    have hbm : b ∈ row := List.mem_of_getElem? hjb
    have hjm : j ∈ decoderOrder row := (decoderOrder_perm row).symm.subset (by simpa using hjl)
    obtain ⟨k, hk1, hk2⟩ := List.getElem_of_mem hjm
    have hgd : row.getD j default = b := by
      rw [List.getD_eq_getElem?_getD, hjb]; rfl
    refine ⟨(hrow b hbm).2.2.2, k, normB b, ?_, ?_, (hrow b hbm).1, (hrow b hbm).1, rfl, rfl, rfl, rfl,
      ?_, ?_⟩
    · rw [List.getElem?_eq_getElem hk1, hk2]
    · rw [List.getElem?_map, List.getElem?_eq_getElem hk1, hk2]
      show some (normB (row.getD j default)) = _
      rw [hgd]
    · intro h2
      show normS b.order2 b.stereo = b.stereo
      unfold normS; rw [if_pos h2]
    · intro hn
      show normS b.order2 b.stereo = none
      unfold normS; rw [hn]; split <;> rfl
  · intro b' hb'
    obtain ⟨j, hj, rfl⟩ := List.mem_map.1 hb'
    have hjl : j < row.length := by
      have := (decoderOrder_perm row).subset hj
      simpa using this
    refine ⟨row.getD j default, ?_, rfl, rfl, rfl, rfl, rfl⟩
    rw [List.getD_eq_getElem?_getD, List.getElem?_eq_getElem hjl]
    exact List.getElem_mem hjl

/-- without a delocalised system `kekulize` returns the graph unchanged -/
theorem kekulize_of_ds_nil {g g1 : PMol} {tape : List Nat} (h : g.kekulize tape = .ok (some g1))
    (hds : g.ds = []) : g1 = g := by
  rw [kekulize_eq, hds] at h
  simp only [List.isEmpty_nil, if_true, pure, Except.pure, Except.ok.injEq, Option.some.injEq] at h
  exact h.symm

/-- **The marks without the guard, for inputs without aromatic atoms.**  Every marked bond of a
    PARSED graph is a single bond (`smilesToMol_marks_single`, Proofs/ParserMarks.lean).  If the
    parser recorded no delocalised system (`g0.ds = []`: no aromatic atom in the input), `kekulize`
    returns the parsed graph itself, and then every row of the parsed output is literally the row
    of the parsed input rearranged by `decoderOrder`: equal bond records, marks included. -/
theorem C04_marks_preserved_nonaromatic (T : Table) (s : Str) (tape : List Nat) (sel : Str)
    (hlen : s.length ≤ 10 ^ Gen.intMaxStrDigits) (henc : encoder T s true tape = .ok sel) :
    ∃ g0 g1 g f, smilesToMol s false = .ok g0 ∧ g0.kekulize tape = .ok (some g1) ∧
      encodePrepare T s true false tape = .ok g ∧ forestOf g = some f ∧ g = graphOf f ∧
      (∀ i, ∀ b ∈ rowAt g0.adj i, b.stereo ≠ none → b.order2 = 2) ∧
      ((∀ t ∈ f, t.spanOK = true) → (∀ t ∈ f, t.bdepth + 1 < recursionBudget) →
        f.ringDigits ≤ 2 * 99 → g0.ds = [] →
        g1 = g0 ∧
        ∃ out p, decoder T sel = .ok out ∧ smilesToMol out false = .ok p ∧
          ∀ i a0, g0.atoms[i]? = some a0 →
            ∃ row, getOut g0 i = .ok row ∧
              getOut p i = .ok ((decoderOrder row).map fun j => row.getD j default)) := by
  obtain ⟨g0, g1, g, f, hs0, hk, hp, hf, hg, hrest⟩ := C04h_core T s tape sel hlen henc
  have hms := smilesToMol_marks_single hs0
  refine ⟨g0, g1, g, f, hs0, hk, hp, hf, hg, hms, ?_⟩
  intro hspan hdepth hrings hds
  have e := kekulize_of_ds_nil hk hds
  subst e
  obtain ⟨out, p, hout, hread, hall⟩ := hrest hspan hdepth hrings
  refine ⟨rfl, out, p, hout, hread, ?_⟩
  intro i a0 ha0
  obtain ⟨row, c1, hadj1, _, hrow, hadj, _, _⟩ := hall i a0 ha0
  have hrow' : ∀ b ∈ row, b.attr = none ∧ okOrder2 b.order2 ∧ okStereo b.stereo :=
    fun b hb => (hrow b hb).2
  rw [outRow_eq row hrow'] at hadj
  refine ⟨row, c1, ?_⟩
  have hgo := getOut_eq p i _ hadj
  rw [hgo]
  congr 1
  apply List.map_congr_left
  intro j hj
  have hjl : j < row.length := by
    have := (decoderOrder_perm row).subset hj
    simpa using this
  have hmem : row.getD j default ∈ row := by
    rw [List.getD_eq_getElem?_getD, List.getElem?_eq_getElem hjl]
    exact List.getElem_mem hjl
  have hin : row.getD j default ∈ rowAt g1.adj i := by
    unfold rowAt
    rw [List.getD_eq_getElem?_getD, hadj1]
    exact mem_bondsOf.2 (List.mem_map_of_mem hmem)
  show normB (row.getD j default) = row.getD j default
  generalize row.getD j default = b at hin
  have hb := hms i b hin
  obtain ⟨src, dst, o, st, r, a⟩ := b
  simp only [normB, normS] at hb ⊢
  by_cases h2 : o = 2
  · rw [if_pos h2]
  · rw [if_neg h2]
    by_cases hst : st = none
    · rw [hst]
    · exact absurd (hb hst) h2

/-! ### 5. non-vacuity and evaluated instances

The hypotheses of both theorems are those of `C04_end_to_end`; `c03sReady` (Props/C03s.lean) is the
decidable check of all of them on a concrete string.  `decide +kernel` cannot evaluate
`shouldInvertChirality` on an atom with two or more opening ring bonds (core's `List.mergeSort` is
defined by well-founded recursion), so for `[C@]12…` / `[C@]21…` the encoder is unfolded and
`C04_parity_eq` replaces the call by `inversions (decoderOrder _)` first, as in Props/C04.lean. -/

set_option maxRecDepth 100000 in
/-- a chain centre, ring centres whose ring digit closes after / before another one opens, marks on
    chain bonds and on both ends of a ring-closure bond -/
example : ∀ x ∈ ["N[C@](C)(F)C(=O)O", "O1CCC[C@@]21CCCN2", "C1CC[C@](F)1Cl", "F/C=C/F", "F/C=C/1CCCC\\1"],
    x.toList.length ≤ 10 ^ Gen.intMaxStrDigits ∧
    ∃ sel g f, encoder c03T x.toList true [] = .ok sel ∧ encodePrepare c03T x.toList true false [] = .ok g ∧
      forestOf g = some f ∧ (∀ t ∈ f, t.spanOK = true) ∧ (∀ t ∈ f, t.bdepth + 1 < recursionBudget) ∧
      f.ringDigits ≤ 2 * 99 := by
  have key : ∀ x ∈ ["N[C@](C)(F)C(=O)O", "O1CCC[C@@]21CCCN2", "C1CC[C@](F)1Cl", "F/C=C/F", "F/C=C/1CCCC\\1"],
      x.toList.length ≤ 10 ^ Gen.intMaxStrDigits ∧ c03sReady c03T x = true := by decide +kernel
  intro x hx
  exact ⟨(key x hx).1, c03sReady_spec (key x hx).2⟩

set_option maxRecDepth 100000 in
/-- the same for a centre with two opening ring digits, in partner order and against it -/
example : ∀ x ∈ ["[C@]12(F)CC1C2", "[C@]21(F)CC1CC2"],
    x.toList.length ≤ 10 ^ Gen.intMaxStrDigits ∧
    ∃ sel g f, encoder c03T x.toList true [] = .ok sel ∧ encodePrepare c03T x.toList true false [] = .ok g ∧
      forestOf g = some f ∧ (∀ t ∈ f, t.spanOK = true) ∧ (∀ t ∈ f, t.bdepth + 1 < recursionBudget) ∧
      f.ringDigits ≤ 2 * 99 := by
  have key : ∀ x ∈ ["[C@]12(F)CC1C2", "[C@]21(F)CC1CC2"],
      x.toList.length ≤ 10 ^ Gen.intMaxStrDigits ∧ c03sReady c03T x = true := by
    unfold c03sReady encoder encoderFull encodePrepare
    simp only [C04_parity_eq]
    decide +kernel
  intro x hx
  exact ⟨(key x hx).1, c03sReady_spec (key x hx).2⟩

set_option maxRecDepth 100000 in
/-- the extra hypothesis of `C04_marks_preserved_nonaromatic`: no delocalised system -/
example : ∀ x ∈ ["F/C=C/F", "F/C=C/1CCCC\\1", "O1CCC[C@@]21CCCN2"],
    (smilesToMol x.toList false).map (·.ds) = .ok [] := by decide +kernel

/-- input graph (kekulized), decoder output, parsed output -/
def c04hRun (x : String) : Py (PMol × Str × PMol) := do
  let g0 ← smilesToMol x.toList false
  let g1 ← g0.kekulize []
  let sel ← encoder c03T x.toList true []
  let out ← decoder c03T sel
  let p ← smilesToMol out false
  pure (g1.getD {}, out, p)

structure CentreView where
  out : Str
  inNbrs : List Nat
  outNbrs : List Nat
  ranks : List Nat
  inTag : Option Str
  outTag : Option Str
  deriving DecidableEq

/-- what `C04_handedness_preserved` talks about, for atom `i` of the string `x` -/
def c04hCentre (x : String) (i : Nat) : Py CentreView := do
  let (g1, out, p) ← c04hRun x
  let row ← getOut g1 i
  let prow ← getOut p i
  pure ⟨out, nbrs row, nbrs prow, ranksIn (nbrs row) (nbrs prow),
    (g1.atoms[i]?).bind (·.chirality), (p.atoms[i]?).bind (·.chirality)⟩

structure MarksView where
  out : Str
  /-- per atom: (destination, mark) of every out-bond, input -/
  inMarks : List (List (Nat × Option Char))
  /-- the same for the parsed output -/
  outMarks : List (List (Nat × Option Char))
  /-- every output row is the input row rearranged by `decoderOrder`, bond records equal -/
  sameBonds : Bool
  deriving DecidableEq

/-- what `C04_marks_preserved` talks about -/
def c04hMarks (x : String) : Py MarksView := do
  let (g1, out, p) ← c04hRun x
  let rows ← (List.range g1.atoms.length).mapM fun i => getOut g1 i
  let prows ← (List.range g1.atoms.length).mapM fun i => getOut p i
  pure ⟨out, rows.map (·.map fun b => (b.dst, b.stereo)), prows.map (·.map fun b => (b.dst, b.stereo)),
    decide (prows = rows.map fun row => (decoderOrder row).map fun j => row.getD j default)⟩

set_option maxRecDepth 100000 in
/-- chain centre: nothing moves, the tag stays -/
example : c04hCentre "N[C@](C)(F)C(=O)O" 1 =
    .ok ⟨"N[C@](C)(F)C(=O)O".toList, [2, 3, 4], [2, 3, 4], [0, 1, 2], some ['@'], some ['@']⟩ := by
  decide +kernel

set_option maxRecDepth 100000 in
/-- ring centre, digit `2` (opens, partner 8) written before digit `1` (closes, partner 0): the
    decoder writes the closing one first, one exchange, `@@` becomes `@` … -/
example : c04hCentre "O1CCC[C@@]21CCCN2" 4 =
    .ok ⟨"O1CCC[C@]12CCCN2".toList, [8, 0, 5], [0, 8, 5], [1, 0, 2], some ['@', '@'], some ['@']⟩ := by
  decide +kernel

/-- … and the handedness is the same -/
example : handed ['@'] [1, 0, 2] = handed ['@', '@'] [0, 1, 2] ∧
    handed ['@', '@'] [1, 0, 2] ≠ handed ['@', '@'] [0, 1, 2] := by decide

set_option maxRecDepth 100000 in
/-- ring closure written between two branches -/
example : c04hCentre "C1CC[C@](F)1Cl" 3 =
    .ok ⟨"C1CC[C@@]1(F)Cl".toList, [4, 0, 5], [0, 4, 5], [1, 0, 2], some ['@'], some ['@', '@']⟩ := by
  decide +kernel

set_option maxRecDepth 100000 in
/-- two opening ring digits in partner order: identity -/
example : c04hCentre "[C@]12(F)CC1C2" 0 =
    .ok ⟨"[C@]12(F)CC1C2".toList, [3, 4, 1, 2], [3, 4, 1, 2], [0, 1, 2, 3], some ['@'], some ['@']⟩ := by
  unfold c04hCentre c04hRun encoder encoderFull encodePrepare
  simp only [C04_parity_eq]
  decide +kernel

set_option maxRecDepth 100000 in
/-- two opening ring digits against partner order: one exchange, the tag flips -/
example : c04hCentre "[C@]21(F)CC1CC2" 0 =
    .ok ⟨"[C@@]12(F)CC1CC2".toList, [5, 3, 1, 2], [3, 5, 1, 2], [1, 0, 2, 3], some ['@'], some ['@', '@']⟩ := by
  unfold c04hCentre c04hRun encoder encoderFull encodePrepare
  simp only [C04_parity_eq]
  decide +kernel

set_option maxRecDepth 100000 in
/-- marks on chain bonds -/
example : c04hMarks "F/C=C/F" = .ok ⟨"F/C=C/F".toList,
    [[(1, some '/')], [(2, none)], [(3, some '/')], []],
    [[(1, some '/')], [(2, none)], [(3, some '/')], []], true⟩ := by
  decide +kernel

set_option maxRecDepth 100000 in
/-- marks on both ends of a ring-closure bond: `/` stored at atom 2 (opening end, bond to 6), `\`
    stored at atom 6 (closing end, bond to 2); both halves come back with their own mark -/
example : c04hMarks "F/C=C/1CCCC\\1" = .ok ⟨"F/C=C/1CCCC\\1".toList,
    [[(1, some '/')], [(2, none)], [(6, some '/'), (3, none)], [(4, none)], [(5, none)], [(6, none)],
     [(2, some '\\')]],
    [[(1, some '/')], [(2, none)], [(6, some '/'), (3, none)], [(4, none)], [(5, none)], [(6, none)],
     [(2, some '\\')]], true⟩ := by
  decide +kernel

end SV
