/-
  Property C14 — "Tokenisation utilities agree with each other and with the translators"

  For every well-formed SELFIES string (bracketed symbols, optionally separated by single dots),
  split_selfies yields exactly its symbols and dots in order so that their concatenation is the
  original string, len_selfies equals the number of items yielded, and get_alphabet_from_selfies
  returns exactly the set of symbols occurring in the given strings without the dot.  Every string
  returned by selfies.encoder is well formed in this sense and the decoder consumes exactly these
  tokens.

  Specification notions (Proofs/Tokenize.lean, all independent of `splitGo`):
  * `IsSymbol s`  : `s = '[' :: body ++ [']']`, `body` free of `'['`, `']'`, `'.'` (any other text,
                    also empty: `"[]"` is a symbol);
  * `IsItem s`    : `IsSymbol s ∨ s = ['.']`;
  * `WF items`    : all items are `IsItem`, the first item is not the dot, no two dots are adjacent.
                    Covered dot placements: any single dot directly after a symbol, INCLUDING a
                    trailing dot at the very end (`"[C]."`), and the empty string.
                    Excluded: a leading dot (`".[C]"`: `split_selfies` starts at the first `'['` and
                    silently drops it) and doubled dots (`"[C]..[C]"`: `split_selfies` yields the
                    pseudo-symbol `".[C]"`); see the `example`s at the end, which show that
                    `C14_split_render` is false for both.
  * `render items = items.flatten`.

  The clause "every string returned by selfies.encoder is well formed" needs the encoder model and
  is proved with it; the reusable parts are `C14_wf_of_symbols` and `C14_wf_joinDots` below.
-/
import SelfiesVerif.Proofs.Tokenize

namespace SV

/-- `split_selfies` yields exactly the items, in order, and does not raise. -/
theorem C14_split_render (items : List Str) :
    WF items → splitSelfies (render items) = (items, false) :=
  splitSelfies_render

example : WF ["[C]".toList, "[=C]".toList, ['.'], "[nop]".toList, "[]".toList, ['.']] ∧
    splitSelfies "[C][=C].[nop][].".toList =
      (["[C]".toList, "[=C]".toList, ['.'], "[nop]".toList, "[]".toList, ['.']], false) := by
  decide

/-- The concatenation of what `split_selfies` yields is the original string. -/
theorem C14_concat (items : List Str) :
    WF items → (splitSelfies (render items)).1.flatten = render items := by
  intro h; rw [C14_split_render items h]; rfl

example : WF ["[C]".toList, ['.'], "[F]".toList] ∧
    (splitSelfies "[C].[F]".toList).1.flatten = "[C].[F]".toList := by decide

/-- `len_selfies` is the number of items yielded.  (Dot placement is irrelevant for this one:
    `C14_len_items` needs only that every item is a symbol or a dot.) -/
theorem C14_len (items : List Str) : WF items → lenSelfies (render items) = items.length :=
  fun h => lenSelfies_render items h.1

theorem C14_len_items (items : List Str) :
    (∀ x ∈ items, IsItem x) → lenSelfies (render items) = items.length :=
  lenSelfies_render items

/-- ... and hence equals the number of items `split_selfies` yields. -/
theorem C14_len_split (items : List Str) :
    WF items → lenSelfies (render items) = (splitSelfies (render items)).1.length := by
  intro h; rw [C14_split_render items h]; exact C14_len items h

example : WF ["[C]".toList, "[=C]".toList, "[F]".toList, ['.'], "[C]".toList] ∧
    lenSelfies "[C][=C][F].[C]".toList = 5 := by decide

/-- `get_alphabet_from_selfies` does not raise and returns exactly the set of symbols occurring in
    the given strings, without the dot (the model returns the set as a duplicate-free list). -/
theorem C14_alphabet (strs : List (List Str)) :
    (∀ is ∈ strs, WF is) →
    ∃ l, alphabetFromSelfies (strs.map render) = some l ∧ l.Nodup ∧
      ∀ x, x ∈ l ↔ (∃ is ∈ strs, x ∈ is) ∧ x ≠ ['.'] := by
  intro h
  refine ⟨(strs.foldl (fun a is => is.foldl addSym a) []).filter (· != ['.']), ?_, ?_, ?_⟩
  · unfold alphabetFromSelfies
    rw [alphabet_go_render strs [] h]
    rfl
  · exact (foldl_foldl_addSym_nodup strs [] List.nodup_nil).filter _
  · intro x
    rw [List.mem_filter, mem_foldl_foldl_addSym]
    simp

example : (∀ is ∈ [["[C]".toList, "[F]".toList, "[O]".toList], ["[C]".toList, ['.'], "[O]".toList],
      ["[F]".toList, "[F]".toList]], WF is) ∧
    alphabetFromSelfies ["[C][F][O]".toList, "[C].[O]".toList, "[F][F]".toList] =
      some ["[C]".toList, "[F]".toList, "[O]".toList] := by decide

/-- The decoder's view: `selfies.split(".")` followed by `enumerate(_tokenize_selfies(·))` on each
    fragment gives, fragment by fragment, exactly the symbols of `items` between the dots
    (`fragmentsOf`), with `[nop]` removed, numbered 0,1,2,… per fragment, and never a hanging
    bracket (`specStream`).  Dot placement is irrelevant here (`C14_decoder_tokens_items`): the
    decoder splits at the dots first, so leading, doubled and trailing dots just give empty
    fragments. -/
theorem C14_decoder_tokens (items : List Str) :
    WF items →
    (splitOnChar '.' (render items)).map tokenizeFragment = (fragmentsOf items).map specStream :=
  fun h => decoder_tokens h.1

theorem C14_decoder_tokens_items (items : List Str) :
    (∀ x ∈ items, IsItem x) →
    (splitOnChar '.' (render items)).map tokenizeFragment = (fragmentsOf items).map specStream :=
  decoder_tokens

/-- the spec functions say what the comment claims -/
example :
    fragmentsOf ["[C]".toList, "[nop]".toList, "[O]".toList, ['.'], "[N]".toList, ['.']] =
      [["[C]".toList, "[nop]".toList, "[O]".toList], ["[N]".toList], []] ∧
    (specStream ["[C]".toList, "[nop]".toList, "[O]".toList]).toks =
      [(0, "[C]".toList), (1, "[O]".toList)] ∧
    (specStream ["[C]".toList, "[nop]".toList, "[O]".toList]).hanging = false := by decide

example : WF ["[C]".toList, "[nop]".toList, "[O]".toList, ['.'], "[N]".toList, ['.']] := by decide

/-- every fragment of a well-formed item list consists of symbols only -/
theorem C14_fragments_symbols (items : List Str) :
    WF items → ∀ f ∈ fragmentsOf items, ∀ s ∈ f, IsSymbol s :=
  fun h => fragmentsOf_symbols items h.1

/-! ### the shapes `selfies.encoder` emits are well formed -/

/-- a dot-free list of symbols is well formed -/
theorem C14_wf_of_symbols (syms : List Str) : (∀ s ∈ syms, IsSymbol s) → WF syms :=
  wf_of_symbols

/-- non-empty lists of symbols joined by single dots are well formed -/
theorem C14_wf_joinDots (frags : List (List Str)) :
    (∀ f ∈ frags, f ≠ [] ∧ ∀ s ∈ f, IsSymbol s) → WF (joinDots frags) :=
  wf_joinDots

example : joinDots [["[C]".toList, "[O]".toList], ["[N]".toList], ["[F]".toList]] =
      ["[C]".toList, "[O]".toList, ['.'], "[N]".toList, ['.'], "[F]".toList] ∧
    (∀ f ∈ [["[C]".toList, "[O]".toList], ["[N]".toList], ["[F]".toList]],
      f ≠ [] ∧ ∀ s ∈ f, IsSymbol s) := by decide

/-! ### why leading and doubled dots are excluded from `WF` -/

/-- leading dot: all items are fine, but `split_selfies(".[C]")` yields only `"[C]"` -/
example : (∀ x ∈ [['.'], "[C]".toList], IsItem x) ∧
    splitSelfies (render [['.'], "[C]".toList]) = (["[C]".toList], false) := by decide

/-- doubled dot: `split_selfies("[C]..[C]")` yields `"[C]"`, `"."`, `".[C]"` -/
example : (∀ x ∈ ["[C]".toList, ['.'], ['.'], "[C]".toList], IsItem x) ∧
    splitSelfies (render ["[C]".toList, ['.'], ['.'], "[C]".toList]) =
      (["[C]".toList, ['.'], ".[C]".toList], false) := by decide

end SV
