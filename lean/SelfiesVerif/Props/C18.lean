/-
  Property C18 — "compatible=True is a conservative extension for pre-v2 symbols".

  For every SELFIES string without legacy symbols, `decoder(x, compatible=True)` returns exactly
  what `decoder(x)` returns.  For strings with legacy symbols (`[BranchL_M]`, `[Expl=RingL]`,
  `[Expl#RingL]`, `[Expl/RingL]`, `[Expl\RingL]`, `[...expl]` atoms) it returns what `decoder`
  returns on the string with each legacy symbol replaced by its modern equivalent; without the
  flag such strings are rejected with `DecoderError` when the legacy symbol is reached.

  Helper lemmas: `SelfiesVerif/Proofs/Compat.lean`.
-/
import SelfiesVerif.Proofs.Compat

namespace SV
open C18

/-- the default constraint table, used in the non-vacuity examples -/
def C18.T0 : Table := { entries := Gen.preset_default, dflt := 8 }

/-! ### 1. the update table is the documented mapping -/

/-- the documented legacy → modern mapping for index length `L` (CHANGELOG v2.0.0 gives the
    `_2` branch row and the `=` ring row as examples; the remaining rows are the same scheme
    as written out in `selfies/compatibility.py`) -/
def C18.docRows (L : Char) : List (Str × Str) :=
  [ ("[Branch".toList ++ [L] ++ "_1]".toList, "[Branch".toList ++ [L] ++ "]".toList),
    ("[Branch".toList ++ [L] ++ "_2]".toList, "[=Branch".toList ++ [L] ++ "]".toList),
    ("[Branch".toList ++ [L] ++ "_3]".toList, "[#Branch".toList ++ [L] ++ "]".toList),
    ("[Expl=Ring".toList ++ [L] ++ "]".toList, "[=Ring".toList ++ [L] ++ "]".toList),
    ("[Expl#Ring".toList ++ [L] ++ "]".toList, "[#Ring".toList ++ [L] ++ "]".toList),
    ("[Expl/Ring".toList ++ [L] ++ "]".toList, "[//Ring".toList ++ [L] ++ "]".toList),
    ("[Expl\\Ring".toList ++ [L] ++ "]".toList, "[\\\\Ring".toList ++ [L] ++ "]".toList) ]

def C18.documentedTable : List (Str × Str) := ['1', '2', '3'].flatMap C18.docRows

theorem C18_table_documented : Gen.updateTable = C18.documentedTable := by decide

/-- every documented modern symbol is a symbol of the v2 grammar with the documented meaning:
    branch rows keep `L` and get bond order `M`; ring rows keep `L` and get order 2 / 3 /
    a `/`…`/` or `\`…`\` stereo pair -/
theorem C18_table_targets_valid :
    ∀ p ∈ Gen.updateTable,
      ((processBranchSymbol p.2).isSome || (processRingSymbol p.2).isSome) = true := by decide

example : lookup "[Expl\\Ring2]".toList Gen.updateTable = some "[\\\\Ring2]".toList := by decide
example : processRingSymbol "[\\\\Ring2]".toList = some (1, 2, (some '\\', some '\\')) := by decide
example : processBranchSymbol "[#Branch3]".toList = some (3, 3) := by decide

/-! ### 2. identity on modern symbols -/

/-- a legacy symbol: a key of the update table, or any symbol ending in `expl]` -/
def isLegacy (x : Str) : Bool :=
  (lookup x Gen.updateTable).isSome || lastN x 5 == "expl]".toList

theorem C18.isLegacy_false (x : Str) (h : isLegacy x = false) :
    lookup x Gen.updateTable = none ∧ (lastN x 5 == ['e', 'x', 'p', 'l', ']']) = false := by
  have e : "expl]".toList = ['e', 'x', 'p', 'l', ']'] := by decide
  simp only [isLegacy, e, Bool.or_eq_false_iff] at h
  refine ⟨?_, h.2⟩
  cases hl : lookup x Gen.updateTable with
  | none => rfl
  | some v => simp [hl] at h

theorem C18_identity_on_modern (x : Str) (h : isLegacy x = false) : modernizeSymbol x = .ok x :=
  modernizeSymbol_of_not_legacy x (C18.isLegacy_false x h).1 (C18.isLegacy_false x h).2

example : isLegacy "[=Branch1]".toList = false ∧ isLegacy "[C@@H1]".toList = false
    ∧ isLegacy "[Branch1_2]".toList = true ∧ isLegacy "[C@@Hexpl]".toList = true := by decide

/-- `modernize_symbol` never raises: `modernSym` is its value -/
theorem C18_modernize_total (x : Str) : modernizeSymbol x = .ok (modernSym x) :=
  modernizeSymbol_total x

example : modernSym "[C@@Hexpl]".toList = "[C@@H1]".toList := by decide

/-- CHANGELOG v2.0.0 says "`[C@@Hexpl]` becomes `[C@@H]`".  The code produces `[C@@H1]`, and the
    CHANGELOG's `[C@@H]` is not a symbol of the v2 grammar at all (the atom pattern wants `H\d`):
    the decoder rejects it.  (derivation.rst's `[O-expl]` becomes `[O-1]`.) -/
example : modernSym "[C@@Hexpl]".toList ≠ "[C@@H]".toList
    ∧ processAtomSelfiesNoCache "[C@@H]".toList = none
    ∧ decoderFull C18.T0 "[C][C@@H][C]".toList false false = .error .DecoderError
    ∧ modernSym "[O-expl]".toList = "[O-1]".toList := by decide

/-! ### 3. conservativity -/

theorem C18_conservative (T : Table) (s : Str) (attrib : Bool)
    (h : ∀ frag ∈ splitOnChar '.' s, ∀ t ∈ (tokenizeFragment frag).toks, isLegacy t.2 = false) :
    decoderFull T s true attrib = decoderFull T s false attrib := by
  apply decoderFull_commutes_streams
  apply List.map_congr_left
  intro f hf
  have hm : (tokenizeFragment f).toks.map (fun p => (p.1, modernSym p.2)) = (tokenizeFragment f).toks := by
    conv => rhs; rw [← List.map_id (tokenizeFragment f).toks]
    apply List.map_congr_left
    intro p hp
    have h1 := C18_identity_on_modern p.2 (h f hf p hp)
    have h2 := modernizeSymbol_total p.2
    rw [h1] at h2
    have h3 : modernSym p.2 = p.2 := (Except.ok.inj h2).symm
    simp only [h3, id]
  simp only [Stream.mapSym, hm]

set_option maxRecDepth 100000 in
example :
    (∀ frag ∈ splitOnChar '.' "[C][=Branch1][C][C][Cl].[N][nop][C]".toList,
      ∀ t ∈ (tokenizeFragment frag).toks, isLegacy t.2 = false)
    ∧ decoderFull C18.T0 "[C][=Branch1][C][C][Cl].[N][nop][C]".toList true true
        = decoderFull C18.T0 "[C][=Branch1][C][C][Cl].[N][nop][C]".toList false true := by
  decide

/-! ### 4. commutation with modernisation -/

/-- stream level (the statement the others are derived from): running the derivation with
    `compat := true` on a token stream is running it with `compat := false` on the stream whose
    tokens were modernised beforehand; the streams left over correspond, everything else
    (molecule with attributions, ring list, `n_derived`) is equal -/
theorem C18_commutes_deriveLoop (T : Table) (fuel depth : Nat) (st : DState) (maxDerive : Option Nat)
    (nDerived state : Nat) (prev : Option Nat) (attrStack : Option (List Attribution)) (attrIndex : Nat) :
    deriveLoop T false fuel depth (st.mapSym modernSym) maxDerive nDerived state prev attrStack attrIndex
      = (deriveLoop T true fuel depth st maxDerive nDerived state prev attrStack attrIndex).map
          (fun r => (r.1.mapSym modernSym, r.2)) :=
  deriveLoop_sim T fuel depth st maxDerive nDerived state prev attrStack attrIndex

/-- fragment level: any `s'` whose fragments tokenise to the modernised token streams of `s` -/
theorem C18_commutes_streams (T : Table) (s s' : Str) (attrib : Bool)
    (h : (splitOnChar '.' s').map tokenizeFragment
          = (splitOnChar '.' s).map (fun f => (tokenizeFragment f).mapSym modernSym)) :
    decoderFull T s true attrib = decoderFull T s' false attrib :=
  decoderFull_commutes_streams T s s' attrib h

/-- string level, no side condition: `modernizeString s` is `s` with every symbol that
    `split_selfies` yields replaced by `modernize_symbol` of it
    (`modernizeString s = '.'.join(modernizeFragment f for f in s.split('.'))`,
     `modernizeFragment f = ''.join(map(modernize_symbol, split_selfies(f)))`, plus a `[` if `f`
     ends in a hanging bracket) -/
theorem C18_commutes (T : Table) (s : Str) (attrib : Bool) :
    decoderFull T s true attrib = decoderFull T (modernizeString s) false attrib :=
  decoderFull_commutes_string T s attrib

example (s : Str) : modernizeString s = joinWith ['.'] ((splitOnChar '.' s).map modernizeFragment) := rfl
example (f : Str) : modernizeFragment f =
    ((splitSelfies f).1.map modernSym).flatten ++ (if (splitSelfies f).2 then ['['] else []) := rfl

set_option maxRecDepth 100000 in
example : modernizeString "[C@@Hexpl][Branch1_2][C][C][Cl][F].[C][C][C][Expl=Ring1][Ring1]".toList
      = "[C@@H1][=Branch1][C][C][Cl][F].[C][C][C][=Ring1][Ring1]".toList
    -- text before the first '[' of a fragment is dropped, `[nop]` is kept, a hanging '[' stays
    ∧ modernizeString "x[C@@Hexpl][nop][C].[C][Expl=Ring1][".toList
      = "[C@@H1][nop][C].[C][=Ring1][".toList := by decide

set_option maxRecDepth 100000 in
example :
    decoderFull C18.T0 "[C@@Hexpl][Branch1_2][C][C][Cl][F]".toList true false
      = decoderFull C18.T0 "[C@@H1][=Branch1][C][C][Cl][F]".toList false false
    ∧ decoderFull C18.T0 "[C@@Hexpl][Branch1_2][C][C][Cl][F]".toList true true
      = decoderFull C18.T0 "[C@@H1][=Branch1][C][C][Cl][F]".toList false true
    ∧ (decoderFull C18.T0 "[C@@H1][=Branch1][C][C][Cl][F]".toList false false).toOption.map (·.1)
      = some "[C@@H1](C)Cl".toList
    ∧ decoderFull C18.T0 "[C@@Hexpl][Branch1_2][C][C][Cl][F]".toList false false
      = .error .DecoderError := by
  decide

/-! ### 5. idempotence -/

theorem C18_idempotent (x y : Str) (h : modernizeSymbol x = .ok y) : modernizeSymbol y = .ok y :=
  modernizeSymbol_idem x y h

example : modernizeSymbol "[=13CHexpl]".toList = .ok "[=13CH1]".toList
    ∧ modernizeSymbol "[=13CH1]".toList = .ok "[=13CH1]".toList := by decide

/-! ### 6. without the flag, legacy symbols are rejected -/

/-- the symbol dispatch of `_derive_mol_from_symbols` (`[-4:-2] == "ch"` / `"ng"` /
    `"eps" in symbol` / atom pattern) ends in `DecoderError` for this symbol, whatever the table -/
example (x : Str) : dispatchRejects x =
    (let tag := sliceFromEnd x 4 2
     if tag == ['c', 'h'] then (processBranchSymbol x).isNone
     else if tag == ['n', 'g'] then (processRingSymbol x).isNone
     else if containsSub x ['e', 'p', 's'] then false
     else (processAtomSelfiesNoCache x).isNone) := rfl

/-- a symbol with `dispatchRejects` that the main loop pulls raises `DecoderError`,
    in any state, at any depth, with or without attribution -/
theorem C18_rejected_when_dispatched (T : Table) (compat : Bool) (fuel depth : Nat) (st : DState)
    (maxDerive : Option Nat) (nDerived state : Nat) (prev : Option Nat)
    (attrStack : Option (List Attribution)) (attrIndex : Nat) (i : Nat) (sym : Str) (rest : Stream)
    (hbudget : underBudget maxDerive nDerived = true)
    (hnext : st.stream.next compat = .ok (some ((i, sym), rest)))
    (hrej : dispatchRejects sym = true) :
    deriveLoop T compat (fuel + 1) depth st maxDerive nDerived state prev attrStack attrIndex
      = .error .DecoderError :=
  deriveLoop_rejects T compat fuel depth st maxDerive nDerived state prev attrStack attrIndex i sym rest
    hbudget hnext hrej

example : deriveLoop C18.T0 false 2 0
      { stream := tokenizeFragment "[Expl=Ring1][C]".toList, mol := {}, rings := [] } none 0 0 none none 0
    = .error .DecoderError :=
  C18_rejected_when_dispatched C18.T0 false 1 0 _ none 0 0 none none 0 0 "[Expl=Ring1]".toList _
    rfl rfl (by decide)

theorem C18.updateTable_keys_check :
    ∀ p ∈ Gen.updateTable,
      (splitOnChar '.' p.1 == [p.1] && (tokenizeFragment p.1).toks == [(0, p.1)]
        && dispatchRejects p.1
        && (processBranchSymbol p.1).isNone && (processRingSymbol p.1).isNone) = true := by
  decide

/-- every key of the update table: not a branch symbol, not a ring symbol, rejected by the
    dispatch, and as a one-symbol string rejected by the non-compatible decoder under every table -/
theorem C18_legacy_table_rejected_without_flag (T : Table) (attrib : Bool) :
    ∀ p ∈ Gen.updateTable,
      processBranchSymbol p.1 = none ∧ processRingSymbol p.1 = none
      ∧ dispatchRejects p.1 = true
      ∧ decoderFull T p.1 false attrib = .error .DecoderError := by
  intro p hp
  have h := C18.updateTable_keys_check p hp
  simp only [Bool.and_eq_true, beq_iff_eq, Option.isNone_iff_eq_none] at h
  obtain ⟨⟨⟨⟨h1, h2⟩, h3⟩, h4⟩, h5⟩ := h
  exact ⟨h4, h5, h3, decoderFull_single_rejected T p.1 false attrib h1 h2 (fun h => by cases h) h3⟩

example : ("[Branch2_3]".toList, "[#Branch2]".toList) ∈ Gen.updateTable := by decide

/-- the `…expl]` family: the SELFIES atom pattern cannot match, and unless the symbol contains
    `eps` (then it is an epsilon symbol for both decoders) the dispatch rejects it -/
theorem C18_legacy_expl_rejected_without_flag (x : Str) (h : lastN x 5 = "expl]".toList) :
    processAtomSelfiesNoCache x = none
    ∧ (∀ T, processAtomSymbol T x = none)
    ∧ processBranchSymbol x = none ∧ processRingSymbol x = none
    ∧ (containsSub x "eps".toList = false → dispatchRejects x = true) := by
  have e : "expl]".toList = explSuffix := by decide
  have e2 : "eps".toList = ['e', 'p', 's'] := by decide
  rw [e] at h
  rw [e2]
  have hna := processAtomSelfiesNoCache_expl x h
  refine ⟨hna, ?_, ?_, ?_, dispatchRejects_expl x h⟩
  · intro T; simp [processAtomSymbol, hna]
  · cases hb : processBranchSymbol x with
    | none => rfl
    | some v =>
      have hm := lookup_some_mem _ _ _ hb
      have : ∀ p ∈ Gen.branchTable, lastN p.1 5 ≠ explSuffix := by decide
      exact absurd h (this _ hm)
  · cases hb : processRingSymbol x with
    | none => rfl
    | some v =>
      have hm := lookup_some_mem _ _ _ hb
      have : ∀ p ∈ Gen.ringTable, lastN p.1 5 ≠ explSuffix := by decide
      exact absurd h (this _ hm)

set_option maxRecDepth 100000 in
example : lastN "[C@@Hexpl]".toList 5 = "expl]".toList
    ∧ containsSub "[C@@Hexpl]".toList "eps".toList = false
    ∧ decoderFull C18.T0 "[C][C@@Hexpl]".toList false false = .error .DecoderError
    -- the `eps` exception is real: an `…expl]` symbol containing `eps` is an epsilon symbol
    ∧ (decoderFull C18.T0 "[C][epsexpl][C]".toList false false).toOption.map (·.1) = some "C".toList
    ∧ (decoderFull C18.T0 "[C][epsexpl][C]".toList true false).toOption.map (·.1) = some "C".toList
    -- and a legacy symbol that is only read as an index symbol is not "reached"
    ∧ (decoderFull C18.T0 "[C][Branch1][Branch1_1][C]".toList false false).toOption.map (·.1)
        = some "CC".toList := by
  decide

/-! ### 7. legacy atom spellings -/

/-- `[bc? body expl]` with `body` readable by `smiles_to_atom` as a non-aromatic atom `a`
    becomes `[bc? spelling]`, `spelling = atom_to_smiles(a, brackets=False)` -/
theorem C18_legacy_atoms (bc body spelling : Str) (a : Atom)
    (hbc : bc = [] ∨ ∃ c, isBondChar c = true ∧ bc = [c])
    (ha : smilesToAtom ('[' :: body ++ [']']) = some a)
    (har : a.isAromatic = false)
    (hs : atomToSmiles a false = .ok spelling) :
    modernizeSymbol ('[' :: bc ++ body ++ "expl]".toList) = .ok ('[' :: bc ++ spelling ++ [']']) := by
  have e : "expl]".toList = explSuffix := by decide
  rw [e]
  have hbc' : (bc = [] ∧ ∃ b body', body = b :: body' ∧ isBondChar b = false)
      ∨ ∃ c, isBondChar c = true ∧ bc = [c] := by
    rcases hbc with h | h
    · exact Or.inl ⟨h, smilesToAtom_bracket_body body a ha⟩
    · exact Or.inr h
  rw [modernizeSymbol_expl_unfold '[' bc body hbc']
  have ha' : smilesToAtom (['['] ++ body ++ [']']) = some a := ha
  simp only [ha', har, hs, Bool.not_false, if_true, bind, Except.bind, pure, Except.pure]
  rfl

/-- … and when `body` is not readable, or reads as an aromatic atom, the symbol is left
    unchanged (and is then rejected by both decoders, see section 6) -/
theorem C18_legacy_atoms_unreadable (bc body : Str)
    (hbc : (bc = [] ∧ ∃ b body', body = b :: body' ∧ isBondChar b = false)
            ∨ ∃ c, isBondChar c = true ∧ bc = [c])
    (ha : smilesToAtom ('[' :: body ++ [']']) = none
          ∨ ∃ a, smilesToAtom ('[' :: body ++ [']']) = some a ∧ a.isAromatic = true) :
    modernizeSymbol ('[' :: bc ++ body ++ "expl]".toList) = .ok ('[' :: bc ++ body ++ "expl]".toList) := by
  have e : "expl]".toList = explSuffix := by decide
  rw [e, modernizeSymbol_expl_unfold '[' bc body hbc]
  rcases ha with ha | ⟨a, ha, har⟩
  · have ha' : smilesToAtom (['['] ++ body ++ [']']) = none := ha
    simp only [ha']
  · have ha' : smilesToAtom (['['] ++ body ++ [']']) = some a := ha
    simp only [ha', har, Bool.not_true, Bool.false_eq_true, if_false]

/-- the atom `[13CH]` -/
def C18.exAtom : Atom :=
  { element := "C".toList, isAromatic := false, isotope := some 13, chirality := none, hCount := some 1, charge := 0 }

example : smilesToAtom ('[' :: "13CH".toList ++ [']']) = some C18.exAtom
    ∧ atomToSmiles C18.exAtom false = .ok "13CH1".toList
    ∧ modernizeSymbol "[=13CHexpl]".toList = .ok "[=13CH1]".toList
    ∧ modernizeSymbol "[N+expl]".toList = .ok "[N+1]".toList
    ∧ modernizeSymbol "[Cexpl]".toList = .ok "[CH0]".toList
    ∧ modernizeSymbol "[cexpl]".toList = .ok "[cexpl]".toList
    ∧ modernizeSymbol "[Xxexpl]".toList = .ok "[Xxexpl]".toList := by decide

end SV
