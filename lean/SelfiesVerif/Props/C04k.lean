/-
  Property C04, `/` and `\` marks, WITHOUT the guard of `C04_marks_preserved` (Props/C04h.lean).

  `C04_marks_preserved` compares the parsed decoder output with `g1`, the input graph AFTER
  `kekulize`, and states the output's mark as `if order = 1 then the input's else none`, because
  nothing was known about marks on the bonds `kekulize` rewrites unless the matching was perfect.
  `kekulize_touches_only_ds` (Proofs/MatchingEdges.lean) closes the gap for EVERY run: `kekulize`
  changes nothing but the orders of the aromatic bonds (1.5 becomes 1 or 2), and a marked bond of a
  parsed graph is a single bond (`smilesToMol_marks_single`), hence not aromatic.

  `C04_marks_preserved_all`  for every accepted SMILES — aromatic or not, bipartite aromatic system
      or not, sound matching or not — and every atom `i`, with `row0` the out-bonds of `i` as the
      INPUT wrote them (parsed graph `g0`, before kekulization) and `prow` the out-bonds of `i` in
      the parsed decoder output:
        * `prow` is `row0` rearranged by `decoderOrder row0`, each bond with the same source,
          destination, ring flag and MARK (`b'.stereo = b0.stereo`, no guard), and with the same
          order unless the input bond was aromatic, in which case the order is 1 or 2;
        * in particular every mark of the input is found again on the same stored bond half.
-/
import SelfiesVerif.Props.C04h
import SelfiesVerif.Props.C05k

namespace SV
open C09

/-! ### helpers -/

/-- a row whose image under an order map has no placeholder has none itself -/
theorem row_of_map_some (f : PBond → PBond) : ∀ (r0 : List (Option PBond)) (row : List PBond),
    r0.map (Option.map f) = row.map some → ∃ row0 : List PBond, r0 = row0.map some ∧ row0.map f = row := by
  intro r0
  induction r0 with
  | nil =>
    intro row h
    cases row with
    | nil => exact ⟨[], rfl, rfl⟩
    | cons _ _ => cases h
  | cons ob rest ih =>
    intro row h
    cases row with
    | nil => cases h
    | cons b bs =>
      simp only [List.map_cons, List.cons.injEq] at h
      obtain ⟨h1, h2⟩ := h
      obtain ⟨row0, e1, e2⟩ := ih bs h2
      cases ob with
      | none => cases h1
      | some b0 =>
        simp only [Option.map_some, Option.some.injEq] at h1
        exact ⟨b0 :: row0, by rw [e1]; rfl, by rw [List.map_cons, h1, e2]⟩

theorem positionsOf_map (p : PBond → Bool) (f : PBond → PBond) (hp : ∀ b, p (f b) = p b)
    (l : List PBond) : positionsOf p (l.map f) = positionsOf p l := by
  unfold positionsOf
  rw [List.length_map]
  apply List.filter_congr
  intro i _
  rw [List.getElem?_map]
  cases l[i]? with
  | none => rfl
  | some b => exact hp b

theorem partnerAt_map (f : PBond → PBond) (hf : ∀ b, (f b).dst = b.dst) (l : List PBond) :
    partnerAt (l.map f) = partnerAt l := by
  funext i
  unfold partnerAt
  rw [List.getElem?_map]
  cases l[i]? with
  | none => rfl
  | some b => exact hf b

/-- the decoder's neighbour order does not look at bond orders -/
theorem decoderOrder_map_setOrd (G : PBond → Nat) (row : List PBond) :
    decoderOrder (row.map (setOrd G)) = decoderOrder row := by
  unfold decoderOrder
  rw [positionsOf_map PBond.isClosing (setOrd G) (fun _ => rfl) row,
    positionsOf_map PBond.isOpening (setOrd G) (fun _ => rfl) row,
    positionsOf_map PBond.isChain (setOrd G) (fun _ => rfl) row,
    partnerAt_map (setOrd G) (fun _ => rfl) row]

/-- the decoder/parser normalisation `normB` (drop a mark from a bond that is not single) does
    nothing to a kekulized bond of a parsed graph -/
theorem normB_setOrd {g0 : PMol} {G : PBond → Nat} (hG : SigmaOrd g0 G) (hms : MarksSingle g0)
    {i : Nat} {b0 : PBond} (hb0 : b0 ∈ rowAt g0.adj i) : normB (setOrd G b0) = setOrd G b0 := by
  by_cases hst : b0.stereo = none
  · unfold normB normS setOrd
    simp only [hst]
    split <;> rfl
  · have h2 : b0.order2 = 2 := hms i b0 hb0 hst
    have hk : G b0 = 2 := by rw [hG.keep i b0 hb0 (by omega), h2]
    unfold normB normS setOrd
    simp only [hk, if_true]

/-! ### the theorem -/

/-- **C04, `/` and `\` marks, every accepted input.**  See the file header.  `g0` is the parsed
    input, `g1` the kekulized graph, `G` the order map of the kekulization (`SigmaOrd g0 G`: it
    keeps every order other than 1.5).  For every atom `i` of `g0`, with `row0` its out-bonds in
    `g0` and `prow` its out-bonds in the parsed decoder output `p`:
      * `prow = (decoderOrder row0).map (fun j => setOrd G row0[j])` — the input's row, rearranged,
        orders replaced by `G`, nothing else;
      * the bond the input wrote at position `j` stands at the position `k` of `prow` with
        `(decoderOrder row0)[k] = j`; same source, destination, ring flag, and the SAME MARK; same
        order if the input bond is not aromatic, order 1 or 2 if it is; a marked bond is not
        aromatic (it is single), so a marked bond comes back with its mark AND its order;
      * conversely every bond of `prow` is one of these. -/
theorem C04_marks_preserved_all (T : Table) (s : Str) (tape : List Nat) (sel : Str)
    (hlen : s.length ≤ 10 ^ Gen.intMaxStrDigits) (henc : encoder T s true tape = .ok sel) :
    ∃ g0 g1 g f G, smilesToMol s false = .ok g0 ∧ g0.kekulize tape = .ok (some g1) ∧
      encodePrepare T s true false tape = .ok g ∧ forestOf g = some f ∧ g = graphOf f ∧
      SigmaOrd g0 G ∧ g1 = kekResultWith g0 G ∧
      (∀ i, ∀ b ∈ rowAt g0.adj i, b.stereo ≠ none → b.order2 = 2) ∧
      ((∀ t ∈ f, t.spanOK = true) → (∀ t ∈ f, t.bdepth + 1 < recursionBudget) →
        f.ringDigits ≤ 2 * 99 →
        ∃ out p, decoder T sel = .ok out ∧ smilesToMol out false = .ok p ∧
          ∀ i a0, g0.atoms[i]? = some a0 →
            ∃ row0 prow, g0.adj[i]? = some (row0.map some) ∧ p.adj[i]? = some (prow.map some) ∧
              getOut g0 i = .ok row0 ∧ getOut g1 i = .ok (row0.map (setOrd G)) ∧
              getOut p i = .ok prow ∧ prow.length = row0.length ∧
              prow = (decoderOrder row0).map (fun j => setOrd G (row0.getD j default)) ∧
              (∀ (j : Nat) (b0 : PBond), row0[j]? = some b0 →
                okStereo b0.stereo ∧
                ∃ (k : Nat) (b' : PBond), (decoderOrder row0)[k]? = some j ∧ prow[k]? = some b' ∧
                  b0.src = i ∧ b'.src = i ∧ b'.dst = b0.dst ∧ b'.ring = b0.ring ∧
                  b'.stereo = b0.stereo ∧
                  (b0.order2 ≠ 3 → b'.order2 = b0.order2) ∧
                  (b0.order2 = 3 → b'.order2 = 2 ∨ b'.order2 = 4) ∧
                  (b0.stereo ≠ none → b'.order2 = 2 ∧ b0.order2 = 2)) ∧
              (∀ b' ∈ prow, ∃ b0 ∈ row0, b'.src = b0.src ∧ b'.dst = b0.dst ∧ b'.ring = b0.ring ∧
                  b'.stereo = b0.stereo ∧
                  ((b0.order2 ≠ 3 ∧ b'.order2 = b0.order2) ∨
                   (b0.order2 = 3 ∧ (b'.order2 = 2 ∨ b'.order2 = 4))))) := by
  obtain ⟨g0, g1, g, f, hs0, hk, hp, hf, hg, hrest⟩ := C04h_core T s tape sel hlen henc
  have hms := smilesToMol_marks_single hs0
  obtain ⟨G, hG, hg1⟩ := kekulize_touches_only_ds (smilesToMol_pwf hs0) hk
  refine ⟨g0, g1, g, f, G, hs0, hk, hp, hf, hg, hG, hg1, hms, ?_⟩
  intro hspan hdepth hrings
  obtain ⟨out, p, hout, hread, hall⟩ := hrest hspan hdepth hrings
  refine ⟨out, p, hout, hread, ?_⟩
  intro i a0 ha0
  -- the atom of `g1` at the same index
  have hi1 : i < g1.atoms.length := by
    rw [hg1, (kekResultWith_atoms g0 G).1]
    exact (List.getElem?_eq_some_iff.1 ha0).1
  obtain ⟨row, c1, hadj1, _, hrow, hadj, _, _⟩ := hall i g1.atoms[i] (List.getElem?_eq_getElem hi1)
  -- the row of `g0`
  have hadj1' : (g0.adj[i]?).map (fun r => r.map (Option.map (setOrd G))) = some (row.map some) := by
    rw [← hadj1, hg1]
    show _ = (mapOrders G g0.adj)[i]?
    unfold mapOrders
    rw [List.getElem?_map]
  cases hr0 : g0.adj[i]? with
  | none => rw [hr0] at hadj1'; cases hadj1'
  | some r0 =>
    rw [hr0] at hadj1'
    simp only [Option.map_some, Option.some.injEq] at hadj1'
    obtain ⟨row0, e1, e2⟩ := row_of_map_some (setOrd G) r0 row hadj1'
    subst e1
    subst e2
    have hrowAt : rowAt g0.adj i = row0 := by
      rw [rowAt_of_getElem? hr0, bondsOf_map_some]
    have hmem0 : ∀ b0 ∈ row0, b0 ∈ rowAt g0.adj i := fun b0 hb0 => hrowAt ▸ hb0
    have hrow' : ∀ b ∈ row0.map (setOrd G), b.attr = none ∧ okOrder2 b.order2 ∧ okStereo b.stereo :=
      fun b hb => (hrow b hb).2
    rw [outRow_eq _ hrow', decoderOrder_map_setOrd] at hadj
    -- drop `normB`
    have hprow : ((decoderOrder row0).map fun j => normB ((row0.map (setOrd G)).getD j default))
        = (decoderOrder row0).map fun j => setOrd G (row0.getD j default) := by
      apply List.map_congr_left
      intro j hj
      have hjl : j < row0.length := by
        have := (decoderOrder_perm row0).subset hj
        simpa using this
      have e : (row0.map (setOrd G)).getD j default = setOrd G (row0.getD j default) := by
        simp [List.getD_eq_getElem?_getD, hjl]
      rw [e]
      apply normB_setOrd hG hms (i := i)
      apply hmem0
      rw [List.getD_eq_getElem?_getD, List.getElem?_eq_getElem hjl]
      exact List.getElem_mem hjl
    rw [hprow] at hadj
    have hgo := getOut_eq p i _ hadj
    refine ⟨row0, _, rfl, hadj, getOut_eq g0 i row0 hr0, c1, hgo,
      by rw [List.length_map, decoderOrder_length], rfl, ?_, ?_⟩
    · intro j b0 hjb
      have hjl : j < row0.length := (List.getElem?_eq_some_iff.1 hjb).1
      have hbm : b0 ∈ row0 := List.mem_of_getElem? hjb
      have hb1 : setOrd G b0 ∈ row0.map (setOrd G) := List.mem_map_of_mem hbm
      have hjm : j ∈ decoderOrder row0 := (decoderOrder_perm row0).symm.subset (by simpa using hjl)
      obtain ⟨k, hk1, hk2⟩ := List.getElem_of_mem hjm
      have hgd : row0.getD j default = b0 := by
        rw [List.getD_eq_getElem?_getD, hjb]; rfl
      have hin := hmem0 b0 hbm
      refine ⟨(hrow _ hb1).2.2.2, k, setOrd G b0, ?_, ?_, (hrow _ hb1).1, (hrow _ hb1).1, rfl, rfl, rfl,
        fun hne => hG.keep i b0 hin hne, fun h3 => hG.arom i b0 hin h3, fun hst => ?_⟩
      · rw [List.getElem?_eq_getElem hk1, hk2]
      · rw [List.getElem?_map, List.getElem?_eq_getElem hk1, hk2]
        show some (setOrd G (row0.getD j default)) = _
        rw [hgd]
      · have h2 : b0.order2 = 2 := hms i b0 hin hst
        refine ⟨?_, h2⟩
        show G b0 = 2
        rw [hG.keep i b0 hin (by omega), h2]
    · intro b' hb'
      obtain ⟨j, hj, rfl⟩ := List.mem_map.1 hb'
      have hjl : j < row0.length := by
        have := (decoderOrder_perm row0).subset hj
        simpa using this
      have hbm : row0.getD j default ∈ row0 := by
        rw [List.getD_eq_getElem?_getD, List.getElem?_eq_getElem hjl]
        exact List.getElem_mem hjl
      refine ⟨row0.getD j default, hbm, rfl, rfl, rfl, rfl, ?_⟩
      have hin := hmem0 _ hbm
      by_cases h3 : (row0.getD j default).order2 = 3
      · exact .inr ⟨h3, hG.arom i _ hin h3⟩
      · exact .inl ⟨h3, hG.keep i _ hin h3⟩

/-- every mark of the input is found again: the short form.  For every stored bond half of the
    parsed input that carries `/` or `\`, the parsed decoder output stores at the same atom a bond
    to the same atom with the same mark, the same ring flag and the same order (single). -/
theorem C04_every_mark_found_again (T : Table) (s : Str) (tape : List Nat) (sel : Str)
    (hlen : s.length ≤ 10 ^ Gen.intMaxStrDigits) (henc : encoder T s true tape = .ok sel) :
    ∃ g0 g f, smilesToMol s false = .ok g0 ∧ encodePrepare T s true false tape = .ok g ∧
      forestOf g = some f ∧
      ((∀ t ∈ f, t.spanOK = true) → (∀ t ∈ f, t.bdepth + 1 < recursionBudget) →
        f.ringDigits ≤ 2 * 99 →
        ∃ out p, decoder T sel = .ok out ∧ smilesToMol out false = .ok p ∧
          ∀ i, ∀ b0 ∈ rowAt g0.adj i, b0.stereo ≠ none →
            ∃ b' ∈ rowAt p.adj i, b'.src = b0.src ∧ b'.dst = b0.dst ∧ b'.stereo = b0.stereo ∧
              b'.ring = b0.ring ∧ b'.order2 = b0.order2) := by
  obtain ⟨g0, g1, g, f, G, hs0, _, hp, hf, _, _, _, _, hrest⟩ :=
    C04_marks_preserved_all T s tape sel hlen henc
  refine ⟨g0, g, f, hs0, hp, hf, ?_⟩
  intro hspan hdepth hrings
  obtain ⟨out, p, hout, hread, hall⟩ := hrest hspan hdepth hrings
  refine ⟨out, p, hout, hread, ?_⟩
  intro i b0 hb0 hst
  have hi : i < g0.adj.length := lt_of_mem_rowAt hb0
  have hia : i < g0.atoms.length := by
    rw [(smilesToMol_pwf hs0).2.1]; exact hi
  obtain ⟨row0, prow, h1, h2, _, _, _, _, _, h6, _⟩ := hall i g0.atoms[i] (List.getElem?_eq_getElem hia)
  have hrow0 : rowAt g0.adj i = row0 := by rw [rowAt_of_getElem? h1, bondsOf_map_some]
  have hprow : rowAt p.adj i = prow := by rw [rowAt_of_getElem? h2, bondsOf_map_some]
  rw [hrow0] at hb0
  obtain ⟨j, hj⟩ := List.getElem?_of_mem hb0
  obtain ⟨_, k, b', _, hk, e1, e2, e3, e4, e5, _, _, e8⟩ := h6 j b0 hj
  refine ⟨b', hprow ▸ List.mem_of_getElem? hk, e2.trans e1.symm, e3, e5, e4, ?_⟩
  obtain ⟨f1, f2⟩ := e8 hst
  rw [f1, f2]

/-! ### non-vacuity -/

/-- the marks of a row: (destination, order in half units, mark) -/
def c04kMarks (m : PMol) (i : Nat) : List (Nat × Nat × Option Char) :=
  (rowAt m.adj i).map fun b => (b.dst, b.order2, b.stereo)

set_option maxRecDepth 100000 in
/-- **non-vacuity of `C04_marks_preserved_all` / `C04_every_mark_found_again` on an aromatic input
    with an UNSOUND kekulization** (`s12c(ccc1)cccc3cs2c3/C=C/F`, tape `[9]`; the hypotheses are
    `c05kRun_facts`, Props/C05k.lean): the theorem applies, and evaluated: the decoder writes
    `S=12=C(C=CC=1)C=CC=C3C=S2=C3/C=C/F`; atom 11 stores the ring bond to 8 (aromatic in the input,
    single in the output) and the marked chain bond `/` to 12, atom 13 the marked bond `/` to 14,
    in input and output alike. -/
example :
    (∃ out p, decoder c03T c05kSel = .ok out ∧ smilesToMol out false = .ok p ∧
      ∀ i, ∀ b0 ∈ rowAt c05kMol.adj i, b0.stereo ≠ none →
        ∃ b' ∈ rowAt p.adj i, b'.src = b0.src ∧ b'.dst = b0.dst ∧ b'.stereo = b0.stereo ∧
          b'.ring = b0.ring ∧ b'.order2 = b0.order2) ∧
    decoder c03T c05kSel = .ok "S=12=C(C=CC=1)C=CC=C3C=S2=C3/C=C/F".toList ∧
    [c04kMarks c05kMol 11, c04kMarks c05kMol 12, c04kMarks c05kMol 13]
      = [[(8, 3, none), (12, 2, some '/')], [(13, 4, none)], [(14, 2, some '/')]] ∧
    (smilesToMol "S=12=C(C=CC=1)C=CC=C3C=S2=C3/C=C/F".toList false).map
        (fun p => [c04kMarks p 11, c04kMarks p 12, c04kMarks p 13])
      = .ok [[(8, 2, none), (12, 2, some '/')], [(13, 4, none)], [(14, 2, some '/')]] := by
  obtain ⟨hs, hlen, _, _, _, _, _, _, _, _, henc, hp, ⟨f, hf, hspan, hdepth, hrings⟩, _⟩ := c05kRun_facts
  refine ⟨?_, by decide +kernel, by decide +kernel, by decide +kernel⟩
  obtain ⟨g0, g, f', hs0, hp', hf', hrest⟩ :=
    C04_every_mark_found_again c03T _ [9] _ hlen henc
  rw [hs] at hs0
  injection hs0 with hs0
  subst hs0
  rw [hp] at hp'
  injection hp' with hp'
  subst hp'
  rw [hf] at hf'
  injection hf' with hf'
  subst hf'
  exact hrest hspan hdepth hrings

end SV
