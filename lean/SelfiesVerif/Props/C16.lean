/-
  Property C16.  Index symbols form a base-16 positional code that encoder and decoder share.

  "For every non-negative integer n the encoder-side conversion yields the shortest big-endian
   base-16 digit sequence over the sixteen index symbols in their documented order
   ([C]=0, [Ring1]=1, ... [P]=15), and the decoder-side conversion maps it back to n; any symbol
   outside the sixteen, or a missing symbol at the end of the string, counts as digit 0.  Every n
   below 16^3 round-trips with at most three symbols, which is what ring and branch symbols with
   suffix 1, 2, 3 can carry."

  Encoder side: `getSelfiesFromIndex` (`get_selfies_from_index`), decoder side:
  `getIndexFromSelfies` / `indexDigit` (`get_index_from_selfies`, `INDEX_CODE.get(c, 0)`), a
  missing symbol is `none` (the `None` padding of `_read_index_from_selfies`).

  All general theorems use the generated tables only through `indexTablesOK : IndexTablesOK`
  (16 distinct symbols, `INDEX_CODE = enumerate(INDEX_ALPHABET)`; Proofs/IndexCode.lean); the
  statements that name concrete symbols additionally use `C16_alphabet_documented`.
-/
import SelfiesVerif.Proofs.IndexCode

namespace SV

/-! ### the documented order -/

/-- The sixteen index symbols, in digit order, are the ones the documentation lists
    (docs/source/derivation.rst, which still uses the pre-v2 names `[Branch1_1]` … — they are
    mapped through the library's own `_SYMBOL_UPDATE_TABLE`), the documented index column is
    `0 … 15`, `[C]` is digit 0, `[Ring1]` 1, …, `[P]` 15, and `INDEX_CODE` is the enumeration of
    `INDEX_ALPHABET`. -/
theorem C16_alphabet_documented :
    Gen.docIndexTable.map (fun s => (lookup s Gen.updateTable).getD s) = Gen.indexAlphabet
    ∧ Gen.docIndexNumbers = List.range 16
    ∧ Gen.indexAlphabet =
        ["[C]".toList, "[Ring1]".toList, "[Ring2]".toList,
         "[Branch1]".toList, "[=Branch1]".toList, "[#Branch1]".toList,
         "[Branch2]".toList, "[=Branch2]".toList, "[#Branch2]".toList,
         "[O]".toList, "[N]".toList, "[=N]".toList, "[=C]".toList, "[#C]".toList,
         "[S]".toList, "[P]".toList]
    ∧ Gen.indexCode = Gen.indexAlphabet.zipIdx
    ∧ Gen.indexAlphabet.map (fun s => indexDigit (some s)) = List.range 16 := by
  refine ⟨by decide, by decide, by decide, by decide, by decide⟩

example : indexDigit (some "[C]".toList) = 0 ∧ indexDigit (some "[Ring1]".toList) = 1
    ∧ indexDigit (some "[#Branch2]".toList) = 8 ∧ indexDigit (some "[P]".toList) = 15 := by decide

/-- the side conditions of the general theorems hold of the generated tables -/
theorem C16_tables_ok : IndexTablesOK := indexTablesOK

/-! ### decoder side -/

/-- `get_index_from_selfies` is big-endian Horner evaluation in base 16 of the digit values. -/
theorem C16_horner (syms : List (Option Str)) :
    getIndexFromSelfies syms = syms.foldl (fun acc c => acc * 16 + indexDigit c) 0 := by
  rw [getIndexFromSelfies_eq_foldl, indexTablesOK.codeLen]

/-- the documentation's example: `[C][Branch1][O]` ↦ (039)₁₆ = 57 -/
example : getIndexFromSelfies [some "[C]".toList, some "[Branch1]".toList, some "[O]".toList] = 57 := by
  decide

/-- positional reading: the first symbol has weight `16 ^ (number of symbols after it)`, and
    every digit is below 16, so `k` symbols decode to a number below `16 ^ k`. -/
theorem C16_positional (c : Option Str) (syms : List (Option Str)) :
    getIndexFromSelfies (c :: syms) = indexDigit c * 16 ^ syms.length + getIndexFromSelfies syms
    ∧ indexDigit c < 16
    ∧ getIndexFromSelfies syms < 16 ^ syms.length :=
  ⟨getIndexFromSelfies_cons indexTablesOK c syms, indexDigit_lt indexTablesOK c,
   getIndexFromSelfies_lt indexTablesOK syms⟩

example : getIndexFromSelfies [some "[Branch1]".toList, some "[O]".toList]
    = 3 * 16 ^ 1 + getIndexFromSelfies [some "[O]".toList] := by decide

/-- a symbol outside the sixteen counts as digit 0 -/
theorem C16_unknown_zero (s : Str) (hs : s ∉ Gen.indexAlphabet) : indexDigit (some s) = 0 :=
  indexDigit_of_not_mem indexTablesOK s hs

example : "[F]".toList ∉ Gen.indexAlphabet ∧ indexDigit (some "[F]".toList) = 0 := by decide
-- the pre-v2 spelling of digit 3 is itself outside the sixteen (it is modernised before decoding)
example : "[Branch1_1]".toList ∉ Gen.indexAlphabet ∧ indexDigit (some "[Branch1_1]".toList) = 0 := by
  decide
example : getIndexFromSelfies [some "[Ring1]".toList, some "[F]".toList] = 16 := by decide

/-- a missing symbol at the end of the string counts as digit 0 -/
theorem C16_missing_zero : indexDigit none = 0 := rfl

/-- … so that `k` missing (or unknown) trailing symbols multiply the value read so far by `16 ^ k` -/
theorem C16_missing_shifts (syms pad : List (Option Str)) (hpad : ∀ c ∈ pad, indexDigit c = 0) :
    getIndexFromSelfies (syms ++ pad) = getIndexFromSelfies syms * 16 ^ pad.length :=
  getIndexFromSelfies_append_zero indexTablesOK syms pad hpad

example : getIndexFromSelfies ([some "[Ring2]".toList] ++ [none, none]) = 2 * 16 ^ 2 := by decide

/-! ### encoder side and round trip -/

/-- Round trip, for EVERY natural number: the encoder-side conversion succeeds (in particular
    the loop fuel `n + 1` of the model is never exhausted and no subscript fails) and the
    decoder-side conversion maps its result back to `n`. -/
theorem C16_roundtrip :
    ∀ n : Nat, ∃ syms, getSelfiesFromIndex (n : Int) = .ok syms
      ∧ getIndexFromSelfies (syms.map some) = n := by
  intro n
  refine ⟨_, getSelfiesFromIndex_nat indexTablesOK n, ?_⟩
  rw [getIndexFromSelfies_map_indexSym indexTablesOK _ (encDigits_lt n), hornerBE_encDigits]

set_option maxRecDepth 100000 in
example : getSelfiesFromIndex 57 = .ok ["[Branch1]".toList, "[O]".toList]
    ∧ getIndexFromSelfies (["[Branch1]".toList, "[O]".toList].map some) = 57 := by decide

set_option maxRecDepth 100000 in
example : getSelfiesFromIndex 4095 = .ok ["[P]".toList, "[P]".toList, "[P]".toList] := by decide

/-- every produced symbol is one of the sixteen index symbols -/
theorem C16_digits_in_alphabet (n : Nat) (syms : List Str)
    (h : getSelfiesFromIndex (n : Int) = .ok syms) : ∀ s ∈ syms, s ∈ Gen.indexAlphabet := by
  rw [(getSelfiesFromIndex_ok_iff indexTablesOK n syms).1 h]
  intro s hs
  obtain ⟨d, hd, rfl⟩ := List.mem_map.1 hs
  exact indexSym_mem indexTablesOK d (encDigits_lt n d hd)

set_option maxRecDepth 100000 in
example : getSelfiesFromIndex ((300 : Nat) : Int)
      = .ok ["[Ring1]".toList, "[Ring2]".toList, "[=C]".toList]
    ∧ ∀ s ∈ ["[Ring1]".toList, "[Ring2]".toList, "[=C]".toList], s ∈ Gen.indexAlphabet := by
  decide

/-- Shortest form.  For `n = 0` the result is exactly `[[C]]`.  For `n > 0` it is non-empty, its
    first symbol is not the digit-0 symbol `[C]` (indeed has a non-zero digit), and its length
    `len` satisfies `16 ^ (len - 1) ≤ n < 16 ^ len`. -/
theorem C16_shortest (n : Nat) (syms : List Str) (h : getSelfiesFromIndex (n : Int) = .ok syms) :
    (n = 0 → syms = ["[C]".toList])
    ∧ (0 < n →
        syms ≠ []
        ∧ syms.head? ≠ some "[C]".toList
        ∧ (∀ s, syms.head? = some s → indexDigit (some s) ≠ 0)
        ∧ 16 ^ (syms.length - 1) ≤ n
        ∧ n < 16 ^ syms.length) := by
  have hs := (getSelfiesFromIndex_ok_iff indexTablesOK n syms).1 h
  subst hs
  constructor
  · rintro rfl
    have : indexSym 0 = "[C]".toList := by decide
    simp [encDigits_zero, this]
  · intro hn
    have hnz : ∀ s, ((encDigits n).map indexSym).head? = some s → indexDigit (some s) ≠ 0 := by
      intro s hs
      cases hd : encDigits n with
      | nil => exact absurd hd (encDigits_ne_nil n)
      | cons d rest =>
        rw [hd] at hs
        simp only [List.map_cons, List.head?_cons, Option.some.injEq] at hs
        subst hs
        have hlt : d < 16 := encDigits_lt n d (by rw [hd]; exact List.mem_cons_self)
        rw [indexDigit_indexSym indexTablesOK d hlt]
        exact encDigits_head_ne_zero n hn d rest hd
    refine ⟨?_, ?_, hnz, ?_, ?_⟩
    · simpa using encDigits_ne_nil n
    · intro hc
      have h0 : indexDigit (some "[C]".toList) = 0 := by decide
      exact hnz _ hc h0
    · simpa using encDigits_length_lower n hn
    · simpa using encDigits_length_upper n

set_option maxRecDepth 100000 in
example : getSelfiesFromIndex ((256 : Nat) : Int)
      = .ok ["[Ring1]".toList, "[C]".toList, "[C]".toList]
    ∧ 16 ^ (3 - 1) ≤ 256 ∧ 256 < 16 ^ 3 := by decide

example : getSelfiesFromIndex ((0 : Nat) : Int) = .ok ["[C]".toList] := by decide

/-- Shortest among ALL decodings, for `n > 0`: no list of (present, missing or unknown) symbols
    that the decoder maps to `n` is shorter than the one the encoder writes.
    (For `n = 0` the encoder writes the one symbol `[C]` although the empty list also decodes
    to 0 — see the example below; the one-symbol form is what a `[Ring1]`/`[Branch1]` needs.) -/
theorem C16_shortest_among_decodings (n : Nat) (hn : 0 < n) (syms : List Str)
    (h : getSelfiesFromIndex (n : Int) = .ok syms)
    (syms' : List (Option Str)) (h' : getIndexFromSelfies syms' = n) :
    syms.length ≤ syms'.length := by
  have hs := (getSelfiesFromIndex_ok_iff indexTablesOK n syms).1 h
  subst hs
  have hlo := encDigits_length_lower n hn
  have hup := getIndexFromSelfies_lt indexTablesOK syms'
  rw [h'] at hup
  rw [List.length_map]
  apply Nat.le_of_not_lt
  intro hgt
  have : 16 ^ syms'.length ≤ 16 ^ ((encDigits n).length - 1) :=
    Nat.pow_le_pow_right (by omega) (by omega)
  omega

set_option maxRecDepth 100000 in
example : getSelfiesFromIndex ((57 : Nat) : Int) = .ok ["[Branch1]".toList, "[O]".toList]
    ∧ getIndexFromSelfies [some "[C]".toList, some "[Branch1]".toList, some "[O]".toList] = 57 := by
  decide
example : getIndexFromSelfies [] = 0 := by decide

/-- Canonical form: the produced list is the ONLY list of its length over the sixteen symbols
    that the decoder maps to `n` (so, with the previous theorem, the unique shortest one). -/
theorem C16_canonical (n : Nat) (syms : List Str) (h : getSelfiesFromIndex (n : Int) = .ok syms)
    (syms' : List Str) (hmem : ∀ s ∈ syms', s ∈ Gen.indexAlphabet)
    (hlen : syms'.length = syms.length)
    (hval : getIndexFromSelfies (syms'.map some) = n) : syms' = syms := by
  have hs := (getSelfiesFromIndex_ok_iff indexTablesOK n syms).1 h
  subst hs
  exact encoding_unique indexTablesOK n syms' hmem (by simpa using hlen) hval

set_option maxRecDepth 100000 in
example : getSelfiesFromIndex ((57 : Nat) : Int) = .ok ["[Branch1]".toList, "[O]".toList]
    ∧ (∀ s ∈ ["[Branch1]".toList, "[O]".toList], s ∈ Gen.indexAlphabet)
    ∧ getIndexFromSelfies (["[Branch1]".toList, "[O]".toList].map some) = 57
    -- a different list of the same length over the alphabet decodes to a different number
    ∧ getIndexFromSelfies (["[Branch1]".toList, "[N]".toList].map some) = 58 := by decide

/-- Length: the produced list has at most `k ≥ 1` symbols exactly when `n < 16 ^ k`. -/
theorem C16_length_le_iff (n k : Nat) (hk : 1 ≤ k) (syms : List Str)
    (h : getSelfiesFromIndex (n : Int) = .ok syms) : syms.length ≤ k ↔ n < 16 ^ k := by
  have hs := (getSelfiesFromIndex_ok_iff indexTablesOK n syms).1 h
  subst hs
  rw [List.length_map]
  exact encDigits_length_le_iff n k hk

/-- Every `n < 16 ^ 3` is written with at most three symbols (one if `n < 16`, two if
    `n < 256`) and — by `C16_roundtrip` — read back from them. -/
theorem C16_three_symbols (n : Nat) (syms : List Str)
    (h : getSelfiesFromIndex (n : Int) = .ok syms) :
    (n < 16 ^ 3 → syms.length ≤ 3) ∧ (n < 256 → syms.length ≤ 2) ∧ (n < 16 → syms.length ≤ 1) := by
  refine ⟨fun hn => (C16_length_le_iff n 3 (by omega) syms h).2 hn,
          fun hn => (C16_length_le_iff n 2 (by omega) syms h).2 (by omega),
          fun hn => (C16_length_le_iff n 1 (by omega) syms h).2 (by omega)⟩

/-- … and conversely a number that needs no more than three symbols is below `16 ^ 3`; the
    first number that does not fit is `16 ^ 3 = 4096`. -/
theorem C16_three_symbols_sharp (n : Nat) (syms : List Str)
    (h : getSelfiesFromIndex (n : Int) = .ok syms) : syms.length ≤ 3 ↔ n < 16 ^ 3 :=
  C16_length_le_iff n 3 (by omega) syms h

set_option maxRecDepth 100000 in
example : getSelfiesFromIndex ((4095 : Nat) : Int) = .ok ["[P]".toList, "[P]".toList, "[P]".toList]
    ∧ getSelfiesFromIndex ((4096 : Nat) : Int)
        = .ok ["[Ring1]".toList, "[C]".toList, "[C]".toList, "[C]".toList]
    ∧ getSelfiesFromIndex ((255 : Nat) : Int) = .ok ["[P]".toList, "[P]".toList]
    ∧ getSelfiesFromIndex ((15 : Nat) : Int) = .ok ["[P]".toList] := by decide

/-- the suffixes that exist: every branch and ring symbol of the library announces 1, 2 or 3
    index symbols -/
theorem C16_suffix_range :
    (∀ e ∈ Gen.branchTable, 1 ≤ e.2.2 ∧ e.2.2 ≤ 3)
    ∧ (∀ e ∈ Gen.ringTable, 1 ≤ e.2.2.1 ∧ e.2.2.1 ≤ 3) := by
  constructor <;> decide +kernel

example : ("[Branch3]".toList, (1, 3)) ∈ Gen.branchTable := by decide

/-- a negative index is rejected with `IndexError` -/
theorem C16_negative_rejected (n : Nat) :
    getSelfiesFromIndex (-((n : Int) + 1)) = .error .IndexError :=
  getSelfiesFromIndex_neg n

example : getSelfiesFromIndex (-1) = .error .IndexError := by decide

end SV
