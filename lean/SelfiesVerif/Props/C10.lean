/-
  Property C10 (symbol-level part).  Encoder output is always decodable, standardised …

  "For every SMILES the encoder accepts …, the returned string is a well-formed SELFIES string made
   only of symbols the decoder accepts under K, so decoding it under K never raises.  Equivalent
   spellings of an atom (e.g. [N+] and [N+1], [CH] and [CH1], [Fe++] and [Fe+2]) produce the same
   symbol."

  This file is about single symbols: the atom symbols `_atom_to_selfies` writes are read back by
  `_process_atom_selfies_no_cache` as the same bond information and the same atom, the branch and
  ring symbols `_fragment_to_selfies` writes are keys of the decoder's tables, none of them is
  taken for a symbol of another kind by the decoder's dispatch cascade, and equivalent SMILES
  spellings give equal atoms (hence equal symbols).

  Encoder side: `smilesToAtom` (`smiles_to_atom`), `atomToSmiles` (`atom_to_smiles`),
  `atomToSelfies` (`_atom_to_selfies`), `bondToSelfies`, `ringBondsToSelfies`, `ringSymbol`,
  `getSelfiesFromIndex`.  Decoder side: `processAtomSelfiesNoCache`
  (`_process_atom_selfies_no_cache`), `processBranchSymbol`, `processRingSymbol`, and the cascade
  `sliceFromEnd symbol 4 2 == "ch"` / `== "ng"` / `"eps" in symbol` of `deriveLoop`.

  The generated tables enter only through the side conditions `AsciiDigitsOK`, `ElementTablesOK`,
  `BranchRingTablesOK`, `IndexTablesOK` (all discharged by `decide`) and through the finite
  `decide` in `C10_branch_ring_symbols_accepted`.
-/
import SelfiesVerif.Proofs.AtomSymbols
import SelfiesVerif.Props.C16

namespace SV

/-- the side conditions of the general theorems hold of the generated tables -/
theorem C10_tables_ok : AsciiDigitsOK ∧ ElementTablesOK ∧ BranchRingTablesOK :=
  ⟨asciiDigitsOK, elementTablesOK, branchRingTablesOK⟩

/-! ### decimal digits (Proofs/Digits.lean), restated -/

/-- `str(n)` is made of ASCII digits, has no leading `'0'` unless `n = 0`, has at most
    `max k 1` characters when `n < 10 ^ k`, `\d`/`int()` give an ASCII digit its value, and
    `int(str(n)) = n` for every `n` (as a digit-value computation; `pyIntOfDigits` additionally
    refuses more than `sys.get_int_max_str_digits()` characters). -/
theorem C10_digits (n : Nat) :
    (∀ c ∈ natToStr n, isAsciiDigit c = true)
    ∧ ((natToStr n).head? = some '0' → n = 0)
    ∧ (∀ k, n < 10 ^ k → (natToStr n).length ≤ max k 1)
    ∧ (∀ c, isAsciiDigit c = true → decimalVal? c = some (c.toNat - 48))
    ∧ digitsVal ((natToStr n).map fun c => (decimalVal? c).getD 0) = n
    ∧ (n < 10 ^ Gen.intMaxStrDigits → pyIntOfDigits (natToStr n) = some n)
    ∧ (10 ^ Gen.intMaxStrDigits ≤ n → pyIntOfDigits (natToStr n) = none) :=
  ⟨natToStr_all_digits n, natToStr_head_zero n, fun k => natToStr_length_le n k,
   fun _ h => decimalVal?_of_isAsciiDigit asciiDigitsOK h, digitsVal_natToStr asciiDigitsOK n,
   pyIntOfDigits_natToStr asciiDigitsOK n, pyIntOfDigits_natToStr_big n⟩

example : natToStr 4300 = "4300".toList ∧ pyIntOfDigits "0013".toList = some 13
    ∧ decimalVal? '7' = some 7 := by decide

/-! ### the invariant of `smiles_to_atom` -/

/-- Every atom `smiles_to_atom` returns has an element of `ELEMENTS`, chirality `None`/`@`/`@@`,
    `h_count` either `None` (only on unbracketed atoms, which carry no isotope, chirality or
    charge) or `0 … 9`, an isotope below `10 ^ 4300`, and a charge whose magnitude is below
    `10 ^ 4300` or below the length of the token (a run of sign characters); an atom with
    `h_count = None` is aromatic or in the organic subset. -/
theorem C10_smilesToAtom_wf (tok : Str) (a : Atom) (h : smilesToAtom tok = some a) :
    AtomShape a
      ∧ (a.charge.natAbs < 10 ^ Gen.intMaxStrDigits ∨ a.charge.natAbs < tok.length)
      ∧ (a.hCount = none → a.isAromatic = true ∨ a.element ∈ Gen.organicSubset)
      ∧ (tok.length ≤ 10 ^ Gen.intMaxStrDigits → AtomWF a) :=
  have hs := smilesToAtom_shape tok a h elementTablesOK
  ⟨hs.1, hs.2.1, hs.2.2, smilesToAtom_wf elementTablesOK tok a h⟩

set_option maxRecDepth 100000 in
example : smilesToAtom "[13CH3+1]".toList
    = some { element := ['C'], isAromatic := false, isotope := some 13, chirality := none,
             hCount := some 3, charge := 1 } := by decide

/-! ### atom symbols are accepted and read back -/

/-- the bond prefixes `_atom_to_selfies` can write, with the `(order, stereo)` they denote -/
def atomBondPrefixes : List (Str × (Nat × Option Char)) :=
  [([], (1, none)), (['='], (2, none)), (['#'], (3, none)),
   (['/'], (1, some '/')), (['\\'], (1, some '\\'))]

theorem atomBondPrefixes_spec (bc : Str) (bi : Nat × Option Char) (h : (bc, bi) ∈ atomBondPrefixes) :
    ∃ o : Option Char, bc = o.toList ∧ (∀ c, o = some c → isBondChar c = true)
      ∧ selfiesBondInfo o = bi := by
  simp only [atomBondPrefixes, List.mem_cons, Prod.mk.injEq, List.not_mem_nil, or_false] at h
  rcases h with ⟨rfl, rfl⟩ | ⟨rfl, rfl⟩ | ⟨rfl, rfl⟩ | ⟨rfl, rfl⟩ | ⟨rfl, rfl⟩
  · exact ⟨none, rfl, by decide, by decide⟩
  · exact ⟨some '=', rfl, by decide, by decide⟩
  · exact ⟨some '#', rfl, by decide, by decide⟩
  · exact ⟨some '/', rfl, by decide, by decide⟩
  · exact ⟨some '\\', rfl, by decide, by decide⟩

/-- **General form.**  For every well-formed non-aromatic atom `a` (in particular the kekulized
    copy of an aromatic atom) and every bond prefix, `atom_to_smiles(a, brackets=False)` succeeds
    and the symbol `[` + prefix + body + `]` is accepted by `_process_atom_selfies_no_cache`, which
    returns the prefix's `(order, stereo)` and the atom `readback a`. -/
theorem C10_wf_atom_symbol_accepted (a : Atom) (hwf : AtomWF a) (harom : a.isAromatic = false)
    (bc : Str) (bi : Nat × Option Char) (hbc : (bc, bi) ∈ atomBondPrefixes) :
    ∃ body, atomToSmiles a false = .ok body ∧
      processAtomSelfiesNoCache ('[' :: (bc ++ body ++ [']'])) = some (bi, readback a) := by
  obtain ⟨o, rfl, ho, hbi⟩ := atomBondPrefixes_spec bc bi hbc
  obtain ⟨body, hb, hp⟩ := atom_symbol_readback asciiDigitsOK elementTablesOK a hwf harom o ho
  exact ⟨body, hb, by rw [hp, hbi]⟩

/-- what `readback` is: the atom itself whenever `h_count` is a number, or is `None` on an
    organic-subset element (both spell "no explicit H" and `None` stays `None`); only for
    `h_count = None` on a NON-organic element (the kekulized copy of an unbracketed aromatic
    `se`/`as`/`te`/`si`/`al`, which the SMILES tokenizer never produces) the symbol `[Se]` comes
    back with `h_count = 0`, all other fields unchanged. -/
theorem C10_readback_spec (a : Atom) :
    (∀ h, a.hCount = some h → readback a = a)
    ∧ (a.hCount = none → a.element ∈ Gen.organicSubset → readback a = a)
    ∧ (a.hCount = none → a.element ∉ Gen.organicSubset → readback a = { a with hCount := some 0 }) := by
  refine ⟨?_, ?_, ?_⟩
  · intro h hh; simp [readback, hh]
  · intro hh ho; simp [readback, hh, memStr_iff, ho]
  · intro hh ho; simp [readback, hh, memStr_iff, ho]

/-- `"{:+}".format(z)` for `z ≠ 0` is sign, a digit `1 … 9`, then ASCII digits — exactly the charge
    group `[+-][1-9][0-9]*` of `SELFIES_ATOM_PATTERN`: the scanner consumes all of it, and
    (within `int()`'s digit limit) `_process_atom_selfies_no_cache` computes `z` back from it. -/
theorem C10_charge_spelling (z : Int) (hz : z ≠ 0) :
    ∃ d ds, fmtPlus z = (if z < 0 then '-' else '+') :: d :: ds
      ∧ isDigit19 d = true ∧ (∀ c ∈ ds, isAsciiDigit c = true)
      ∧ takeSelfiesCharge (fmtPlus z ++ [']']) = (some ((if z < 0 then '-' else '+'), d :: ds), [']'])
      ∧ (z.natAbs < 10 ^ Gen.intMaxStrDigits →
          selfiesCharge (some ((if z < 0 then '-' else '+'), d :: ds)) = some z) :=
  fmtPlus_selfies_charge asciiDigitsOK z hz

example : fmtPlus (-12) = "-12".toList ∧ fmtPlus 3 = "+3".toList
    ∧ takeSelfiesCharge "-12]".toList = (some ('-', "12".toList), "]".toList)
    ∧ selfiesCharge (some ('-', "12".toList)) = some (-12) := by decide

/-
  FULL-STRENGTH statement as requested — FALSE of the model (and, for a string that long, of
  the Python code), see `C10_atom_symbol_length_bound_needed` below:

    theorem C10_atom_symbol_accepted_unrestricted (tok : Str) (a : Atom)
        (htok : smilesToAtom tok = some a) (harom : a.isAromatic = false)
        (bc : Str) (bi : Nat × Option Char) (hbc : (bc, bi) ∈ atomBondPrefixes) :
        ∃ body, atomToSmiles a false = .ok body ∧
          processAtomSelfiesNoCache ('[' :: (bc ++ body ++ [']'])) = some (bi, a)

  A run of `k ≥ 10 ^ 4300` sign characters gives charge `±k`, which is written with more than 4300
  digits and then refused by `int()`.  The theorem proved adds `tok.length ≤ 10 ^ 4300`, which
  every real string satisfies.
-/

/-- **C10, atom symbols.**  For every SMILES atom token `tok` (of physically possible length) that
    `smiles_to_atom` reads as a non-aromatic atom `a`, and every bond prefix
    `"" = # / \`, `atom_to_smiles(a, False)` succeeds with some `body` and the symbol
    `[` + prefix + `body` + `]` is accepted by `_process_atom_selfies_no_cache`, which returns the
    prefix's `(order, stereo)` and EXACTLY the atom `a` — element, isotope, chirality, charge,
    `is_aromatic = False` and `h_count` included: an unbracketed organic atom (`h_count = None`)
    is written `[C]` and comes back through the organic shortcut with `h_count = None`; a bracketed
    `[C]`/`[CH0]` (`h_count = 0`) is written `[CH0]` and comes back with `h_count = 0`.

    The hypothesis `hlen` cannot be dropped — see `C10_atom_symbol_length_bound_needed`. -/
theorem C10_atom_symbol_accepted (tok : Str) (a : Atom) (htok : smilesToAtom tok = some a)
    (hlen : tok.length ≤ 10 ^ Gen.intMaxStrDigits) (harom : a.isAromatic = false)
    (bc : Str) (bi : Nat × Option Char) (hbc : (bc, bi) ∈ atomBondPrefixes) :
    ∃ body, atomToSmiles a false = .ok body ∧
      processAtomSelfiesNoCache ('[' :: (bc ++ body ++ [']'])) = some (bi, a) := by
  have hs := smilesToAtom_shape tok a htok elementTablesOK
  have hwf := smilesToAtom_wf elementTablesOK tok a htok hlen
  obtain ⟨body, hb, hp⟩ := C10_wf_atom_symbol_accepted a hwf harom bc bi hbc
  refine ⟨body, hb, ?_⟩
  rw [hp]
  have : readback a = a := by
    cases hh : a.hCount with
    | some h => exact (C10_readback_spec a).1 h hh
    | none =>
      rcases hs.2.2 hh with h | h
      · rw [harom] at h; cases h
      · exact (C10_readback_spec a).2.1 hh h
  rw [this]

set_option maxRecDepth 100000 in
example :
    let a : Atom := { element := ['C'], isAromatic := false, isotope := some 13, chirality := none,
                      hCount := some 3, charge := 1 }
    smilesToAtom "[13CH3+]".toList = some a ∧ a.isAromatic = false
    ∧ (['='], ((2 : Nat), (none : Option Char))) ∈ atomBondPrefixes
    ∧ atomToSmiles a false = .ok "13CH3+1".toList
    ∧ processAtomSelfiesNoCache "[=13CH3+1]".toList = some ((2, none), a) := by decide

set_option maxRecDepth 100000 in
example :
    let a : Atom := { element := ['F', 'e'], isAromatic := false, isotope := none, chirality := none,
                      hCount := some 0, charge := 10 }
    smilesToAtom "[Fe++++++++++]".toList = some a
    ∧ atomToSmiles a false = .ok "Fe+10".toList
    ∧ processAtomSelfiesNoCache "[Fe+10]".toList = some ((1, none), a) := by decide

set_option maxRecDepth 100000 in
example :
    let a : Atom := { element := ['C'], isAromatic := false, isotope := none,
                      chirality := some ['@', '@'], hCount := some 1, charge := 0 }
    smilesToAtom "[C@@H]".toList = some a
    ∧ atomToSmiles a false = .ok "C@@H1".toList
    ∧ processAtomSelfiesNoCache "[C@@H1]".toList = some ((1, none), a)
    ∧ processAtomSelfiesNoCache "[\\C@@H1]".toList = some ((1, some '\\'), a) := by decide

set_option maxRecDepth 100000 in
example :
    let a : Atom := { element := ['C'], isAromatic := false }
    smilesToAtom "C".toList = some a ∧ a.hCount = none
    ∧ atomToSmiles a false = .ok "C".toList
    ∧ processAtomSelfiesNoCache "[/C]".toList = some ((1, some '/'), a)
    -- the bracketed spelling keeps `h_count = 0` apart: `[C]` (SMILES) ↦ `[CH0]` (SELFIES)
    ∧ smilesToAtom "[C]".toList = some { a with hCount := some 0 }
    ∧ atomToSmiles { a with hCount := some 0 } false = .ok "CH0".toList
    ∧ processAtomSelfiesNoCache "[CH0]".toList = some ((1, none), { a with hCount := some 0 }) := by
  decide

-- the one identification `readback` makes: `h_count = None` on a non-organic element
set_option maxRecDepth 100000 in
example :
    let a : Atom := { element := ['S', 'e'], isAromatic := false }
    smilesToAtom "se".toList = some { a with isAromatic := true }
    ∧ atomToSmiles a false = .ok "Se".toList
    ∧ processAtomSelfiesNoCache "[Se]".toList = some ((1, none), { a with hCount := some 0 })
    ∧ readback a = { a with hCount := some 0 } := by decide

/-- **The length hypothesis is necessary (in the model).**  The token `[C` + `10 ^ 4300` plus
    signs + `]` is read by `smiles_to_atom` as a carbon of charge `10 ^ 4300`; `atom_to_smiles`
    spells that charge with 4301 digits, which `int()` inside `_process_atom_selfies_no_cache`
    refuses: the symbol is rejected.  (No real string is that long.) -/
theorem C10_atom_symbol_length_bound_needed :
    ∃ a body,
      smilesToAtom ('[' :: 'C' :: (List.replicate (10 ^ Gen.intMaxStrDigits) '+' ++ [']'])) = some a
      ∧ a.isAromatic = false ∧ a.charge = ((10 ^ Gen.intMaxStrDigits : Nat) : Int)
      ∧ atomToSmiles a false = .ok body
      ∧ processAtomSelfiesNoCache ('[' :: (body ++ [']'])) = none := by
  have hpos : 0 < 10 ^ Gen.intMaxStrDigits := Nat.pow_pos (by omega)
  obtain ⟨k, hk⟩ : ∃ k, 10 ^ Gen.intMaxStrDigits = k + 1 := ⟨_, (Nat.sub_add_cancel hpos).symm⟩
  have hctx : SmilesCtxOK [] 'C' none [] none :=
    ⟨by simp, Or.inl (by decide), by simp, Or.inl rfl, by simp⟩
  have hb := smilesToAtom_build asciiDigitsOK [] 'C' none [] none
    (List.replicate (k + 1) '+') [] hctx (ChgOK.run '+' k (Or.inl rfl)) ClsOK.none
  have htok : smilesTok [] 'C' none [] none (List.replicate (k + 1) '+') []
      = '[' :: 'C' :: (List.replicate (10 ^ Gen.intMaxStrDigits) '+' ++ [']']) := by
    rw [hk]; simp [smilesTok, hTextM]
  rw [htok] at hb
  have hpost : smilesPost [] ['C'] [] none (List.replicate (k + 1) '+')
      = some { element := ['C'], isAromatic := false, isotope := none, chirality := none,
               hCount := some 0, charge := ((k + 1 : Nat) : Int) } := by
    have h1 : isoOf [] = some none := rfl
    have h2 : (!memStr (capitalizeAscii ['C']) Gen.elements) = false := by decide
    have h3 := smilesCharge_run asciiDigitsOK '+' (Or.inl rfl) k
    unfold smilesPost
    rw [h1, h3]
    simp only [h2, Bool.false_eq_true, if_false]
    rfl
  have hb := hb.trans hpost
  have hshape := (smilesToAtom_shape _ _ hb elementTablesOK).1
  obtain ⟨body, hbody, hrej⟩ := atom_symbol_rejected_big asciiDigitsOK elementTablesOK _ hshape rfl
    (by simp only [Int.natAbs_natCast]; omega) none (by simp)
  refine ⟨_, body, hb, rfl, by rw [hk], hbody, ?_⟩
  simpa using hrej

/-- **Encoder ⇒ decoder.**  Whatever `_atom_to_selfies(bond, atom)` returns for a well-formed atom
    is accepted by `_process_atom_selfies_no_cache`, which reads back order `bond.order`, the
    stereo mark of a single bond (`/`, `\`), and the atom. -/
theorem C10_atomToSelfies_accepted (bond : Option PBond) (a : Atom) (hwf : AtomWF a) (x : Str)
    (h : atomToSelfies bond a = .ok x) :
    a.isAromatic = false ∧ processAtomSelfiesNoCache x = some (encBondInfo bond, readback a) :=
  atomToSelfies_accepted asciiDigitsOK elementTablesOK bond a hwf x h

set_option maxRecDepth 100000 in
example :
    let a : Atom := { element := ['N'], isAromatic := false, isotope := none, chirality := none,
                      hCount := some 0, charge := 1 }
    let b : PBond := { src := 0, dst := 1, order2 := 4, stereo := none, ring := false }
    atomToSelfies (some b) a = .ok "[=N+1]".toList
    ∧ processAtomSelfiesNoCache "[=N+1]".toList = some ((2, none), a)
    ∧ encBondInfo (some b) = (2, none) ∧ readback a = a := by decide

/-! ### dispatch -/

/-- **C10, dispatch.**  An emitted atom symbol is never mis-dispatched by the decoder's cascade:
    its `[-4:-2]` slice is neither `"ch"` (branch) nor `"ng"` (ring) and it does not contain
    `"eps"` — for every element, isotope, chirality, H count, charge (of ANY magnitude) and bond
    prefix.  Reason: the only lowercase letter of such a symbol is the second letter of the
    element, so no two lowercase letters are adjacent (`hasLL … = false`). -/
theorem C10_atom_symbol_dispatch (tok : Str) (a : Atom) (htok : smilesToAtom tok = some a)
    (harom : a.isAromatic = false)
    (bc : Str) (bi : Nat × Option Char) (hbc : (bc, bi) ∈ atomBondPrefixes) :
    ∃ body, atomToSmiles a false = .ok body ∧
      hasLL ('[' :: (bc ++ body ++ [']'])) = false
      ∧ sliceFromEnd ('[' :: (bc ++ body ++ [']'])) 4 2 ≠ ['c', 'h']
      ∧ sliceFromEnd ('[' :: (bc ++ body ++ [']'])) 4 2 ≠ ['n', 'g']
      ∧ containsSub ('[' :: (bc ++ body ++ [']'])) ['e', 'p', 's'] = false := by
  have hs := (smilesToAtom_shape tok a htok elementTablesOK).1
  obtain ⟨o, rfl, ho, _⟩ := atomBondPrefixes_spec bc bi hbc
  obtain ⟨body, hb, hll⟩ := atom_symbol_hasLL elementTablesOK a hs harom o ho
  exact ⟨body, hb, hll, dispatch_of_not_hasLL _ hll⟩

set_option maxRecDepth 100000 in
example :
    let a : Atom := { element := ['S', 'c'], isAromatic := false, isotope := some 45,
                      chirality := some ['@'], hCount := some 0, charge := 3 }
    smilesToAtom "[45Sc@+++]".toList = some a ∧ a.isAromatic = false
    ∧ (['#'], ((3 : Nat), (none : Option Char))) ∈ atomBondPrefixes
    ∧ atomToSmiles a false = .ok "45Sc@+3".toList
    ∧ hasLL "[#45Sc@+3]".toList = false
    ∧ sliceFromEnd "[#45Sc@+3]".toList 4 2 = "@+".toList := by decide

/-- the same for any atom of the right shape (kekulized aromatic atoms included) -/
theorem C10_wf_atom_symbol_dispatch (a : Atom) (hs : AtomShape a) (harom : a.isAromatic = false)
    (bc : Str) (bi : Nat × Option Char) (hbc : (bc, bi) ∈ atomBondPrefixes) :
    ∃ body, atomToSmiles a false = .ok body ∧
      sliceFromEnd ('[' :: (bc ++ body ++ [']'])) 4 2 ≠ ['c', 'h']
      ∧ sliceFromEnd ('[' :: (bc ++ body ++ [']'])) 4 2 ≠ ['n', 'g']
      ∧ containsSub ('[' :: (bc ++ body ++ [']'])) ['e', 'p', 's'] = false := by
  obtain ⟨o, rfl, ho, _⟩ := atomBondPrefixes_spec bc bi hbc
  obtain ⟨body, hb, hll⟩ := atom_symbol_hasLL elementTablesOK a hs harom o ho
  exact ⟨body, hb, dispatch_of_not_hasLL _ hll⟩

set_option maxRecDepth 100000 in
example : sliceFromEnd "[Sc@]".toList 4 2 = "Sc".toList ∧ sliceFromEnd "[Tc@@]".toList 4 2 = "c@".toList
    ∧ sliceFromEnd "[=Mn+2]".toList 4 2 = "n+".toList ∧ sliceFromEnd "[Zn@H1]".toList 4 2 = "@H".toList
    ∧ sliceFromEnd "[Branch1]".toList 4 2 = "ch".toList ∧ sliceFromEnd "[=Ring2]".toList 4 2 = "ng".toList
    ∧ containsSub "[epsilon]".toList "eps".toList = true
    ∧ containsSub "[13Sn@@H1-2]".toList "eps".toList = false := by decide

/-! ### standardisation -/

/-- Equal atoms give equal symbols (behind any bond): the encoder's symbol is a function of the
    atom `smiles_to_atom` returns, not of its spelling. -/
theorem C10_standardised (t₁ t₂ : Str) (h : smilesToAtom t₁ = smilesToAtom t₂) (bond : Option PBond) :
    (smilesToAtom t₁).map (atomToSelfies bond) = (smilesToAtom t₂).map (atomToSelfies bond) := by
  rw [h]

set_option maxRecDepth 100000 in
example : smilesToAtom "[N+]".toList = smilesToAtom "[N+1]".toList
    ∧ (smilesToAtom "[N+]".toList).map (atomToSelfies none) = some (.ok "[N+1]".toList) := by decide

/-- **Charge spellings.**  In any bracketed atom (any isotope digits, any element-shaped name,
    chirality, H group, atom class), a run of `k + 1` sign characters and the sign followed by
    `str(k + 1)` are read as equal atoms, with charge `±(k + 1)`.  (`k + 1 < 10 ^ 4300` is needed:
    `int()` refuses longer digit strings while a run of signs has no such limit.) -/
theorem C10_std_charge_run (iso : Str) (e1 : Char) (e2 : Option Char) (chir : Str)
    (h : Option (Option Char)) (cls : Str) (hctx : SmilesCtxOK iso e1 e2 chir h) (hcls : ClsOK cls)
    (s : Char) (hs : s = '+' ∨ s = '-') (k : Nat) (hk : k + 1 < 10 ^ Gen.intMaxStrDigits) :
    smilesToAtom (smilesTok iso e1 e2 chir h (List.replicate (k + 1) s) cls)
      = smilesToAtom (smilesTok iso e1 e2 chir h (s :: natToStr (k + 1)) cls)
    ∧ ∀ a, smilesToAtom (smilesTok iso e1 e2 chir h (List.replicate (k + 1) s) cls) = some a →
        a.charge = signed s (k + 1) := by
  have h1 := smilesToAtom_build asciiDigitsOK iso e1 e2 chir h _ cls hctx (ChgOK.run s k hs) hcls
  have h2 := smilesToAtom_build asciiDigitsOK iso e1 e2 chir h _ cls hctx
    (ChgOK.natToStr asciiDigitsOK s hs (k + 1)) hcls
  have c1 := smilesCharge_run asciiDigitsOK s hs k
  have c2 := smilesCharge_natToStr asciiDigitsOK s (k + 1) hk
  refine ⟨?_, ?_⟩
  · rw [h1, h2]
    unfold smilesPost
    rw [c1, c2]
  · intro a ha
    rw [h1] at ha
    have := (smilesPost_charge _ _ _ _ _ a ha).1
    rw [c1] at this
    injection this with this
    exact this.symm

/-- `[E+]` = `[E+1]`, `[E-]` = `[E-1]`, `[E++]` = `[E+2]`, `[E--]` = `[E-2]`, in every context -/
theorem C10_std_charge_small (iso : Str) (e1 : Char) (e2 : Option Char) (chir : Str)
    (h : Option (Option Char)) (cls : Str) (hctx : SmilesCtxOK iso e1 e2 chir h) (hcls : ClsOK cls) :
    smilesToAtom (smilesTok iso e1 e2 chir h ['+'] cls)
      = smilesToAtom (smilesTok iso e1 e2 chir h ['+', '1'] cls)
    ∧ smilesToAtom (smilesTok iso e1 e2 chir h ['-'] cls)
      = smilesToAtom (smilesTok iso e1 e2 chir h ['-', '1'] cls)
    ∧ smilesToAtom (smilesTok iso e1 e2 chir h ['+', '+'] cls)
      = smilesToAtom (smilesTok iso e1 e2 chir h ['+', '2'] cls)
    ∧ smilesToAtom (smilesTok iso e1 e2 chir h ['-', '-'] cls)
      = smilesToAtom (smilesTok iso e1 e2 chir h ['-', '2'] cls) := by
  have h10 : 10 ^ 1 ≤ 10 ^ Gen.intMaxStrDigits := Nat.pow_le_pow_right (by omega) intMaxStrDigits_pos
  have h1 : 0 + 1 < 10 ^ Gen.intMaxStrDigits := by omega
  have h2 : 1 + 1 < 10 ^ Gen.intMaxStrDigits := by omega
  exact ⟨(C10_std_charge_run iso e1 e2 chir h cls hctx hcls '+' (Or.inl rfl) 0 h1).1,
    (C10_std_charge_run iso e1 e2 chir h cls hctx hcls '-' (Or.inr rfl) 0 h1).1,
    (C10_std_charge_run iso e1 e2 chir h cls hctx hcls '+' (Or.inl rfl) 1 h2).1,
    (C10_std_charge_run iso e1 e2 chir h cls hctx hcls '-' (Or.inr rfl) 1 h2).1⟩

set_option maxRecDepth 100000 in
example : smilesTok [] 'F' (some 'e') [] none ['+', '+'] [] = "[Fe++]".toList
    ∧ smilesTok [] 'F' (some 'e') [] none ['+', '2'] [] = "[Fe+2]".toList
    ∧ SmilesCtxOK [] 'F' (some 'e') [] none ∧ ClsOK []
    ∧ smilesToAtom "[Fe++]".toList = smilesToAtom "[Fe+2]".toList
    ∧ (smilesToAtom "[Fe++]".toList).map (·.charge) = some 2
    ∧ smilesTok ['1', '3'] 'C' none ['@', '@'] (some none) ['-'] [':', '7'] = "[13C@@H-:7]".toList := by
  refine ⟨by decide, by decide, ⟨by simp, Or.inl (by decide), ?_, Or.inl rfl, by simp⟩, ClsOK.none,
    by decide, by decide, by decide⟩
  intro c hc; cases hc; decide

/-- `[E+0]` = `[E-0]` = `[E]` (charge zero), in every context -/
theorem C10_std_charge_zero (iso : Str) (e1 : Char) (e2 : Option Char) (chir : Str)
    (h : Option (Option Char)) (cls : Str) (hctx : SmilesCtxOK iso e1 e2 chir h) (hcls : ClsOK cls)
    (s : Char) (hs : s = '+' ∨ s = '-') :
    smilesToAtom (smilesTok iso e1 e2 chir h [s, '0'] cls)
      = smilesToAtom (smilesTok iso e1 e2 chir h [] cls) := by
  have h0 : natToStr 0 = ['0'] := natToStr_zero
  have h1 := smilesToAtom_build asciiDigitsOK iso e1 e2 chir h _ cls hctx
    (ChgOK.natToStr asciiDigitsOK s hs 0) hcls
  rw [h0] at h1
  rw [h1, smilesToAtom_build asciiDigitsOK iso e1 e2 chir h [] cls hctx ChgOK.none hcls]
  have c := smilesCharge_natToStr asciiDigitsOK s 0 (Nat.pow_pos (by omega))
  rw [h0] at c
  have hz : signed s 0 = 0 := by unfold signed; split <;> rfl
  unfold smilesPost
  rw [c, hz]
  rfl

set_option maxRecDepth 100000 in
example : smilesTok [] 'C' none [] none ['-', '0'] [] = "[C-0]".toList
    ∧ smilesToAtom "[C-0]".toList = smilesToAtom "[C]".toList
    ∧ (smilesToAtom "[C-0]".toList).map (atomToSelfies none) = some (.ok "[CH0]".toList) := by decide

/-- **H spellings.**  `[…EH…]` and `[…EH1…]` are read as equal atoms (one explicit hydrogen). -/
theorem C10_std_H (iso : Str) (e1 : Char) (e2 : Option Char) (chir : Str) (chg cls : Str)
    (hctx : SmilesCtxOK iso e1 e2 chir none) (hchg : ChgOK chg) (hcls : ClsOK cls) :
    smilesToAtom (smilesTok iso e1 e2 chir (some none) chg cls)
      = smilesToAtom (smilesTok iso e1 e2 chir (some (some '1')) chg cls)
    ∧ ∀ a, smilesToAtom (smilesTok iso e1 e2 chir (some none) chg cls) = some a → a.hCount = some 1 := by
  have hc1 : SmilesCtxOK iso e1 e2 chir (some none) :=
    ⟨hctx.iso, hctx.e1, hctx.e2, hctx.chir, by intro d hd; cases hd⟩
  have hc2 : SmilesCtxOK iso e1 e2 chir (some (some '1')) :=
    ⟨hctx.iso, hctx.e1, hctx.e2, hctx.chir, by
      intro d hd; cases hd; exact isDecimal_of_isAsciiDigit asciiDigitsOK (by decide)⟩
  have h1 := smilesToAtom_build asciiDigitsOK iso e1 e2 chir _ chg cls hc1 hchg hcls
  have h2 := smilesToAtom_build asciiDigitsOK iso e1 e2 chir _ chg cls hc2 hchg hcls
  refine ⟨?_, ?_⟩
  · rw [h1, h2]
    unfold smilesPost
    rw [smilesHCount_H_eq_H1 asciiDigitsOK]
  · intro a ha
    rw [h1] at ha
    exact (smilesPost_charge _ _ _ _ _ a ha).2.1

set_option maxRecDepth 100000 in
example : smilesTok [] 'C' none [] (some none) [] [] = "[CH]".toList
    ∧ smilesTok [] 'C' none [] (some (some '1')) [] [] = "[CH1]".toList
    ∧ smilesToAtom "[CH]".toList = smilesToAtom "[CH1]".toList
    ∧ (smilesToAtom "[CH]".toList).map (atomToSelfies none) = some (.ok "[CH1]".toList) := by decide

/-- **Isotope spellings.**  Leading zeros of the isotope are dropped: `[013C]` = `[13C]`
    (as long as the digit string stays within what `int()` converts). -/
theorem C10_std_isotope_zeros (iso : Str) (e1 : Char) (e2 : Option Char) (chir : Str)
    (h : Option (Option Char)) (chg cls : Str) (hctx : SmilesCtxOK iso e1 e2 chir h)
    (hchg : ChgOK chg) (hcls : ClsOK cls) (hne : iso ≠ []) (k : Nat)
    (hlen : k + iso.length ≤ Gen.intMaxStrDigits) :
    smilesToAtom (smilesTok (List.replicate k '0' ++ iso) e1 e2 chir h chg cls)
      = smilesToAtom (smilesTok iso e1 e2 chir h chg cls) := by
  have hc' : SmilesCtxOK (List.replicate k '0' ++ iso) e1 e2 chir h :=
    ⟨by
      intro c hc
      rcases List.mem_append.1 hc with hc | hc
      · rw [(List.mem_replicate.1 hc).2]
        exact isDecimal_of_isAsciiDigit asciiDigitsOK (by decide)
      · exact hctx.iso c hc, hctx.e1, hctx.e2, hctx.chir, hctx.h⟩
  rw [smilesToAtom_build asciiDigitsOK _ e1 e2 chir h chg cls hc' hchg hcls,
    smilesToAtom_build asciiDigitsOK _ e1 e2 chir h chg cls hctx hchg hcls]
  unfold smilesPost
  rw [isoOf_leading_zeros asciiDigitsOK k iso hne hlen]

set_option maxRecDepth 100000 in
example : smilesTok (List.replicate 1 '0' ++ ['1', '3']) 'C' none [] none [] [] = "[013C]".toList
    ∧ smilesToAtom "[013C]".toList = smilesToAtom "[13C]".toList
    ∧ (smilesToAtom "[013C]".toList).map (atomToSelfies none) = some (.ok "[13C]".toList) := by decide

/-- **Atom class.**  An atom class `:n` is dropped. -/
theorem C10_std_class_dropped (iso : Str) (e1 : Char) (e2 : Option Char) (chir : Str)
    (h : Option (Option Char)) (chg cls : Str) (hctx : SmilesCtxOK iso e1 e2 chir h)
    (hchg : ChgOK chg) (hcls : ClsOK cls) :
    smilesToAtom (smilesTok iso e1 e2 chir h chg cls)
      = smilesToAtom (smilesTok iso e1 e2 chir h chg []) := by
  rw [smilesToAtom_build asciiDigitsOK iso e1 e2 chir h chg cls hctx hchg hcls,
    smilesToAtom_build asciiDigitsOK iso e1 e2 chir h chg [] hctx hchg ClsOK.none]

set_option maxRecDepth 100000 in
example : smilesTok [] 'O' none [] (some none) ['-'] [':', '1', '2'] = "[OH-:12]".toList
    ∧ smilesToAtom "[OH-:12]".toList = smilesToAtom "[OH-]".toList
    ∧ (smilesToAtom "[OH-:12]".toList).map (atomToSelfies none) = some (.ok "[OH1-1]".toList) := by
  decide

/-! ### branch and ring symbols -/

/-- the prefix of a branch symbol comes from `_bond_to_selfies(bond, show_stereo=False)`, the
    prefix of a ring symbol from `_ring_bonds_to_selfies(lbond, rbond)`: both lie in the finite
    lists `branchPrefixes` / `ringPrefixes`, paired with the order (and ring stereo) the decoder
    must read. -/
theorem C10_branch_ring_prefixes :
    (∀ (b : PBond) (pre : Str), bondToSelfies b false = .ok pre → (pre, b.order2 / 2) ∈ branchPrefixes)
    ∧ (∀ (l r : PBond) (pre : Str), ringBondsToSelfies l r = .ok pre →
        StereoOK l.stereo → StereoOK r.stereo →
        l.order2 = r.order2 ∧
        (pre, (l.order2 / 2, if l.order2 = 2 then (l.stereo, r.stereo) else (none, none)))
          ∈ ringPrefixes) :=
  ⟨bondToSelfies_false, ringBondsToSelfies_prefix⟩

example :
    let l : PBond := { src := 0, dst := 5, order2 := 2, stereo := some '/', ring := true }
    let r : PBond := { src := 5, dst := 0, order2 := 2, stereo := none, ring := true }
    ringBondsToSelfies l r = .ok ['/', '-'] ∧ StereoOK l.stereo ∧ StereoOK r.stereo
    ∧ bondToSelfies { l with order2 := 4 } false = .ok ['='] := by
  refine ⟨by decide, Or.inr (Or.inl rfl), Or.inl rfl, by decide⟩

/-- finite check behind `C10_branch_ring_symbols_accepted`: for `L = 1, 2, 3` and every prefix the
    encoder can write, the symbol is a key of the decoder's table with the matching order (and
    ring stereo) and `L`, and carries the tag the dispatch cascade looks for. -/
theorem C10_branch_ring_tables :
    ∀ L ∈ [1, 2, 3],
      (∀ p ∈ branchPrefixes,
        processBranchSymbol (ringSymbol p.1 "Branch".toList L) = some (p.2, L)
        ∧ sliceFromEnd (ringSymbol p.1 "Branch".toList L) 4 2 = ['c', 'h'])
      ∧ (∀ p ∈ ringPrefixes,
        processRingSymbol (ringSymbol p.1 "Ring".toList L) = some (p.2.1, L, p.2.2)
        ∧ sliceFromEnd (ringSymbol p.1 "Ring".toList L) 4 2 = ['n', 'g']) := by
  decide +kernel

/-- **C10, branch and ring symbols.**  For every ring distance / branch length `n < 16 ^ 3` the
    index code has `1 ≤ L ≤ 3` symbols, and for every prefix the encoder can write the symbol
    `[<prefix>Branch<L>]` / `[<prefix>Ring<L>]` is a key of `_PROCESS_BRANCH_CACHE` /
    `_PROCESS_RING_CACHE` with the matching bond order (and ring stereo) and the same `L`, and the
    dispatch cascade recognises it (`[-4:-2]` is `"ch"` resp. `"ng"`). -/
theorem C10_branch_ring_symbols_accepted (n : Nat) (hn : n < 16 ^ 3) :
    ∃ q, getSelfiesFromIndex (n : Int) = .ok q ∧ 1 ≤ q.length ∧ q.length ≤ 3
      ∧ (∀ p ∈ branchPrefixes,
          processBranchSymbol (ringSymbol p.1 "Branch".toList q.length) = some (p.2, q.length)
          ∧ sliceFromEnd (ringSymbol p.1 "Branch".toList q.length) 4 2 = ['c', 'h'])
      ∧ (∀ p ∈ ringPrefixes,
          processRingSymbol (ringSymbol p.1 "Ring".toList q.length) = some (p.2.1, q.length, p.2.2)
          ∧ sliceFromEnd (ringSymbol p.1 "Ring".toList q.length) 4 2 = ['n', 'g']) := by
  obtain ⟨q, hq, _⟩ := C16_roundtrip n
  have hle := (C16_three_symbols_sharp n q hq).2 hn
  have hpos : 1 ≤ q.length := by
    have hs := C16_shortest n q hq
    by_cases h0 : n = 0
    · rw [hs.1 h0]; decide
    · have := (hs.2 (by omega)).1
      cases q with
      | nil => exact absurd rfl this
      | cons _ _ => simp
  have hmem : q.length ∈ [1, 2, 3] := by
    simp only [List.mem_cons, List.not_mem_nil, or_false]; omega
  exact ⟨q, hq, hpos, hle, C10_branch_ring_tables q.length hmem⟩

set_option maxRecDepth 100000 in
example : getSelfiesFromIndex ((300 : Nat) : Int)
      = .ok ["[Ring1]".toList, "[Ring2]".toList, "[=C]".toList]
    ∧ ringSymbol ['='] "Branch".toList 3 = "[=Branch3]".toList
    ∧ processBranchSymbol "[=Branch3]".toList = some (2, 3)
    ∧ ringSymbol ['-', '\\'] "Ring".toList 3 = "[-\\Ring3]".toList
    ∧ processRingSymbol "[-\\Ring3]".toList = some (1, 3, (none, some '\\')) := by decide

/-- **The three-index-symbol limit.**  For `n ≥ 16 ^ 3` the index code has `L ≥ 4` symbols and the
    symbol `[<prefix>Branch<L>]` / `[<prefix>Ring<L>]` the encoder writes (for ANY prefix) is in
    neither table, so the decoder rejects it (for `4 ≤ L ≤ 9` the tag is still `"ch"`/`"ng"` and the
    failed table lookup is the `DecoderError`). -/
theorem C10_branch_ring_limit (n : Nat) (hn : 16 ^ 3 ≤ n) :
    ∃ q, getSelfiesFromIndex (n : Int) = .ok q ∧ 4 ≤ q.length
      ∧ ∀ pre kind : Str,
          processBranchSymbol (ringSymbol pre kind q.length) = none
          ∧ processRingSymbol (ringSymbol pre kind q.length) = none := by
  obtain ⟨q, hq, _⟩ := C16_roundtrip n
  have hlen : 4 ≤ q.length := by
    have := (C16_three_symbols_sharp n q hq)
    omega
  exact ⟨q, hq, hlen, fun pre kind => ringSymbol_not_in_tables branchRingTablesOK pre kind _ hlen⟩

theorem C10_branch_ring_limit_tag :
    ∀ L ∈ [4, 5, 6, 7, 8, 9],
      (∀ p ∈ branchPrefixes, sliceFromEnd (ringSymbol p.1 "Branch".toList L) 4 2 = ['c', 'h'])
      ∧ (∀ p ∈ ringPrefixes, sliceFromEnd (ringSymbol p.1 "Ring".toList L) 4 2 = ['n', 'g']) := by
  decide +kernel

set_option maxRecDepth 100000 in
example : getSelfiesFromIndex ((4096 : Nat) : Int)
      = .ok ["[Ring1]".toList, "[C]".toList, "[C]".toList, "[C]".toList]
    ∧ ringSymbol [] "Branch".toList 4 = "[Branch4]".toList
    ∧ processBranchSymbol "[Branch4]".toList = none
    ∧ processRingSymbol "[Ring4]".toList = none := by decide

end SV
