/-
  Property C05, main clause, END TO END for aromatic input —

  "For every SMILES containing aromatic atoms or bonds, if selfies.encoder succeeds then the emitted
   SELFIES decodes to a structure in which every aromatic atom that needs a pi bond has exactly one
   double bond inside the former aromatic system, atoms that donate a lone pair or are satisfied by
   charge or substituents have none, and the sigma skeleton, hydrogens and charges are unchanged; if
   no alternating single/double assignment exists it raises EncoderError."

  Composition: parser (`smilesToMol s = .ok p`, aromatic bonds have order 1.5 = `order2 = 3` and are
  listed in the delocalisation subgraph `p.ds`, `C03p_parser_pwf`) — kekulization (`C05_kekulize_sound`:
  `kekResult` of a perfect matching of the pruned subgraph) — `encodePrepare` (constraint check,
  chirality adjustment) — the round trip (`C03p_roundtrip_strings`: the decoder rebuilds the prepared
  graph atom for atom and bond for bond).

  `C05e_aromatic_end_to_end`.  Let `s` parse to `p` with a non-empty delocalisation subgraph (an
  aromatic atom or bond occurs) and let `encoder T s true tape = .ok sel`.  Then `kekulize` computed
  the kept atoms `kept` (the atoms `_prune_from_ds` does not prune: those that need a π bond), the
  pruned relabelled subgraph `pg`, and `find_perfect_matching(pg)` returned a list `mt`.
  IF `mt` is a perfect matching of `pg` — which holds whenever `pg` is bipartite (all rings of the
  aromatic system even; `C05_bipartite_sound`), and is an EXPLICIT HYPOTHESIS otherwise, because on
  non-bipartite graphs the blossom-free BFS can return a list that is not a matching (finding F9,
  `C05_no_blossom_witness`) — and spans and nesting depth fit (C03), then `decodeGraph T sel = .ok m`
  with `KekulizedAs p kept mt m`:
    * `m` has `p`'s atoms, index for index: same element, isotope, charge, H count; none aromatic
      (the `@`/`@@` tag may be inverted: C04);
    * the bond records of `m` are, as a multiset, those of `p` with every order replaced by
      `kekOrder`: order 1.5 becomes 2 if the two ends are matched to each other and 1 otherwise,
      every other order is kept — so (`KekulizedAs.sigma`, `.pi`, `.no_other`) every non-aromatic
      bond of `p` appears in `m` with its order, every aromatic bond with order 1 or 2, and `m` has
      no other bond;
    * for every atom `k` of the aromatic system, with aromatic neighbours `l = ds[k]`: the number of
      `b ∈ l` whose bond to `k` is double in `m` is 1 if `k` is kept and 0 if it is pruned;
    * `k` is kept iff `_prune_from_ds(k)` is `False` (`C05_prune_standard_kinds`: for the standard
      aromatic atom kinds that is "needs a π bond").

  `C05e_rejects_without_kekule_structure`.  The rejection clause as it is provable: if the pruned
  subgraph is bipartite, the tape is a legal record of `set.pop()` results, and `pg` has NO perfect
  matching, then `selfies.encoder` raises `EncoderError` (strict or not).  Without bipartiteness
  the clause is not available (C05c: the BFS is complete only where the flip is sound).
  `C05e_accepts_iff_kekule_structure_bipartite` puts the two together.

  Non-aromatic input (`p.ds = []`): `kekulize` is the identity and C03s applies as it stands.
-/
import SelfiesVerif.Props.C03s
import SelfiesVerif.Props.C05c
import SelfiesVerif.Proofs.KekulizeEnd

namespace SV
open C09

/-! ### the conclusion -/

/-- the decoded graph `m` is the parsed graph `p`, kekulized by the matching `mt` of the kept atoms -/
structure KekulizedAs (p : PMol) (kept : List Nat) (mt : Matching) (m : Mol) : Prop where
  /-- same number of atoms … -/
  natoms : m.atoms.length = p.atoms.length
  /-- … and the `i`-th atom keeps element, isotope, charge and hydrogen count and is not aromatic -/
  atoms : ∀ (i : Nat) (a b : Atom), p.atoms[i]? = some a → m.atoms[i]? = some b → AtomAgrees a b
  /-- the bonds of `m` are the bonds of `p`, orders replaced by `kekOrder` (as multisets of
      `(min, max, order in half units)`) -/
  bonds : (p.recordsWith (kekOrder (kept.mergeSort (· ≤ ·)) mt)).Perm m.records
  /-- atom `k` of the aromatic system with aromatic neighbours `l`: exactly one double bond into
      `l` if `k` is kept, none if it is pruned -/
  oneDouble : ∀ (k : Nat) (l : List Nat), (k, l) ∈ p.ds →
    (l.filter fun b => decide ((min k b, max k b, 4) ∈ m.records)).length = if k ∈ kept then 1 else 0
  /-- the kept atoms are the keys of the subgraph that `_prune_from_ds` does not prune -/
  keptIff : ∀ k, k ∈ kept ↔ k ∈ p.ds.map (·.1) ∧ p.pruneFromDs k = .ok false

theorem length_filterMap_map {α β γ : Type} (f : α → β) (g : α → γ) (row : List (Option α)) :
    (row.filterMap fun ob => ob.map f).length = (row.filterMap fun ob => ob.map g).length := by
  induction row with
  | nil => rfl
  | cons ob rest ih => cases ob <;> simp [ih]

/-- replacing orders does not change the number of bond records -/
theorem length_recordsWith (G G' : PBond → Nat) (p : PMol) :
    (p.recordsWith G).length = (p.recordsWith G').length := by
  unfold PMol.recordsWith
  simp only [List.length_flatMap]
  congr 1
  apply List.map_congr_left
  intro row _
  exact length_filterMap_map _ _ row

namespace KekulizedAs
variable {p : PMol} {kept : List Nat} {mt : Matching} {m : Mol}

/-- the sigma skeleton: every non-aromatic bond of `p` is a bond of `m` with the same order -/
theorem sigma (h : KekulizedAs p kept mt m) {i : Nat} {b : PBond} (hb : b ∈ rowAt p.adj i)
    (ho : b.order2 ≠ 3) : (min b.src b.dst, max b.src b.dst, b.order2) ∈ m.records := by
  refine h.bonds.mem_iff.1 (mem_recordsWith.2 ⟨i, b, hb, ?_⟩)
  simp only [kekOrder, if_neg ho]

/-- every aromatic bond of `p` is a bond of `m` of order 1 or 2 -/
theorem pi (h : KekulizedAs p kept mt m) {i : Nat} {b : PBond} (hb : b ∈ rowAt p.adj i)
    (ho : b.order2 = 3) :
    (min b.src b.dst, max b.src b.dst, 2) ∈ m.records ∨ (min b.src b.dst, max b.src b.dst, 4) ∈ m.records := by
  have := h.bonds.mem_iff.1 (mem_recordsWith.2 ⟨i, b, hb, rfl⟩)
  simp only [kekOrder, if_pos ho] at this
  split at this
  · exact .inr this
  · exact .inl this

/-- `m` has no other bond: every record of `m` is a stored bond of `p`, with its own order if that
    is not 1.5, with order 1 or 2 if it is; and the number of records is the same -/
theorem no_other (h : KekulizedAs p kept mt m) :
    m.records.length = p.records.length ∧
    ∀ r ∈ m.records, ∃ i, ∃ b ∈ rowAt p.adj i, r.1 = min b.src b.dst ∧ r.2.1 = max b.src b.dst ∧
      ((b.order2 ≠ 3 ∧ r.2.2 = b.order2) ∨ (b.order2 = 3 ∧ (r.2.2 = 2 ∨ r.2.2 = 4))) := by
  refine ⟨?_, fun r hr => ?_⟩
  · rw [← h.bonds.length_eq]
    exact length_recordsWith _ _ p
  · obtain ⟨i, b, hb, rfl⟩ := mem_recordsWith.1 (h.bonds.mem_iff.2 hr)
    refine ⟨i, b, hb, rfl, rfl, ?_⟩
    by_cases ho : b.order2 = 3
    · right
      refine ⟨ho, ?_⟩
      simp only [kekOrder, if_pos ho]
      split
      · exact .inr rfl
      · exact .inl rfl
    · left
      exact ⟨ho, by simp only [kekOrder, if_neg ho]⟩

end KekulizedAs

/-! ### helper lemmas -/

theorem invertChirality_fields (a : Atom) :
    a.invertChirality.element = a.element ∧ a.invertChirality.isotope = a.isotope ∧
    a.invertChirality.charge = a.charge ∧ a.invertChirality.hCount = a.hCount := by
  unfold Atom.invertChirality
  split
  · exact ⟨rfl, rfl, rfl, rfl⟩
  · split <;> exact ⟨rfl, rfl, rfl, rfl⟩

theorem deArom_getElem?_fields (keys : List Nat) (atoms : List Atom) (i : Nat) (a1 : Atom)
    (h : (deArom keys atoms)[i]? = some a1) :
    ∃ a, atoms[i]? = some a ∧ a1.element = a.element ∧ a1.isotope = a.isotope ∧
      a1.charge = a.charge ∧ a1.hCount = a.hCount := by
  simp only [deArom, List.getElem?_mapIdx] at h
  cases ha : atoms[i]? with
  | none => rw [ha] at h; cases h
  | some a =>
    rw [ha] at h
    simp only [Option.map_some, Option.some.injEq] at h
    refine ⟨a, rfl, ?_⟩
    rw [← h]
    split <;> exact ⟨rfl, rfl, rfl, rfl⟩

/-! ### the main clause -/

/-- **C05 end to end.**  See the file header. -/
theorem C05e_aromatic_end_to_end (T : Table) (s : Str) (tape : List Nat) (sel : Str) (p : PMol)
    (hlen : s.length ≤ 10 ^ Gen.intMaxStrDigits)
    (hs : smilesToMol s false = .ok p) (hne : p.ds.isEmpty = false)
    (henc : encoder T s true tape = .ok sel) :
    ∃ kept pg mt g f,
      keptNodes p = .ok kept ∧ prunedGraph p (kept.mergeSort (· ≤ ·)) = .ok pg ∧
      findPerfectMatching pg tape = .ok (some mt) ∧
      encodePrepare T s true false tape = .ok g ∧ forestOf g = some f ∧
      (Bipartite pg → PerfectMatching pg mt) ∧
      (PerfectMatching pg mt →
        (∀ t ∈ f, t.spanOK = true) → (∀ t ∈ f, t.bdepth + 1 < recursionBudget) →
        ∃ m, decodeGraph T sel = .ok m ∧ KekulizedAs p kept mt m) := by
  have hwf : PWF p := smilesToMol_pwf hs
  obtain ⟨g, f, hp, hf, _, hrt⟩ := C03p_roundtrip_strings T s tape sel hlen henc
  obtain ⟨g0, g1, hs0, hkek, ht⟩ := encodePrepare_inv hp
  rw [hs] at hs0
  injection hs0 with hs0
  subst hs0
  obtain ⟨kept, pg, mt, hk, hpg, hm⟩ := kekulize_ok_parts hne hkek
  have hpre : KekPre p kept (kept.mergeSort (· ≤ ·)) pg := ⟨hwf, hk, rfl, hpg⟩
  refine ⟨kept, pg, mt, g, f, hk, hpg, hm, hp, hf,
    fun hb => C05_bipartite_sound hb hpre.graphOK hm, ?_⟩
  intro hpm hspan hdepth
  have hctx : KekCtx p kept (kept.mergeSort (· ≤ ·)) pg mt := ⟨hwf, hk, rfl, hpg, hpm⟩
  have hg1 : g1 = kekResult p (kept.mergeSort (· ≤ ·)) mt := by
    have := kekulize_sound hctx hne hm
    rw [hkek] at this
    injection this with this
    injection this
  obtain ⟨m, hdec, hsame, hatoms⟩ := hrt hspan hdepth
  obtain ⟨_, _, t2, _, _, _, _, t7, t8⟩ := encodeTail_inv ht
  have hrec : g.records = p.recordsWith (kekOrder (kept.mergeSort (· ≤ ·)) mt) :=
    records_mapOrders _ p g (by rw [t2, hg1]; rfl)
  have hperm : (p.recordsWith (kekOrder (kept.mergeSort (· ≤ ·)) mt)).Perm m.records := by
    rw [← hrec]; exact hsame.2.2
  have hmem : ∀ k, k ∈ kept.mergeSort (· ≤ ·) ↔ k ∈ kept := fun k =>
    (List.mergeSort_perm kept _).mem_iff
  refine ⟨m, hdec, ?_, ?_, hperm, ?_, ?_⟩
  · rw [hatoms, t7, hg1]
    exact deArom_length _ _
  · intro i a b ha hb
    have hgb : g.atoms[i]? = some b := by rw [← hatoms]; exact hb
    have hna : b.isAromatic = false := (hsame.2.1 i b b hgb hb).2.2.2.2
    obtain ⟨a1, ha1, hor⟩ := t8 i b hgb
    rw [hg1] at ha1
    obtain ⟨a', ha', e1, e2, e3, e4⟩ := deArom_getElem?_fields _ _ i a1 ha1
    rw [ha] at ha'
    injection ha' with ha'
    subst ha'
    rcases hor with rfl | rfl
    · exact ⟨e1, e2, e3, e4, hna⟩
    · obtain ⟨c1, c2, c3, c4⟩ := invertChirality_fields a1
      exact ⟨c1.trans e1, c2.trans e2, c3.trans e3, c4.trans e4, hna⟩
  · intro k l hkl
    have hcount := hctx.double_bond_count hkl
    have hfilter : (l.filter fun b => decide ((min k b, max k b, 4) ∈ m.records))
        = l.filter fun b => matchedPair (kept.mergeSort (· ≤ ·)) mt k b := by
      apply List.filter_congr
      intro b hb
      have := double_record_iff hctx hkl hb
      rw [hperm.mem_iff] at this
      by_cases hc : matchedPair (kept.mergeSort (· ≤ ·)) mt k b = true
      · rw [hc]; exact decide_eq_true (this.2 hc)
      · have hc' : matchedPair (kept.mergeSort (· ≤ ·)) mt k b = false := by simpa using hc
        rw [hc']; exact decide_eq_false (fun hx => hc (this.1 hx))
    rw [hfilter, hcount]
    by_cases hk' : k ∈ kept
    · rw [if_pos hk', if_pos ((hmem k).2 hk')]
    · rw [if_neg hk', if_neg (fun hx => hk' ((hmem k).1 hx))]
  · intro k
    rw [← hmem k]
    exact hctx.mem_l2n

/-! ### the rejection clause -/

/-- **No Kekulé structure ⇒ `EncoderError`** (bipartite aromatic systems, legal tape): if the pruned
    delocalisation subgraph of the parsed input is bipartite and has no perfect matching, the
    encoder raises `EncoderError`, with `strict=True` or `False`, under every table. -/
theorem C05e_rejects_without_kekule_structure (T : Table) (s : Str) (strict : Bool) (tape : List Nat)
    (p : PMol) (kept : List Nat) (pg : Graph)
    (hs : smilesToMol s false = .ok p) (hne : p.ds.isEmpty = false)
    (hk : keptNodes p = .ok kept) (hp : prunedGraph p (kept.mergeSort (· ≤ ·)) = .ok pg)
    (hb : Bipartite pg) (ht : LegalTape pg tape) (hno : ¬ ∃ mt, PerfectMatching pg mt) :
    encoder T s strict tape = .error .EncoderError := by
  have hwf : PWF p := smilesToMol_pwf hs
  have hpre : KekPre p kept (kept.mergeSort (· ≤ ·)) pg := ⟨hwf, hk, rfl, hp⟩
  have hnone := (C05_bipartite_decides hpre.graphOK hb ht).2 hno
  have hkek := kekulize_none_of_matching_none hwf hne hk hp hnone
  rw [encoder_eq_prepare_encodeGraph, encodePrepare_eq, hs]
  simp only [hkek]
  rfl

/-- on bipartite aromatic systems and legal tapes: the encoder gets past kekulization exactly when
    a Kekulé structure (a perfect matching of the pruned subgraph) exists -/
theorem C05e_accepts_iff_kekule_structure_bipartite (s : Str) (tape : List Nat)
    (p : PMol) (kept : List Nat) (pg : Graph)
    (hs : smilesToMol s false = .ok p) (hne : p.ds.isEmpty = false)
    (hk : keptNodes p = .ok kept) (hp : prunedGraph p (kept.mergeSort (· ≤ ·)) = .ok pg)
    (hb : Bipartite pg) (ht : LegalTape pg tape) :
    (∃ g1, p.kekulize tape = .ok (some g1)) ↔ ∃ mt, PerfectMatching pg mt := by
  have hwf : PWF p := smilesToMol_pwf hs
  have hpre : KekPre p kept (kept.mergeSort (· ≤ ·)) pg := ⟨hwf, hk, rfl, hp⟩
  constructor
  · rintro ⟨g1, hg1⟩
    obtain ⟨kept', pg', mt, hk', hp', hm⟩ := kekulize_ok_parts hne hg1
    rw [hk] at hk'; injection hk' with hk'; subst hk'
    rw [hp] at hp'; injection hp' with hp'; subst hp'
    exact ⟨mt, C05_bipartite_sound hb hpre.graphOK hm⟩
  · intro hex
    obtain ⟨mt, _, _, h⟩ := C05_kekulize_complete_bipartite hwf hne hk rfl hp hb hex
      (tapeOK_of_legalTape hk hp ht)
    exact ⟨_, h⟩

/-! ### non-vacuity -/

/-- how the examples below get past `List.mergeSort` (defined by well-founded recursion, it does
    not reduce in the kernel): the encoder's result from the stages -/
theorem encoder_of_stages {T : Table} {s : Str} {tape : List Nat} {p g1 g : PMol} {sel : Str}
    (hs : smilesToMol s false = .ok p) (hk : p.kekulize tape = .ok (some g1))
    (ht : encodeTail T true g1 = .ok g) (he : encodeGraph g = .ok sel) :
    encodePrepare T s true false tape = .ok g ∧ encoder T s true tape = .ok sel := by
  have h1 : encodePrepare T s true false tape = .ok g := by
    rw [encodePrepare_eq, hs]; simp only [hk]; exact ht
  exact ⟨h1, by rw [encoder_eq_prepare_encodeGraph, h1]; exact he⟩

/-- pyrrole: the `[nH]` donates its lone pair and is pruned, the four carbons are kept -/
def c05ePyrrole : PMol := parsedOf "c1cc[nH]c1"
/-- the pruned subgraph of pyrrole: the path `C2 – C1 – C0 – C4` (labels 2, 1, 0, 3) -/
def c05ePath : Graph := [[1, 3], [0, 2], [1], [0]]
def c05ePyrroleKek : PMol := kekResult c05ePyrrole [0, 1, 2, 4] [some 3, some 2, some 1, some 0]
def c05ePyrrolePrepared : PMol := okOr {} (encodeTail c03T true c05ePyrroleKek)
def c05ePyrroleSel : Str := "[C][C][=C][NH1][C][=Ring1][Branch1]".toList

set_option maxRecDepth 100000 in
/-- **non-vacuity of `C05e_aromatic_end_to_end`** on pyrrole `c1cc[nH]c1`: every hypothesis holds
    (the encoder succeeds with `[C][C][=C][NH1][C][=Ring1][Branch1]`; the pruned subgraph is the
    bipartite path, its matching is perfect; spans and depth fit — and there are at most 99 ring
    bonds, so this is also an aromatic instance of the hypotheses of `C03s_roundtrip_output`), and
    the conclusion evaluated:
    the decoder's graph has the double bonds C0=C4 and C1=C2, none at the nitrogen (atom 3). -/
example :
    smilesToMol "c1cc[nH]c1".toList false = .ok c05ePyrrole ∧ c05ePyrrole.ds.isEmpty = false ∧
    "c1cc[nH]c1".toList.length ≤ 10 ^ Gen.intMaxStrDigits ∧
    encoder c03T "c1cc[nH]c1".toList true [] = .ok c05ePyrroleSel ∧
    keptNodes c05ePyrrole = .ok [0, 1, 2, 4] ∧
    prunedGraph c05ePyrrole (([0, 1, 2, 4] : List Nat).mergeSort (· ≤ ·)) = .ok c05ePath ∧
    findPerfectMatching c05ePath [] = .ok (some [some 3, some 2, some 1, some 0]) ∧
    Bipartite c05ePath ∧ PerfectMatching c05ePath [some 3, some 2, some 1, some 0] ∧
    encodePrepare c03T "c1cc[nH]c1".toList true false [] = .ok c05ePyrrolePrepared ∧
    (∃ f, forestOf c05ePyrrolePrepared = some f ∧ (∀ t ∈ f, t.spanOK = true) ∧
      (∀ t ∈ f, t.bdepth + 1 < recursionBudget) ∧ f.ringDigits ≤ 2 * 99) ∧
    (decodeGraph c03T c05ePyrroleSel).map (fun m => (m.records, m.atoms.map (·.isAromatic)))
      = .ok ([(0, 4, 4), (0, 1, 2), (1, 2, 4), (2, 3, 2), (3, 4, 2), (0, 4, 4)],
             [false, false, false, false, false]) := by
  have hsorted : ([0, 1, 2, 4] : List Nat).mergeSort (· ≤ ·) = [0, 1, 2, 4] :=
    List.mergeSort_of_pairwise (by decide)
  have hs : smilesToMol "c1cc[nH]c1".toList false = .ok c05ePyrrole := by decide +kernel
  have hne : c05ePyrrole.ds.isEmpty = false := by decide +kernel
  have hk : keptNodes c05ePyrrole = .ok [0, 1, 2, 4] := by decide +kernel
  have hp : prunedGraph c05ePyrrole [0, 1, 2, 4] = .ok c05ePath := by decide +kernel
  have hm : findPerfectMatching c05ePath [] = .ok (some [some 3, some 2, some 1, some 0]) := by decide
  have hpm : PerfectMatching c05ePath [some 3, some 2, some 1, some 0] :=
    (isPerfectMatching_iff _ _).1 (by decide)
  have hkek : c05ePyrrole.kekulize [] = .ok (some c05ePyrroleKek) :=
    C03p_kekulize_sound_parsed _ false hs hne hk hsorted.symm hp hm hpm
  have htail : encodeTail c03T true c05ePyrroleKek = .ok c05ePyrrolePrepared := by decide +kernel
  have henc : encodeGraph c05ePyrrolePrepared = .ok c05ePyrroleSel := by decide +kernel
  obtain ⟨e1, e2⟩ := encoder_of_stages hs hkek htail henc
  have hf : (match forestOf c05ePyrrolePrepared with
      | some f => decide ((∀ t ∈ f, t.spanOK = true) ∧ (∀ t ∈ f, t.bdepth + 1 < recursionBudget) ∧
          f.ringDigits ≤ 2 * 99)
      | none => false) = true := by decide +kernel
  refine ⟨hs, hne, by decide +kernel, e2, hk, by rw [hsorted]; exact hp, hm,
    bipartite_of_colouring (fun i => decide (i = 0 ∨ i = 2)) (by decide), hpm, e1, ?_, by decide +kernel⟩
  cases hfo : forestOf c05ePyrrolePrepared with
  | none => rw [hfo] at hf; cases hf
  | some f =>
    rw [hfo] at hf
    exact ⟨f, rfl, of_decide_eq_true hf⟩

/-- m-xylylene written with aromatic atoms, `c1cc(c)cc(c)c1`: a benzene ring with two exocyclic
    aromatic carbons in meta position; bipartite with colour classes 3 and 5 -/
def c05eXylylene : PMol := parsedOf "c1cc(c)cc(c)c1"
def c05eXylyleneGraph : Graph := [[1, 7], [0, 2], [1, 3, 4], [2], [2, 5], [4, 6, 7], [5], [5, 0]]

set_option maxRecDepth 100000 in
/-- **non-vacuity of `C05e_rejects_without_kekule_structure`**: all hypotheses hold for
    `c1cc(c)cc(c)c1` with the legal tape `[6]`, so the encoder raises `EncoderError` -/
example : smilesToMol "c1cc(c)cc(c)c1".toList false = .ok c05eXylylene ∧
    c05eXylylene.ds.isEmpty = false ∧ keptNodes c05eXylylene = .ok [0, 1, 2, 3, 4, 5, 6, 7] ∧
    prunedGraph c05eXylylene (([0, 1, 2, 3, 4, 5, 6, 7] : List Nat).mergeSort (· ≤ ·)) = .ok c05eXylyleneGraph ∧
    Bipartite c05eXylyleneGraph ∧ LegalTape c05eXylyleneGraph [6] ∧
    (¬ ∃ mt, PerfectMatching c05eXylyleneGraph mt) ∧
    encoder c03T "c1cc(c)cc(c)c1".toList true [6] = .error .EncoderError := by
  have hsorted : ([0, 1, 2, 3, 4, 5, 6, 7] : List Nat).mergeSort (· ≤ ·) = [0, 1, 2, 3, 4, 5, 6, 7] :=
    List.mergeSort_of_pairwise (by decide)
  have hs : smilesToMol "c1cc(c)cc(c)c1".toList false = .ok c05eXylylene := by decide +kernel
  have hne : c05eXylylene.ds.isEmpty = false := by decide +kernel
  have hk : keptNodes c05eXylylene = .ok [0, 1, 2, 3, 4, 5, 6, 7] := by decide +kernel
  have hp : prunedGraph c05eXylylene (([0, 1, 2, 3, 4, 5, 6, 7] : List Nat).mergeSort (· ≤ ·))
      = .ok c05eXylyleneGraph := by rw [hsorted]; decide +kernel
  have hg : GraphOK c05eXylyleneGraph := (isGraphOK_iff _).1 (by decide)
  have hb : Bipartite c05eXylyleneGraph :=
    bipartite_of_colouring (fun i => decide (i = 0 ∨ i = 2 ∨ i = 5)) (by decide)
  have ht : LegalTape c05eXylyleneGraph [6] :=
    legalTape_of_eq (m0 := [some 1, some 0, some 3, some 2, some 5, some 4, none, none])
      (by decide) (by decide)
  have hn : findPerfectMatching c05eXylyleneGraph [6] = .ok none := by decide
  have hno := (C05_bipartite_decides hg hb ht).1 hn
  exact ⟨hs, hne, hk, hp, hb, ht, hno,
    C05e_rejects_without_kekule_structure c03T _ true [6] _ _ _ hs hne hk hp hb ht hno⟩

end SV
