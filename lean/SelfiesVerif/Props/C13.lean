/-
  Property C13 — "[nop] padding is invisible to the decoder"

  Inserting or deleting any number of [nop] symbols at any positions of a SELFIES string - between
  atoms, directly after a branch or ring symbol where index symbols are read, inside branches,
  around dots - never changes what selfies.decoder returns or whether it raises.

  Formalisation (notions from Proofs/Tokenize.lean):
  * `NopIns a b`            : `b` is `a` with any number of `"[nop]"` symbols inserted at any
                              positions (`a` may itself already contain `[nop]`s, so the relation
                              read right-to-left is "deleting some of the `[nop]`s");
  * `NopInsertion a b`      : `NopIns a b ∧ WF b` (the padded string is still well formed).
  Since `[nop]` is a symbol, inserting it never produces a leading or doubled dot, so for
  well-formed `a` the padded `b` is automatically well formed (`C13_wf_insert`).

  The converse direction is where dot placement could matter: DELETING `[nop]`s from a well-formed
  string can leave a leading dot (`"[nop].[C]"` ↦ `".[C]"`) or a doubled dot
  (`"[C].[nop].[C]"` ↦ `"[C]..[C]"`), i.e. an item list that is no longer `WF`.  The decoder is
  insensitive to that as well: `decoder` first does `selfies.split(".")` and tokenises each
  fragment separately, `"[nop]"` and `""` both give an empty token stream, and an empty fragment
  derives nothing (`n = 0`, so even the attribution offset is unchanged).  Hence the strongest
  statement, `C13_nop_invisible_items`, needs NO dot-placement hypothesis at all: only that the
  padded list consists of symbols and dots.  `C13_nop_invisible` (the statement asked for) and
  `C13_nop_delete_all` are corollaries.  The equalities hold for all four flag combinations, in
  particular with `attrib = true` (tokens are numbered after `[nop]` is dropped, exactly as
  `enumerate(_tokenize_selfies(s))` does in the Python code).

  Proof route: corresponding fragments have equal token streams (`NopIns.tokens`, via
  `tokenizeFragment = specStream`), and `deriveFragments` uses the fragment strings only through
  `tokenizeFragment` (`deriveFragments_congr`).
-/
import SelfiesVerif.Proofs.Tokenize

namespace SV

/-- The decoder sees the same token stream for every fragment. -/
theorem C13_tokens_items (items items' : List Str) :
    (∀ x ∈ items', IsItem x) → NopIns items items' →
    (splitOnChar '.' (render items')).map tokenizeFragment =
      (splitOnChar '.' (render items)).map tokenizeFragment :=
  fun hit h => (h.tokens hit).symm

/-- Strongest form: any list of symbols and dots (dots anywhere, also leading / doubled /
    trailing), `[nop]`s inserted or deleted anywhere. -/
theorem C13_nop_invisible_items (T : Table) (items items' : List Str) (compat attrib : Bool) :
    (∀ x ∈ items', IsItem x) → NopIns items items' →
    decoderFull T (render items') compat attrib = decoderFull T (render items) compat attrib :=
  fun hit h => decoderFull_congr T compat attrib _ _ (C13_tokens_items items items' hit h)

theorem C13_nop_invisible_items_graph (T : Table) (items items' : List Str) (compat attrib : Bool) :
    (∀ x ∈ items', IsItem x) → NopIns items items' →
    decodeGraph T (render items') compat attrib = decodeGraph T (render items) compat attrib :=
  fun hit h => decodeGraph_congr T compat attrib _ _ (C13_tokens_items items items' hit h)

/-- Property C13 for well-formed strings. -/
theorem C13_nop_invisible (T : Table) (items items' : List Str) (compat attrib : Bool) :
    WF items → NopInsertion items items' →
    decoderFull T (render items') compat attrib = decoderFull T (render items) compat attrib :=
  fun _ h => C13_nop_invisible_items T items items' compat attrib h.2.1 h.1

/-- ... and for the molecular graph before it is written out. -/
theorem C13_nop_invisible_graph (T : Table) (items items' : List Str) (compat attrib : Bool) :
    WF items → NopInsertion items items' →
    decodeGraph T (render items') compat attrib = decodeGraph T (render items) compat attrib :=
  fun _ h => C13_nop_invisible_items_graph T items items' compat attrib h.2.1 h.1

/-- `[nop]` between atoms, directly after a branch symbol (where the index symbol is read), inside
    the branch, before and after a dot, at both ends -/
example :
    WF ["[C]".toList, "[Branch1]".toList, "[C]".toList, "[O]".toList, ['.'], "[N]".toList] ∧
    NopInsertion
      ["[C]".toList, "[Branch1]".toList, "[C]".toList, "[O]".toList, ['.'], "[N]".toList]
      ["[nop]".toList, "[C]".toList, "[nop]".toList, "[nop]".toList, "[Branch1]".toList,
       "[nop]".toList, "[C]".toList, "[nop]".toList, "[O]".toList, "[nop]".toList, ['.'],
       "[nop]".toList, "[N]".toList, "[nop]".toList] :=
  ⟨by decide,
   .ins (.keep _ (.ins (.ins (.keep _ (.ins (.keep _ (.ins (.keep _ (.ins (.keep _
     (.ins (.keep _ (.ins .nil))))))))))))),
   by decide⟩

/-- the conclusion is not an equation between two errors: under the default constraints both
    sides of the example above decode to `"CO.N"` (`[C]` after `[Branch1]` is read as the index) -/
example :
    (decoderFull ((Table.ofDict Gen.initialConstraints).getD { entries := [], dflt := 0 })
      "[nop][C][nop][nop][Branch1][nop][C][nop][O][nop].[nop][N][nop]".toList false true).map (·.1)
      = .ok "CO.N".toList ∧
    (decoderFull ((Table.ofDict Gen.initialConstraints).getD { entries := [], dflt := 0 })
      "[C][Branch1][C][O].[N]".toList false true).map (·.1) = .ok "CO.N".toList := by
  decide +kernel

/-- Deleting ALL `[nop]`s from a well-formed string, even when what is left is not well formed
    any more (`"[C].[nop].[C]"` ↦ `"[C]..[C]"`, `"[nop].[C]"` ↦ `".[C]"`). -/
theorem C13_nop_delete_all (T : Table) (items' : List Str) (compat attrib : Bool) :
    WF items' →
    decoderFull T (render (items'.filter (· != "[nop]".toList))) compat attrib =
      decoderFull T (render items') compat attrib :=
  fun h => (C13_nop_invisible_items T _ items' compat attrib h.1 (NopIns.filter items')).symm

theorem C13_nop_delete_all_graph (T : Table) (items' : List Str) (compat attrib : Bool) :
    WF items' →
    decodeGraph T (render (items'.filter (· != "[nop]".toList))) compat attrib =
      decodeGraph T (render items') compat attrib :=
  fun h => (C13_nop_invisible_items_graph T _ items' compat attrib h.1 (NopIns.filter items')).symm

example : WF ["[C]".toList, ['.'], "[nop]".toList, ['.'], "[C]".toList] ∧
    ¬ WF (["[C]".toList, ['.'], "[nop]".toList, ['.'], "[C]".toList].filter (· != "[nop]".toList)) ∧
    render (["[C]".toList, ['.'], "[nop]".toList, ['.'], "[C]".toList].filter (· != "[nop]".toList))
      = "[C]..[C]".toList := by decide

/-- Inserting `[nop]`s into a well-formed item list keeps it well formed, so the `WF items'`
    component of `NopInsertion` is automatic. -/
theorem C13_wf_insert (items items' : List Str) : WF items → NopIns items items' → WF items' := by
  intro hwf h
  exact (WF_iff_wfGo _).2 (h.wfGo false ((WF_iff_wfGo _).1 hwf))

theorem C13_nopInsertion_of_wf (items items' : List Str) :
    WF items → NopIns items items' → NopInsertion items items' :=
  fun hwf h => ⟨h, C13_wf_insert items items' hwf h⟩

end SV
