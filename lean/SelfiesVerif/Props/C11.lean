/-
  Property C11 (cache part) — "Translation is a pure function of the input and the current
  constraint table"

  The translators read capacities only through `get_bonding_capacity`, which is
  `functools.lru_cache`d (maxsize 128) and whose cache is cleared by every successful
  `set_semantic_constraints`.  The danger would be a stale entry: a capacity computed under an
  older table and still served after an update, or after the caller mutated a dict it got from /
  passed to the library.  The theorems below show this cannot happen, over ALL histories of API
  calls and caller-side mutations (`Op`, `run` from Proofs/Config.lean):

  * `C11_cache_coherent`            every cached entry equals what the uncached function computes
                                    from the current table now; at most 128 entries;
  * `C11_capacity_pure`             hence a call through the cache returns exactly
                                    `getBondingCapacity currentTable e c`, and so does the
                                    "effective" capacity the translators see;
  * `C11_alphabet_coherent_partial` the second lru_cache (`get_semantic_robust_alphabet`) is
                                    coherent as well in histories that never `.add` to the
                                    returned set.  At full strength this is FALSE: the cached set
                                    object is handed to the caller, who can mutate it
                                    (`C11_alphabet_incoherent_witness`, finding F7; see also
                                    `C12_alphabet_aliasing_witness`).

  Proof: `CacheSound` (every entry of the cache list is coherent - stronger than the lookup form
  `Coherent`, so it survives LRU eviction of a shadowing entry) is an invariant of `step`:
  `capacity` steps add only freshly computed values / move or evict entries, accepted updates
  empty the cache, rejected updates change nothing (C12_reject_atomic), and caller mutations
  cannot reach the current dict (`Inv`: privacy, C12_current_unaffected_by_mutation).
-/
import SelfiesVerif.Proofs.Config

namespace SV

/-- After ANY history the capacity cache is coherent with the current table. -/
theorem C11_cache_coherent (ops : List Op) : Coherent (run ops).1.1 :=
  (CacheSound.runFrom Inv.init (.nil rfl) ops).coherent

/-- non-vacuity: a history that fills the cache under one table, has an update rejected, has
    the caller mutate the dict it passed in and a dict it got back, installs a new table and fills
    the cache again: two live entries, with the values of the NEW table -/
example :
    (run [.capacity ['C'] 0, .capacity ['N'] 1, .capacity ['C'] 0, .setName "nope".toList,
          .newDict [(.str ['?'], .int 2), (.str ['C'], .int 3)], .setDict 0,
          .mutDict 0 (.str ['C']) (.int 7), .getConstraints, .mutDict 1 (.str ['C']) (.int 6),
          .capacity ['C'] 0, .capacity ['N'] 1]).1.1.capCache
      = [((['C'], 0), 3), ((['N'], 1), 2)] ∧
    (run [.capacity ['C'] 0, .capacity ['N'] 1, .capacity ['C'] 0]).1.1.capCache
      = [((['N'], 1), 4), ((['C'], 0), 4)] := by decide

/-- non-vacuity of the eviction path: 130 distinct keys leave 128 entries, the two least recently
    used ones (charges 0 and 1) are gone -/
example :
    (run ((List.range 130).map fun (i : Nat) => Op.capacity ['C'] (Int.ofNat i))).1.1.capCache.length
      = 128 ∧
    ((run ((List.range 130).map fun (i : Nat) => Op.capacity ['C'] (Int.ofNat i))).1.1.capCache.head?).map
      (·.1.2) = some 2 := by
  set_option maxRecDepth 100000 in decide +kernel

/-- What the translators see is a function of the current table only: in any reachable state a
    call of `get_bonding_capacity` through its lru_cache returns what the uncached function
    computes from the current table (same value or same exception), the cache-first reading
    `effectiveCapacity` agrees, and the call itself does not change the current table. -/
theorem C11_capacity_pure (ops : List Op) (e : Str) (c : Int) :
    (cachedCapacity (run ops).1.1 e c).2 = getBondingCapacity (run ops).1.1.currentTable e c ∧
    (run ops).1.1.effectiveCapacity e c = getBondingCapacity (run ops).1.1.currentTable e c ∧
    (cachedCapacity (run ops).1.1 e c).1.currentTable = (run ops).1.1.currentTable := by
  have hs := CacheSound.runFrom Inv.init (.nil rfl) ops
  refine ⟨cachedCapacity_snd hs e c, effectiveCapacity_eq hs.coherent e c, ?_⟩
  simp only [CfgState.currentTable, CfgState.dictOf, cachedCapacity_dicts, cachedCapacity_current]

/-- the same as an observation of a history: a `capacity` step observes the uncached value -/
theorem C11_capacity_obs (ops : List Op) (e : Str) (c : Int) :
    (step (run ops).1 (.capacity e c)).2
      = Obs.ofNat (getBondingCapacity (run ops).1.1.currentTable e c) := by
  rw [step_capacity, (C11_capacity_pure ops e c).1]

example :
    (step (run [.capacity ['C'] 0, .newDict [(.str ['?'], .int 2)], .setDict 0]).1
      (.capacity ['C'] 0)).2 = .nat 2 := by decide

/-- The alphabet cache is coherent in every history that never `.add`s to a set object:
    either nothing is cached or the cached object's value is the alphabet of the current table. -/
theorem C11_alphabet_coherent_partial (ops : List Op) (h : AlphaSafe ops) :
    (run ops).1.1.alphaCache = none ∨
    ∃ r, (run ops).1.1.alphaCache = some r ∧
      lookup r (run ops).1.1.sets = some (robustAlphabet (run ops).1.1.currentTable) := by
  have ha : AlphaOK (run ops).1.1 :=
    AlphaOK.runFrom Inv.init (by intro r hr; simp [CfgState.init] at hr) ops h
  cases hc : (run ops).1.1.alphaCache with
  | none => exact .inl rfl
  | some r => exact .inr ⟨r, rfl, ha r hc⟩

example :
    AlphaSafe [.getAlphabet, .getConstraints, .mutDict 1 (.str ['C']) (.int 0), .getAlphabet] ∧
    (run [.getAlphabet, .getConstraints, .mutDict 1 (.str ['C']) (.int 0), .getAlphabet]).1.1.alphaCache
      = some 4 := by decide

/-
  Full statement (FALSE):

    theorem C11_alphabet_coherent (ops : List Op) :
      (run ops).1.1.alphaCache = none ∨ ∃ r, (run ops).1.1.alphaCache = some r ∧
        lookup r (run ops).1.1.sets = some (robustAlphabet (run ops).1.1.currentTable)

  Counterexample: `s = get_semantic_robust_alphabet(); s.add("x")`.
-/
theorem C11_alphabet_incoherent_witness :
    (run [.getAlphabet, .mutSet 0 ['x']]).1.1.alphaCache = some 4 ∧
    lookup 4 (run [.getAlphabet, .mutSet 0 ['x']]).1.1.sets
      ≠ some (robustAlphabet (run [.getAlphabet, .mutSet 0 ['x']]).1.1.currentTable) := by
  decide

end SV
