/-
  Property C11, the translators linked to the memo model — "after any history of library calls …
  `decoder(x)` returns what a fresh interpreter set to the same current table returns".

  Props/C11.lean proves that the lru_cache of `get_bonding_capacity` is coherent over all
  histories; the translator models (`decoder T`, `encoder T`) take the table as a PARAMETER `T`.
  This file closes the gap between the two:

  (a) `C11t_table_only_through_capacity`   the translators read `T` only through the capacity
        function: two tables that answer every capacity query alike (`CapEq`, i.e.
        `∀ e c, T.capacity e c = T'.capacity e c`) give the same `decoder`, `decodeGraph`,
        `decoderFull`, `encoder`, `encoderFull`, for all inputs and flags.  Proved by congruence
        through the model's own definitions (Proofs/TableCongr.lean: `deriveLoop`, `formRings`,
        `deriveFragments`, `violatesConstraints`, `encodePrepare`; no copy of the model).
        `C11t_table_only_through_get_bonding_capacity`: the same with the hypothesis stated on the
        library's `get_bonding_capacity` of two accepted dicts.
        `C11t_encoder_nonstrict_table_free`: with `strict=False` the encoder reads no table at all.

  (b) over histories (`Op`, `run` of Proofs/Config.lean).  `ReadsThroughCache st Tc` says that `Tc`
        is the table AS SEEN THROUGH THE CACHE in state `st`: every capacity query is answered by
        `st.effectiveCapacity` (the lru_cache entry if there is one, else the current dict).
        `C11t_current_table_total`   after any history the current dict has a `?` entry, so the
                                     table `Tb` of a fresh reader exists (`Table.ofDict`);
        `C11t_translators_pure`      after any history, translating through the cache
                                     (any `Tc` with `ReadsThroughCache (run ops) Tc`) equals
                                     translating with `Tb`, the current table read afresh — for
                                     `decoder`, `decodeGraph`, `decoderFull`, `encoder`,
                                     `encoderFull`; and such a `Tc` exists;
        `C11t_history_independent`   two histories with the same current table (e.g. any history
                                     and a fresh interpreter set to that table) translate alike;
        `C11t_calls_during_translation`  the cache changes DURING a call (every capacity query
                                     may insert, reorder or evict): any sequence of
                                     `get_bonding_capacity` calls issued after the history returns
                                     `Tb.capacity` each time and leaves the current table alone, so
                                     `ReadsThroughCache` tables at any moment of the call are `CapEq`.

  What is assumed, not proved: that capacity queries are the ONLY way the real translators read
  module state (the inventory of Model/Memo.lean, re-derived from the source by the harness), and
  `_PROCESS_ATOM_CACHE`, whose values do not depend on the table (C19).
-/
import SelfiesVerif.Props.C11
import SelfiesVerif.Proofs.TableCongr
import SelfiesVerif.Proofs.Alphabet

namespace SV

/-! ### (a) the table is read only through the capacity function -/

/-- **The translators depend on the table only through its capacity function.** -/
theorem C11t_table_only_through_capacity {T T' : Table}
    (h : ∀ e c, T.capacity e c = T'.capacity e c) :
    (∀ x compat, decoder T x compat = decoder T' x compat) ∧
    (∀ x compat attrib, decodeGraph T x compat attrib = decodeGraph T' x compat attrib) ∧
    (∀ x compat attrib, decoderFull T x compat attrib = decoderFull T' x compat attrib) ∧
    (∀ s strict tape, encoder T s strict tape = encoder T' s strict tape) ∧
    (∀ s strict attrib tape, encoderFull T s strict attrib tape = encoderFull T' s strict attrib tape) :=
  ⟨decoder_capEq h, decodeGraph_capEq h, decoderFull_capEq h, encoder_capEq h, encoderFull_capEq h⟩

/-- the same with the hypothesis on the library function: two accepted dicts on which
    `get_bonding_capacity` agrees give the same translators -/
theorem C11t_table_only_through_get_bonding_capacity {C C' : Constraints} {T T' : Table}
    (hT : Table.ofDict C = some T) (hT' : Table.ofDict C' = some T')
    (h : ∀ e c, getBondingCapacity C e c = getBondingCapacity C' e c) :
    (∀ x compat, decoder T x compat = decoder T' x compat) ∧
    (∀ s strict tape, encoder T s strict tape = encoder T' s strict tape) :=
  let hc := capEq_of_getBondingCapacity hT hT' h
  ⟨decoder_capEq hc, encoder_capEq hc⟩

/-- two different tables (an entry listed twice: `dict` keeps the first position, `lookup` finds
    the first; and an explicit entry equal to the default) with the same capacity function -/
def c11tA : Table := { entries := [(['C'], 4), (['N'], 3)], dflt := 3 }
def c11tB : Table := { entries := [(['C'], 4), (['C'], 1)], dflt := 3 }

/-- non-vacuity of (a): `c11tA ≠ c11tB`, same capacities, and the decoder result under them differs
    from the default table's (so the table matters, only its capacity function does) -/
example : c11tA ≠ c11tB ∧ (∀ e c, c11tA.capacity e c = c11tB.capacity e c) ∧
    decoder c11tA "[S][=S][#S][F]".toList = .ok "S=SSF".toList ∧
    decoder c11tB "[S][=S][#S][F]".toList = .ok "S=SSF".toList ∧
    decoder { entries := Gen.preset_default, dflt := 8 } "[S][=S][#S][F]".toList = .ok "S=S#SF".toList := by
  refine ⟨by decide, ?_, by decide +kernel, by decide +kernel, by decide +kernel⟩
  intro e c
  unfold Table.capacity c11tA c11tB
  by_cases h1 : ['C'] = capKey e c <;> by_cases h2 : ['N'] = capKey e c <;> simp [lookup, h1, h2]

/-- **`strict=False`: no table is read.** -/
theorem C11t_encoder_nonstrict_table_free (T T' : Table) :
    (∀ s tape, encoder T s false tape = encoder T' s false tape) ∧
    (∀ s attrib tape, encoderFull T s false attrib tape = encoderFull T' s false attrib tape) :=
  ⟨encoder_nonstrict T T', encoderFull_nonstrict T T'⟩

set_option maxRecDepth 100000 in
/-- non-vacuity: pentavalent carbon is refused by the strict encoder under a table with
    `C ↦ 4`, and encoded by the non-strict one under every table -/
example : encoder c11tA "C(F)(F)(F)(F)F".toList true [] = .error .EncoderError ∧
    encoder c11tA "C(F)(F)(F)(F)F".toList false []
      = .ok "[C][Branch1][C][F][Branch1][C][F][Branch1][C][F][Branch1][C][F][F]".toList := by
  refine ⟨by decide +kernel, by decide +kernel⟩

/-! ### (b) over histories -/

/-- `Tc` is the table as the translators see it in state `st` THROUGH the lru_cache of
    `get_bonding_capacity`: a cached entry wins, otherwise the current dict is consulted
    (`CfgState.effectiveCapacity`, Model/Config.lean) -/
def ReadsThroughCache (st : CfgState) (Tc : Table) : Prop :=
  ∀ e c, st.effectiveCapacity e c = .ok (Tc.capacity e c)

/-- the current dict has a `?` entry -/
def HasDefault (st : CfgState) : Prop := ∃ Tb, Table.ofDict st.currentTable = some Tb

theorem HasDefault.of_eq {st st' : CfgState} (h : HasDefault st)
    (he : st'.currentTable = st.currentTable) : HasDefault st' := by
  unfold HasDefault; rw [he]; exact h

theorem init_presets_hasDefault :
    ∀ p ∈ CfgState.init.presets,
      (Table.ofDict (CfgState.init.dictOf p.2).toConstraints).isSome = true := by decide

theorem cachedCapacity_currentTable (st : CfgState) (e : Str) (c : Int) :
    (cachedCapacity st e c).1.currentTable = st.currentTable := by
  simp only [CfgState.currentTable, CfgState.dictOf, cachedCapacity_dicts, cachedCapacity_current]

theorem HasDefault.commit_valid {s : Cfg} (hi : Inv s) {d : PyDict}
    (hd : ∃ Tb, Table.ofDict d.toConstraints = some Tb) : HasDefault (s.1.commit d) := by
  unfold HasDefault; rw [currentTable_commit hi]; exact hd

theorem HasDefault.step {s : Cfg} (hi : Inv s) (h : HasDefault s.1) (op : Op) :
    HasDefault (step s op).1.1 := by
  cases op with
  | getPreset n =>
    rw [step_getPreset]; split
    · exact h
    · exact h.of_eq (currentTable_allocDict hi _)
  | getConstraints => rw [step_getConstraints]; exact h.of_eq (currentTable_allocDict hi _)
  | setName n =>
    rw [step_setName]; split
    · exact h
    · rename_i ref hl
      refine HasDefault.commit_valid hi ?_
      have hm : (n, ref) ∈ s.1.presets := lookup_some_mem hl
      rw [hi.presetsVal _ hm]
      rw [hi.presetsEq] at hm
      exact Option.isSome_iff_exists.mp (init_presets_hasDefault _ hm)
  | setDict i =>
    rw [step_setDict]; split
    · exact h
    · split
      · exact h
      · rename_i hv
        exact HasDefault.commit_valid hi (ofDict_of_valid hv)
  | setOther => exact h
  | getAlphabet =>
    rw [step_getAlphabet]; split
    · exact h
    · exact h.of_eq rfl
  | newDict d => rw [step_newDict]; exact h.of_eq (currentTable_allocDict hi _)
  | mutDict i k v =>
    rw [step_mutDict]; split
    · exact h
    · rename_i ref href
      exact h.of_eq (currentTable_mutateDict hi (List.mem_of_getElem? href) k v)
  | mutSet i x =>
    rw [step_mutSet]; split
    · exact h
    · exact h.of_eq rfl
  | capacity e c => rw [step_capacity]; exact h.of_eq (cachedCapacity_currentTable _ _ _)

theorem HasDefault.runFrom {s : Cfg} (hi : Inv s) (h : HasDefault s.1) (ops : List Op) :
    HasDefault (runFrom s ops).1.1 := by
  induction ops generalizing s with
  | nil => exact h
  | cons op ops ih => exact ih (hi.step op) (h.step hi op)

/-- **After any history the current table is total**: it has a `?` entry, `get_bonding_capacity`
    cannot raise `KeyError`, and the table `Tb` a fresh reader would build exists. -/
theorem C11t_current_table_total (ops : List Op) :
    ∃ Tb, Table.ofDict (run ops).1.1.currentTable = some Tb ∧
      Tb.entries = (run ops).1.1.currentTable :=
  let ⟨Tb, h⟩ := HasDefault.runFrom Inv.init (Option.isSome_iff_exists.mp (by decide)) ops
  ⟨Tb, h, ofDict_entries h⟩

/-- **C11 for the translators.**  After ANY history of API calls and caller-side mutations: let
    `Tb` be the current table read afresh (no cache).  Then `Tb` itself is a table as seen through
    the cache, and for EVERY table `Tc` as seen through the cache (stale entries would show up
    here) the decoder and the encoder return exactly what they return under `Tb`. -/
theorem C11t_translators_pure (ops : List Op) (Tb : Table)
    (hTb : Table.ofDict (run ops).1.1.currentTable = some Tb) :
    ReadsThroughCache (run ops).1.1 Tb ∧
    ∀ Tc, ReadsThroughCache (run ops).1.1 Tc →
      (∀ x compat, decoder Tc x compat = decoder Tb x compat) ∧
      (∀ x compat attrib, decodeGraph Tc x compat attrib = decodeGraph Tb x compat attrib) ∧
      (∀ x compat attrib, decoderFull Tc x compat attrib = decoderFull Tb x compat attrib) ∧
      (∀ s strict tape, encoder Tc s strict tape = encoder Tb s strict tape) ∧
      (∀ s strict attrib tape, encoderFull Tc s strict attrib tape = encoderFull Tb s strict attrib tape) := by
  have hb : ReadsThroughCache (run ops).1.1 Tb := fun e c => by
    rw [(C11_capacity_pure ops e c).2.1, getBondingCapacity_ofDict hTb]
  refine ⟨hb, fun Tc hc => C11t_table_only_through_capacity fun e c => ?_⟩
  have := (hc e c).symm.trans (hb e c)
  injection this

/-- **History independence.**  Two histories that end with the same current table — in
    particular any history and a fresh interpreter in which that table was installed — translate
    alike, whatever their caches hold. -/
theorem C11t_history_independent (ops ops' : List Op)
    (hcur : (run ops).1.1.currentTable = (run ops').1.1.currentTable) (Tc Tc' : Table)
    (hc : ReadsThroughCache (run ops).1.1 Tc) (hc' : ReadsThroughCache (run ops').1.1 Tc') :
    (∀ x compat, decoder Tc x compat = decoder Tc' x compat) ∧
    (∀ s strict tape, encoder Tc s strict tape = encoder Tc' s strict tape) := by
  have hcap : CapEq Tc Tc' := fun e c => by
    have h1 := (hc e c).symm.trans (C11_capacity_pure ops e c).2.1
    have h2 := (hc' e c).symm.trans (C11_capacity_pure ops' e c).2.1
    rw [hcur] at h1
    have := h1.trans h2.symm
    injection this
  exact ⟨decoder_capEq hcap, encoder_capEq hcap⟩

/-- the `get_bonding_capacity` calls a translation issues, as history steps -/
def capOps (calls : List (Str × Int)) : List Op := calls.map fun p => Op.capacity p.1 p.2

theorem run_snoc (ops : List Op) (op : Op) : (run (ops ++ [op])).1 = (step (run ops).1 op).1 := by
  unfold run
  rw [runFrom_append]
  rfl

/-- **During a translation.**  The cache is updated by the call itself.  Whatever sequence of
    `get_bonding_capacity` calls is issued after a history, each call returns the capacity of the
    current table read afresh, and the current table is left alone — so at every moment of the
    call the table seen through the cache is (`CapEq` to) `Tb`. -/
theorem C11t_calls_during_translation (ops : List Op) (Tb : Table)
    (hTb : Table.ofDict (run ops).1.1.currentTable = some Tb) (calls : List (Str × Int)) :
    (runFrom (run ops).1 (capOps calls)).2 = calls.map (fun p => Obs.nat (Tb.capacity p.1 p.2)) ∧
    (run (ops ++ capOps calls)).1.1.currentTable = (run ops).1.1.currentTable ∧
    ReadsThroughCache (run (ops ++ capOps calls)).1.1 Tb := by
  induction calls generalizing ops with
  | nil =>
    refine ⟨rfl, by simp [capOps], ?_⟩
    simp only [capOps, List.map_nil, List.append_nil]
    exact (C11t_translators_pure ops Tb hTb).1
  | cons p rest ih =>
    have hstep : (run (ops ++ [Op.capacity p.1 p.2])).1 = (step (run ops).1 (.capacity p.1 p.2)).1 :=
      run_snoc ops _
    have hcur : (run (ops ++ [Op.capacity p.1 p.2])).1.1.currentTable = (run ops).1.1.currentTable := by
      rw [hstep, step_capacity]; exact cachedCapacity_currentTable _ _ _
    have hTb' : Table.ofDict (run (ops ++ [Op.capacity p.1 p.2])).1.1.currentTable = some Tb := by
      rw [hcur]; exact hTb
    obtain ⟨i1, i2, i3⟩ := ih (ops ++ [Op.capacity p.1 p.2]) hTb'
    have happ : ops ++ capOps (p :: rest) = (ops ++ [Op.capacity p.1 p.2]) ++ capOps rest := by
      simp [capOps]
    refine ⟨?_, by rw [happ, i2, hcur], by rw [happ]; exact i3⟩
    show (runFrom (run ops).1 (Op.capacity p.1 p.2 :: capOps rest)).2 = _
    simp only [runFrom, List.map_cons]
    rw [← hstep, i1, C11_capacity_obs, getBondingCapacity_ofDict hTb]
    rfl

/-! ### non-vacuity -/

/-- a history: fill the cache under the default table, have an update rejected, install a table
    with `C ↦ 3`, mutate the dict that was passed in, fill the cache again -/
def c11tHistory : List Op :=
  [.capacity ['C'] 0, .capacity ['N'] 1, .setName "nope".toList,
   .newDict [(.str ['?'], .int 2), (.str ['C'], .int 3)], .setDict 0,
   .mutDict 0 (.str ['C']) (.int 7), .capacity ['C'] 0, .capacity ['N'] 1]

/-- a fresh interpreter in which the same table is installed -/
def c11tFresh : List Op := [.newDict [(.str ['?'], .int 2), (.str ['C'], .int 3)], .setDict 0]

set_option maxRecDepth 100000 in
/-- the two histories end with the same current table, the first with a non-empty cache, the
    second with an empty one; the table read afresh is `C ↦ 3, ? ↦ 2`, under which the decoder
    turns `[C][=C][#C][#C]` into `C=CC=C`, differently from the default table (`C=C=C=C`); three
    further capacity calls observe the new table's values -/
example : (run c11tHistory).1.1.currentTable = (run c11tFresh).1.1.currentTable ∧
    (run c11tHistory).1.1.capCache = [((['C'], 0), 3), ((['N'], 1), 2)] ∧
    (run c11tFresh).1.1.capCache = [] ∧
    Table.ofDict (run c11tHistory).1.1.currentTable
      = some { entries := [(['?'], 2), (['C'], 3)], dflt := 2 } ∧
    decoder { entries := [(['?'], 2), (['C'], 3)], dflt := 2 } "[C][=C][#C][#C]".toList = .ok "C=CC=C".toList ∧
    decoder { entries := Gen.preset_default, dflt := 8 } "[C][=C][#C][#C]".toList = .ok "C=C=C=C".toList ∧
    (runFrom (run c11tHistory).1 (capOps [(['C'], 0), (['O'], 0), (['C'], 0)])).2
      = [.nat 3, .nat 2, .nat 3] := by
  refine ⟨by decide +kernel, by decide +kernel, by decide +kernel, by decide +kernel, by decide +kernel,
    by decide +kernel, by decide +kernel⟩

/-- the table installed by both histories, read afresh -/
def c11tT : Table := { entries := [(['?'], 2), (['C'], 3)], dflt := 2 }

set_option maxRecDepth 100000 in
/-- non-vacuity of `C11t_translators_pure` / `C11t_history_independent`: their hypotheses hold for
    the two histories above with `Tc = Tc' = c11tT` (same current table; `c11tT` is the current
    table read afresh and is a table as seen through either cache) -/
example : (run c11tHistory).1.1.currentTable = (run c11tFresh).1.1.currentTable ∧
    Table.ofDict (run c11tHistory).1.1.currentTable = some c11tT ∧
    ReadsThroughCache (run c11tHistory).1.1 c11tT ∧ ReadsThroughCache (run c11tFresh).1.1 c11tT :=
  ⟨by decide +kernel, by decide +kernel,
   (C11t_translators_pure c11tHistory c11tT (by decide +kernel)).1,
   (C11t_translators_pure c11tFresh c11tT (by decide +kernel)).1⟩

end SV
