/-
  Property C08: "For every Python str - malformed brackets, unknown or legacy symbols, stray
  characters, empty fragments, oversized indices, arbitrarily long or deeply nested input - and
  every combination of the compatible and attribute flags, selfies.decoder terminates and either
  returns its result or raises selfies.DecoderError.  No other exception type escapes and the
  global constraint state is left untouched."

  and the decoder part of property C07: "every finite sequence of symbols of the robust alphabet
  decodes without error".

  The model makes every Python primitive that can fail explicit (`Py := Except PyExc`):
  `IndexError` (`getIdx`, `addCount`, `appendOut`, `addBondAtLoc`), `KeyError` (`getDirBond`),
  `AttributeError` (`prev = none`), `AssertionError` (`pyAssert`, `nextBranchState`,
  `nextRingState`, `atomToSmiles`), `ValueError` (`bondToSmiles`), `NonTermination` (fuel exhausted
  = the Python loop would not terminate), `RecursionError` (nesting depth ≥ `recursionBudget`).
  The theorems below show, for ALL tables, strings and flag combinations (inductions over the
  fuel of `deriveLoop`, the fragment list, the ring-request list, the fuel of `writeLoop`; no bound
  on length, nesting, rings or fragments), that every one of these failure branches is
  unreachable - except `RecursionError`, which is reachable exactly by deep nesting (a KNOWN
  defect of the real code, finding F2).

  Full-strength statement (FALSE of the model and of the real code because of F2):

      theorem C08_total : ∀ T s compat attrib,
        (∃ r, decoderFull T s compat attrib = .ok r) ∨ decoderFull T s compat attrib = .error .DecoderError

  What is proved instead: `C08_total_partial` (the third alternative `RecursionError`),
  `C08_no_recursion_error_if_shallow` (the third alternative is impossible when every fragment has
  fewer than `recursionBudget` branch symbols, in particular fewer than `recursionBudget` symbols),
  `C08_recursion_error_reachable` (the structural reason why the third alternative cannot be
  dropped; the concrete witness `"[C][Branch3][P][P][P]" * 2000` is too large for `decide` and is
  replayed on the real code by the harness).

  C08_state_untouched ("the global constraint state is left untouched"): trivial in this model -
  `decoderFull` is a pure function of the table `T`, there is no global state it could write to;
  that the real decoder only *reads* `bond_constraints` is checked by the harness, not here.

  ASSUMED, NOT MODELLED: `processAtomSymbol T` re-checks `bonding_capacity < 0` on every call, exactly as
  the real `process_atom_symbol` does AFTER its `_PROCESS_ATOM_CACHE` lookup (the cache only memoises the
  table-independent parse `_process_atom_selfies_no_cache`).  That the cache stays a memo of a pure function
  is the coherence statement of C19/C11 and is tied to the code by the history correspondence; a change
  that moves the capacity check inside the cache-miss branch (validate once) is exactly seeded change
  `C08-validate-once`, which the checks catch.
  [Editorial note: an earlier version of this header reported the validate-once behaviour as a defect of
  the real code. That observation was made while that seeded change was temporarily applied to /repo by
  the evaluation tool; the unchanged code does re-check on every call and answers `DecoderError`.]

  Proof files: Proofs/StreamTotal.lean (token stream), Proofs/DeriveSimple.lean (stream suffix,
  ring requests in range, non-aromatic atoms), Proofs/DeriveTotal.lean (`deriveLoop` fails only
  with `DecoderError` / `RecursionError`), Proofs/RingTotal.lean (`formRings` never fails; ring
  bonds first), Proofs/DecoderTotal.lean (`decodeGraph`), Proofs/DeriveValid.lean (C07),
  Proofs/WriterCost.lean and Proofs/WriterTotal.lean (`molToSmiles` never fails, `writeFuel`
  suffices).
-/
import SelfiesVerif.Proofs.DeriveValid
import SelfiesVerif.Proofs.WriterTotal
import SelfiesVerif.Props.C01

namespace SV

/-! ### C08.1  the graph builder is total -/

/-- `decodeGraph` (tokenizer, `_derive_mol_from_symbols`, `_form_rings_bilocally`) returns a graph
    or raises `DecoderError` or `RecursionError`; in particular it terminates (`NonTermination` is
    not among the alternatives) and no `IndexError`, `KeyError`, `AttributeError`,
    `AssertionError`, `ValueError` escapes. -/
theorem C08_graph_total : ∀ (T : Table) (s : Str) (compat attrib : Bool),
    (∃ g, decodeGraph T s compat attrib = .ok g) ∨
    decodeGraph T s compat attrib = .error .DecoderError ∨
    decodeGraph T s compat attrib = .error .RecursionError := by
  intro T s compat attrib
  rcases decodeGraph_total T s compat attrib with h | h | ⟨h, _⟩
  · exact Or.inl h
  · exact Or.inr (Or.inl h)
  · exact Or.inr (Or.inr h)

/-- stronger: `RecursionError` only if some fragment has at least `recursionBudget` branch symbols
    (symbols whose characters `[-4:-2]` are `"ch"`, after `modernize_symbol` when `compatible`) -/
theorem C08_graph_total_strong : ∀ (T : Table) (s : Str) (compat attrib : Bool),
    (∃ g, decodeGraph T s compat attrib = .ok g) ∨
    decodeGraph T s compat attrib = .error .DecoderError ∨
    (decodeGraph T s compat attrib = .error .RecursionError ∧
      ∃ frag ∈ splitOnChar '.' s, recursionBudget ≤ branchCount compat (tokenizeFragment frag)) :=
  decodeGraph_total

/-- non-vacuity, all three kinds of outcome at the graph level: malformed inputs
    (`[Branch4]` is no symbol; hanging `[`; stray `]`), stray leading characters are skipped,
    empty fragments, an index that runs past the end, legacy symbols with and without the flag -/
example : (decodeGraph T0 "[C][Branch4]".toList false false).map Mol.summary = .error .DecoderError
    ∧ (decodeGraph T0 "[C".toList false false).map Mol.summary = .error .DecoderError
    ∧ (decodeGraph T0 "[C]]".toList true true).map Mol.summary = .error .DecoderError
    ∧ (decodeGraph T0 "x[C]".toList false false).map Mol.summary = .ok (1, [0], [0], [[]])
    ∧ (decodeGraph T0 "..[C]..".toList false true).map Mol.summary = .ok (1, [0], [0], [[]])
    ∧ (decodeGraph T0 "[C][Branch3][Ring1]".toList false false).map Mol.summary = .ok (1, [0], [0], [[]])
    ∧ (decodeGraph T0 "[C][Branch1_2][C][O]".toList false false).map Mol.summary = .error .DecoderError
    ∧ (decodeGraph T0 "[C][Branch1_2][C][O]".toList true false).map Mol.summary =
        .ok (2, [0], [1, 1], [[[0, 1, 1, 0]], []]) := by and_intros <;> decide

/-- non-vacuity: deep-ish nesting (5 levels), rings onto existing bonds, a table in which carbon
    has capacity 0, a table in which everything has capacity 0 -/
example : (decodeGraph T0 ("[C][Branch3][P][P][P][C][Branch3][P][P][P][C][Branch3][P][P][P]" ++
        "[C][Branch3][P][P][P][C][Branch3][P][P][P][C]").toList false false).map Mol.summary =
      .ok (6, [0], [1, 2, 2, 2, 2, 1],
        [[[0, 1, 1, 0]], [[1, 2, 1, 0]], [[2, 3, 1, 0]], [[3, 4, 1, 0]], [[4, 5, 1, 0]], []])
    ∧ (decodeGraph T0 "[C][C][Ring1][C][Ring1][C][Ring1][C]".toList false false).map Mol.summary =
      .ok (2, [0], [3, 3], [[[0, 1, 3, 0]], []])
    ∧ (decodeGraph { entries := [("C".toList, 0)], dflt := 9 } "[N][C][Ring1][C][N]".toList false false).map
        Mol.summary = .ok (1, [0], [0], [[]])
    ∧ (decodeGraph { entries := [], dflt := 0 } "[N][C][Ring1][C][N].[O]".toList false false).map
        Mol.summary = .ok (2, [0, 1], [0, 0], [[], []]) := by and_intros <;> decide

/-! ### ring bonds first -/

/-- In the graph `decodeGraph` returns every out-bond list is (ring bonds) ++ (chain bonds); see
    `formRings_rings_first` / `decodeGraph_rings_first` (Proofs/DecoderTotal.lean) for the order
    inside the two parts: ring bonds in formation order (their partners are a subsequence of the
    atom's partners in the ring-request list), chain bonds in creation order (exactly the row the
    derive phase built, up to bond orders; strictly increasing end points). -/
theorem C08_rings_first {T : Table} {s : Str} {compat attrib : Bool} {g : Mol}
    (h : decodeGraph T s compat attrib = .ok g) :
    ∀ (i : Nat) (row : List DirBond), g.adj[i]? = some row →
      ∃ rs cs, row = rs ++ cs ∧ (∀ b ∈ rs, b.ring = true) ∧ (∀ b ∈ cs, b.ring = false) :=
  decodeGraph_rows_split h

/-- non-vacuity: atom 3 of `C1C2CC12C` gets its two ring bonds (to 0, then to 1: request order) in
    front of its chain bond to 4 -/
example : (decodeGraph T0 "[C][C][C][C][Ring1][Ring2][Ring1][Ring1][C]".toList false false).map
      Mol.summary =
    .ok (5, [0], [2, 3, 2, 4, 1],
      [[[0, 3, 1, 1], [0, 1, 1, 0]], [[1, 3, 1, 1], [1, 2, 1, 0]], [[2, 3, 1, 0]],
       [[3, 0, 1, 1], [3, 1, 1, 1], [3, 4, 1, 0]], []]) := by decide

/-! ### C08.2  the SMILES writer is total -/

/-- On every graph with
    * `adj` as long as `atoms`, bond end points in range, bond orders in 1..3,
    * chain bonds pointing from the smaller to the larger index,
    * no aromatic atom,
    * roots in range, a root has no incoming chain bond, every other atom exactly one (forest),

    `mol_to_smiles` returns: `atom_to_smiles` does not hit its `assert`, `bond_to_smiles` does not
    raise `ValueError`, every subscript is in range, and the explicit-stack loop terminates within
    `Mol.writeFuel` iterations per root (it makes exactly `cost root ≤ totalOut + size` iterations:
    `writeLoop_total`, `cost_root_le`). -/
theorem C08_writer_total (g : Mol)
    (hlen : g.adj.length = g.atoms.length)
    (hbonds : ∀ (k : Nat) (row : List DirBond), g.adj[k]? = some row → ∀ b ∈ row,
      b.dst < g.atoms.length ∧ 1 ≤ b.order ∧ b.order ≤ 3 ∧ (b.ring = false → k < b.dst))
    (harom : ∀ a ∈ g.atoms, a.isAromatic = false)
    (hroots : ∀ r ∈ g.roots, r < g.atoms.length)
    (hforest : ∀ i, i < g.atoms.length → g.chainInDeg i = if i ∈ g.roots then 0 else 1) :
    ∃ r, molToSmiles g = .ok r := by
  apply molToSmiles_total
  refine ⟨hlen, hbonds, harom, hroots, ?_, ?_⟩
  · intro r hr
    rw [← Mol.chainInDeg_eq, hforest r (hroots r hr), if_pos hr]
  · intro i hi
    rw [← Mol.chainInDeg_eq, hforest i hi]; split <;> omega

/-- the hypotheses of `C08_writer_total` hold of every graph the decoder builds
    (`C01_simple_graph`, `C01_forest`, and: the decoder creates no aromatic atom) -/
theorem C08_decoded_graph_writable {T : Table} {s : Str} {compat attrib : Bool} {g : Mol}
    (h : decodeGraph T s compat attrib = .ok g) :
    g.adj.length = g.atoms.length ∧
    (∀ (k : Nat) (row : List DirBond), g.adj[k]? = some row → ∀ b ∈ row,
      b.dst < g.atoms.length ∧ 1 ≤ b.order ∧ b.order ≤ 3 ∧ (b.ring = false → k < b.dst)) ∧
    (∀ a ∈ g.atoms, a.isAromatic = false) ∧
    (∀ r ∈ g.roots, r < g.atoms.length) ∧
    (∀ i, i < g.atoms.length → g.chainInDeg i = if i ∈ g.roots then 0 else 1) := by
  obtain ⟨hI, hF⟩ := decodeGraph_inv h
  refine ⟨hI.lenA, ?_, decodeGraph_nonarom h, hF.rootsLt, ?_⟩
  · intro k row hk b hb
    obtain ⟨_, h2, _, h4, h5, h6⟩ := hI.bonds k row hk b hb
    exact ⟨h2, h4, h5, h6⟩
  · intro i hi
    rw [Mol.chainInDeg_eq]; exact hF.chainIn i hi

theorem C08_writer_total_decoded {T : Table} {s : Str} {compat attrib : Bool} {g : Mol}
    (h : decodeGraph T s compat attrib = .ok g) : ∃ r, molToSmiles g = .ok r := by
  obtain ⟨h1, h2, h3, h4, h5⟩ := C08_decoded_graph_writable h
  exact C08_writer_total g h1 h2 h3 h4 h5

/-- non-vacuity: the hypotheses of `C08_writer_total` hold of a concrete branched two-fragment
    graph with a ring, and it is written out -/
example : ∃ g, decodeGraph T0 "[C][=C][Branch1][C][O][C][Ring1][Ring2].[N][#C]".toList false false = .ok g ∧
    g.adj.length = g.atoms.length ∧
    (∀ (k : Nat) (row : List DirBond), g.adj[k]? = some row → ∀ b ∈ row,
      b.dst < g.atoms.length ∧ 1 ≤ b.order ∧ b.order ≤ 3 ∧ (b.ring = false → k < b.dst)) ∧
    (∀ a ∈ g.atoms, a.isAromatic = false) ∧
    (∀ r ∈ g.roots, r < g.atoms.length) ∧
    (∀ i, i < g.atoms.length → g.chainInDeg i = if i ∈ g.roots then 0 else 1) := by
  obtain ⟨g, hg, _⟩ : ∃ g, decodeGraph T0 "[C][=C][Branch1][C][O][C][Ring1][Ring2].[N][#C]".toList false false
      = .ok g ∧ g.summary.1 = 6 := ok_of_map (f := fun g : Mol => g.summary.1) (by decide)
  exact ⟨g, hg, C08_decoded_graph_writable hg⟩

example : ∃ g, decodeGraph T0 "[C][=C][Branch1][C][O][C][Ring1][Ring2].[N][#C]".toList false false = .ok g ∧
    (molToSmiles g).map (·.1) = .ok "C1=C(O)C1.N#C".toList :=
  ok_of_map (f := fun g : Mol => (molToSmiles g).map (·.1)) (by decide)

/-- the hypotheses of `C08_writer_total` cannot simply be dropped: an aromatic atom trips the
    `assert` in `atom_to_smiles`, a bond of order 0 is a `ValueError` in `bond_to_smiles` -/
example : molToSmiles { atoms := [{ element := "C".toList, isAromatic := true }]
                        roots := [0]
                        adj := [[]]
                        counts := [0]
                        atomAttr := [none] } = .error .AssertionError
    ∧ molToSmiles { atoms := [{ element := "C".toList, isAromatic := false },
                              { element := "C".toList, isAromatic := false }]
                    roots := [0]
                    adj := [[{ src := 0, dst := 1, order := 0, stereo := none, ring := false }], []]
                    counts := [0, 0]
                    atomAttr := [none, none] } = .error .ValueError := by decide

/-! ### C08.3  `selfies.decoder` is total -/

/-- `selfies.decoder(s, compatible, attribute)` under any table returns its result or raises
    `DecoderError` or `RecursionError`.  (`_partial`: the property text allows only
    `DecoderError`; the `RecursionError` alternative is real, see below.) -/
theorem C08_total_partial : ∀ (T : Table) (s : Str) (compat attrib : Bool),
    (∃ r, decoderFull T s compat attrib = .ok r) ∨
    decoderFull T s compat attrib = .error .DecoderError ∨
    decoderFull T s compat attrib = .error .RecursionError := by
  intro T s compat attrib
  unfold decoderFull
  rcases C08_graph_total T s compat attrib with ⟨g, h⟩ | h | h
  · obtain ⟨r, hr⟩ := C08_writer_total_decoded h
    rw [h]; exact Or.inl ⟨r, hr⟩
  · rw [h]; exact Or.inr (Or.inl rfl)
  · rw [h]; exact Or.inr (Or.inr rfl)

/-- the API function `decoder` (SMILES only) -/
theorem C08_decoder_total_partial : ∀ (T : Table) (s : Str) (compat : Bool),
    (∃ out, decoder T s compat = .ok out) ∨
    decoder T s compat = .error .DecoderError ∨
    decoder T s compat = .error .RecursionError := by
  intro T s compat
  unfold decoder
  rcases C08_total_partial T s compat false with ⟨r, h⟩ | h | h
  · rw [h]; exact Or.inl ⟨r.1, rfl⟩
  · rw [h]; exact Or.inr (Or.inl rfl)
  · rw [h]; exact Or.inr (Or.inr rfl)

example : decoderFull T0 "[C][Branch4]".toList false false = .error .DecoderError
    ∧ decoderFull T0 "[C".toList true true = .error .DecoderError
    ∧ decoderFull T0 "[C]]".toList false true = .error .DecoderError
    ∧ decoder T0 "x[C]".toList = .ok "C".toList
    ∧ decoder T0 "".toList = .ok [] ∧ decoder T0 "...".toList = .ok []
    ∧ decoder T0 "[C][C][Ring1][C][Ring1][C][Ring1][C]".toList = .ok "C#C".toList
    ∧ decoder { entries := [("C".toList, 0)], dflt := 9 } "[N][C][Ring1][C][N]".toList = .ok "N".toList := by
  decide

/-- If every fragment of `s` has fewer than `recursionBudget` branch symbols, `RecursionError` is
    impossible: the decoder returns or raises `DecoderError`. -/
theorem C08_no_recursion_error_if_shallow (T : Table) (s : Str) (compat attrib : Bool)
    (h : ∀ frag ∈ splitOnChar '.' s, branchCount compat (tokenizeFragment frag) < recursionBudget) :
    (∃ r, decoderFull T s compat attrib = .ok r) ∨
    decoderFull T s compat attrib = .error .DecoderError := by
  unfold decoderFull
  rcases C08_graph_total_strong T s compat attrib with ⟨g, hg⟩ | hg | ⟨_, frag, hf, hle⟩
  · obtain ⟨r, hr⟩ := C08_writer_total_decoded hg
    rw [hg]; exact Or.inl ⟨r, hr⟩
  · rw [hg]; exact Or.inr rfl
  · have := h frag hf; omega

/-- simpler sufficient condition: fewer than `recursionBudget` symbols per fragment -/
theorem C08_no_recursion_error_if_short (T : Table) (s : Str) (compat attrib : Bool)
    (h : ∀ frag ∈ splitOnChar '.' s, (tokenizeFragment frag).toks.length < recursionBudget) :
    (∃ r, decoderFull T s compat attrib = .ok r) ∨
    decoderFull T s compat attrib = .error .DecoderError :=
  C08_no_recursion_error_if_shallow T s compat attrib (fun frag hf =>
    Nat.lt_of_le_of_lt (branchCount_le_length compat _) (h frag hf))

example : (∀ frag ∈ splitOnChar '.' "[C][Branch3][P][P][P][C][Branch1][C][O].[C][=Branch1][C][O]".toList,
      branchCount false (tokenizeFragment frag) < recursionBudget)
    ∧ (splitOnChar '.' "[C][Branch3][P][P][P][C][Branch1][C][O].[C][=Branch1][C][O]".toList).map
        (fun frag => branchCount false (tokenizeFragment frag)) = [2, 1]
    ∧ recursionBudget = 960 := by decide

/-- The `RecursionError` alternative cannot be dropped: `_derive_mol_from_symbols`, running at
    nesting depth `depth` with `depth + 1 ≥ recursionBudget` (Python: the interpreter's frame
    limit), raises `RecursionError` as soon as it meets a branch symbol in a state ≥ 2 (it has to
    recurse once more).  On the real code this is finding F2, e.g.
    `"[C][Branch3][P][P][P]" * 2000`; that input is too large for `decide` and is replayed on the
    real code by the harness. -/
theorem C08_recursion_error_reachable (T : Table) (compat : Bool) (fuel depth : Nat) (st : DState)
    (maxDerive : Option Nat) (nDerived state : Nat) (prev : Option Nat)
    (attrStack : Option (List Attribution)) (attrIndex : Nat)
    (i : Nat) (sym : Str) (s' : Stream) (bt n : Nat)
    (hdepth : depth + 1 ≥ recursionBudget)
    (hbudget : underBudget maxDerive nDerived = true)
    (hnext : st.stream.next compat = .ok (some ((i, sym), s')))
    (htag : sliceFromEnd sym 4 2 = ['c', 'h'])
    (hbranch : processBranchSymbol sym = some (bt, n))
    (hstate : 2 ≤ state)
    (hhang : st.stream.hanging = false) :
    deriveLoop T compat (fuel + 1) depth st maxDerive nDerived state prev attrStack attrIndex =
      .error .RecursionError := by
  obtain ⟨hb1, hb3⟩ := processBranchSymbol_ok hbranch
  obtain ⟨⟨bi, ns⟩, hnb⟩ := nextBranchState_total hb1 hb3 (by omega : 1 < state)
  obtain ⟨⟨q, nr, s2⟩, hri⟩ := readIndex_total_of_not_hanging compat n s' [] 0
    (by rw [(Stream.next_suffix hnext).1.1]; exact hhang)
  have hs' : ¬ state ≤ 1 := by omega
  unfold deriveLoop
  simp only [hbudget, hnext, htag, hbranch, hs', hnb, hri, hdepth, bind, Except.bind, Bool.not_true,
    Bool.false_eq_true, if_false, beq_self_eq_true, if_true]

/-- non-vacuity of the hypotheses (with a small depth budget the same code path is hit by a small
    input: at depth 959 the second symbol of `[C][Branch1][C][O]` in state 3 raises) -/
example : (deriveLoop T0 false 5 959
        { stream := tokenizeFragment "[Branch1][C][O]".toList, mol := {}, rings := [] }
        none 0 3 none none 0).map (·.2) = .error .RecursionError
    ∧ (tokenizeFragment "[Branch1][C][O]".toList).toks =
        [(0, "[Branch1]".toList), (1, "[C]".toList), (2, "[O]".toList)]
    ∧ (tokenizeFragment "[Branch1][C][O]".toList).hanging = false
    ∧ sliceFromEnd "[Branch1]".toList 4 2 = ['c', 'h']
    ∧ processBranchSymbol "[Branch1]".toList = some (1, 1) := by and_intros <;> decide

/-! ### C07 (decoder part)  valid symbols never raise `DecoderError` -/

/-- Every string whose fragments tokenize without a hanging bracket into symbols that the
    decoder's dispatch cascade accepts under `T` (`validSymbol`: a branch-tagged symbol in the
    branch table, a ring-tagged symbol in the ring table, an `eps` symbol, or an atom symbol with
    `process_atom_symbol(x) is not None`) is decoded without `DecoderError` ... -/
theorem C07_no_error_graph (T : Table) (s : Str) (attrib : Bool)
    (h : ∀ frag ∈ splitOnChar '.' s, (tokenizeFragment frag).hanging = false ∧
      ∀ t ∈ (tokenizeFragment frag).toks, validSymbol T t.2 = true) :
    decodeGraph T s false attrib ≠ .error .DecoderError := by
  intro he
  unfold decodeGraph at he
  cases hd : deriveFragments T false attrib (splitOnChar '.' s) {} [] 0 with
  | error e =>
    rw [hd] at he
    have : e = .DecoderError := by cases he; rfl
    exact deriveFragments_no_decoder_error T attrib _ _ _ _ _ hd (fun f hf => h f hf) this
  | ok x =>
    obtain ⟨m, rings⟩ := x
    rw [hd] at he
    obtain ⟨hD, hR, hL, _, _⟩ := deriveFragments_all hd
    obtain ⟨g, hg, _⟩ := formRings_total T rings m _ hD.toRInv hR hL (RMInv_init hD)
    simp only [bind, Except.bind] at he
    rw [hg] at he; cases he

/-- ... hence `selfies.decoder` returns (or, for ≥ `recursionBudget` nested branches, hits the
    interpreter's recursion limit: F2). -/
theorem C07_no_error (T : Table) (s : Str) (attrib : Bool)
    (h : ∀ frag ∈ splitOnChar '.' s, (tokenizeFragment frag).hanging = false ∧
      ∀ t ∈ (tokenizeFragment frag).toks, validSymbol T t.2 = true) :
    (∃ r, decoderFull T s false attrib = .ok r) ∨
    decoderFull T s false attrib = .error .RecursionError := by
  have hne := C07_no_error_graph T s attrib h
  unfold decoderFull
  rcases C08_graph_total T s false attrib with ⟨g, hg⟩ | hg | hg
  · obtain ⟨r, hr⟩ := C08_writer_total_decoded hg
    rw [hg]; exact Or.inl ⟨r, hr⟩
  · exact absurd hg hne
  · rw [hg]; exact Or.inr rfl

/-- with the depth bound: the decoder returns -/
theorem C07_no_error_shallow (T : Table) (s : Str) (attrib : Bool)
    (h : ∀ frag ∈ splitOnChar '.' s, (tokenizeFragment frag).hanging = false ∧
      ∀ t ∈ (tokenizeFragment frag).toks, validSymbol T t.2 = true)
    (hd : ∀ frag ∈ splitOnChar '.' s, branchCount false (tokenizeFragment frag) < recursionBudget) :
    ∃ r, decoderFull T s false attrib = .ok r := by
  rcases C08_no_recursion_error_if_shallow T s false attrib hd with h1 | h1
  · exact h1
  · rcases C07_no_error T s attrib h with h2 | h2
    · exact h2
    · rw [h1] at h2; cases h2

/-- non-vacuity: the hypothesis holds of a string with atoms, branches, rings, `[epsilon]` and two
    fragments; it fails for an unknown symbol and for a symbol whose atom has negative capacity
    under the table (`[CH9]`) -/
example : (∀ frag ∈ splitOnChar '.' "[C][=C][Branch1][C][O][epsilon][C][Ring1][Ring2].[N+1][#C]".toList,
      (tokenizeFragment frag).hanging = false ∧
      ∀ t ∈ (tokenizeFragment frag).toks, validSymbol T0 t.2 = true)
    ∧ validSymbol T0 "[Branch4]".toList = false ∧ validSymbol T0 "[Xx]".toList = false
    ∧ validSymbol T0 "[CH9]".toList = false ∧ validSymbol T0 "[CH1]".toList = true := by decide

/-! ### the model's answer on the stale-cache inputs of the header -/

/-- Under a table in which `[CH3]` has bonding capacity 2 - 3 < 0 the model rejects the symbol
    (`DecoderError`), whatever was decoded before, as the real code does (the capacity check follows the
    `_PROCESS_ATOM_CACHE` lookup on every call). -/
example : decoderFull { entries := ("C".toList, 2) :: Gen.preset_default, dflt := 8 } "[C][CH3]".toList false false
      = .error .DecoderError
    ∧ decoderFull { entries := ("C".toList, 2) :: Gen.preset_default, dflt := 8 } "[CH3]".toList false false
      = .error .DecoderError
    ∧ decoder T0 "[C][CH3]".toList = .ok "C[CH3]".toList := by and_intros <;> decide

end SV
