/-
  Property C01 (writer-level part): the SMILES string `selfies.decoder` returns is syntactically
  well formed — balanced, non-empty branches; every ring-closure label opened and closed exactly
  once, on two different atoms that are not chain-bonded; every atom written exactly once.

  Everything is proved for EVERY graph `g` with `WGraph g` (Proofs/Writer.lean): the conjuncts of
  `C01_simple_graph`, `C01_forest`, `C01_counts_consistent` plus "no aromatic atom".
  `C01w_wgraph` discharges `WGraph g` for every decoded graph (all tables, all inputs), so every
  theorem below applies to every output of `decoder`.

  Specification side (Spec/SmilesTokens.lean, no reference to the writer's loop):
  `specPre` (structural pre-order traversal), `labelToks` (running label assignment),
  `specFrags` (token lists of the fragments), `renderToks`, `specSmiles`.

  Theorems: `C01w_wgraph`, `C01w_writer_eq_spec`, `C01w_total`, `C01w_decoder_total`, `C01w_render`,
  `C01w_balanced`, `C01w_labels_paired`, `C01w_labels_legal_partial`, `C01w_label_overflow`,
  `C01w_every_atom_once`, `C01w_ordered`, `C01w_atom_order`, `C01w_decoder_atom_order`.

  Known finding F1 (labels ≥ 100 are written as `%100`, which SMILES readers reject) is proved as
  `C01w_label_overflow`; the legality of labels is therefore only a `_partial` theorem.
-/
import SelfiesVerif.Props.C01
import SelfiesVerif.Proofs.WriterShape
import SelfiesVerif.Proofs.WriterOwners
import SelfiesVerif.Proofs.DecoderNonArom
import SelfiesVerif.Proofs.DecoderOrder

namespace SV

variable {T : Table} {s : Str} {compat attrib : Bool} {g : Mol}

/-! ### the hypothesis bundle holds for every decoded graph -/

theorem C01w_wgraph (h : decodeGraph T s compat attrib = .ok g) : WGraph g := by
  obtain ⟨ha, hb, hc, _, he⟩ := C01_simple_graph h
  obtain ⟨f1, f2, f3, _⟩ := C01_forest h
  obtain ⟨_, c2, _⟩ := C01_counts_consistent h
  exact { lenA := c2, bonds := ha, nodup := hb, mirror := hc, noChainRing := he,
          rootsLt := f1, rootsSorted := f2,
          chainIn := fun i hi => by rw [← Mol.chainInDeg_eq]; exact f3 i hi,
          nonarom := decodeGraph_nonaromW h }

/-- the two running examples: a ring with a branch; two fragments with nested branches and a ring
    request that only raises a bond order.  (tokens, SMILES, final ring log) -/
def Mol.writerSummary (g : Mol) : List (List Tok) × String × RingLog :=
  (specFrags g, String.ofList (specSmiles g), specLog g)

set_option maxRecDepth 100000 in
example : ∃ g, decodeGraph T0 "[C][=C][Branch1][C][O][C][Ring1][Ring2]".toList false false = .ok g ∧
    g.writerSummary =
      ([[.atom 0 ['C'], .bond [], .label 1, .bond ['='], .atom 1 ['C'], .open_, .bond [], .atom 2 ['O'],
         .close, .bond [], .atom 3 ['C'], .bond [], .label 1]],
       "C1=C(O)C1", [((0, 3), 1)]) :=
  ok_of_map (f := Mol.writerSummary) (by decide)

set_option maxRecDepth 100000 in
example : ∃ g, decodeGraph T0
      "[C][C][Branch1][Ring1][C][C][Branch1][C][F][C].[N][N][Ring1][C]".toList false false = .ok g ∧
    g.writerSummary =
      ([[.atom 0 ['C'], .bond [], .atom 1 ['C'], .open_, .bond [], .atom 2 ['C'], .bond [], .atom 3 ['C'],
         .close, .open_, .bond [], .atom 4 ['F'], .close, .bond [], .atom 5 ['C']],
        [.atom 6 ['N'], .bond ['='], .atom 7 ['N']]],
       "CC(CC)(F)C.N=N", []) :=
  ok_of_map (f := Mol.writerSummary) (by decide)

/-! ### C01w.1 / C01w.6  totality, and the output is the rendering of the specification -/

/-- The writer and the specification agree: on a graph with the C01 invariants `molToSmiles`
    returns exactly `specSmiles g`.  No failure branch (IndexError, KeyError, AssertionError of
    `atom_to_smiles`, ValueError of `bond_to_smiles`, fuel exhaustion) is reachable. -/
theorem C01w_writer_eq_spec (hg : WGraph g) : ∃ maps, molToSmiles g = .ok (specSmiles g, maps) :=
  molToSmiles_eq_spec hg

/-- `molToSmiles` is total on graphs with the C01 invariants; `Mol.writeFuel` suffices -/
theorem C01w_total (hg : WGraph g) : ∃ out maps, molToSmiles g = .ok (out, maps) := by
  obtain ⟨maps, h⟩ := C01w_writer_eq_spec hg
  exact ⟨_, maps, h⟩

/-- the decoder never fails in the writer: once the graph is built the string is returned -/
theorem C01w_decoder_total (h : decodeGraph T s compat false = .ok g) :
    decoder T s compat = .ok (specSmiles g) := by
  obtain ⟨maps, hm⟩ := C01w_writer_eq_spec (C01w_wgraph h)
  simp [decoder, decoderFull, h, hm, bind, Except.bind, pure, Except.pure]

/-- whatever `molToSmiles` returns is the `.`-join of the rendered fragments of the specification;
    `renderToks` concatenates the token texts (atom text, bond text, `(`, `)`, label as one digit or
    `%` + decimal number) -/
theorem C01w_render (hg : WGraph g) {out : Str} {maps : List AttributionMap}
    (h : molToSmiles g = .ok (out, maps)) :
    out = joinWith ['.'] ((specFrags g).map renderToks) ∧ (specFrags g).length = g.roots.length := by
  obtain ⟨maps', h'⟩ := C01w_writer_eq_spec hg
  rw [h] at h'
  cases h'
  exact ⟨rfl, length_specFragsFrom g g.roots []⟩

example : ∃ g, decodeGraph T0 "[C][=C][Branch1][C][O][C][Ring1][Ring2]".toList false false = .ok g ∧
    (molToSmiles g).map (·.1) = .ok "C1=C(O)C1".toList :=
  ok_of_map (f := fun g : Mol => (molToSmiles g).map (·.1)) (by decide)
example : decoder T0 "[C][C][Branch1][Ring1][C][C][Branch1][C][F][C].[N][N][Ring1][C]".toList
    = .ok "CC(CC)(F)C.N=N".toList := by decide

/-! ### C01w.2  branches: balanced, never empty, never last -/

/-- In every fragment's token list
    * the first token is the root's atom token,
    * parentheses are balanced (no prefix closes more than it opened; totals agree),
    * `(` is always followed by a bond token and an atom token (no empty branch),
    * `)` is always followed by a bond token or another `(` of the same parent atom — never by `)`
      and never by the end of the fragment (the last chain bond is written without parentheses). -/
theorem C01w_balanced (hg : WGraph g) : ∀ ts ∈ specFrags g,
    (∃ r ∈ g.roots, ∃ t rest, ts = .atom r t :: rest) ∧
    ParenBalanced ts ∧
    (∀ k, ts[k]? = some .open_ → ∃ t i a, ts[k + 1]? = some (.bond t) ∧ ts[k + 2]? = some (.atom i a)) ∧
    (∀ k, ts[k]? = some .close → (∃ t, ts[k + 1]? = some (.bond t)) ∨ ts[k + 1]? = some .open_) := by
  intro ts hts
  obtain ⟨r, hr, log, rfl⟩ := mem_specFragsFrom hts
  have hlt := hg.rootsLt r hr
  have hok := specPre_ok hg hlt
  refine ⟨⟨r, hr, ?_⟩, ?_, ?_, ?_⟩
  · have : g.atoms.length ≠ 0 := by omega
    obtain ⟨n, hn⟩ := Nat.exists_eq_succ_of_ne_zero this
    unfold specPre
    rw [hn]
    exact ⟨_, _, rfl⟩
  · apply parenBalanced_of_depth
    have := hok.neutral log 0 []
    simpa [parenDepth] using this
  · exact fun k => adjOK_open _ k (hok.adj log)
  · exact fun k => adjOK_close _ k (hok.adj log)

set_option maxRecDepth 100000 in
/-- non-vacuity: nested and consecutive branches; the checkers evaluate to true and the depth
    profile is as expected -/
example : ∃ g, decodeGraph T0
      "[C][C][Branch1][Ring1][C][C][Branch1][C][F][C].[N][N][Ring1][C]".toList false false = .ok g ∧
    (specFrags g).map (fun ts => (opens ts, closes ts, parenDepth 0 ts, adjOK ts)) =
      [(2, 2, some 0, true), (0, 0, some 0, true)] :=
  ok_of_map (f := fun g : Mol => (specFrags g).map
    (fun ts => (opens ts, closes ts, parenDepth 0 ts, adjOK ts))) (by decide)
/-- the checkers are not trivially true -/
example : adjOK [.atom 0 ['C'], .open_, .close] = false ∧
    adjOK [.atom 0 ['C'], .open_, .bond [], .atom 1 ['C'], .close] = false ∧
    parenDepth 0 [.atom 0 ['C'], .close, .open_] = none := by decide

/-! ### C01w.3  ring labels are paired -/

/-- `allOcc g` lists the directed ring bonds in writing order over the WHOLE molecule (the fragments
    share the ring log), each with the label it is written with; `R = (specLog g).length`.
    * (labels)   the label tokens of the output are, in order, the labels of `allOcc g`;
    * (owners)   read as SMILES (a label belongs to the most recent atom of the current nesting
                 level), each label token sits on the `src` atom of its directed ring bond;
    * (range)    the labels that occur are exactly `1, …, R`, no gaps;
    * (count)    `R` is the number of ring bonds (each is stored in both directions);
    * (pairs)    every label `n` in `1..R` is written exactly twice: for the two directed halves
                 `a → b` and `b → a` of one stored ring bond, `a ≠ b`, and no chain bond joins
                 `a` and `b` (neither in `adj[a]` nor in `adj[b]`);
    * (distinct) two occurrences with the same label belong to the same ring bond. -/
theorem C01w_labels_paired (hg : WGraph g) :
    labelNums (specFrags g).flatten = (allOcc g).map (·.2) ∧
    (specFrags g).flatMap (labelOwners none []) = (allOcc g).map (fun o => (o.2, some o.1.1)) ∧
    (∀ n, Tok.label n ∈ (specFrags g).flatten ↔ 1 ≤ n ∧ n ≤ (specLog g).length) ∧
    2 * (specLog g).length = (g.adj.flatten.filter (·.ring)).length ∧
    (∀ n, 1 ≤ n → n ≤ (specLog g).length → ∃ a b, a ≠ b ∧
      ((allOcc g).filter (fun o => o.2 == n)).Perm [((a, b), n), ((b, a), n)] ∧
      (∃ bd ∈ g.row a, bd.ring = true ∧ bd.src = a ∧ bd.dst = b) ∧
      (∃ bd ∈ g.row b, bd.ring = true ∧ bd.src = b ∧ bd.dst = a) ∧
      (∀ bd ∈ g.row a, bd.dst = b → bd.ring = true) ∧ (∀ bd ∈ g.row b, bd.dst = a → bd.ring = true)) ∧
    (∀ o ∈ allOcc g, ∀ o' ∈ allOcc g, o.2 = o'.2 → o'.1 = o.1 ∨ o'.1 = (o.1.2, o.1.1)) := by
  refine ⟨labelNums_specFrags g, specOwners_eq hg, ?_, specLog_length hg, ?_, ?_⟩
  · intro n
    rw [← mem_labelNums, labelNums_specFrags]
    exact allOcc_labels n
  · intro n h1 h2
    obtain ⟨a, b, hne, hp, hab, hba⟩ := allOcc_pair hg h1 h2
    obtain ⟨c1, c2⟩ := allRings_noChain hg hab
    exact ⟨a, b, hne, hp, (mem_allRings hg).mp hab, (mem_allRings hg).mp hba, c1, c2⟩
  · intro o ho o' ho' h
    exact allOcc_label_inj ho ho' h

set_option maxRecDepth 100000 in
set_option synthInstance.maxSize 1000 in
/-- non-vacuity: two rings sharing atom 0 inside one fragment and a ring in a second fragment:
    `C12CC1C2.C3CC3` (the ring log is shared and never recycled); labels 1, 2, 3, each on two
    different atoms -/
example : ∃ g, decodeGraph T0
      "[C][C][C][Ring1][Ring1][C][Ring1][Ring2].[C][C][C][Ring1][Ring1]".toList false false = .ok g ∧
    (String.ofList (specSmiles g), allOcc g, (specFrags g).flatMap (labelOwners none [])) =
      ("C12CC1C2.C3CC3",
       [((0, 2), 1), ((0, 3), 2), ((2, 0), 1), ((3, 0), 2), ((4, 6), 3), ((6, 4), 3)],
       [(1, some 0), (2, some 0), (1, some 2), (2, some 3), (3, some 4), (3, some 6)]) :=
  ok_of_map (f := fun g : Mol => (String.ofList (specSmiles g), allOcc g,
    (specFrags g).flatMap (labelOwners none []))) (by decide)

/-! ### C01w.4  legality of the labels: partial, and the overflow (finding F1) -/

/-
  FULL STATEMENT (FALSE for the model and for the real code, finding F1):
    every label token is a legal SMILES ring-closure number, i.e. one digit `1..9` or `%` followed
    by exactly two digits `10..99`.
  What holds: as long as the molecule has at most 99 ring bonds.
-/
theorem C01w_labels_legal_partial (hg : WGraph g)
    (hR : (g.adj.flatten.filter (·.ring)).length ≤ 2 * 99) :
    ∀ n, Tok.label n ∈ (specFrags g).flatten → 1 ≤ n ∧ n ≤ 99 ∧
      (n < 10 → (Tok.label n).text = [Nat.digitChar n]) ∧
      (10 ≤ n → (Tok.label n).text = ['%', Nat.digitChar (n / 10), Nat.digitChar (n % 10)]) := by
  intro n hn
  obtain ⟨_, _, h3, h4, _⟩ := C01w_labels_paired hg
  have := (h3 n).mp hn
  have hle : n ≤ 99 := by omega
  have key : ∀ n, n ≤ 99 → (n < 10 → labelText n = [Nat.digitChar n]) ∧
      (10 ≤ n → labelText n = ['%', Nat.digitChar (n / 10), Nat.digitChar (n % 10)]) := by decide
  exact ⟨this.1, hle, (key n hle).1, (key n hle).2⟩

/-- The negation of the full statement, structurally: a graph with at least 100 ring bonds
    (equivalently: whose final ring log has length ≥ 100) is written with the token `label 100`,
    rendered `%100` — three digits after `%`, which SMILES readers take as ring 10 followed by
    ring 0.  The ring log is never recycled. -/
theorem C01w_label_overflow (hg : WGraph g)
    (hR : 2 * 100 ≤ (g.adj.flatten.filter (·.ring)).length) :
    100 ≤ (specLog g).length ∧ Tok.label 100 ∈ (specFrags g).flatten ∧
    (Tok.label 100).text = "%100".toList := by
  obtain ⟨_, _, h3, h4, _⟩ := C01w_labels_paired hg
  have hlen : 100 ≤ (specLog g).length := by omega
  exact ⟨hlen, (h3 100).mpr ⟨by omega, hlen⟩, by decide⟩

set_option maxRecDepth 100000 in
/-- non-vacuity of the partial theorem: 11 rings, labels 1..9 as digits, 10 and 11 as `%10`, `%11` -/
example : ∃ g, decodeGraph T0 ("[C]".toList ++
      (List.replicate 11 "[C][C][Ring1][Ring1][C]".toList).flatten) false false = .ok g ∧
    ((specLog g).length, (g.adj.flatten.filter (·.ring)).length,
      String.ofList ((specSmiles g).drop 40)) = (11, 22, "C9CC9C%10CC%10C%11CC%11C") :=
  ok_of_map (f := fun g : Mol => ((specLog g).length, (g.adj.flatten.filter (·.ring)).length,
    String.ofList ((specSmiles g).drop 40))) (by decide +kernel)

/-! ### C01w.5  every atom is written exactly once -/

/-- The atom tokens of the output, in order, are the pre-order visit list of the chain-bond forest
    (`allVisits`), and this list is a permutation of `0, …, #atoms − 1`: every atom is written
    exactly once. -/
theorem C01w_every_atom_once (hg : WGraph g) :
    atomIdxs (specFrags g).flatten = allVisits g ∧
    (atomIdxs (specFrags g).flatten).Perm (List.range g.atoms.length) ∧
    (∀ i, i < g.atoms.length → (atomIdxs (specFrags g).flatten).count i = 1) := by
  refine ⟨atomIdxs_specFrags g, ?_, ?_⟩
  · rw [atomIdxs_specFrags]; exact allVisits_perm hg
  · intro i hi
    rw [atomIdxs_specFrags]; exact count_allVisits hg i hi

set_option maxRecDepth 100000 in
example : ∃ g, decodeGraph T0
      "[C][C][Branch1][Ring1][C][C][Branch1][C][F][C].[N][N][Ring1][C]".toList false false = .ok g ∧
    atomIdxs (specFrags g).flatten = [0, 1, 2, 3, 4, 5, 6, 7] :=
  ok_of_map (f := fun g : Mol => atomIdxs (specFrags g).flatten) (by decide)

/-! ### C01w.5b  the atoms are written in derivation order

  The order claim does NOT follow from `WGraph` (the conjuncts of `C01_simple_graph`/`C01_forest`):
  the forest `0→1, 0→2, 1→3` satisfies them and is written `0 1 3 2`.  It needs one more invariant
  of the decoder, `Ordered g` (Proofs/WriterOrder.lean): the chain children of an atom are stored
  in increasing order, no two chain bonds cross (`k < k' < c` and `k→c`, `k'→c'` imply `c' < c`),
  and no chain bond passes over a later root.  `C01w_ordered` proves it for every decoded graph
  (Proofs/DecoderOrder.lean: induction over `deriveLoop`; `formRings` only inserts ring bonds and
  changes orders).
-/

theorem C01w_ordered (h : decodeGraph T s compat attrib = .ok g) : Ordered g := decodeGraph_ordered h

/-- pre-order = index order: the k-th atom token of the output is atom k (the k-th derived atom) -/
theorem C01w_atom_order (hg : WGraph g) (ho : Ordered g) :
    atomIdxs (specFrags g).flatten = List.range g.atoms.length := by
  rw [atomIdxs_specFrags]; exact allVisits_eq_range hg ho

theorem C01w_decoder_atom_order (h : decodeGraph T s compat attrib = .ok g) :
    atomIdxs (specFrags g).flatten = List.range g.atoms.length :=
  C01w_atom_order (C01w_wgraph h) (C01w_ordered h)

/-- the hand-made forest `0→1, 0→2, 1→3` (not a decoder output) is written `0 1 3 2` -/
example : allVisits
    { atoms := List.replicate 4 (Atom.mk ['C'] false none none none 0),
      roots := [0],
      adj := [[⟨0, 1, 1, none, false, none⟩, ⟨0, 2, 1, none, false, none⟩],
              [⟨1, 3, 1, none, false, none⟩], [], []],
      counts := [2, 2, 1, 1],
      atomAttr := [none, none, none, none] } = [0, 1, 3, 2] := by decide

set_option maxRecDepth 100000 in
/-- non-vacuity: branches inside branches, a second fragment, rings -/
example : ∃ g, decodeGraph T0
      "[C][Branch1][#Branch2][C][Branch1][C][O][C][N][C][Ring1][Ring1][F].[S][=C][C][Ring1][Ring1]".toList
      false false = .ok g ∧
    (String.ofList (specSmiles g), atomIdxs (specFrags g).flatten) =
      ("C(C(O)C1NC1)F.S2=CC2", [0, 1, 2, 3, 4, 5, 6, 7, 8, 9]) :=
  ok_of_map (f := fun g : Mol => (String.ofList (specSmiles g), atomIdxs (specFrags g).flatten)) (by decide)

end SV
