/-
  Property C01, clause "the output SMILES is syntactically well formed", at full strength:
  the library's OWN SMILES parser (`smiles_to_mol`, used by `selfies.encoder`) reads the decoder's
  output back as the molecule the decoder built.

  For every graph `g` the decoder builds (`decodeGraph T s compat attrib = .ok g`, any table, any
  input) with at least one atom, at most 99 ring bonds (beyond that finding F1 applies: `%100`) and
  no ring bond between two fragments,

      smilesToMol (specSmiles g) false = .ok (readMol g)

  where `specSmiles g` is the string `selfies.decoder` returns (`C01w_decoder_total`) and `readMol g`
  (Proofs/ReaderDefs.lean) is `g` in the parser's representation:
    * `atoms = g.atoms` EXACTLY — no normalisation occurs: `smiles_to_atom (atom_to_smiles a) = a`
      for every atom the decoder can make, including the distinction `h_count = None` (bare organic
      atom) / `h_count = 0` (`[CH0]`, `[Fe]`), isotope `0`, charges written `+1`, `-2`, H counts `H1`
      (`C01r_atom_readback`, `C01r_decoded_atoms`);
    * `roots = g.roots`;
    * `adj[i] = g.adj[i]` bond for bond IN THE SAME ORDER, each bond as `some (readBond b)`:
      same `src`, `dst`, `ring`, `order2 = 2 * order`, no attribution, and the stereo mark of each
      directed half exactly where the writer wrote it: kept iff the bond is single and the mark is
      `/` or `\` (`readStereo`); a ring bond's two halves carry their own marks (the writer writes
      `bond_to_smiles` before each of the two label occurrences, `_make_ring_bonds` reads the left
      and the right mark back onto the two halves);
    * `_bond_counts = 2 * g.counts`, ring flags = "has a ring bond", no delocalisation subgraph.

  The ring labels: the writer numbers ring bonds 1, 2, 3, … on first occurrence and never reuses a
  label; the parser pairs equal label strings.  The invariant `RSim` (Proofs/ReaderSimRings.lean)
  says that the parser's ring log holds exactly the read ring bonds whose partner has not been
  read, at the position of their placeholder, under the label of their unordered pair; the
  placeholder is therefore filled at the position the bond has in `g.adj`.

  FULL STATEMENT without the hypothesis "no ring bond joins two fragments" is FALSE (finding, model
  and real code): `[C].[C][C][Ring1][P]` decodes to `C1.CC1`, which `smiles_to_mol` rejects
  ("hanging ring number": the parser's ring log is per fragment) — `C01r_cross_fragment_ring_rejected`,
  `C01r_reader_recovers_literal_false`.

  Stages: (a) `C01r_atom_readback`, `C01r_decoded_atoms`; (b) `C01r_tokenizer`;
  (c)+(d) `C01r_reader_recovers` (chains, branches, rings: Proofs/ReaderSim*.lean).
-/
import SelfiesVerif.Proofs.ReaderFull

namespace SV

variable {T : Table} {s : Str} {compat attrib : Bool} {g : Mol}

/-! ### examples used for non-vacuity -/

/-- `C1=C(O)C1` -/
def c01rRing : Str := "[C][=C][Branch1][C][O][C][Ring1][Ring2]".toList
/-- the encoding of `C1CC[C@](F)1Cl`: a chiral ring atom with two branches, written `C1CC[C@@]1(F)Cl` -/
def c01rChiral : Str := "[C][C][C][C@@][Ring1][Ring2][Branch1][C][F][Cl]".toList
/-- two fragments, nested branches, stereo marks on ring bonds, bracket atoms -/
def c01rMixed : Str := "[CH0][C][C][/\\Ring1][Ring1][Branch1][C][13CH1+1][Cl].[Fe][=O]".toList

/-! ### stage (a): atoms -/

/-- **`smiles_to_atom ∘ atom_to_smiles` is the identity** on every non-aromatic well-formed atom
    (`Atom.wfb`: known element, chirality `@`/`@@`, `h_count = None` only on a bare organic atom,
    H count ≤ 9, isotope and charge within `int()`'s digit limit).  No `None` / `0` identification
    happens: `C` ↦ `h_count = None`, `[CH0]` and `[Fe]` ↦ `h_count = 0`. -/
theorem C01r_atom_readback (a : Atom) (hw : a.wfb = true) (hna : a.isAromatic = false) :
    smilesToAtom (atomText a) = some a :=
  smilesToAtom_atomText a hw hna

example : ∃ a b c d : Atom, a.wfb = true ∧ atomText a = "[13C@@H1-1]".toList ∧ smilesToAtom (atomText a) = some a
    ∧ atomText b = "[CH0]".toList ∧ b.hCount = some 0 ∧ smilesToAtom (atomText b) = some b
    ∧ atomText c = "C".toList ∧ c.hCount = none ∧ smilesToAtom (atomText c) = some c
    ∧ atomText d = "[Fe]".toList ∧ d.hCount = some 0 ∧ smilesToAtom (atomText d) = some d :=
  ⟨{ element := ['C'], isAromatic := false, isotope := some 13, chirality := some ['@', '@'],
     hCount := some 1, charge := -1 },
   { element := ['C'], isAromatic := false, hCount := some 0 },
   { element := ['C'], isAromatic := false },
   { element := ['F', 'e'], isAromatic := false, hCount := some 0 },
   by decide +kernel, by decide +kernel, by decide +kernel, by decide +kernel, rfl, by decide +kernel,
   by decide +kernel, rfl, by decide +kernel, by decide +kernel, rfl, by decide +kernel⟩

/-- every atom of every decoded graph is such an atom -/
theorem C01r_decoded_atoms (h : decodeGraph T s compat attrib = .ok g) :
    ∀ a ∈ g.atoms, a.wfb = true ∧ a.isAromatic = false ∧ smilesToAtom (atomText a) = some a ∧
      AtomLex (atomText a) := by
  intro a ha
  have hw := decodeGraph_atoms_wfb h a ha
  have hn := (C01w_wgraph h).nonarom a ha
  exact ⟨hw, hn, smilesToAtom_atomText a hw hn, atomText_lex a hw hn⟩

set_option maxRecDepth 100000 in
example : ∃ g, decodeGraph T0 c01rMixed false false = .ok g ∧
    g.atoms.map atomText = ["[CH0]", "C", "C", "[13CH1+1]", "Cl", "[Fe]", "O"].map String.toList :=
  ok_of_map (f := fun g : Mol => g.atoms.map atomText) (by decide +kernel)

/-! ### stage (b): the tokenizer -/

/-- `tokenize_smiles` splits the decoder's output into exactly the expected tokens
    (`rLexAll`: per fragment the units of `rFrag` — atom, ring label, `(`, `)`, each atom / label with
    the bond character in front of it — separated by DOT tokens).  Needs at most 99 ring bonds:
    labels are one digit or `%` and two digits. -/
theorem C01r_tokenizer (h : decodeGraph T s compat attrib = .ok g) (h99 : g.ringHalves ≤ 2 * 99) :
    tokenizeSmiles ((specSmiles g).length + 1) (specSmiles g) = some (rLexAll g [] g.roots) := by
  have hg := C01w_wgraph h
  refine tokenize_specSmiles hg ?_ h99
  intro j hj
  obtain ⟨a, ha, ham⟩ := getElem?_lt hj
  rw [atomTextAt_eq ha]
  exact (C01r_decoded_atoms h a ham).2.2.2

set_option maxRecDepth 100000 in
example : ∃ g, decodeGraph T0 c01rRing false false = .ok g ∧ g.ringHalves ≤ 2 * 99 ∧
    (rLexAll g [] g.roots).map (fun t => (t.bondChar, t.text)) =
      [(none, ['C']), (none, ['1']), (some '=', ['C']), (none, ['(']), (none, ['O']), (none, [')']),
       (none, ['C']), (none, ['1'])] := by
  have key : (decodeGraph T0 c01rRing false false).map (fun g => decide (g.ringHalves ≤ 2 * 99 ∧
      (rLexAll g [] g.roots).map (fun t => (t.bondChar, t.text)) =
        [(none, ['C']), (none, ['1']), (some '=', ['C']), (none, ['(']), (none, ['O']), (none, [')']),
         (none, ['C']), (none, ['1'])])) = .ok true := by decide +kernel
  obtain ⟨g, hg, hd⟩ := ok_of_map key
  exact ⟨g, hg, of_decide_eq_true hd⟩

/-! ### stages (c), (d): the reader -/

/-- **C01r.**  The library's own SMILES parser reads the decoder's output back as the molecule the
    decoder built (see the header for `readMol`). -/
theorem C01r_reader_recovers (h : decodeGraph T s compat attrib = .ok g) (hne : g.atoms ≠ [])
    (h99 : g.ringHalves ≤ 2 * 99) (hloc : g.RingsLocal) :
    smilesToMol (specSmiles g) false = .ok (readMol g) :=
  reader_full h hne h99 hloc

/-- … in terms of the API function: whatever `selfies.decoder` returns is read back as the decoded
    graph -/
theorem C01r_reader_recovers_decoder {out : Str} (h : decoder T s compat = .ok out) :
    ∃ g, decodeGraph T s compat false = .ok g ∧
      (g.atoms ≠ [] → g.ringHalves ≤ 2 * 99 → g.RingsLocal → smilesToMol out false = .ok (readMol g)) := by
  obtain ⟨g, _, hg, _⟩ := C01_decoder_graph h
  refine ⟨g, hg, fun h1 h2 h3 => ?_⟩
  have := C01w_decoder_total hg
  rw [h] at this
  cases this
  exact C01r_reader_recovers hg h1 h2 h3

set_option maxRecDepth 100000 in
example : decoder T0 c01rRing false = .ok "C1=C(O)C1".toList ∧
    (smilesToMol "C1=C(O)C1".toList false).map (fun p => p.adj.map (·.map (·.map fun b => (b.dst, b.order2, b.ring))))
      = .ok [[some (3, 2, true), some (1, 4, false)], [some (2, 2, false), some (3, 2, false)], [],
             [some (0, 2, true)]] := by
  refine ⟨by decide +kernel, by decide +kernel⟩

/-- what `readMol g` is, field by field -/
theorem C01r_readMol_spec (g : Mol) :
    (readMol g).atoms = g.atoms ∧ (readMol g).roots = g.roots ∧ (readMol g).ds = [] ∧
    (readMol g).adj.length = g.adj.length ∧
    (∀ (i : Nat) (row : List DirBond), g.adj[i]? = some row →
      (readMol g).adj[i]? = some (row.map fun b => some (readBond b))) ∧
    (∀ b : DirBond, (readBond b).src = b.src ∧ (readBond b).dst = b.dst ∧ (readBond b).ring = b.ring ∧
      (readBond b).order2 = 2 * b.order ∧ (readBond b).attr = none ∧
      (readBond b).stereo = (if b.order = 1 then
        (match b.stereo with
         | some c => if c = '/' ∨ c = '\\' then some c else none
         | none => none) else none)) := by
  refine ⟨rfl, rfl, rfl, by simp [readMol, readAdj], ?_, ?_⟩
  · intro i row hrow
    simp [readMol, readAdj, hrow]
  · intro b
    refine ⟨rfl, rfl, rfl, rfl, rfl, ?_⟩
    simp only [readBond, readStereo]
    split
    · cases b.stereo with
      | none => rfl
      | some c => simp [Gen.smilesStereoBonds]
    · rfl

set_option maxRecDepth 100000 in
/-- non-vacuity: a ring with a branch; a chiral ring atom; two fragments with stereo marks on a ring
    bond and bracket atoms.  All hypotheses hold and the conclusion is checked by evaluation. -/
example : ∀ x ∈ [c01rRing, c01rChiral, c01rMixed], ∃ g, decodeGraph T0 x false false = .ok g ∧
    g.atoms ≠ [] ∧ g.ringHalves ≤ 2 * 99 ∧ g.RingsLocal ∧
    smilesToMol (specSmiles g) false = .ok (readMol g) := by
  have key : ∀ x ∈ [c01rRing, c01rChiral, c01rMixed],
      (decodeGraph T0 x false false).map (fun g => decide (g.atoms ≠ [] ∧ g.ringHalves ≤ 2 * 99 ∧
        g.RingsLocal ∧ smilesToMol (specSmiles g) false = .ok (readMol g))) = .ok true := by
    decide +kernel
  intro x hx
  obtain ⟨g, hg, hd⟩ := ok_of_map (key x hx)
  exact ⟨g, hg, of_decide_eq_true hd⟩

set_option maxRecDepth 100000 in
example : (decoder T0 c01rChiral).map String.ofList = .ok "C1CC[C@@]1(F)Cl" ∧
    (decoder T0 c01rMixed).map String.ofList = .ok "[CH0]/1CC\\1([13CH1+1])Cl.[Fe]=O" := by
  refine ⟨by decide +kernel, by decide +kernel⟩

/-! ### the hypothesis "no ring bond joins two fragments" is needed -/

set_option maxRecDepth 100000 in
/-- **Finding.**  `[C].[C][C][Ring1][P]` (a ring symbol whose index reaches back over the `.`)
    decodes to `C1.CC1`; the library's own parser rejects it: its ring log is per fragment
    ("hanging ring number '1'"), so `selfies.encoder(selfies.decoder(x))` raises `EncoderError`. -/
theorem C01r_cross_fragment_ring_rejected :
    ∃ g, decodeGraph T0 "[C].[C][C][Ring1][P]".toList false false = .ok g ∧ g.atoms ≠ [] ∧
      g.ringHalves ≤ 2 * 99 ∧ ¬ g.RingsLocal ∧ specSmiles g = "C1.CC1".toList ∧
      smilesToMol (specSmiles g) false = .error .SMILESParserError ∧
      encoder T0 (specSmiles g) true [] = .error .EncoderError := by
  have key : (decodeGraph T0 "[C].[C][C][Ring1][P]".toList false false).map
      (fun g => decide (g.atoms ≠ [] ∧ g.ringHalves ≤ 2 * 99 ∧ ¬ g.RingsLocal ∧
        specSmiles g = "C1.CC1".toList ∧ smilesToMol (specSmiles g) false = .error .SMILESParserError ∧
        encoder T0 (specSmiles g) true [] = .error .EncoderError)) = .ok true := by
    decide +kernel
  obtain ⟨g, hg, hd⟩ := ok_of_map key
  exact ⟨g, hg, of_decide_eq_true hd⟩

/-- the literal statement (without `RingsLocal`) is false -/
theorem C01r_reader_recovers_literal_false :
    ¬ ∀ (T : Table) (s : Str) (g : Mol), decodeGraph T s false false = .ok g → g.atoms ≠ [] →
        g.ringHalves ≤ 2 * 99 → ∃ p, smilesToMol (specSmiles g) false = .ok p := by
  intro h
  obtain ⟨g, h1, h2, h3, _, _, h6, _⟩ := C01r_cross_fragment_ring_rejected
  obtain ⟨p, hp⟩ := h _ _ g h1 h2 h3
  rw [h6] at hp
  cases hp

/-- a sufficient condition: a graph with a single fragment has no ring bond across fragments -/
theorem C01r_single_fragment_local (h : g.roots = [0]) : g.RingsLocal := by
  intro row _ b _ _ r hr
  rw [h] at hr
  simp only [List.mem_singleton] at hr
  subst hr
  simp

set_option maxRecDepth 100000 in
example : ∃ g, decodeGraph T0 c01rChiral false false = .ok g ∧ g.roots = [0] :=
  ok_of_map (f := fun g : Mol => g.roots) (by decide +kernel)

end SV
