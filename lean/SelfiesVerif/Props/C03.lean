/-
  Property C03 — "SMILES → SELFIES → SMILES round trip preserves the molecule atom for atom"

  "For every SMILES string that selfies.encoder accepts with strict=True under a constraint table
   K, decoding the result under K yields a SMILES whose i-th atom is the i-th atom of the input
   with the same element, isotope, formal charge and hydrogen count, and whose bonded atom pairs are
   exactly those of the input with the same bond order on every non-aromatic bond ...  No atom or
   bond is dropped, added, merged or reordered, however the input SMILES is spelled."

  The theorem is about GRAPHS, which covers every spelling at once.  `g : PMol` is the graph the
  encoder works on after parsing, kekulization, the constraint check and the chirality adjustment
  (`encodePrepare`); `encodeGraph g` is what `selfies.encoder` returns for it
  (`encoder_eq_prepare_encodeGraph`), `decodeGraph T s` is the graph `selfies.decoder` builds before
  writing it out.  Spec notions (Spec/SameMolecule.lean): the tree view `PForest` of a parsed graph
  (`graphOf`, `forestOf`, `isParsedWF`), the specified symbol list `Tree.encode`, `SameMolecule`.

  Hypotheses, all decidable and evaluated by the harness on the real graphs
  (`roundTripReady T g = true`, i.e. `g = graphOf f` for a forest `f` with `f.ready T = true`):
    `f.wf`         atoms numbered in pre-order; no atom bonded twice to the same atom or to itself;
                   ring items come in matching open/close pairs
    `f.kekulized`  no aromatic atom, every bond order 1, 2 or 3, stereo marks `/` `\`
    `f.atomsOK`    every atom is one `smiles_to_atom` can produce (C10's `AtomWF`)
    `f.obeys T`    `counts2[i] ≤ 2 * capacity(atom i)`  (what strict=True checks)
    `Tree.spanOK`  every ring span and every branch length is below 16^3 (three index symbols)
    `Tree.bdepth`  branch nesting below the Python recursion budget

  Stages (each later one contains the earlier ones):
    0  `C03_encode_tree`, `C03_encode_graph`   the encoder's explicit-fuel recursion emits `Tree.encode`
    1  `C03_chain`                             plain chains
    2  `C03_tree`                              branches, no rings
    3  `C03_decode_encode`, `C03_roundtrip_graph`, `C03_roundtrip`   rings: the decoder returns
       `finalMol f`, the same molecule, whose adjacency lists are "ring bonds in formation order,
       then chain bonds in written order"
  Corollaries: `C03_spelling_independent`, `C03_neighbour_order` and `C03_handedness` (the decoder-side
  half of C04: the decoder really writes the order `decoderOrder`).
-/
import SelfiesVerif.Proofs.RoundTripOrder
import SelfiesVerif.Props.C04

namespace SV

/-! ### examples used for non-vacuity -/

def c03T : Table := { entries := Gen.preset_default, dflt := 8 }

def c03C : Atom := { element := ['C'], isAromatic := false }
def c03F : Atom := { element := ['F'], isAromatic := false }
def c03O : Atom := { element := ['O'], isAromatic := false }

/-- `CC=O` -/
def c03Chain : Tree :=
  .node 0 c03C (.child 2 none (.node 1 c03C (.child 4 none (.node 2 c03O .nil) .nil)) .nil)

/-- `CC=O` as the second fragment behind `c03Ring` -/
def c03Chain5 : Tree :=
  .node 5 c03C (.child 2 none (.node 6 c03C (.child 4 none (.node 7 c03O .nil) .nil)) .nil)

/-- `CC(C)(F)C=O` -/
def c03Tree : Tree :=
  .node 0 c03C (.child 2 none
    (.node 1 c03C (.child 2 none (.node 2 c03C .nil) (.child 2 none (.node 3 c03F .nil)
      (.child 2 none (.node 4 c03C (.child 4 none (.node 5 c03O .nil) .nil)) .nil)))) .nil)

/-- `C1CC1(F)C` -/
def c03Ring : Tree :=
  .node 0 c03C (.ring 2 2 none none (.child 2 none
    (.node 1 c03C (.child 2 none
      (.node 2 c03C (.ring 0 2 none none (.child 2 none (.node 3 c03F .nil)
        (.child 2 none (.node 4 c03C .nil) .nil)))) .nil)) .nil))

/-- the tree view is what the real parser produces -/
example : forestOf (okOr {} (smilesToMol "C1CC1(F)C".toList false)) = some [c03Ring]
    ∧ isParsedWF (okOr {} (smilesToMol "C1CC1(F)C".toList false)) = true
    ∧ isParsedWF (okOr {} (smilesToMol "CC(C)(F)C=O.C#N".toList false)) = true
    ∧ roundTripReady c03T (okOr {} (encodePrepare c03T "OC(=O)C1=CC=CC=C1".toList true false [])) = true
    ∧ roundTripReady c03T (okOr {} (encodePrepare c03T "F/C=C/F".toList true false [])) = true := by
  refine ⟨by decide +kernel, by decide +kernel, by decide +kernel, by decide +kernel, by decide +kernel⟩

/-! ### stage 0: the encoder -/

/-- **Stage 0.**  On the graph of a well-formed, kekulized forest `_fragment_to_selfies` started at
    the root of a tree `t` returns exactly the specified symbol list `t.encode none`: the explicit
    fuel `2·(size + out-bonds) + 2` is never exhausted, no subscript or dictionary access fails and
    the recursion budget is not reached. -/
theorem C03_encode_tree (f : PForest) (hwf : f.wf = true) (hk : f.kekulized = true)
    (t : Tree) (ht : t ∈ f) (hd : t.bdepth + 1 < recursionBudget)
    (maps : List AttributionMap) (ai : Nat) :
    ∃ maps', fragmentToSelfies (graphOf f) t.idx maps ai = .ok (t.encode none, maps') :=
  fragmentToSelfies_graphOf hwf hk t ht hd maps ai

set_option maxRecDepth 100000 in
example : PForest.wf [c03Ring] = true ∧ PForest.kekulized [c03Ring] = true
    ∧ c03Ring.bdepth + 1 < recursionBudget
    ∧ c03Ring.encode none = ["[C]".toList, "[C]".toList, "[C]".toList, "[Ring1]".toList,
        "[Ring1]".toList, "[Branch1]".toList, "[C]".toList, "[F]".toList, "[C]".toList]
    ∧ (fragmentToSelfies (graphOf [c03Ring]) 0 [] 0).map (·.1) = .ok (c03Ring.encode none) := by
  refine ⟨by decide +kernel, by decide +kernel, by decide +kernel, by decide +kernel, by decide +kernel⟩

/-- … and so `selfies.encoder` returns the specified string for the whole graph. -/
theorem C03_encode_graph (f : PForest) (hwf : f.wf = true) (hk : f.kekulized = true)
    (hd : ∀ t ∈ f, t.bdepth + 1 < recursionBudget) :
    encodeGraph (graphOf f) = .ok f.encode :=
  encodeGraph_graphOf hwf hk hd

set_option maxRecDepth 100000 in
example : encodeGraph (graphOf [c03Ring, c03Chain5])
    = .ok "[C][C][C][Ring1][Ring1][Branch1][C][F][C].[C][C][=O]".toList := by decide +kernel

/-! ### stage 3 first (stages 1 and 2 are its special cases) -/

theorem decodeGraph_empty (T : Table) : decodeGraph T (PForest.encode []) = .ok (finalMol []) := by
  rfl

/-- **Stage 3 (= C03 on forests).**  For a forest that is well formed, kekulized, obeys the table
    and fits the index code, the encoder returns `f.encode`, the decoder turns that string into
    `finalMol f` without any failure, and `finalMol f` is the same molecule as the parsed graph:
    same atoms in the same order (the atom lists are equal, chirality tags included), the same
    bond records.  In `finalMol f` atom `i` lists its ring bonds in the order they were formed
    (`ringRecs`: the order of the ring symbols in the string), then its chain bonds as written. -/
theorem C03_decode_encode (T : Table) (f : PForest) (h : f.ready T = true) :
    encodeGraph (graphOf f) = .ok f.encode
    ∧ decodeGraph T f.encode = .ok (finalMol f)
    ∧ SameMolecule (graphOf f) (finalMol f)
    ∧ (finalMol f).atoms = (graphOf f).atoms
    ∧ (finalMol f).roots = (graphOf f).roots := by
  obtain ⟨hwf, hk, _, _, _, hd⟩ := PForest.ready_parts h
  refine ⟨encodeGraph_graphOf hwf hk hd, ?_, (sameMolecule_final hwf hk).1,
    (sameMolecule_final hwf hk).2, rfl⟩
  by_cases hne : f = []
  · subst hne; exact decodeGraph_empty T
  · exact decodeGraph_closed h hne

set_option maxRecDepth 100000 in
example : PForest.ready c03T [c03Ring, c03Chain5] = true
    ∧ (finalMol [c03Ring, c03Chain5]).adj.map (·.map fun b => (b.dst, b.order, b.ring))
        = [[(2, 1, true), (1, 1, false)], [(2, 1, false)], [(0, 1, true), (3, 1, false), (4, 1, false)],
           [], [], [(6, 1, false)], [(7, 2, false)], []] := by
  refine ⟨by decide +kernel, by decide +kernel⟩

/-- **C03 on graphs.**  `roundTripReady T g` is the executable hypothesis. -/
theorem C03_roundtrip_graph (T : Table) (g : PMol) (h : roundTripReady T g = true) :
    ∃ s m, encodeGraph g = .ok s ∧ decodeGraph T s = .ok m ∧ SameMolecule g m
      ∧ m.atoms = g.atoms ∧ m.roots = g.roots := by
  unfold roundTripReady at h
  split at h
  · rename_i f _
    rw [Bool.and_eq_true, decide_eq_true_eq] at h
    obtain ⟨hr, rfl⟩ := h
    obtain ⟨h1, h2, h3, h4, h5⟩ := C03_decode_encode T f hr
    exact ⟨_, _, h1, h2, h3, h4, h5⟩
  · cases h

/-- **C03 on SMILES strings.**  If `selfies.encoder(smiles, strict=True)` gets as far as the
    prepared graph `g` (parsed, kekulized, constraint check passed, chirality adjusted) and `g`
    satisfies the executable hypothesis, then the encoder returns a string `s`, and decoding `s`
    under the same table gives the same molecule as `g`. -/
theorem C03_roundtrip (T : Table) (smiles : Str) (tape : List Nat) (g : PMol)
    (hp : encodePrepare T smiles true false tape = .ok g) (h : roundTripReady T g = true) :
    ∃ s m, encoder T smiles true tape = .ok s ∧ decodeGraph T s = .ok m ∧ SameMolecule g m
      ∧ m.atoms = g.atoms := by
  obtain ⟨s, m, h1, h2, h3, h4, _⟩ := C03_roundtrip_graph T g h
  refine ⟨s, m, ?_, h2, h3, h4⟩
  rw [encoder_eq_prepare_encodeGraph, hp]
  exact h1

set_option maxRecDepth 100000 in
example : ∃ g, encodePrepare c03T "C1CC1(F)C".toList true false [] = .ok g
    ∧ roundTripReady c03T g = true
    ∧ encoder c03T "C1CC1(F)C".toList true [] = .ok "[C][C][C][Ring1][Ring1][Branch1][C][F][C]".toList
    ∧ (decodeGraph c03T "[C][C][C][Ring1][Ring1][Branch1][C][F][C]".toList).map (sameMolecule g)
        = .ok true :=
  ⟨graphOf [c03Ring], by decide +kernel, by decide +kernel, by decide +kernel, by decide +kernel⟩

/-! ### stages 1 and 2 -/

/-- no ring-closure digits anywhere -/
def PForest.ringFree (f : PForest) : Bool := f.nodes.all fun n => n.items.rings.isEmpty

theorem Items.closes_of_no_rings (i : Nat) : ∀ its : Items, its.rings = [] → its.closes i = []
  | .nil, _ => rfl
  | .ring _ _ _ _ _, h => by simp [Items.rings] at h
  | .child _ _ _ rest, h => by
    simp only [Items.rings] at h
    simpa [Items.closes] using Items.closes_of_no_rings i rest h

/-- without rings the decoder's result is the chain molecule itself: atom `i` lists its chain
    bonds in written order -/
theorem finalMol_ringFree (f : PForest) (h : f.ringFree = true) : finalMol f = chainMol f := by
  have hq : ringQueue f = [] := by
    unfold ringQueue
    apply List.flatMap_eq_nil_iff.2
    intro n hn
    unfold PForest.ringFree at h
    have := List.all_eq_true.1 h n hn
    simp only [List.isEmpty_iff] at this
    simp [NodeInfo.ringReqs, Items.closes_of_no_rings n.idx n.items this]
  unfold finalMol
  rw [hq]
  simp [ringRecs, chainMol, NodeInfo.chainCount, ordSum]

/-- **Stage 2.**  Branches, no rings: decoding the encoding of a ring-free forest gives the chain
    molecule (every atom bonded to its children, in written order), which is the same molecule.
    The nested `_derive_mol_from_symbols` call of every branch consumes exactly the `Q + 1` symbols
    of the branch body and returns to the symbol after it (this is inside the proof: `dec_kids`). -/
theorem C03_tree (T : Table) (f : PForest) (h : f.ready T = true) (hr : f.ringFree = true) :
    decodeGraph T f.encode = .ok (chainMol f) ∧ SameMolecule (graphOf f) (chainMol f) := by
  obtain ⟨_, h2, h3, _, _⟩ := C03_decode_encode T f h
  rw [finalMol_ringFree f hr] at h2 h3
  exact ⟨h2, h3⟩

set_option maxRecDepth 100000 in
example : PForest.ready c03T [c03Tree] = true ∧ PForest.ringFree [c03Tree] = true
    ∧ PForest.encode [c03Tree] = "[C][C][Branch1][C][C][Branch1][C][F][C][=O]".toList := by
  refine ⟨by decide +kernel, by decide +kernel, by decide +kernel⟩

mutual
/-- a plain chain: no ring digit, no branch -/
def Tree.isChain : Tree → Bool
  | .node _ _ its => its.isChain
def Items.isChain : Items → Bool
  | .nil => true
  | .ring _ _ _ _ _ => false
  | .child _ _ t rest => t.isChain && !rest.hasKid && rest.rings.isEmpty
end

/-- **Stage 1.**  Plain chains (no `min` in `next_atom_state` ever clips under `obeys`):
    the decoder rebuilds the chain. -/
theorem C03_chain (T : Table) (t : Tree) (_hc : t.isChain = true) (h : PForest.ready T [t] = true)
    (hr : PForest.ringFree [t] = true) :
    decodeGraph T (render (t.encode none)) = .ok (chainMol [t])
    ∧ SameMolecule (graphOf [t]) (chainMol [t]) :=
  C03_tree T [t] h hr

set_option maxRecDepth 100000 in
example : c03Chain.isChain = true ∧ PForest.ready c03T [c03Chain] = true
    ∧ PForest.ringFree [c03Chain] = true
    ∧ render (c03Chain.encode none) = "[C][C][=O]".toList := by
  refine ⟨by decide +kernel, by decide +kernel, by decide +kernel, by decide +kernel⟩

/-! ### corollaries -/

/-- **Spelling independence.**  The SELFIES string and the decoded molecule depend only on the
    prepared graph: two spellings that parse (and kekulize) to the same graph get the same SELFIES
    string, hence the same decoded molecule; and by `C03_roundtrip` that molecule is the graph. -/
theorem C03_spelling_independent (T : Table) (s₁ s₂ : Str) (t₁ t₂ : List Nat) (g : PMol)
    (h₁ : encodePrepare T s₁ true false t₁ = .ok g) (h₂ : encodePrepare T s₂ true false t₂ = .ok g) :
    encoder T s₁ true t₁ = encoder T s₂ true t₂ := by
  rw [encoder_eq_prepare_encodeGraph, encoder_eq_prepare_encodeGraph, h₁, h₂]

set_option maxRecDepth 100000 in
example : encodePrepare c03T "C1CC1(F)C".toList true false []
      = encodePrepare c03T "C2CC2(F)C".toList true false []
    ∧ (encodePrepare c03T "C1CC1(F)C".toList true false []).toOption.isSome = true := by
  refine ⟨by decide +kernel, by decide +kernel⟩

/-- **Neighbour order (the decoder-side half of C04).**  In the decoded molecule the adjacency
    list of atom `n.idx` is the written row `n.row` rearranged by `decoderOrder`: position `k` holds
    (the decoder's record `decDir` of) the bond written at position `(decoderOrder n.row)[k]` —
    closing ring bonds in written order, opening ring bonds by partner index, chain bonds in
    written order.  `formRings` inserts the `k`-th ring bond of an atom at position `k`, rings are
    formed in the order of the ring symbols, and the "ring bonds first" encoder puts every atom's
    ring symbols directly behind its atom symbol, so that this is the order of the closing atoms. -/
theorem C03_neighbour_order (T : Table) (f : PForest) (h : f.ready T = true) (n : NodeInfo)
    (hn : n ∈ f.nodes) :
    decodeGraph T f.encode = .ok (finalMol f)
    ∧ (finalMol f).adj[n.idx]? = some (posBonds n.row (decoderOrder n.row))
    ∧ (decoderOrder n.row).Perm (List.range n.row.length) := by
  obtain ⟨hwf, _, _, _, _, _⟩ := PForest.ready_parts h
  exact ⟨(C03_decode_encode T f h).2.1, finalMol_row_decoderOrder hwf hn, decoderOrder_perm _⟩

/-- `C12(F)CC2C1`: atom 0 writes ring 1 (closed by atom 4) before ring 2 (closed by atom 3) -/
def c03Cage : PForest := (forestOf (okOr {} (smilesToMol "C12(F)CC2C1".toList false))).getD []

set_option maxRecDepth 100000 in
example : PForest.ready c03T c03Cage = true
    ∧ (c03Cage.nodes.map fun n => (n.idx, n.row.map (·.dst), decoderOrder n.row)).head?
        = some (0, [4, 3, 1, 2], [1, 0, 2, 3])
    ∧ ((finalMol c03Cage).adj.map (·.map (·.dst))).head? = some [3, 4, 1, 2]
    ∧ (decodeGraph c03T c03Cage.encode).map (·.adj.map (·.map (·.dst)))
        = .ok [[3, 4, 1, 2], [], [3], [0, 4], [0]] := by
  refine ⟨by decide +kernel, by decide +kernel, by decide +kernel, by decide +kernel⟩

/-- **Handedness (link to `C04_parity_spec`).**  For every atom of a round-trip-ready graph the
    encoder's `_should_invert_chirality` returns `true` exactly when the neighbour order the decoder
    really produces (`C03_neighbour_order`) is an odd permutation of the written one.  Together with
    `C04_invert_involutive` this is the tetrahedral half of C04 without its "not covered" gap. -/
theorem C03_handedness (T : Table) (f : PForest) (h : f.ready T = true) (n : NodeInfo)
    (hn : n ∈ f.nodes) :
    getOut (graphOf f) n.idx = .ok n.row
    ∧ (finalMol f).adj[n.idx]? = some (posBonds n.row (decoderOrder n.row))
    ∧ ∃ b, shouldInvertChirality (graphOf f) n.idx = .ok b
        ∧ (b = true ↔ inversions (decoderOrder n.row) % 2 = 1) := by
  obtain ⟨hwf, hk, _, _, _, _⟩ := PForest.ready_parts h
  have hout : getOut (graphOf f) n.idx = .ok n.row :=
    getOut_eq _ _ _ (graphOf_nodeEncOK hwf hk hn).row
  exact ⟨hout, finalMol_row_decoderOrder hwf hn, (C04_parity_spec (graphOf f) n.idx n.row hout).1⟩

set_option maxRecDepth 100000 in
example : inversions [1, 0, 2, 3] % 2 = 1 := by decide

end SV
