/-
  Property C05 — "Aromatic SMILES are kekulized correctly, or rejected, independent of atom order"

  For every SMILES containing aromatic atoms or bonds, if selfies.encoder succeeds then the emitted
  SELFIES decodes to a structure in which every aromatic atom that needs a pi bond has exactly one
  double bond inside the former aromatic system, atoms that donate a lone pair or are satisfied by
  charge or substituents have none, and the sigma skeleton, hydrogens and charges are unchanged; if
  no alternating single/double assignment exists it raises EncoderError.  For aromatic systems made
  of the standard aromatic atom kinds it succeeds whenever such an assignment exists.  Acceptance
  and the resulting molecule do not depend on the order in which the SMILES lists the atoms.

  STATUS.  The full-strength statement is FALSE of the real code (finding F9): augmenting paths are
  found by a BFS WITHOUT blossom contraction, so on non-bipartite graphs the path can visit a vertex
  twice and `find_perfect_matching` returns a list that is not a matching.  `C05_no_blossom_witness`
  proves that on a concrete 8-vertex graph (by `decide`).  What holds, and is proved here for EVERY
  choice tape (the tape is the only nondeterminism: `unmatched.pop()` on a `set`):

  1. `C05_greedy_valid`, `C05_greedy_total`   `_greedy_matching` returns a valid partial matching
                                              and never raises (no StopIteration, no IndexError,
                                              the fuel of the model suffices);
  2. `C05_flip_valid`                         flipping along a SIMPLE alternating path keeps validity;
  3. `C05_bfs_path_alternating`               the BFS returns an alternating path in exactly the
                                              order the flip expects (simplicity is NOT claimed);
  4. `C05_augment_sound_partial`              if every path found on the run was simple, the result
                                              is a perfect matching;
     `C05_sound_if_result_valid`              the decidable checker the harness runs on the real
                                              code's output decides `PerfectMatching`;
  5. `C05_bipartite_paths_simple`, `C05_bipartite_sound`
                                              on bipartite graphs all paths are simple, hence
                                              `find_perfect_matching` is sound there;
  6. `C05_no_blossom_witness`                 the counterexample to unconditional soundness;
  7. `C05_kekulize_sound`                     given a perfect matching of the pruned subgraph of a
                                              well-formed parsed graph (`PWF`, decidable), `kekulize`
                                              returns exactly `kekResult` (atoms, bonded pairs, ring
                                              flags, stereo unchanged; aromatic orders become 1 or 2;
                                              counts stay the incident sums); `C05_kekulize_orders`,
                                              `C05_kekulize_one_double_bond` spell out (c);
  8. `C05_prune_standard_kinds`               `_prune_from_ds` on the table of standard aromatic atom
                                              kinds: "needs a π bond" ⇔ not pruned.

  NOT PROVED (kept as comments at the end): unconditional soundness (false), completeness of the
  search ("succeeds whenever an assignment exists"; false in general for a blossom-free BFS, open on
  bipartite graphs), independence of the atom order (false: F9 is order dependent), and that the
  parser establishes `PWF`.
-/
import SelfiesVerif.Proofs.KekulizeSound

namespace SV

/-! ### example graphs -/

/-- the pruned delocalisation subgraph of benzene `c1ccccc1` -/
def hexagon : Graph := [[1, 5], [0, 2], [1, 3], [2, 4], [3, 5], [4, 0]]

/-- a bipartite graph ({0..4} against {5..9}) on which the greedy phase leaves 4 and 8 unmatched
    and one augmentation (a path of 6 vertices) completes the matching -/
def bip10 : Graph :=
  [[9, 7], [6, 7, 8], [9, 5], [8, 6, 7, 5, 9], [5, 9], [4, 3, 2], [3, 1], [0, 3, 1], [3, 1], [2, 0, 4, 3]]

/-- F9: two triangles `0-1-2`, `3-6-… ` joined so that the BFS from 6 walks through a blossom -/
def blossomGraph : Graph := [[2, 4, 1], [0, 2], [0, 5, 1], [4, 7, 6], [3, 0], [7, 2, 6], [5, 3], [3, 5]]

/-! ### 1. the greedy phase -/

theorem C05_greedy_valid {g : Graph} {m : Matching} (hg : GraphOK g) (h : greedyMatching g = .ok m) :
    ValidPartial g m :=
  greedyMatching_valid hg h

/-- `_greedy_matching` never raises on a simple graph: `next(...)` always finds an unmatched
    neighbour (no `StopIteration`: `free_degrees[i]` IS the number of unmatched neighbours of `i`),
    all indices are in range, and the loop ends within the model's fuel `n + 2·Σdeg + 1`
    (every iteration pops one heap entry; pushes are paid for by the degrees of the two vertices
    that leave the unmatched set). -/
theorem C05_greedy_total {g : Graph} (hg : GraphOK g) : ∃ m, greedyMatching g = .ok m :=
  greedyMatching_total hg

example : isGraphOK bip10 = true ∧
    greedyMatching bip10 = .ok [some 9, some 7, some 5, some 6, none, some 2, some 3, some 1, none, some 0] := by
  decide

/-! ### 2. flipping -/

/-- `_flip_augmenting_path` along a simple alternating path `[v0, …, v_{2k+1}]` between two
    unmatched vertices (`AugPath`: `v_{2i} ∈ graph[v_{2i+1}]`, `matching[v_{2i+1}] = v_{2i+2}`)
    succeeds; the result is a valid matching in which `v_{2i}` and `v_{2i+1}` are matched to each
    other (so both ends and all inner vertices are matched) and nothing else changed. -/
theorem C05_flip_valid {g : Graph} {m : Matching} {path : List Nat} (hg : GraphOK g)
    (hv : ValidPartial g m) (hp : AugPath g m path) (hnd : path.Nodup) :
    ∃ m', flipPath path m = .ok m' ∧ ValidPartial g m' ∧ PairedAlong m' path ∧
      ∀ x : Nat, x ∉ path → m'[x]? = m[x]? :=
  flipPath_valid hg hv hp hnd

example :
    let g : Graph := [[1], [0, 2], [1, 3], [2]]
    let m : Matching := [none, some 2, some 1, none]
    isGraphOK g = true ∧ isValidPartial g m = true ∧ AugPath g m [0, 1, 2, 3] ∧ [0, 1, 2, 3].Nodup ∧
      flipPath [0, 1, 2, 3] m = .ok [some 1, some 0, some 3, some 2] := by decide

/-! ### 3. the BFS -/

/-- What `_find_augmenting_path` returns is an alternating path in the order the flip expects:
    it starts at an unmatched vertex `e ≠ root`, ends at the (unmatched) `root`, has even length,
    and satisfies `AugPath`.  Simplicity is NOT claimed (and fails, see 6). -/
theorem C05_bfs_path_alternating {g : Graph} {m : Matching} {root : Nat} {path : List Nat}
    (hv : ValidPartial g m) (h : findAugmentingPath g root m = .ok (some path)) :
    m[root]? = some none ∧
    (∃ e, path.head? = some e ∧ e ≠ root ∧ m[e]? = some none) ∧
    path.getLast? = some root ∧ path.length % 2 = 0 ∧ 2 ≤ path.length ∧ AugPath g m path := by
  obtain ⟨h1, h2, h3, ⟨e, h4, h5⟩, _, _⟩ := findAugmentingPath_spec hv h
  refine ⟨h1, ⟨e, h4, h5, ?_⟩, h3, h2.even.1, h2.even.2, h2⟩
  match path, h2 with
  | a :: b :: rest, h2 => simp at h4; subst h4; exact h2.1

/-- the same alternation by indices: `path[2i] ∈ graph[path[2i+1]]` (the new matching edges) and
    `matching[path[2i+1]] = path[2i+2]` (the old ones) -/
theorem C05_bfs_path_alternating_index {g : Graph} {m : Matching} {root : Nat} {path : List Nat}
    (hv : ValidPartial g m) (h : findAugmentingPath g root m = .ok (some path)) (i : Nat) :
    (∀ x y, path[2 * i]? = some x → path[2 * i + 1]? = some y → Adj g y x) ∧
    (∀ x y, path[2 * i + 1]? = some x → path[2 * i + 2]? = some y → m[x]? = some (some y)) :=
  (findAugmentingPath_spec hv h).2.1.index i

example :
    let m : Matching := [some 9, some 7, some 5, some 6, none, some 2, some 3, some 1, none, some 0]
    isValidPartial bip10 m = true ∧ findAugmentingPath bip10 8 m = .ok (some [4, 9, 0, 7, 1, 8]) := by
  decide

/-! ### 4. the augmentation loop -/

/-- If no augmenting path found on the run repeats a vertex (`findPerfectMatchingSimple` is the
    run with `assert len(set(path)) == len(path)` added after the BFS; it agrees with the real run
    whenever it does not fail), the result of `find_perfect_matching` is a perfect matching. -/
theorem C05_augment_sound_partial {g : Graph} {tape : List Nat} {m : Matching} (hg : GraphOK g)
    (h : findPerfectMatchingSimple g tape = .ok (some m)) :
    findPerfectMatching g tape = .ok (some m) ∧ PerfectMatching g m :=
  ⟨findPerfectMatchingSimple_agrees h, findPerfectMatchingSimple_sound hg h⟩

/-- the checked run fails only by the added assertion: whenever it returns, the real run returns
    the same -/
theorem C05_simple_run_agrees {g : Graph} {tape : List Nat} {r : Option Matching}
    (h : findPerfectMatchingSimple g tape = .ok r) : findPerfectMatching g tape = .ok r :=
  findPerfectMatchingSimple_agrees h

example : findPerfectMatchingSimple bip10 [8] =
    .ok (some [some 7, some 8, some 5, some 6, some 9, some 2, some 3, some 0, some 1, some 4]) := by decide

/-- the cheap, fully checkable form of soundness: the Boolean checker that the harness evaluates on
    the output of the real `find_perfect_matching` decides `PerfectMatching` -/
theorem C05_sound_if_result_valid (g : Graph) (m : Matching) :
    isPerfectMatching g m = true ↔ PerfectMatching g m :=
  isPerfectMatching_iff g m

theorem C05_graphOK_checker (g : Graph) : isGraphOK g = true ↔ GraphOK g := isGraphOK_iff g

example : isPerfectMatching hexagon [some 1, some 0, some 3, some 2, some 5, some 4] = true ∧
    isPerfectMatching hexagon [some 1, some 0, some 3, some 2, some 5, none] = false := by decide

/-! ### 5. bipartite graphs -/

/-- on a bipartite graph every path the blossom-free BFS returns is simple -/
theorem C05_bipartite_paths_simple {g : Graph} {m : Matching} {root : Nat} {path : List Nat}
    (hb : Bipartite g) (hv : ValidPartial g m)
    (h : findAugmentingPath g root m = .ok (some path)) : path.Nodup :=
  findAugmentingPath_simple_of_bipartite hb hv h

/-- hence `find_perfect_matching` is sound on bipartite graphs, for every tape -/
theorem C05_bipartite_sound {g : Graph} {tape : List Nat} {m : Matching} (hb : Bipartite g)
    (hg : GraphOK g) (h : findPerfectMatching g tape = .ok (some m)) : PerfectMatching g m := by
  rw [findPerfectMatching_eq_simple_of_bipartite hg hb] at h
  exact findPerfectMatchingSimple_sound hg h

example : isProperColouring bip10 (fun i => decide (i < 5)) = true ∧ isGraphOK bip10 = true ∧
    findPerfectMatching bip10 [8] =
      .ok (some [some 7, some 8, some 5, some 6, some 9, some 2, some 3, some 0, some 1, some 4]) := by
  decide

example : Bipartite bip10 := bipartite_of_colouring (fun i => decide (i < 5)) (by decide)

/-! ### 6. F9: without blossom contraction the result need not be a matching -/

/-- On `blossomGraph` the greedy phase leaves 6 and 7 unmatched; with the tape the real run used
    (`set.pop()` returned 6) the BFS returns the path `[7, 5, 2, 1, 0, 2, 5, 6]`, which visits 2 and 5
    twice, and `find_perfect_matching` returns `[2, 2, 0, 4, 3, 6, 5, 5]` — not a matching —
    although the graph is a simple graph with a perfect matching (which the tape `[7]` finds). -/
theorem C05_no_blossom_witness :
    isGraphOK blossomGraph = true ∧
    findPerfectMatching blossomGraph [6] =
      .ok (some [some 2, some 2, some 0, some 4, some 3, some 6, some 5, some 5]) ∧
    isPerfectMatching blossomGraph [some 2, some 2, some 0, some 4, some 3, some 6, some 5, some 5] = false ∧
    findAugmentingPath blossomGraph 6 [some 1, some 0, some 5, some 4, some 3, some 2, none, none]
      = .ok (some [7, 5, 2, 1, 0, 2, 5, 6]) ∧
    isPerfectMatching blossomGraph [some 4, some 2, some 1, some 7, some 0, some 6, some 5, some 3] = true ∧
    findPerfectMatching blossomGraph [7] =
      .ok (some [some 4, some 2, some 1, some 7, some 0, some 6, some 5, some 3]) := by
  decide

/-- in the spec's terms: unconditional soundness of `find_perfect_matching` is false -/
theorem C05_soundness_false :
    ¬ ∀ (g : Graph) (tape : List Nat) (m : Matching), GraphOK g →
      findPerfectMatching g tape = .ok (some m) → PerfectMatching g m := by
  intro h
  have h1 := h blossomGraph [6] _ ((isGraphOK_iff _).1 (by decide)) C05_no_blossom_witness.2.1
  have h2 := (isPerfectMatching_iff _ _).2 h1
  exact absurd h2 (by decide)

/-! ### 7. kekulization -/

/-- Let `m` be a well-formed parsed graph (`PWF`) with a non-empty delocalisation subgraph,
    `kept` the atoms `_prune_from_ds` keeps, `l2n = sorted(kept)`, `pg` the pruned, relabelled
    subgraph, and let `find_perfect_matching(pg)` return `mt`, a perfect matching of `pg`.
    Then `kekulize` returns `True` and leaves exactly `kekResult m l2n mt`:
    (a) atoms unchanged except `is_aromatic = False` on the keys of the subgraph;
    (b) `roots`, ring flags, attributions and the bonds (src, dst, stereo, ring flag, position)
        unchanged; only orders change (`mapOrders`);
    (c) the orders are `kekOrder`: a bond of order 1.5 becomes 2 if its ends are matched and 1
        otherwise, all other bonds keep their order;
    (d) the bond counts are the sums of the incident orders; the subgraph is cleared. -/
theorem C05_kekulize_sound {m : PMol} {kept l2n : List Nat} {pg : Graph} {mt : Matching}
    {tape : List Nat} (hwf : PWF m) (hne : m.ds.isEmpty = false)
    (hk : keptNodes m = .ok kept) (hl : l2n = kept.mergeSort (· ≤ ·))
    (hp : prunedGraph m l2n = .ok pg)
    (hm : findPerfectMatching pg tape = .ok (some mt)) (hpm : PerfectMatching pg mt) :
    m.kekulize tape = .ok (some
      { m with
        atoms := deArom (m.ds.map (·.1)) m.atoms,
        adj := mapOrders (kekOrder l2n mt) m.adj,
        counts2 := (List.range m.adj.length).map (incident2 (mapOrders (kekOrder l2n mt) m.adj)),
        ds := [] }) :=
  kekulize_sound ⟨hwf, hk, hl, hp, hpm⟩ hne hm

/-- (c), spelled out on the stored bonds: same ends, flags and stereo; new order as described -/
theorem C05_kekulize_orders (l2n : List Nat) (mt : Matching) (adj : List (List (Option PBond)))
    (i : Nat) :
    rowAt (mapOrders (kekOrder l2n mt) adj) i = (rowAt adj i).map fun b =>
      { b with order2 := if b.order2 = 3 then (if matchedPair l2n mt b.src b.dst then 4 else 2)
                         else b.order2 } :=
  rowAt_mapOrders _ adj i

/-- (c), counted per atom: `l = ds[k]` lists the aromatic neighbours of `k`, the bond `k – b`
    becomes double iff `matchedPair k b`; a kept atom gets exactly one double bond inside the
    former aromatic system, a pruned atom none.  `k` is kept iff `_prune_from_ds(k)` is `False`. -/
theorem C05_kekulize_one_double_bond {m : PMol} {kept l2n : List Nat} {pg : Graph} {mt : Matching}
    (hwf : PWF m) (hk : keptNodes m = .ok kept) (hl : l2n = kept.mergeSort (· ≤ ·))
    (hp : prunedGraph m l2n = .ok pg) (hpm : PerfectMatching pg mt)
    {k : Nat} {l : List Nat} (hkl : (k, l) ∈ m.ds) :
    (l.filter fun b => matchedPair l2n mt k b).length = (if k ∈ l2n then 1 else 0) ∧
    (k ∈ l2n ↔ m.pruneFromDs k = .ok false) := by
  have h : KekCtx m kept l2n pg mt := ⟨hwf, hk, hl, hp, hpm⟩
  refine ⟨h.double_bond_count hkl, ?_⟩
  rw [h.mem_l2n]
  exact ⟨fun h' => h'.2, fun h' => ⟨List.mem_map_of_mem (f := (·.1)) hkl, h'⟩⟩

/-- the decidable form of the well-formedness hypothesis (what the harness evaluates) -/
theorem C05_isPWF_iff (m : PMol) : isPWF m = true ↔ PWF m := isPWF_iff m

/-- benzene as `smiles_to_mol("c1ccccc1")` builds it -/
def benzene : PMol :=
  { atoms := List.replicate 6 { element := ['C'], isAromatic := true },
    roots := [0],
    adj := [[some { src := 0, dst := 5, order2 := 3, stereo := none, ring := true },
             some { src := 0, dst := 1, order2 := 3, stereo := none, ring := false }],
            [some { src := 1, dst := 2, order2 := 3, stereo := none, ring := false }],
            [some { src := 2, dst := 3, order2 := 3, stereo := none, ring := false }],
            [some { src := 3, dst := 4, order2 := 3, stereo := none, ring := false }],
            [some { src := 4, dst := 5, order2 := 3, stereo := none, ring := false }],
            [some { src := 5, dst := 0, order2 := 3, stereo := none, ring := true }]],
    counts2 := [6, 6, 6, 6, 6, 6],
    ringFlags := [true, false, false, false, false, true],
    ds := [(0, [1, 5]), (1, [0, 2]), (2, [1, 3]), (3, [2, 4]), (4, [3, 5]), (5, [4, 0])],
    atomAttr := [none, none, none, none, none, none] }

/-- field-wise equality of parsed graphs (`PMol` has no `DecidableEq`) -/
def PMol.same (a b : PMol) : Bool :=
  decide (a.atoms = b.atoms) && decide (a.roots = b.roots) && decide (a.adj = b.adj) &&
  decide (a.counts2 = b.counts2) && decide (a.ringFlags = b.ringFlags) && decide (a.ds = b.ds) &&
  decide (a.atomAttr = b.atomAttr)

theorem PMol.eq_of_same {a b : PMol} (h : a.same b = true) : a = b := by
  cases a; cases b
  simp only [PMol.same, Bool.and_eq_true, decide_eq_true_eq] at h
  obtain ⟨⟨⟨⟨⟨⟨h1, h2⟩, h3⟩, h4⟩, h5⟩, h6⟩, h7⟩ := h
  subst h1 h2 h3 h4 h5 h6 h7
  rfl

set_option maxRecDepth 100000 in
example : smilesToMol "c1ccccc1".toList false = .ok benzene := by
  have : (match smilesToMol "c1ccccc1".toList false with | .ok m => m.same benzene | _ => false) = true := by
    decide
  cases h : smilesToMol "c1ccccc1".toList false with
  | error e => rw [h] at this; cases this
  | ok m => rw [h] at this; rw [PMol.eq_of_same this]

example : isPWF benzene = true := by decide

example : keptNodes benzene = .ok [0, 1, 2, 3, 4, 5] ∧
    prunedGraph benzene [0, 1, 2, 3, 4, 5] = .ok hexagon ∧
    findPerfectMatching hexagon [] = .ok (some [some 1, some 0, some 3, some 2, some 5, some 4]) ∧
    isPerfectMatching hexagon [some 1, some 0, some 3, some 2, some 5, some 4] = true := by decide

/-- all hypotheses of `C05_kekulize_sound` hold for benzene; the result is Kekulé benzene
    (`List.mergeSort` is defined by well-founded recursion and does not reduce in the kernel, so
    `kekulize` itself cannot be evaluated by `decide`; the theorem is used instead) -/
example : benzene.kekulize [] = .ok (some
    { benzene with
      atoms := List.replicate 6 { element := ['C'], isAromatic := false },
      adj := [[some { src := 0, dst := 5, order2 := 2, stereo := none, ring := true },
               some { src := 0, dst := 1, order2 := 4, stereo := none, ring := false }],
              [some { src := 1, dst := 2, order2 := 2, stereo := none, ring := false }],
              [some { src := 2, dst := 3, order2 := 4, stereo := none, ring := false }],
              [some { src := 3, dst := 4, order2 := 2, stereo := none, ring := false }],
              [some { src := 4, dst := 5, order2 := 4, stereo := none, ring := false }],
              [some { src := 5, dst := 0, order2 := 2, stereo := none, ring := true }]],
      ds := [] }) := by
  have h := C05_kekulize_sound (m := benzene) (kept := [0, 1, 2, 3, 4, 5]) (l2n := [0, 1, 2, 3, 4, 5])
    (pg := hexagon) (mt := [some 1, some 0, some 3, some 2, some 5, some 4]) (tape := [])
    ((isPWF_iff _).1 (by decide)) (by decide) (by decide)
    (List.mergeSort_of_pairwise (by decide)).symm (by decide) (by decide)
    ((isPerfectMatching_iff _ _).1 (by decide))
  rw [h]
  congr 2

/-- for benzene: every atom is kept and gets exactly one double bond -/
example : ∀ p ∈ benzene.ds,
    (p.2.filter fun b => matchedPair [0, 1, 2, 3, 4, 5] [some 1, some 0, some 3, some 2, some 5, some 4] p.1 b).length
      = 1 := by decide

/-! ### 8. pruning of the standard aromatic atom kinds -/

/-- `_prune_from_ds` reads only the atom, the number of its aromatic bonds and its bond count -/
theorem C05_prune_local {m : PMol} {node : Nat} {adj : List Nat} {a : Atom} {c2 : Nat}
    (h1 : lookup node m.ds = some adj) (h2 : m.atoms[node]? = some a) (h3 : m.counts2[node]? = some c2) :
    m.pruneFromDs node = pruneAtom a adj.length c2 :=
  pruneFromDs_eq_pruneAtom h1 h2 h3

example : lookup 0 benzene.ds = some [1, 5] ∧ benzene.atoms[0]? = some { element := ['C'], isAromatic := true } ∧
    benzene.counts2[0]? = some 6 ∧
    pruneAtom { element := ['C'], isAromatic := true } 2 6 = .ok false := by decide

/-- The table `pruneTable` (Proofs/KekulizeSound.lean) lists the standard aromatic atom kinds of
    ring systems as (element, h_count (`none` = not bracketed), charge, number of aromatic bonds,
    sum of the other bond orders in half units) with the chemist's classification `needsPi`:
    `c` with H / substituent / fused (needs π), `c(=O)` (exocyclic double bond: none), `[cH]`,
    `[cH-]`, `[c-]` (lone pair: none), `[cH+]` (empty orbital: none), pyridine `n` (needs π),
    `n(C)`, fused `n`, `[nH]` (lone pair: none), `[n+]`, `[nH+]` (needs π), `[n-]`, `o`, `s`, `s(=O)`,
    `[se]` (lone pair: none), `[o+]`, `[s+]` (needs π), `p`, `p(C)`, `[pH]` like `n`, `b`, `b(C)`.
    The quantifier is this table: for every row, not pruned ⇔ needs a π bond. -/
theorem C05_prune_standard_kinds : ∀ r ∈ pruneTable, r.run = .ok (!r.needsPi) := by decide

example : pruneTable.length = 28 := by decide

/-
  NOT PROVED / FALSE:

  * full soundness
      theorem C05_sound : GraphOK g → findPerfectMatching g tape = .ok (some m) → PerfectMatching g m
    is FALSE (`C05_soundness_false`).  Proved instead: under "all paths simple"
    (`C05_augment_sound_partial`) and on bipartite graphs (`C05_bipartite_sound`).

  * completeness ("succeeds whenever an assignment exists")
      theorem C05_complete : GraphOK g → (∃ m, PerfectMatching g m) →
          findPerfectMatching g tape = .ok none → False
    not proved.  A BFS without blossoms is not complete on non-bipartite graphs in general; on
    bipartite graphs it needs the Berge/Hungarian-forest argument, which is not done here.

  * order independence: not stated; F9 depends on the atom order.

  * `PWF (smilesToMol s)`: assumed (hypothesis of `C05_kekulize_sound`), checked by `isPWF` in the
    harness, shown here only for benzene.
-/

end SV
