/-
  Property C04 — "Round trip preserves tetrahedral and double-bond stereochemistry"

  For every SMILES the encoder accepts, each atom marked @ or @@ has the same handedness after
  encoder then decoder, where handedness is judged from the written neighbour order (preceding
  atom, implicit hydrogen, ring-closure positions, branches) in the input and in the output.
  Every '/' or '\' mark is found again on the same bond with the same direction, including marks
  carried by ring-closure bonds on either end.

  Formalisation (notions from Proofs/Parity.lean).

  Tetrahedral centres.  `out = adj[a]` lists the out-bonds of atom `a` in the order the input
  SMILES wrote them.  The decoder writes the same bonds in the order `decoderOrder out`
  (a list of positions of `out`):
      positions of the CLOSING ring bonds (`ring ∧ ¬ src < dst`), in list order
   ++ positions of the OPENING ring bonds (`ring ∧ src < dst`), stably sorted by partner index `dst`
   ++ positions of the chain / branch bonds (`¬ ring`), in list order.
  `decoderOrder` is defined from `List.range`, `List.filter` and a six-line stable insertion sort
  (`stableSortBy`), independently of the model's `zip / filter / mergeSort` pipeline.  It is pinned
  down declaratively as well (`C04_decoderOrder_characterisation`): it is THE permutation of
  `0 .. out.length-1` in which `i` precedes `j` iff `Before out i j`
  (class closing < opening < chain; then, among opening ring bonds, smaller partner index; then
  smaller position).  The first two neighbours of a centre (preceding atom, implicit H) are not
  out-bonds and keep their places, so they do not enter the permutation.

  Two neighbour orders denote the same handedness under the same tag iff the permutation between
  them is even; `inversions l % 2` is that parity: an adjacent transposition of two different
  elements flips it, the identity has none, and only sorted lists have none
  (`C04_inversions_parity`), hence ANY way of sorting `decoderOrder out` back to the identity by
  adjacent transpositions uses an odd number of them iff `inversions` is odd
  (`C04_parity_is_transposition_parity`).

  `C04_parity_spec`: the model's `shouldInvertChirality` returns `true` exactly when
  `decoderOrder out` is an odd permutation; `C04_invert_involutive`: what the flip does.

  '/' and '\' marks.  `C04_ring_marks` (ring-closure bonds: the two-character prefix of the ring
  symbol is looked up again in the generated `ringTable` and gives each end its own mark back),
  `C04_chain_marks` (chain bonds: the leading bond character of the atom symbol is read back by
  `processAtomSelfiesNoCache`).

  Link to Mathlib (optional file Proofs/ParitySign.lean, not imported here): for `σ : Perm (Fin n)`
  in one-line notation, `Equiv.Perm.sign σ = (-1) ^ inversions (permList σ)`, and
  `shouldInvertChirality_sign` restates `C04_parity_spec` with `Equiv.Perm.sign σ = -1`.

  Not covered here (it is the decoder-side half of the round trip): that `formRings` really produces
  the order `decoderOrder` — it inserts the `k`-th ring bond of an atom at position `k` of its
  adjacency list, rings being formed in the order of the ring symbols in the SELFIES string.
  That this is the order of CLOSING ATOMS (which `decoderOrder` assumes when it sorts the opening
  ring bonds by partner index) needs every atom's ring symbols to stand directly behind the atom
  symbol.  The upstream `_fragment_to_selfies` emitted them at the written position instead, after
  any branch spelled before the ring-closure digit, so a later closing atom inside such a branch
  overtook the earlier one: `[C@]12(F)CC(C2)1` came back as `[C@]12(F)CC2C1`, handedness inverted
  (the two ring partners of atom 0 swapped, tag unchanged; `shouldInvertChirality` says "even").
  The repaired encoder ("ring bonds first" in `_fragment_to_selfies` / `fragmentGo`) returns
  `[C@]12(F)CC1C2`.  The theorems below do not depend on which of the two encoders the model has;
  the end-to-end examples in section 6 are chosen to hold for both.
-/
import SelfiesVerif.Proofs.Parity
import SelfiesVerif.Model.Decoder

namespace SV

open List

/-! ### 1. parity -/

/-- The three facts that make `inversions l % 2` the parity of the permutation `l`. -/
theorem C04_inversions_parity :
    -- (a) an adjacent transposition changes the number of inversions by exactly one ...
    (∀ (l₁ l₂ : List Nat) (a b : Nat), a < b →
        inversions (l₁ ++ b :: a :: l₂) = inversions (l₁ ++ a :: b :: l₂) + 1) ∧
    -- ... so it flips the parity (for two different elements, in either direction)
    (∀ (l₁ l₂ : List Nat) (a b : Nat), a ≠ b →
        inversions (l₁ ++ b :: a :: l₂) % 2 ≠ inversions (l₁ ++ a :: b :: l₂) % 2) ∧
    -- (b) the identity has no inversions
    (∀ n, inversions (List.range n) = 0) ∧
    -- (c) no inversions iff sorted (strictly, for duplicate-free lists)
    (∀ l : List Nat, inversions l = 0 ↔ l.Pairwise (· ≤ ·)) ∧
    (∀ l : List Nat, l.Nodup → (inversions l = 0 ↔ l.Pairwise (· < ·))) ∧
    -- the only permutation of `0..n-1` without inversions is the identity
    (∀ (l : List Nat) (n : Nat), l.Perm (List.range n) → inversions l = 0 → l = List.range n) ∧
    -- `inversions` counts the pairs of positions `i < j` with `l[i] > l[j]`
    (∀ l : List Nat, inversions l =
      ((List.range l.length).map fun i =>
        (List.range l.length).countP fun j => i < j && l.getD j 0 < l.getD i 0).sum) :=
  ⟨inversions_swap_adjacent, inversions_swap_adjacent_parity, inversions_range,
   inversions_eq_zero_iff, inversions_eq_zero_iff_lt, eq_range_of_perm_of_inversions_eq_zero,
   inversions_eq_pairs⟩

example : inversions [1, 3, 2, 0] = 4 ∧ inversions [1, 2, 3, 0] = 3 ∧ inversions [0, 1, 2, 3] = 0 := by
  decide

/-- Sorting by adjacent transpositions: `inversions l` of them suffice, and however it is done the
    number of transpositions has the parity of `inversions l`. -/
theorem C04_parity_is_transposition_parity (l : List Nat) :
    (∃ l', AdjSwaps (inversions l) l l' ∧ l'.Pairwise (· ≤ ·)) ∧
    (∀ k l', AdjSwaps k l l' → l'.Pairwise (· ≤ ·) → k % 2 = inversions l % 2) :=
  ⟨exists_adjSwaps_sort l, fun _ _ h hs => h.parity_of_sorted hs⟩

example : AdjSwaps 3 [1, 2, 3, 0] [0, 1, 2, 3] :=
  .step (l₁ := [1, 2]) (l₂ := []) (by decide)
    (.step (l₁ := [1]) (l₂ := [3]) (by decide)
      (.step (l₁ := []) (l₂ := [2, 3]) (by decide) (.refl _)))

/-! ### 2. the model computes the parity of the specified neighbour order -/

/-- `decoderOrder out` is a genuine permutation of the positions, lists them in the order
    `Before out`, and is the only such list. -/
theorem C04_decoderOrder_characterisation (out : List PBond) :
    (decoderOrder out).Perm (List.range out.length) ∧
    (decoderOrder out).Pairwise (Before out) ∧
    (∀ l : List Nat, l.Perm (List.range out.length) → l.Pairwise (Before out) → l = decoderOrder out) :=
  ⟨decoderOrder_perm out, decoderOrder_pairwise out, decoderOrder_unique out⟩

/-- Equational form, failures included: `shouldInvertChirality` fails exactly when the adjacency
    list cannot be read (bad index, unclosed ring placeholder), with the same exception, and
    otherwise returns the parity of `decoderOrder out`. -/
theorem C04_parity_eq (m : PMol) (idx : Nat) :
    shouldInvertChirality m idx =
      (getOut m idx).map fun out => inversions (decoderOrder out) % 2 == 1 := by
  cases h : getOut m idx with
  | error e => rw [shouldInvertChirality_error m idx e h]; rfl
  | ok out =>
    rw [shouldInvertChirality_eq m idx out h]
    show Except.ok _ = Except.ok _
    congr 1
    rcases Nat.mod_two_eq_zero_or_one (inversions (decoderOrder out)) with h | h <;> simp [h]

/-- Property C04, tetrahedral part: the tag is flipped iff the decoder's neighbour order is an
    odd permutation of the written one. -/
theorem C04_parity_spec (m : PMol) (idx : Nat) (out : List PBond) (h : getOut m idx = .ok out) :
    (∃ b, shouldInvertChirality m idx = .ok b ∧
          (b = true ↔ inversions (decoderOrder out) % 2 = 1)) ∧
    (decoderOrder out).Perm (List.range out.length) := by
  refine ⟨⟨inversions (decoderOrder out) % 2 == 1, ?_, by simp⟩, decoderOrder_perm out⟩
  rw [C04_parity_eq, h]
  rfl

/-- the atom of the task statement: `adj = [chain, closing ring, opening ring to 7, opening ring to 5]` -/
def c04Mol1 : PMol :=
  { adj := [[], [], [],
      [some { src := 3, dst := 4, order2 := 2, stereo := none, ring := false },
       some { src := 3, dst := 1, order2 := 2, stereo := none, ring := true },
       some { src := 3, dst := 7, order2 := 2, stereo := none, ring := true },
       some { src := 3, dst := 5, order2 := 2, stereo := none, ring := true }]] }

/-- the same with the two opening rings already in partner order -/
def c04Mol2 : PMol :=
  { adj := [[], [], [],
      [some { src := 3, dst := 4, order2 := 2, stereo := none, ring := false },
       some { src := 3, dst := 1, order2 := 2, stereo := none, ring := true },
       some { src := 3, dst := 5, order2 := 2, stereo := none, ring := true },
       some { src := 3, dst := 7, order2 := 2, stereo := none, ring := true }]] }

example : ∃ out, getOut c04Mol1 3 = .ok out ∧ decoderOrder out = [1, 3, 2, 0] ∧
    inversions (decoderOrder out) = 4 := ⟨_, rfl, by decide, by decide⟩

example : ∃ out, getOut c04Mol2 3 = .ok out ∧ decoderOrder out = [1, 2, 3, 0] ∧
    inversions (decoderOrder out) = 3 := ⟨_, rfl, by decide, by decide⟩

/-- even permutation: keep the tag -/
example : shouldInvertChirality c04Mol1 3 = .ok false := by rw [C04_parity_eq]; decide

/-- odd permutation: flip the tag -/
example : shouldInvertChirality c04Mol2 3 = .ok true := by rw [C04_parity_eq]; decide

/-- an unclosed ring placeholder is the `AttributeError` of `None.ring_bond` -/
example : shouldInvertChirality { adj := [[none]] } 0 = .error .AttributeError := by
  rw [C04_parity_eq]; decide

/-- The encoder only asks `shouldInvertChirality` for atoms flagged as ring atoms.  That shortcut
    is harmless: without ring bonds the decoder keeps the neighbour order and no flip is due. -/
theorem C04_no_ring_no_flip (m : PMol) (idx : Nat) (out : List PBond) (h : getOut m idx = .ok out)
    (hr : ∀ b ∈ out, b.ring = false) :
    decoderOrder out = List.range out.length ∧ shouldInvertChirality m idx = .ok false := by
  have hd := decoderOrder_of_no_ring out hr
  refine ⟨hd, ?_⟩
  rw [C04_parity_eq, h]
  show Except.ok (inversions (decoderOrder out) % 2 == 1) = Except.ok false
  rw [hd, inversions_range]
  rfl

example : ∃ out, getOut
      { adj := [[some { src := 0, dst := 1, order2 := 2, stereo := none, ring := false },
                 some { src := 0, dst := 2, order2 := 4, stereo := none, ring := false }]] } 0 = .ok out ∧
    (∀ b ∈ out, b.ring = false) ∧ out.length = 2 := ⟨_, rfl, by decide, rfl⟩

/-! ### 3. the flip -/

theorem C04_invert_involutive (a : Atom) :
    a.invertChirality.invertChirality = a ∧
    (a.chirality = some ['@'] → a.invertChirality.chirality = some ['@', '@']) ∧
    (a.chirality = some ['@', '@'] → a.invertChirality.chirality = some ['@']) ∧
    (a.chirality ≠ some ['@'] → a.chirality ≠ some ['@', '@'] → a.invertChirality = a) ∧
    a.invertChirality.element = a.element ∧ a.invertChirality.isAromatic = a.isAromatic ∧
    a.invertChirality.isotope = a.isotope ∧ a.invertChirality.hCount = a.hCount ∧
    a.invertChirality.charge = a.charge := by
  obtain ⟨el, ar, iso, ch, hc, cg⟩ := a
  unfold Atom.invertChirality
  by_cases h1 : ch = some ['@']
  · subst h1; simp
  · by_cases h2 : ch = some ['@', '@']
    · subst h2; simp
    · simp [h1, h2]

example :
    Atom.invertChirality
      { element := ['C'], isAromatic := false, chirality := some ['@'], hCount := some 1 } =
      { element := ['C'], isAromatic := false, chirality := some ['@', '@'], hCount := some 1 } := by
  decide

/-! ### 4. '/' and '\' on ring-closure bonds -/

/-- Property C04, ring-closure marks.  `l` is the bond stored at the opening atom, `r` the one at
    the closing atom (the encoder calls `ringBondsToSelfies rev bond` in this order).  Whenever the
    encoder can spell the pair at all, the orders agree and are 1, 2 or 3 (in half units 2, 4, 6),
    the prefix is `ringPrefix` (nothing / `=` / `#` / the two marks, a missing one spelled `-`),
    and for every index length `L` the symbol `[<prefix>Ring<L>]` is a key of the generated
    `ringTable` whose entry gives the order, `L`, and to each end its own mark; double and triple
    ring bonds carry no marks. -/
theorem C04_ring_marks (l r : PBond) (pre : Str)
    (hl : l.stereo ∈ stereoMarks) (hr : r.stereo ∈ stereoMarks)
    (h : ringBondsToSelfies l r = .ok pre) :
    l.order2 = r.order2 ∧ (l.order2 = 2 ∨ l.order2 = 4 ∨ l.order2 = 6) ∧
    pre = ringPrefix l.order2 l.stereo r.stereo ∧
    ∀ L ∈ [1, 2, 3],
      ringSymbol pre "Ring".toList L ∈ Gen.ringTable.map Prod.fst ∧
      processRingSymbol (ringSymbol pre "Ring".toList L) =
        some (l.order2 / 2, L, if l.order2 = 2 then (l.stereo, r.stereo) else (none, none)) := by
  obtain ⟨h1, h2⟩ := ringBondsToSelfies_ok_order l r pre h
  have ho : l.order2 ∈ [2, 4, 6] := by
    rcases h2 with h2 | h2 | h2 <;> simp [h2]
  obtain ⟨t1, t2⟩ := ring_marks_table l.order2 ho l.stereo hl r.stereo hr
  rw [ringBondsToSelfies_congr, ← h1, t1] at h
  cases h
  refine ⟨h1, h2, rfl, fun L hL => ?_⟩
  have := t2 L hL
  exact ⟨lookup_mem_keys _ _ _ this, this⟩

/-- ... and the encoder can spell every such pair. -/
theorem C04_ring_marks_total (l r : PBond)
    (hl : l.stereo ∈ stereoMarks) (hr : r.stereo ∈ stereoMarks)
    (h1 : l.order2 = r.order2) (h2 : l.order2 = 2 ∨ l.order2 = 4 ∨ l.order2 = 6) :
    ringBondsToSelfies l r = .ok (ringPrefix l.order2 l.stereo r.stereo) := by
  have ho : l.order2 ∈ [2, 4, 6] := by
    rcases h2 with h2 | h2 | h2 <;> simp [h2]
  rw [ringBondsToSelfies_congr, ← h1]
  exact (ring_marks_table l.order2 ho l.stereo hl r.stereo hr).1

/-- mixed case: only the opening end carries a mark; it is spelled with the prefix `/` `-`
    (slash, minus) and read back as `('/', none)` -/
example :
    ringBondsToSelfies { src := 2, dst := 9, order2 := 2, stereo := some '/', ring := true }
        { src := 9, dst := 2, order2 := 2, stereo := none, ring := true } = .ok ['/', '-'] ∧
    ringSymbol ['/', '-'] "Ring".toList 2 = "[/-Ring2]".toList ∧
    processRingSymbol "[/-Ring2]".toList = some (1, 2, (some '/', none)) := by decide

/-- mixed case the other way round, and a double ring bond -/
example :
    ringBondsToSelfies { src := 2, dst := 9, order2 := 2, stereo := none, ring := true }
        { src := 9, dst := 2, order2 := 2, stereo := some '\\', ring := true } = .ok ['-', '\\'] ∧
    processRingSymbol "[-\\Ring1]".toList = some (1, 1, (none, some '\\')) ∧
    ringBondsToSelfies { src := 2, dst := 9, order2 := 4, stereo := none, ring := true }
        { src := 9, dst := 2, order2 := 4, stereo := none, ring := true } = .ok ['='] ∧
    processRingSymbol "[=Ring3]".toList = some (2, 3, (none, none)) := by decide

/-! ### 5. '/' and '\' on chain bonds -/

/-- Property C04, chain-bond marks.  `body` is the atom text without brackets.  A single bond
    writes its mark (if any) in front of the body and `processAtomSelfiesNoCache` reads the same
    mark back with order 1; double and triple bonds write `=` / `#`, read back as order 2 / 3
    without a mark; any other order is the `ValueError` of `bond_to_smiles`.

    Side condition for the unmarked single bond: the body itself must not start with one of
    `= # / \` (otherwise that character is read as the bond).  It holds for every atom whose
    element is a chemical element (`C04_chain_marks_body`); the `example` after that shows that it
    cannot be dropped for arbitrary `Atom` records. -/
theorem C04_chain_marks (b : PBond) (a : Atom) (body : Str)
    (hbody : atomToSmiles a false = .ok body) :
    (b.order2 = 2 → b.stereo ∈ stereoMarks →
      atomToSelfies (some b) a = .ok ('[' :: (b.stereo.toList ++ body ++ [']'])) ∧
      ((b.stereo ≠ none ∨ startsWithBondChar body = false) →
        ∀ r, processAtomSelfiesNoCache ('[' :: (b.stereo.toList ++ body ++ [']'])) = some r →
          r.1 = (1, b.stereo))) ∧
    (b.order2 = 4 →
      atomToSelfies (some b) a = .ok ('[' :: ('=' :: body ++ [']'])) ∧
      ∀ r, processAtomSelfiesNoCache ('[' :: ('=' :: body ++ [']'])) = some r → r.1 = (2, none)) ∧
    (b.order2 = 6 →
      atomToSelfies (some b) a = .ok ('[' :: ('#' :: body ++ [']'])) ∧
      ∀ r, processAtomSelfiesNoCache ('[' :: ('#' :: body ++ [']'])) = some r → r.1 = (3, none)) ∧
    (b.order2 ≠ 2 → b.order2 ≠ 4 → b.order2 ≠ 6 →
      atomToSelfies (some b) a = .error .ValueError) := by
  obtain ⟨t0, t1, t2, t3, t4⟩ := smilesToBond_table
  refine ⟨fun ho hs => ?_, fun ho => ?_, fun ho => ?_, fun h2 h4 h6 => ?_⟩
  · simp only [stereoMarks, mem_cons, not_mem_nil, or_false] at hs
    rcases hs with hs | hs | hs
    · have hbc : bondToSelfies b true = .ok [] := by
        simp [bondToSelfies, bondToSmiles2, ho, hs]
      refine ⟨by rw [atomToSelfies_eq b a body [] hbody hbc, hs]; rfl, fun hc r hr => ?_⟩
      rw [hs] at hr hc ⊢
      have hb : startsWithBondChar body = false := by simpa using hc
      have := readback_nomark body hb r hr
      rw [t0] at this
      exact this
    · have hbc : bondToSelfies b true = .ok ['/'] := by
        simp [bondToSelfies, bondToSmiles2, ho, hs]; decide
      refine ⟨by rw [atomToSelfies_eq b a body ['/'] hbody hbc, hs]; rfl, fun _ r hr => ?_⟩
      rw [hs] at hr ⊢
      have := readback_mark '/' (by decide) _ r hr
      rw [t1] at this
      exact this
    · have hbc : bondToSelfies b true = .ok ['\\'] := by
        simp [bondToSelfies, bondToSmiles2, ho, hs]; decide
      refine ⟨by rw [atomToSelfies_eq b a body ['\\'] hbody hbc, hs]; rfl, fun _ r hr => ?_⟩
      rw [hs] at hr ⊢
      have := readback_mark '\\' (by decide) _ r hr
      rw [t2] at this
      exact this
  · have hbc : bondToSelfies b true = .ok ['='] := by
      simp [bondToSelfies, bondToSmiles2, ho]
    refine ⟨by rw [atomToSelfies_eq b a body ['='] hbody hbc]; rfl, fun r hr => ?_⟩
    have := readback_mark '=' (by decide) _ r hr
    rw [t3] at this
    exact this
  · have hbc : bondToSelfies b true = .ok ['#'] := by
      simp [bondToSelfies, bondToSmiles2, ho]
    refine ⟨by rw [atomToSelfies_eq b a body ['#'] hbody hbc]; rfl, fun r hr => ?_⟩
    have := readback_mark '#' (by decide) _ r hr
    rw [t4] at this
    exact this
  · have hbc : bondToSelfies b true = .error .ValueError := by
      simp [bondToSelfies, bondToSmiles2, h2, h4, h6]
    exact atomToSelfies_error b a body _ hbody hbc

/-- the side condition of `C04_chain_marks` holds for every atom of a chemical element -/
theorem C04_chain_marks_body (a : Atom) (body : Str)
    (he : memStr a.element Gen.elements = true) (hbody : atomToSmiles a false = .ok body) :
    startsWithBondChar body = false := by
  have hmem : a.element ∈ Gen.elements := by
    unfold memStr at he
    exact List.contains_iff_mem.1 he
  obtain ⟨h1, h2⟩ := elements_no_bondChar a.element hmem
  exact atomToSmiles_no_bondChar a body h1 h2 hbody

/-- `C/[C@@H]...`: the atom symbol `[/C@@H1]` is read back as `((1, '/'), C@@H1)` -/
example :
    let a : Atom := { element := ['C'], isAromatic := false, chirality := some ['@', '@'],
                      hCount := some 1 }
    let b : PBond := { src := 0, dst := 1, order2 := 2, stereo := some '/', ring := false }
    atomToSmiles a false = .ok "C@@H1".toList ∧
    atomToSelfies (some b) a = .ok "[/C@@H1]".toList ∧
    processAtomSelfiesNoCache "[/C@@H1]".toList = some ((1, some '/'), a) := by decide

/-- the side condition is needed: an `Atom` record whose "element" starts with `=` -/
example :
    let a : Atom := { element := ['=', 'C'], isAromatic := false }
    let b : PBond := { src := 0, dst := 1, order2 := 2, stereo := none, ring := false }
    atomToSelfies (some b) a = .ok "[=C]".toList ∧
    (processAtomSelfiesNoCache "[=C]".toList).map (·.1) = some (2, none) := by decide

/-! ### 6. end-to-end instances (encoder, then decoder, on the default constraint table)

These are evaluations of the model, not theorems about all inputs; they show the pieces above at
work together with the decoder's ring pass.  (`decide` cannot evaluate `shouldInvertChirality` on
an atom with two or more opening ring bonds, because core's `List.mergeSort` is defined by
well-founded recursion; for such atoms the examples go through `C04_parity_eq`.) -/

def c04Table : Table := (Table.ofDict Gen.initialConstraints).getD { entries := [], dflt := 0 }

/-- (SELFIES, SMILES written by the decoder) -/
def c04RoundTrip (s : Str) : Py (Str × Str) := do
  let e ← encoder c04Table s
  let d ← decoder c04Table e
  pure (e, d)

/-- the ring closure written between `F` and `Cl` is written in front of both by the decoder:
    one transposition, `@` becomes `@@` -/
example : (smilesToMol "C1CC[C@](F)1Cl".toList false).bind (fun m => shouldInvertChirality m 3)
      = .ok true ∧
    (c04RoundTrip "C1CC[C@](F)1Cl".toList).map (·.2) = .ok "C1CC[C@@]1(F)Cl".toList := by
  decide +kernel

/-- two opening rings written in the order "partner 5, partner 3" come back in the order
    "partner 3, partner 5": `@` becomes `@@` -/
example : c04RoundTrip "[C@]21(F)CC1CC2".toList =
    .ok ("[C@@][Branch1][C][F][C][C][Ring1][Ring2][C][C][Ring1][=Branch1]".toList,
         "[C@@]12(F)CC1CC2".toList) := by
  unfold c04RoundTrip encoder encoderFull encodePrepare
  simp only [C04_parity_eq]
  decide +kernel

/-- a mark carried by the closing end of a ring bond only -/
example : c04RoundTrip "F/C=C1/CCC\\1".toList =
    .ok ("[F][/C][=C][/C][C][C][-\\Ring1][Ring2]".toList, "F/C=C1/CCC\\1".toList) := by
  decide +kernel

/-- a mark carried by the opening end of a ring bond only -/
example : c04RoundTrip "F/C=C/1CCC1".toList =
    .ok ("[F][/C][=C][C][C][C][/-Ring1][Ring2]".toList, "F/C=C/1CCC1".toList) := by
  decide +kernel

/-- two opening rings written in the order "partner 5, partner 3": the decoder will write
    "partner 3, partner 5", so the tag must flip ... -/
example : (smilesToMol "[C@]21(F)CC1CC2".toList false).bind (fun m => shouldInvertChirality m 0)
    = .ok true := by
  simp only [C04_parity_eq]; decide +kernel

/-- ... and not if they are already in partner order -/
example : (smilesToMol "[C@]12(F)CC1CC2".toList false).bind (fun m => shouldInvertChirality m 0)
    = .ok false := by
  simp only [C04_parity_eq]; decide +kernel

end SV
