/-
  Property C19 — "Concurrent translation calls give the same results as serial calls"

  With the constraint table fixed, any number of threads calling encoder and decoder concurrently
  on any inputs obtain, for every call, exactly the result the same call returns when run alone;
  no call observes atoms, graphs, caches or ring bookkeeping of another call.
  Quantifier: all interleavings of thread switches among concurrent calls over shared
  module-level caches.

  Formalisation (model in Model/Memo.lean, notions in Proofs/Memo.lean).

  With the table fixed, the only state two translation calls share are memo tables
  (`_PROCESS_ATOM_CACHE`: a dict with check-then-insert and no lock; three `functools.lru_cache`s:
  bounded, may evict at any time).  Each memoises a pure partial function `f : K → Option V` of the
  key (`none`: nothing cacheable — `None` for a symbol, an exception for the capacity; a total
  function `g` is `fun k => some (g k)`).  A call is a `Prog K V R`: a tree of `lookup k`
  (branching on what the probe returned), `store k v` and `ret r` nodes, all call-local computation
  sitting in the pure continuations.  `runSchedule c₀ ts₀ evs` runs a finite family `ts₀` of calls
  from table `c₀` under a schedule `evs`, a list of events `step i` (thread `i` performs its next
  atomic table access), `evict mask` (the environment drops an arbitrary subset of entries) and
  `touch j` (LRU reordering) — so the schedule quantifier ranges over ALL interleavings, all
  evictions, all lengths.  `p.runAlone` is the call run with no cache at all.

  * `Coherent f c`  : every entry `(k, v)` of the table has `f k = some v`;
  * `UsesMemo f p`  : every `store k v` of `p` has `f k = some v`, and at every `lookup k` a hit
                      returning `f k` leads to the same `runAlone` result as a miss (hereditarily).
                      This is exactly `try: v = cache[k] except KeyError: v = f(k); cache[k] = v`.

  ASSUMED, NOT MODELLED (see the header of Model/Memo.lean for the inventory):
  * atomicity of each individual `dict` get / set and `lru_cache` probe / insert in CPython (GIL,
    `lru_cache`'s internal lock); bytecode-level interleavings inside one container operation and
    free-threaded builds are out of scope;
  * that everything else a call touches (`MolecularGraph`, atoms, bonds, `rings`, `ring_log`,
    `derived`, iterators, attribution lists) is call-local — the harness re-derives that inventory
    from the Python source on every run;
  * the constraint table is fixed (no concurrent `set_semantic_constraints`).

  Deviation from the sketch in the task: `f` is a PARTIAL function (`K → Option V`), because both
  real memo patterns skip the store when the computation yields nothing (`if output is None: return
  None`; `lru_cache` does not cache exceptions); and the step bound in the progress statement is
  `p₀.size f` (longest path when hits return `f k`), since a bound that ignores `f` would have to
  range over unreachable hit values.
-/
import SelfiesVerif.Proofs.Memo

namespace SV

variable {K V R : Type} [DecidableEq K]

/-! ### C19a: the shared table stays coherent -/

/-- One event (a thread step of a memo-correct call, an eviction, a reordering) keeps the table
    coherent and the threads memo-correct. -/
theorem C19_event_coherent (f : K → Option V) (c : Cache K V) (ts : List (Prog K V R)) (e : Event) :
    Coherent f c → (∀ p ∈ ts, UsesMemo f p) →
    Coherent f (stepEvent c ts e).1 ∧ ∀ p ∈ (stepEvent c ts e).2, UsesMemo f p := by
  intro hc hts
  have h := stepEvent_inv (SchedInv.init hc hts) e
  exact ⟨h.1, fun p hp => by
    obtain ⟨i, hi, rfl⟩ := List.getElem_of_mem hp
    exact (h.2.2 i _ (List.getElem?_eq_getElem hi)).1⟩

/-- Coherence is preserved by every event of every schedule (every prefix of a schedule is a
    schedule, so this is the state after each event): stores write `f k`, evictions only remove. -/
theorem C19_cache_coherent (f : K → Option V) (c₀ : Cache K V) (ts₀ : List (Prog K V R))
    (evs : List Event) :
    Coherent f c₀ → (∀ p ∈ ts₀, UsesMemo f p) →
    Coherent f (runSchedule c₀ ts₀ evs).1 ∧ ∀ p ∈ (runSchedule c₀ ts₀ evs).2, UsesMemo f p := by
  intro hc hts
  have h := runSchedule_inv evs (SchedInv.init hc hts)
  exact ⟨h.1, fun p hp => by
    obtain ⟨i, hi, rfl⟩ := List.getElem_of_mem hp
    exact (h.2.2 i _ (List.getElem?_eq_getElem hi)).1⟩

example :
    let f : Nat → Option Nat := fun k => if k = 0 then none else some (k + 10)
    let ts : List (Prog Nat Nat (List (Option Nat))) := [memoMapM f [3, 4] .ret, memoMapM f [4, 3, 0] .ret]
    (runSchedule [(7, 17)] ts
        [.step 0, .step 1, .step 1, .evict [true, true], .step 0, .step 0, .step 1, .touch 0, .step 0]).1
      = [(3, 13), (4, 14)] := by decide

/-! ### C19b: every call returns what it returns alone, under every schedule -/

/-- For every memoised function, every coherent initial table, every finite family of
    memo-correct calls and every schedule (any interleaving, any evictions, any length):
    * the family keeps its shape;
    * every thread that has finished returned exactly what its call returns when run alone;
    * (progress) a thread that the schedule steps at least `size` times has finished — with
      that very result. -/
theorem C19_schedule_independent (f : K → Option V) (c₀ : Cache K V) (ts₀ : List (Prog K V R))
    (evs : List Event) (hc : Coherent f c₀) (hts : ∀ p ∈ ts₀, UsesMemo f p) :
    (runSchedule c₀ ts₀ evs).2.length = ts₀.length ∧
    (∀ (i : Nat) (p₀ : Prog K V R) (r : R), ts₀[i]? = some p₀ →
        (runSchedule c₀ ts₀ evs).2[i]? = some (.ret r) → r = p₀.runAlone) ∧
    (∀ (i : Nat) (p₀ : Prog K V R), ts₀[i]? = some p₀ → p₀.size f ≤ stepsOf i evs →
        (runSchedule c₀ ts₀ evs).2[i]? = some (.ret p₀.runAlone)) := by
  have h0 := SchedInv.init hc hts
  have h := runSchedule_inv evs h0
  have key : ∀ (i : Nat) (p₀ : Prog K V R) (r : R), ts₀[i]? = some p₀ →
      (runSchedule c₀ ts₀ evs).2[i]? = some (.ret r) → r = p₀.runAlone := by
    intro i p₀ r hp₀ hr
    obtain ⟨_, q, hq, hrun⟩ := h.2.2 i _ hr
    rw [hp₀] at hq
    cases hq
    exact hrun
  refine ⟨h.2.1, key, ?_⟩
  intro i p₀ hp₀ hn
  obtain ⟨r, hr⟩ := runSchedule_progress evs h0 hp₀ hn
  rw [hr, key i p₀ r hp₀ hr]

/-- In particular the result of a call does not depend on the other calls, the initial table
    contents or the schedule: two runs of the same call in two different concurrent contexts
    finish with the same result. -/
theorem C19_context_independent (f : K → Option V) (p₀ : Prog K V R)
    (c₁ c₂ : Cache K V) (ts₁ ts₂ : List (Prog K V R)) (evs₁ evs₂ : List Event) (i₁ i₂ : Nat) (r₁ r₂ : R)
    (hc₁ : Coherent f c₁) (hc₂ : Coherent f c₂)
    (hts₁ : ∀ p ∈ ts₁, UsesMemo f p) (hts₂ : ∀ p ∈ ts₂, UsesMemo f p)
    (h₁ : ts₁[i₁]? = some p₀) (h₂ : ts₂[i₂]? = some p₀) :
    (runSchedule c₁ ts₁ evs₁).2[i₁]? = some (.ret r₁) →
    (runSchedule c₂ ts₂ evs₂).2[i₂]? = some (.ret r₂) → r₁ = r₂ := by
  intro e₁ e₂
  rw [(C19_schedule_independent f c₁ ts₁ evs₁ hc₁ hts₁).2.1 i₁ p₀ r₁ h₁ e₁,
    (C19_schedule_independent f c₂ ts₂ evs₂ hc₂ hts₂).2.1 i₂ p₀ r₂ h₂ e₂]

/-- Non-vacuity: two threads over `f k = k + 10` (`f 0` undefined), a coherent non-empty initial
    table; thread 0 misses on key 3, thread 1 misses on 4 and stores it, then an EVICTION empties the
    table between thread 0's lookup-miss and its store; thread 0 stores 3, misses on 4 (evicted),
    thread 1 HITS on 3 (stored by the other thread), an LRU reordering, ...; both finish with
    exactly their run-alone results. -/
example :
    let f : Nat → Option Nat := fun k => if k = 0 then none else some (k + 10)
    let ts : List (Prog Nat Nat (List (Option Nat))) := [memoMapM f [3, 4] .ret, memoMapM f [4, 3, 0] .ret]
    let evs : List Event :=
      [.step 0, .step 1, .step 1, .evict [true, true], .step 0, .step 0, .step 1, .touch 0,
       .step 0, .step 1, .step 1]
    (runSchedule [(7, 17)] ts evs).2.map Prog.result?
        = [some [some 13, some 14], some [some 14, some 13, none]] ∧
      ts.map Prog.runAlone = [[some 13, some 14], [some 14, some 13, none]] ∧
      (runSchedule [(7, 17)] ts evs).1 = [(3, 13), (4, 14)] ∧
      ts.map (Prog.size f) = [4, 5] ∧ stepsOf 0 evs = 4 ∧ stepsOf 1 evs = 5 := by decide

/-- the hypotheses of the example above hold -/
example :
    let f : Nat → Option Nat := fun k => if k = 0 then none else some (k + 10)
    Coherent f [(7, 17)] ∧
      ∀ p ∈ ([memoMapM f [3, 4] .ret, memoMapM f [4, 3, 0] .ret] : List (Prog Nat Nat (List (Option Nat)))),
        UsesMemo f p := by
  refine ⟨?_, ?_⟩
  · intro k v h
    simp only [List.mem_singleton, Prod.mk.injEq] at h
    obtain ⟨rfl, rfl⟩ := h
    decide
  · intro p hp
    simp only [List.mem_cons, List.not_mem_nil, or_false] at hp
    rcases hp with rfl | rfl <;> exact usesMemo_memoMapM _ trivial

/-- The hypothesis `UsesMemo` is needed: a call that trusts the table but stores a wrong value
    makes another call return something else than alone. -/
example :
    let f : Nat → Option Nat := fun k => some (k + 10)
    let bad : Prog Nat Nat (Option Nat) := .store 3 99 (.ret none)
    ((runSchedule [] [bad, memoCall f 3 .ret] [.step 0, .step 1]).2.map Prog.result?
        = [some none, some (some 99)]) ∧
      (memoCall f 3 .ret : Prog Nat Nat (Option Nat)).runAlone = some 13 := by decide

/-! ### C19c: the library's calls are such programs -/

omit [DecidableEq K] in
/-- Programs built from `ret` and the memoised-call combinator are memo-correct, and `memoCall`
    run alone just computes `f`. -/
theorem C19_calls_are_progs_built (f : K → Option V) :
    (∀ p : Prog K V R, MemoBuilt f p → UsesMemo f p) ∧
    (∀ (k : K) (rest : Option V → Prog K V R),
        (UsesMemo f (rest (f k)) → UsesMemo f (memoCall f k rest)) ∧
        (memoCall f k rest).runAlone = (rest (f k)).runAlone ∧
        (memoCall f k rest).size f ≤ (rest (f k)).size f + 2) :=
  ⟨fun _ h => h.usesMemo, fun k rest => ⟨usesMemo_memoCall, runAlone_memoCall f k rest, size_memoCall_le⟩⟩

omit [DecidableEq K] in
/-- A call performing a whole sequence of memoised lookups (as a decoder call does for its atom
    symbols) is memo-correct, returns the un-memoised result, and needs at most two table accesses
    per key. -/
theorem C19_calls_are_progs_seq (f : K → Option V) (ks : List K) (rest : List (Option V) → Prog K V R) :
    (UsesMemo f (rest (ks.map f)) → UsesMemo f (memoMapM f ks rest)) ∧
    (memoMapM f ks rest).runAlone = (rest (ks.map f)).runAlone ∧
    (memoMapM f ks rest).size f ≤ (rest (ks.map f)).size f + 2 * ks.length :=
  ⟨usesMemo_memoMapM ks, runAlone_memoMapM f ks rest, size_memoMapM_le ks⟩

/-- The capacity memo: `capacityProg` (mirror of `cachedCapacity`: probe, on a miss compute
    `getBondingCapacity T` and insert) is memo-correct for the capacity function of the fixed
    table, run alone it is `getBondingCapacity T`, it takes at most two steps, and run against
    the capacity cache of a library state it returns what `cachedCapacity` returns.  The same
    holds for `capacityCall`, the capacity lookup inside a larger call. -/
theorem C19_calls_are_progs (T : Constraints) (element : Str) (charge : Int) :
    UsesMemo (capacityFn T) (capacityProg T element charge) ∧
    (capacityProg T element charge).runAlone = getBondingCapacity T element charge ∧
    (capacityProg T element charge).size (capacityFn T) ≤ 2 ∧
    (∀ st : CfgState, st.currentTable = T →
      (runSchedule st.capCache [capacityProg T element charge] [.step 0, .step 0]).2.map Prog.result?
        = [some (cachedCapacity st element charge).2]) ∧
    (∀ (R : Type) (rest : Py Nat → Prog (Str × Int) Nat R),
      (UsesMemo (capacityFn T) (rest (getBondingCapacity T element charge)) →
        UsesMemo (capacityFn T) (capacityCall T element charge rest)) ∧
      (capacityCall T element charge rest).runAlone =
        (rest (getBondingCapacity T element charge)).runAlone) := by
  refine ⟨?_, ?_, ?_, ?_, ?_⟩
  · rw [capacityProg_eq_call]; exact usesMemo_capacityCall trivial
  · rw [capacityProg_eq_call, runAlone_capacityCall]; rfl
  · simp only [capacityProg, Prog.size]
    cases hg : getBondingCapacity T element charge with
    | error e => simp [capacityFn, hg, Prog.size]
    | ok v => simp [capacityFn, hg, Prog.size]
  · rintro st rfl
    exact capacityProg_cachedCapacity st element charge
  · exact fun R rest => ⟨usesMemo_capacityCall, runAlone_capacityCall T element charge rest⟩

/-- Any number of concurrent `get_bonding_capacity` calls on any arguments, from any coherent
    cache, under any schedule: every finished call returned `getBondingCapacity T` of its own
    arguments, and two steps suffice. -/
theorem C19_capacity_concurrent (T : Constraints) (args : List (Str × Int))
    (c₀ : Cache (Str × Int) Nat) (hc : Coherent (capacityFn T) c₀) (evs : List Event) :
    let run := runSchedule c₀ (args.map fun a => capacityProg T a.1 a.2) evs
    (∀ (i : Nat) (a : Str × Int) (r : Py Nat), args[i]? = some a → run.2[i]? = some (.ret r) →
        r = getBondingCapacity T a.1 a.2) ∧
    (∀ (i : Nat) (a : Str × Int), args[i]? = some a → 2 ≤ stepsOf i evs →
        run.2[i]? = some (.ret (getBondingCapacity T a.1 a.2))) := by
  have hts : ∀ p ∈ args.map (fun a => capacityProg T a.1 a.2), UsesMemo (capacityFn T) p := by
    intro p hp
    obtain ⟨a, _, rfl⟩ := List.mem_map.1 hp
    exact (C19_calls_are_progs T a.1 a.2).1
  obtain ⟨_, h1, h2⟩ := C19_schedule_independent (capacityFn T) c₀ _ evs hc hts
  refine ⟨fun i a r ha hr => ?_, fun i a ha hn => ?_⟩
  · rw [h1 i (capacityProg T a.1 a.2) r (by simp [ha]) hr, (C19_calls_are_progs T a.1 a.2).2.1]
  · rw [h2 i (capacityProg T a.1 a.2) (by simp [ha])
      (Nat.le_trans (C19_calls_are_progs T a.1 a.2).2.2.1 hn), (C19_calls_are_progs T a.1 a.2).2.1]

/-- The atom-symbol memo: the import-time `_PROCESS_ATOM_CACHE` is coherent for
    `_process_atom_selfies_no_cache`; `process_atom_symbol` as a program over it is memo-correct
    and alone it is `processAtomSymbol T`; so is a call processing a whole list of symbols. -/
theorem C19_calls_are_progs_atoms (T : Table) :
    Coherent processAtomSelfiesNoCache atomCacheInit ∧
    (∀ sym, UsesMemo processAtomSelfiesNoCache (processAtomProg T sym) ∧
      (processAtomProg T sym).runAlone = processAtomSymbol T sym) ∧
    (∀ syms, UsesMemo processAtomSelfiesNoCache (processAtomsProg T syms) ∧
      (processAtomsProg T syms).runAlone = syms.map (processAtomSymbol T) ∧
      (processAtomsProg T syms).size processAtomSelfiesNoCache ≤ 2 * syms.length) := by
  refine ⟨atomCacheInit_coherent, fun sym => ⟨usesMemo_memoCall trivial, ?_⟩, fun syms => ⟨usesMemo_memoMapM _ trivial, ?_, ?_⟩⟩
  · simp [processAtomProg, Prog.runAlone, processAtomSymbol_eq_atomPost]
  · simp [processAtomsProg, Prog.runAlone, processAtomSymbol_eq_atomPost]
  · simpa [processAtomsProg, Prog.size] using
      size_memoMapM_le (f := processAtomSelfiesNoCache) syms
        (rest := fun os => (.ret (os.map (atomPost T)) : Prog Str AtomInfo (List (Option AtomInfo))))

/-- Any number of concurrent calls, each processing its own list of atom symbols, starting from
    the import-time `_PROCESS_ATOM_CACHE`, under any schedule: every finished call obtained, for
    every symbol, what `process_atom_symbol` returns alone. -/
theorem C19_atoms_concurrent (T : Table) (inputs : List (List Str)) (evs : List Event) :
    let run := runSchedule atomCacheInit (inputs.map (processAtomsProg T)) evs
    (∀ (i : Nat) (syms : List Str) (r : List (Option AtomInfo)), inputs[i]? = some syms →
        run.2[i]? = some (.ret r) → r = syms.map (processAtomSymbol T)) ∧
    (∀ (i : Nat) (syms : List Str), inputs[i]? = some syms → 2 * syms.length ≤ stepsOf i evs →
        run.2[i]? = some (.ret (syms.map (processAtomSymbol T)))) := by
  have hts : ∀ p ∈ inputs.map (processAtomsProg T), UsesMemo processAtomSelfiesNoCache p := by
    intro p hp
    obtain ⟨a, _, rfl⟩ := List.mem_map.1 hp
    exact ((C19_calls_are_progs_atoms T).2.2 a).1
  obtain ⟨_, h1, h2⟩ := C19_schedule_independent processAtomSelfiesNoCache atomCacheInit _ evs
    atomCacheInit_coherent hts
  refine ⟨fun i a r ha hr => ?_, fun i a ha hn => ?_⟩
  · rw [h1 i (processAtomsProg T a) r (by simp [ha]) hr, ((C19_calls_are_progs_atoms T).2.2 a).2.1]
  · rw [h2 i (processAtomsProg T a) (by simp [ha])
      (Nat.le_trans ((C19_calls_are_progs_atoms T).2.2 a).2.2 hn), ((C19_calls_are_progs_atoms T).2.2 a).2.1]

/-- Non-vacuity on the real tables: two concurrent calls over the import-time atom cache.
    `[CH3]` is not prefilled: call 0 misses on it, the environment evicts the first three
    prefilled entries, call 1 misses on it too (check-then-insert race: both will store), call 0
    stores, call 1 stores (overwrites with the same value), both hit on prefilled `[O]`; call 1
    goes on to `[CH9]` (cached, but rejected call-locally: too many H) and `[x]` (not a symbol:
    nothing stored).  Both calls finish (two results) with the run-alone results. -/
example :
    let T : Table := ⟨[("C".toList, 4), ("O".toList, 2)], 8⟩
    let inputs : List (List Str) :=
      [["[CH3]".toList, "[O]".toList], ["[CH3]".toList, "[O]".toList, "[CH9]".toList, "[x]".toList]]
    let evs : List Event :=
      [.step 0, .evict [true, true, true], .step 1, .step 0, .step 1, .step 1, .step 0, .step 1, .step 1, .step 1]
    (runSchedule atomCacheInit (inputs.map (processAtomsProg T)) evs).2.filterMap Prog.result?
        = inputs.map (fun syms => syms.map (processAtomSymbol T)) ∧
      (runSchedule atomCacheInit (inputs.map (processAtomsProg T)) evs).1.length
        = atomCacheInit.length - 3 + 2 ∧
      processAtomSymbol T "[CH3]".toList ≠ none ∧ processAtomSymbol T "[CH9]".toList = none := by
  decide +kernel

end SV
