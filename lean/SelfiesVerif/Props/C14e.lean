/-
  Property C14, last clause — "Every string returned by selfies.encoder is well formed in this
  sense and the decoder consumes exactly these tokens."

  "Well formed" is `WF` of Proofs/Tokenize.lean (see Props/C14.lean): bracketed symbols
  `'[' :: body ++ [']']`, `body` free of `'['`, `']'`, `'.'` (`IsSymbol`), optionally separated by
  single dots, no leading dot, no doubled dot.

  Dictionary: `encoderFull T s strict attribute tape` is `selfies.encoder(s, strict, attribute)`
  under the constraint table `T` (`tape` = the recorded `set.pop()` choices of the kekulizer);
  `fragmentGo` / `fragmentToSelfies` is `_fragment_to_selfies`; `atomToSelfies` is
  `_atom_to_selfies`; `ringSymbol pre kind n` is `"[{}Ring{}]".format(pre, n)` resp.
  `"[{}Branch{}]"`; `getSelfiesFromIndex` is `get_selfies_from_index`; `encodePrepare` is everything
  `encoder` does before the fragment loop (parse, kekulize, constraint check, chirality flip).

  All statements are for EVERY table, SMILES string, flags and tape.  Every "is a symbol" claim
  is strengthened by "and is not `[nop]`" (the decoder's tokenizer drops `[nop]`, so this is what
  makes "the decoder consumes exactly these tokens" true).

  Graph invariant `SymGraph m` (Proofs/EncoderWF.lean): every atom of `m` satisfies `AtomShape`
  (what `smiles_to_atom` produces; does not mention `is_aromatic`), and every bond's stereo mark is
  a member of `SMILES_STEREO_BONDS` (`StereoTab`).  `C14e_graph_invariant` proves it for every
  graph `encodePrepare` returns.  The stereo part is needed: `_ring_bonds_to_selfies` copies the
  stereo marks of the two ring bonds into the symbol verbatim (see the `example` after
  `C14e_symbols_ring`).
-/
import SelfiesVerif.Proofs.EncoderWF
import SelfiesVerif.Props.C14

namespace SV

/-! ### 1. every string `_fragment_to_selfies` appends is a symbol -/

/-- (a) Atom symbols: `_atom_to_selfies(bond, atom)` on an atom of the shape the SMILES reader
    produces is a bracketed symbol, is not `[nop]`, and has no two adjacent lower-case letters
    (so the decoder does not take it for a ring / branch / epsilon symbol). -/
theorem C14e_symbols_atom (bond : Option PBond) (a : Atom) (x : Str) :
    AtomShape a → atomToSelfies bond a = .ok x → IsSymbol x ∧ x ≠ nopSym ∧ hasLL x = false := by
  intro hs h
  obtain ⟨⟨h1, h2⟩, h3⟩ := atomToSelfies_encSym bond a hs x h
  exact ⟨h1, h2, h3⟩

example : AtomShape { element := "Na".toList, isAromatic := false, hCount := some 0, charge := 1 } ∧
    atomToSelfies (some { src := 0, dst := 1, order2 := 4, stereo := none, ring := false })
      { element := "Na".toList, isAromatic := false, hCount := some 0, charge := 1 }
      = .ok "[=Na+1]".toList := by
  refine ⟨⟨by decide +kernel, by decide, by decide, by decide, by decide⟩, by decide⟩

/-- (a) … directly for atoms read by `smiles_to_atom`, also after kekulization (aromatic flag
    cleared) and after the encoder's chirality flip. -/
theorem C14e_symbols_atom_smiles (tok : Str) (a a' : Atom) (bond : Option PBond) (x : Str) :
    smilesToAtom tok = some a →
    (a' = a ∨ a' = a.invertChirality ∨ a' = { a with isAromatic := false }
      ∨ a' = ({ a with isAromatic := false } : Atom).invertChirality) →
    atomToSelfies bond a' = .ok x → IsSymbol x ∧ x ≠ nopSym ∧ hasLL x = false := by
  intro htok ha' h
  have hs : AtomShape a := (smilesToAtom_shape tok a htok elementTablesOK).1
  have hs' : AtomShape a' := by
    rcases ha' with rfl | rfl | rfl | rfl
    · exact hs
    · exact hs.invertChirality
    · exact hs.clearAromatic
    · exact hs.clearAromatic.invertChirality
  exact C14e_symbols_atom bond a' x hs' h

example : (smilesToAtom "[13C@@H]".toList).map (fun a => atomToSelfies none a.invertChirality)
    = some (.ok "[13C@H1]".toList) := by
  decide +kernel

example : (smilesToAtom "n".toList).map
      (fun a => (a.isAromatic, atomToSelfies none { a with isAromatic := false }))
    = some (true, .ok "[N]".toList) := by
  decide +kernel

/-- (b) Ring symbols, for any number `n` of index symbols. -/
theorem C14e_symbols_ring (l r : PBond) (pre : Str) (n : Nat) :
    StereoTab l.stereo → StereoTab r.stereo → ringBondsToSelfies l r = .ok pre →
    IsSymbol (ringSymbol pre "Ring".toList n) ∧ ringSymbol pre "Ring".toList n ≠ nopSym :=
  fun hl hr h => ringSym_encSym l r pre n h hl hr

example : StereoTab (some '/') ∧ StereoTab none ∧
    ringBondsToSelfies { src := 0, dst := 3, order2 := 2, stereo := some '/', ring := true }
      { src := 3, dst := 0, order2 := 2, stereo := none, ring := true } = .ok "/-".toList ∧
    ringSymbol "/-".toList "Ring".toList 2 = "[/-Ring2]".toList := by
  refine ⟨?_, ?_, by decide, by decide⟩
  · intro c hc; injection hc with hc; subst hc; decide
  · intro c hc; cases hc

/-- the hypothesis on the stereo marks cannot be dropped: the marks are copied verbatim -/
example :
    ringBondsToSelfies { src := 0, dst := 3, order2 := 2, stereo := some ']', ring := true }
      { src := 3, dst := 0, order2 := 2, stereo := none, ring := true } = .ok "]-".toList ∧
    ¬ IsSymbol (ringSymbol "]-".toList "Ring".toList 1) := by decide

/-- (b) Branch symbols, for any number `n` of index symbols (no hypothesis on the bond). -/
theorem C14e_symbols_branch (b : PBond) (pre : Str) (n : Nat) :
    bondToSelfies b false = .ok pre →
    IsSymbol (ringSymbol pre "Branch".toList n) ∧ ringSymbol pre "Branch".toList n ≠ nopSym :=
  fun h => branchSym_encSym b pre n h

example : bondToSelfies { src := 0, dst := 1, order2 := 6, stereo := none, ring := false } false
      = .ok "#".toList ∧ ringSymbol "#".toList "Branch".toList 1 = "[#Branch1]".toList := by decide

/-- (c) Index symbols: whatever `get_selfies_from_index` returns (for ANY integer argument)
    consists of entries of `INDEX_ALPHABET`, each a bracketed symbol different from `[nop]`. -/
theorem C14e_symbols_index (z : Int) (q : List Str) :
    getSelfiesFromIndex z = .ok q → ∀ s ∈ q, s ∈ Gen.indexAlphabet ∧ IsSymbol s ∧ s ≠ nopSym := by
  intro h s hs
  have hm := getSelfiesFromIndex_mem z q h s hs
  exact ⟨hm, index_alphabet_symbols s hm⟩

set_option maxRecDepth 100000 in
example : getSelfiesFromIndex 300 = .ok ["[Ring1]".toList, "[Ring2]".toList, "[=C]".toList] := by
  decide

/-- **Every string `_fragment_to_selfies` appends to `derived` is a bracketed symbol different
    from `[nop]`**: the result list is the old `derived` followed by such symbols only — at any
    point of the loop (`task`), any recursion depth and fuel, and an atom visit appends at least
    one.  `TaskOK task` only says that the out-bonds still to be looped over have table stereo
    marks (trivially true at an atom visit; inside the loop they are bonds of the graph). -/
theorem C14e_symbols (m : PMol) (fuel depth : Nat) (task : EncTask) (derived : List Str)
    (maps : List AttributionMap) (ai : Nat) (derived' : List Str) (maps' : List AttributionMap) :
    SymGraph m → TaskOK task →
    fragmentGo m fuel depth task derived maps ai = .ok (derived', maps') →
    ∃ new, derived' = derived ++ new ∧ (∀ x ∈ new, IsSymbol x ∧ x ≠ nopSym) ∧
      (∀ bi c, task = .atomVisit bi c → new ≠ []) :=
  fun hm ht h => fragmentGo_syms m hm fuel depth task derived maps ai _ h ht

/-! ### 2. fragments -/

/-- **The invariant holds for every graph the encoder writes out**, and that graph has a root. -/
theorem C14e_graph_invariant (T : Table) (s : Str) (strict attrib : Bool) (tape : List Nat)
    (m : PMol) :
    encodePrepare T s strict attrib tape = .ok m → SymGraph m ∧ m.roots ≠ [] :=
  fun h => ⟨encodePrepare_sym h, encodePrepare_roots h⟩

set_option maxRecDepth 100000 in
example : (encodePrepare ⟨Gen.preset_default, 8⟩ "C(F)(Cl)C1CC1.[Na+].[O-]C".toList true false []).map
      (fun m => (m.roots, m.atoms.length)) = .ok ([0, 6, 7], 9) := by
  decide +kernel

/-- **`_fragment_to_selfies` returns a non-empty list of bracketed symbols, none of them `[nop]`.** -/
theorem C14e_fragment (m : PMol) (root : Nat) (maps : List AttributionMap) (ai : Nat)
    (derived : List Str) (maps' : List AttributionMap) :
    SymGraph m → fragmentToSelfies m root maps ai = .ok (derived, maps') →
    derived ≠ [] ∧ ∀ x ∈ derived, IsSymbol x ∧ x ≠ nopSym :=
  fun hm h => fragmentToSelfies_syms m hm root maps ai derived maps' h

set_option maxRecDepth 100000 in
example :
    (do let m ← encodePrepare ⟨Gen.preset_default, 8⟩ "C(F)(Cl)C1CC1.[Na+].[O-]C".toList true false []
        let r ← fragmentToSelfies m 0 [] 0
        pure r.1 : Py (List Str))
    = .ok ["[C]".toList, "[Branch1]".toList, "[C]".toList,
      "[F]".toList, "[Branch1]".toList, "[C]".toList, "[Cl]".toList, "[C]".toList, "[C]".toList,
      "[C]".toList, "[Ring1]".toList, "[Ring1]".toList] := by
  decide +kernel

/-! ### 3. the string `encoder` returns -/

/-- **Every string returned by `selfies.encoder` is well formed**: it is the rendering of at least
    one non-empty list of bracketed symbols (none of them `[nop]`), joined by single dots. -/
theorem C14e_encoder_output_wf (T : Table) (s : Str) (strict attrib : Bool) (tape : List Nat)
    (sel : Str) (maps : List AttributionMap) :
    encoderFull T s strict attrib tape = .ok (sel, maps) →
    ∃ frags : List (List Str), frags ≠ [] ∧
      (∀ f ∈ frags, f ≠ [] ∧ ∀ x ∈ f, IsSymbol x ∧ x ≠ nopSym) ∧
      sel = render (joinDots frags) ∧ WF (joinDots frags) := by
  intro h
  obtain ⟨m, frags, hprep, hlen, hall, hsel⟩ := encoderFull_frags h
  refine ⟨frags, ?_, hall, hsel, ?_⟩
  · intro e
    rw [e] at hlen
    exact encodePrepare_roots hprep (List.length_eq_zero_iff.1 hlen.symm)
  · exact C14_wf_joinDots frags (fun f hf => ⟨(hall f hf).1, fun x hx => ((hall f hf).2 x hx).1⟩)

set_option maxRecDepth 100000 in
example : (encoderFull ⟨Gen.preset_default, 8⟩ "C(F)(Cl)C1CC1.[Na+].[O-]C".toList true false []).map (·.1)
    = .ok "[C][Branch1][C][F][Branch1][C][Cl][C][C][C][Ring1][Ring1].[Na+1].[O-1][C]".toList := by
  decide +kernel

/-- … one fragment per root of the graph written out. -/
theorem C14e_encoder_fragments_per_root (T : Table) (s : Str) (strict attrib : Bool)
    (tape : List Nat) (sel : Str) (maps : List AttributionMap) :
    encoderFull T s strict attrib tape = .ok (sel, maps) →
    ∃ (m : PMol) (frags : List (List Str)),
      encodePrepare T s strict attrib tape = .ok m ∧ frags.length = m.roots.length ∧
      (∀ f ∈ frags, f ≠ [] ∧ ∀ x ∈ f, IsSymbol x ∧ x ≠ nopSym) ∧ sel = render (joinDots frags) :=
  encoderFull_frags

/-- Corollaries for the tokenisation utilities and the decoder: `split_selfies` yields exactly the
    emitted symbols and dots and does not raise; `len_selfies` is their number; and the decoder's
    token streams (`selfies.split(".")`, then `enumerate(_tokenize_selfies(·))`) are, fragment by
    fragment, exactly the emitted symbols, numbered 0,1,2,…, nothing dropped (no emitted symbol
    is `[nop]`) and never a hanging bracket. -/
theorem C14e_decoder_consumes (T : Table) (s : Str) (strict attrib : Bool) (tape : List Nat)
    (sel : Str) (maps : List AttributionMap) :
    encoderFull T s strict attrib tape = .ok (sel, maps) →
    ∃ frags : List (List Str), frags ≠ [] ∧
      (∀ f ∈ frags, f ≠ [] ∧ ∀ x ∈ f, IsSymbol x ∧ x ≠ nopSym) ∧
      sel = render (joinDots frags) ∧
      splitSelfies sel = (joinDots frags, false) ∧
      lenSelfies sel = (joinDots frags).length ∧
      fragmentsOf (joinDots frags) = frags ∧
      (splitOnChar '.' sel).map tokenizeFragment =
        frags.map fun f => { toks := (List.range f.length).zip f, hanging := false } := by
  intro h
  obtain ⟨frags, hne, hall, hsel, hwf⟩ := C14e_encoder_output_wf T s strict attrib tape sel maps h
  have hfr : fragmentsOf (joinDots frags) = frags :=
    fragmentsOf_joinDots frags hne (fun f hf x hx => symbol_ne_dot ((hall f hf).2 x hx).1)
  refine ⟨frags, hne, hall, hsel, ?_, ?_, hfr, ?_⟩
  · rw [hsel]; exact C14_split_render _ hwf
  · rw [hsel]; exact C14_len _ hwf
  · rw [hsel, C14_decoder_tokens _ hwf, hfr]
    apply List.map_congr_left
    intro f hf
    exact specStream_no_nop f (fun x hx => ((hall f hf).2 x hx).2)

set_option maxRecDepth 100000 in
example :
    ((splitOnChar '.' "[C][Branch1][C][F][Branch1][C][Cl][C][C][C][Ring1][Ring1].[Na+1].[O-1][C]".toList).map
      tokenizeFragment).map (fun st => (st.toks, st.hanging)) =
    [["[C]".toList, "[Branch1]".toList, "[C]".toList, "[F]".toList, "[Branch1]".toList, "[C]".toList,
      "[Cl]".toList, "[C]".toList, "[C]".toList, "[C]".toList, "[Ring1]".toList, "[Ring1]".toList],
     ["[Na+1]".toList], ["[O-1]".toList, "[C]".toList]].map
      fun f => ((List.range f.length).zip f, false) := by
  decide +kernel

/-! ### 4. no dot at either end, no doubled dot -/

/-- **The returned string is not empty, does not start or end with `'.'` and contains no `".."`**;
    in fact it starts with `'['` and ends with `']'`. -/
theorem C14e_no_dot_edge (T : Table) (s : Str) (strict attrib : Bool) (tape : List Nat)
    (sel : Str) (maps : List AttributionMap) :
    encoderFull T s strict attrib tape = .ok (sel, maps) →
    sel.head? = some '[' ∧ sel.getLast? = some ']' ∧
      sel.head? ≠ some '.' ∧ sel.getLast? ≠ some '.' ∧
      ∀ pre post, sel ≠ pre ++ '.' :: '.' :: post := by
  intro h
  obtain ⟨frags, hne, hall, hsel, _⟩ := C14e_encoder_output_wf T s strict attrib tape sel maps h
  have hall' : ∀ f ∈ frags, f ≠ [] ∧ ∀ x ∈ f, IsSymbol x :=
    fun f hf => ⟨(hall f hf).1, fun x hx => ((hall f hf).2 x hx).1⟩
  obtain ⟨h1, h2, h3⟩ := render_joinDots_edges frags hne hall'
  rw [← hsel] at h1 h2 h3
  refine ⟨h1, h2, ?_, ?_, h3⟩
  · rw [h1]; decide
  · rw [h2]; decide

set_option maxRecDepth 100000 in
example : (encoderFull ⟨Gen.preset_default, 8⟩ "C(F)(Cl)C1CC1.[Na+].[O-]C".toList true false []).map
      (fun r => (r.1.head?, r.1.getLast?, r.1.length)) = .ok (some '[', some ']', 73) := by
  decide +kernel

end SV
