/-
  Property C07 (symbol-level part).  "Any string over the semantically robust alphabet is a
  valid molecule."

  "For every constraint table the library accepts, get_semantic_robust_alphabet() contains only
   symbols the decoder accepts ... The alphabet contains all sixteen index symbols, every branch
   symbol, the single and double ring symbols, and for each atom type listed in the table every
   bond prefix whose order does not exceed its capacity; it reflects the table in force at the
   time of the call."

  (The clause "every finite sequence of its symbols decodes without error to a molecule that
  obeys the table" is proved from the decoder invariants elsewhere; this file supplies the
  symbol-level facts it needs.)

  Dictionary: an accepted table is a `d : PyDict` with `validateDict d = none`
  (`set_semantic_constraints` raises nothing); the library then stores `T := d.toConstraints`;
  the decoder works with `Tb : Table`, `Table.ofDict T = some Tb` (always possible:
  `C07_accepted_table_total`).  `robustAlphabet T` is `get_semantic_robust_alphabet()` under `T`;
  the decoder dispatches on `symbol[-4:-2]` (`sliceFromEnd x 4 2`) being `ch` (branch table),
  `ng` (ring table), then on `"eps" in symbol`, and otherwise calls `process_atom_symbol`.

  FINDING F10, REPAIRED in the library.  Before the repair the key grammar of
  `set_semantic_constraints` accepted `E+C` / `E-C` with arbitrarily many digits, but `int()`
  refuses more than `sys.get_int_max_str_digits()` (`Gen.intMaxStrDigits` = 4300) digits, so the
  alphabet symbol `[C+1000…0]` (4301 digits) was in the alphabet and was rejected by the decoder.
  The repaired validation (`_is_convertible`, mirrored by `validKey`) demands that the charge
  digits be convertible by `int()`, i.e. at most `Gen.intMaxStrDigits` of them.  Accordingly:

  * `C07_atom_symbols_valid` is now proved at FULL strength: the former proviso "at most
    `Gen.intMaxStrDigits` charge digits" is derived from the key being valid
    (`C07_key_grammar` states the bound);
  * `C07_atom_symbol_accepted_iff` still holds (for a valid key both sides are now true);
  * `C07_charge_bound_needed` documents why the bound is needed and that it is exact: for a key
    `E±C` of the old grammar the atom reader accepts `[bE±C]` iff `C` has at most
    `Gen.intMaxStrDigits` digits iff the repaired validation accepts the key; beyond the bound
    `process_atom_symbol` returns `None` under every table;
  * `C07_long_charge_rejected`, `C07_long_charge_witness`: the keys that exhibited the defect are
    now REJECTED by `set_semantic_constraints` with `ValueError`, leaving the state unchanged
    (replayed on the repaired code: `'C+' + '1'*4300` accepted, `'C+' + '1'*4301` ValueError);
  * `C07_alphabet_symbols_valid`: the clean end statement - every symbol of the alphabet of every
    accepted table is accepted by the decoder's dispatch cascade (`validSymbol`), which is the
    hypothesis of `C07_no_error` (Props/C08.lean); the composition over arbitrary histories and
    arbitrary strings over the alphabet is in Props/C07f.lean.
-/
import SelfiesVerif.Proofs.Alphabet
import SelfiesVerif.Proofs.AlphabetValid

namespace SV

/-! ### contents of the alphabet -/

/-- **Contents.**  For every table `T` (accepted or not) the alphabet consists of exactly: the
    sixteen index symbols; the nine branch symbols `[Branch i]`, `[=Branch i]`, `[#Branch i]`
    (`i = 1, 2, 3`); the six ring symbols `[Ring i]`, `[=Ring i]`; and `[bk]` for every entry
    `k ↦ c` of the table other than `?` and every bond prefix `b ∈ {"", "=", "#"}` whose order
    `m ∈ {1, 2, 3}` does not exceed `c`.  The list the model returns has no duplicates (it
    stands for a Python `set`). -/
theorem C07_alphabet_contents (T : Constraints) :
    (∀ x : Str, x ∈ robustAlphabet T ↔
        x ∈ Gen.indexAlphabet
      ∨ x ∈ ["[Branch1]".toList, "[Branch2]".toList, "[Branch3]".toList,
             "[=Branch1]".toList, "[=Branch2]".toList, "[=Branch3]".toList,
             "[#Branch1]".toList, "[#Branch2]".toList, "[#Branch3]".toList]
      ∨ x ∈ ["[Ring1]".toList, "[Ring2]".toList, "[Ring3]".toList,
             "[=Ring1]".toList, "[=Ring2]".toList, "[=Ring3]".toList]
      ∨ ∃ k c, (k, c) ∈ T ∧ k ≠ "?".toList ∧
          ∃ b m, (b, m) ∈ [("".toList, 1), ("=".toList, 2), ("#".toList, 3)] ∧ m ≤ c
            ∧ x = '[' :: b ++ k ++ [']'])
    ∧ (robustAlphabet T).Nodup := by
  refine ⟨fun x => ?_, by rw [robustAlphabet_eq]; exact nodup_eraseDups _⟩
  rw [mem_robustAlphabet, mem_atomSyms, mem_structSyms]
  have hq : "?".toList = qKey := by decide
  have hb : [("".toList, 1), ("=".toList, 2), ("#".toList, 3)] = bondPrefixes := by decide
  rw [hq, hb]
  show _ ↔ _ ∨ x ∈ branchSyms ∨ x ∈ ringSyms ∨ _
  constructor
  · rintro (h | (h | h) | h)
    · exact Or.inr (Or.inr (Or.inr h))
    · exact Or.inr (Or.inl h)
    · exact Or.inr (Or.inr (Or.inl h))
    · exact Or.inl h
  · rintro (h | h | h | h)
    · exact Or.inr (Or.inr h)
    · exact Or.inr (Or.inl (Or.inl h))
    · exact Or.inr (Or.inl (Or.inr h))
    · exact Or.inl h

-- non-vacuity: under the default table `[=C]`, `[#N]`, `[Cl]`, `[S-1]`, `[=Ring3]` are in the
-- alphabet, `[=Cl]`, `[#O]`, `[?]`, `[#Ring1]` are not
example : "[=C]".toList ∈ robustAlphabet Gen.preset_default
    ∧ "[#N]".toList ∈ robustAlphabet Gen.preset_default
    ∧ "[Cl]".toList ∈ robustAlphabet Gen.preset_default
    ∧ "[S-1]".toList ∈ robustAlphabet Gen.preset_default
    ∧ "[=Ring3]".toList ∈ robustAlphabet Gen.preset_default
    ∧ "[=Cl]".toList ∉ robustAlphabet Gen.preset_default
    ∧ "[#O]".toList ∉ robustAlphabet Gen.preset_default
    ∧ "[?]".toList ∉ robustAlphabet Gen.preset_default
    ∧ "[#Ring1]".toList ∉ robustAlphabet Gen.preset_default
    ∧ (robustAlphabet Gen.preset_default).length = 69 := by decide +kernel

/-! ### branch, ring and index symbols -/

/-- **Structural symbols.**  Each of the nine branch symbols carries the tag `ch` and is a key of
    the branch table (with the branch type and index length its name says); each of the six ring
    symbols carries the tag `ng` (and not `ch`) and is a key of the ring table; each of the sixteen
    index symbols is one of those fifteen, or else it is dispatched to `process_atom_symbol`
    (tag neither `ch` nor `ng`, no `eps` inside), which accepts it under EVERY table (it has no
    explicit hydrogens, so its capacity cannot be negative). -/
theorem C07_structural_symbols_valid :
    (∀ x ∈ branchSyms, sliceFromEnd x 4 2 = "ch".toList)
    ∧ branchSyms.map processBranchSymbol =
        [some (1, 1), some (1, 2), some (1, 3), some (2, 1), some (2, 2), some (2, 3),
         some (3, 1), some (3, 2), some (3, 3)]
    ∧ (∀ x ∈ ringSyms, sliceFromEnd x 4 2 ≠ "ch".toList ∧ sliceFromEnd x 4 2 = "ng".toList)
    ∧ ringSyms.map processRingSymbol =
        [some (1, 1, (none, none)), some (1, 2, (none, none)), some (1, 3, (none, none)),
         some (2, 1, (none, none)), some (2, 2, (none, none)), some (2, 3, (none, none))]
    ∧ (∀ x ∈ Gen.indexAlphabet, x ∈ branchSyms ∨ x ∈ ringSyms ∨
        (sliceFromEnd x 4 2 ≠ "ch".toList ∧ sliceFromEnd x 4 2 ≠ "ng".toList
          ∧ containsSub x "eps".toList = false
          ∧ ∃ bi a, processAtomSelfiesNoCache x = some (bi, a) ∧ a.hCount = none
              ∧ ∀ Tb : Table, processAtomSymbol Tb x = some (bi, a))) := by
  refine ⟨by decide, by decide, by decide, by decide, ?_⟩
  have h : ∀ x ∈ Gen.indexAlphabet, x ∈ branchSyms ∨ x ∈ ringSyms ∨
      (sliceFromEnd x 4 2 ≠ "ch".toList ∧ sliceFromEnd x 4 2 ≠ "ng".toList
        ∧ containsSub x "eps".toList = false
        ∧ (match processAtomSelfiesNoCache x with
            | some (_, a) => a.hCount.isNone
            | none => false) = true) := by decide +kernel
  intro x hx
  rcases h x hx with h | h | ⟨h1, h2, h3, h4⟩
  · exact Or.inl h
  · exact Or.inr (Or.inl h)
  · refine Or.inr (Or.inr ⟨h1, h2, h3, ?_⟩)
    cases hp : processAtomSelfiesNoCache x with
    | none => rw [hp] at h4; cases h4
    | some p =>
      obtain ⟨bi, a⟩ := p
      rw [hp] at h4
      have hn : a.hCount = none := by simpa using h4
      exact ⟨bi, a, rfl, hn, fun Tb => processAtomSymbol_of_noH Tb hp (by rw [hn]; rfl)⟩

example : "[=Branch2]".toList ∈ branchSyms ∧ "[=Ring3]".toList ∈ ringSyms
    ∧ "[#C]".toList ∈ Gen.indexAlphabet ∧ "[#C]".toList ∉ branchSyms ∧ "[#C]".toList ∉ ringSyms := by
  decide

/-! ### atom symbols -/

/-- an accepted dictionary always contains `?`, so the stored table is total -/
theorem C07_accepted_table_total {d : PyDict} (hd : validateDict d = none) :
    ∃ Tb, Table.ofDict d.toConstraints = some Tb := ofDict_of_valid hd

example : validateDict (constraintsToPyDict Gen.preset_default) = none := by decide +kernel

/-- **Key grammar.**  Every key of an accepted table other than `?` is `E`, `E+C` or `E-C` with
    `E ∈ ELEMENTS` and `C` matching `[1-9][0-9]*` (ASCII digits) with at most
    `Gen.intMaxStrDigits` digits (so that `int(C)` converts: repair of F10); every element name
    matches `[A-Z][a-z]?`. -/
theorem C07_key_grammar {d : PyDict} (hd : validateDict d = none) {k : Str} {c : Nat}
    (hkc : (k, c) ∈ d.toConstraints) (hq : k ≠ "?".toList) :
    (k ∈ Gen.elements ∨
      ∃ E sgn dg ds, k = E ++ sgn :: dg :: ds ∧ E ∈ Gen.elements ∧ (sgn = '+' ∨ sgn = '-')
        ∧ isDigit19 dg = true ∧ ds.all isAsciiDigit = true
        ∧ (dg :: ds).length ≤ Gen.intMaxStrDigits)
    ∧ (keyChargeDigits k).length ≤ Gen.intMaxStrDigits
    ∧ ∀ E ∈ Gen.elements, ∃ e1 : Char, isAsciiUpper e1 = true ∧
        (E = [e1] ∨ ∃ e2 : Char, isAsciiLower e2 = true ∧ E = [e1, e2]) := by
  refine ⟨?_, validKey_chargeDigits_le (validateDict_keys hd hkc) hq, ?_⟩
  · rcases validKey_cases (validateDict_keys hd hkc) hq with h | ⟨E, sgn, dg, ds, h1, h2, h3⟩
    · exact Or.inl (by simpa [memStr] using h)
    · exact Or.inr ⟨E, sgn, dg, ds, h1, by simpa [memStr] using h2, h3⟩
  · intro E hE
    have hok := elemOK_of_mem (E := E) (by simpa [memStr] using hE)
    match E, hok with
    | [e1], hok =>
      simp only [elemOK, Bool.and_eq_true] at hok
      exact ⟨e1, hok.1.1.1.1.1, Or.inl rfl⟩
    | [e1, e2], hok =>
      simp only [elemOK, Bool.and_eq_true] at hok
      exact ⟨e1, hok.1.1.1.1.1.1.1.1, Or.inr ⟨e2, hok.1.1.2, rfl⟩⟩

-- non-vacuity: accepted and rejected keys, including the boundary of the charge length
set_option maxRecDepth 100000 in
example : (["Fe+10".toList, "C".toList, "Zn-2".toList,
            "C+".toList ++ List.replicate Gen.intMaxStrDigits '1'].all validKey) = true
    ∧ (["C+01".toList, "C+".toList, "+1".toList, "c".toList, "C+1-1".toList, "Xx".toList,
        "C+".toList ++ List.replicate (Gen.intMaxStrDigits + 1) '1'].any validKey)
        = false
    ∧ validateDict [(.str ("C+".toList ++ List.replicate Gen.intMaxStrDigits '1'), .int 1),
                    (.str "?".toList, .int 8)] = none := by decide +kernel

/--
**Atom symbols (full strength; F10 repaired).**
Let `d` be an accepted dictionary, `T` the table stored from it and `Tb` its total form.  For an
entry `k ↦ c` of `T` with `k ≠ ?` and a bond prefix `b` of order `m ≤ c`, the alphabet symbol
`x = [bk]`

* is in the alphabet, is not mistaken for a branch / ring / epsilon symbol by the decoder, and
* `process_atom_symbol` accepts it with bond order `m`, no stereo, and an atom `a` that is not
  aromatic, has no isotope, no chirality, no explicit hydrogens (`h_count` is `None` for the
  organic-subset shortcut, else `0`), element `E ∈ ELEMENTS`, and
* the key decomposes as `E`, `E+n`, `E-n` (`n > 0` in decimal without leading zeros) with
  `a.charge = 0, n, -n`, and `get_bonding_capacity` looks the atom up under exactly the key `k`
  (`capKey a.element a.charge = k`), so
* its bonding capacity is the first value stored under `k` — which is `c` itself when the keys
  of the table are distinct, as they are in a Python `dict` — and then `m ≤` capacity.

No proviso on the number of charge digits: the repaired validation guarantees that `int()`
converts the charge (`validKey_chargeDigits_le`).
-/
theorem C07_atom_symbols_valid {d : PyDict} (hd : validateDict d = none) {Tb : Table}
    (hT : Table.ofDict d.toConstraints = some Tb)
    {k : Str} {c : Nat} (hkc : (k, c) ∈ d.toConstraints) (hq : k ≠ "?".toList)
    {b : Str} {m : Nat} (hb : (b, m) ∈ [("".toList, 1), ("=".toList, 2), ("#".toList, 3)])
    (hmc : m ≤ c) :
    let x : Str := '[' :: b ++ k ++ [']']
    x ∈ robustAlphabet d.toConstraints
    ∧ sliceFromEnd x 4 2 ≠ "ch".toList ∧ sliceFromEnd x 4 2 ≠ "ng".toList
    ∧ containsSub x "eps".toList = false
    ∧ ∃ a : Atom, processAtomSymbol Tb x = some ((m, none), a)
        ∧ a.element ∈ Gen.elements ∧ a.isAromatic = false ∧ a.isotope = none ∧ a.chirality = none
        ∧ (a.hCount = none ∨ a.hCount = some 0)
        ∧ ((k = a.element ∧ a.charge = 0)
            ∨ (∃ n : Nat, 0 < n ∧ k = a.element ++ '+' :: natToStr n ∧ a.charge = n)
            ∨ (∃ n : Nat, 0 < n ∧ k = a.element ++ '-' :: natToStr n ∧ a.charge = -(n : Int)))
        ∧ capKey a.element a.charge = k
        ∧ (∃ c' : Nat, lookup k d.toConstraints = some c' ∧ a.bondingCapacity Tb = c')
        ∧ ((d.toConstraints.map (·.1)).Nodup → a.bondingCapacity Tb = c ∧ (m : Int) ≤ a.bondingCapacity Tb) := by
  intro x
  have hq' : k ≠ qKey := hq
  have hb' : (b, m) ∈ bondPrefixes := hb
  have hk := validateDict_keys hd hkc
  obtain ⟨h1, h2, h3, h4, _⟩ := atomSymbol_spec hk hq' hb'
  obtain ⟨a, ha⟩ := h4 (validKey_chargeDigits_le hk hq')
  have hcap : ∀ c', lookup k d.toConstraints = some c' → a.bondingCapacity Tb = c' := by
    intro c' hc'
    have h0 : a.hCount.getD 0 = 0 := by rcases ha.hCount with h | h <;> rw [h] <;> rfl
    unfold Atom.bondingCapacity Table.capacity
    rw [ha.capKey_eq, ofDict_entries hT, hc', h0]; simp
  have hlk : ∃ c', lookup k d.toConstraints = some c' := by
    cases hl : lookup k d.toConstraints with
    | some c' => exact ⟨c', rfl⟩
    | none =>
      exfalso
      have : ∀ (T : Constraints), (k, c) ∈ T → lookup k T ≠ none := by
        intro T
        induction T with
        | nil => intro h; cases h
        | cons p T ih =>
          obtain ⟨k', c'⟩ := p
          intro h
          by_cases hk' : k' = k
          · simp [lookup, hk']
          · have : (k' == k) = false := by simpa using hk'
            simp only [lookup, this, Bool.false_eq_true, if_false]
            rcases List.mem_cons.1 h with h | h
            · exact absurd (by simp only [Prod.mk.injEq] at h; exact h.1.symm) hk'
            · exact ih h
      exact this _ hkc hl
  refine ⟨mem_robustAlphabet.2 (Or.inl (mem_atomSyms.2 ⟨k, c, hkc, hq', b, m, hb', hmc, rfl⟩)),
    h1, h2, h3, a, ?_, by simpa [memStr] using ha.element_mem, ha.not_aromatic, ha.isotope,
    ha.chirality, ha.hCount, ha.shape, ha.capKey_eq, ?_, ?_⟩
  · exact processAtomSymbol_of_noH Tb ha.parse
      (by rcases ha.hCount with h | h <;> rw [h] <;> rfl)
  · obtain ⟨c', hc'⟩ := hlk
    exact ⟨c', hc', hcap c' hc'⟩
  · intro hnd
    have := hcap c (lookup_of_mem_nodup hnd hkc)
    exact ⟨this, by rw [this]; exact_mod_cast hmc⟩

-- non-vacuity: the default table, entry `N+1 ↦ 4`, prefix `#`
example :
    validateDict (constraintsToPyDict Gen.preset_default) = none
    ∧ (constraintsToPyDict Gen.preset_default).toConstraints = Gen.preset_default
    ∧ ("N+1".toList, 4) ∈ Gen.preset_default
    ∧ (Gen.preset_default.map (·.1)).Nodup
    ∧ processAtomSymbol ⟨Gen.preset_default, 8⟩ "[#N+1]".toList
        = some ((3, none), { element := "N".toList, isAromatic := false, isotope := none,
                             chirality := none, hCount := some 0, charge := 1 }) := by
  decide +kernel

/-- **Accepted iff convertible.**  For a valid key and a bond prefix, the symbol `[bk]` is accepted
    by `_process_atom_selfies_no_cache` iff the charge has at most `Gen.intMaxStrDigits` digits.
    (Since the repair of F10 both sides hold for every valid key; the statement for keys of the
    old, unbounded grammar is `C07_charge_bound_needed`.) -/
theorem C07_atom_symbol_accepted_iff {k : Str} (hk : validKey k = true) (hq : k ≠ "?".toList)
    {b : Str} {m : Nat} (hb : (b, m) ∈ [("".toList, 1), ("=".toList, 2), ("#".toList, 3)]) :
    (processAtomSelfiesNoCache ('[' :: b ++ k ++ [']'])).isSome = true
      ↔ (keyChargeDigits k).length ≤ Gen.intMaxStrDigits := by
  have hq' : k ≠ qKey := hq
  have hb' : (b, m) ∈ bondPrefixes := hb
  obtain ⟨_, _, _, h4, h5⟩ := atomSymbol_spec hk hq' hb'
  constructor
  · intro h
    by_cases hl : (keyChargeDigits k).length ≤ Gen.intMaxStrDigits
    · exact hl
    · have := h5 (by omega)
      have e : '[' :: b ++ k ++ [']'] = ['['] ++ b ++ k ++ [']'] := rfl
      rw [e, this] at h; cases h
  · intro h
    obtain ⟨a, ha⟩ := h4 h
    have e : '[' :: b ++ k ++ [']'] = ['['] ++ b ++ k ++ [']'] := rfl
    rw [e, ha.parse]; rfl

example : validKey "Fe+10".toList = true ∧ keyChargeDigits "Fe+10".toList = "10".toList
    ∧ keyChargeDigits "Fe".toList = [] ∧ (processAtomSelfiesNoCache "[=Fe+10]".toList).isSome = true := by
  decide +kernel

/-- **Why the bound is needed, and that it is exact.**  Take a key `k = E±C` of the grammar as it
    was before the repair (`E ∈ ELEMENTS`, `C` matching `[1-9][0-9]*`, any number of digits) and a
    bond prefix `b`.  Then `_process_atom_selfies_no_cache` accepts `[bk]` iff `C` has at most
    `Gen.intMaxStrDigits` digits (beyond that `int(C)` raises and the reader returns `None`,
    under every table), and the repaired validation accepts `k` under exactly the same
    condition. -/
theorem C07_charge_bound_needed {E : Str} (hE : E ∈ Gen.elements) {sgn dg : Char} {ds : Str}
    (hs : sgn = '+' ∨ sgn = '-') (hd : isDigit19 dg = true) (hds : ds.all isAsciiDigit = true)
    {b : Str} {m : Nat} (hb : (b, m) ∈ [("".toList, 1), ("=".toList, 2), ("#".toList, 3)]) :
    let k : Str := E ++ sgn :: dg :: ds
    ((processAtomSelfiesNoCache ('[' :: b ++ k ++ [']'])).isSome = true
        ↔ (dg :: ds).length ≤ Gen.intMaxStrDigits)
    ∧ (validKey k = true ↔ (dg :: ds).length ≤ Gen.intMaxStrDigits)
    ∧ (Gen.intMaxStrDigits < (dg :: ds).length →
        processAtomSelfiesNoCache ('[' :: b ++ k ++ [']']) = none
        ∧ ∀ Tb : Table, processAtomSymbol Tb ('[' :: b ++ k ++ [']']) = none) := by
  intro k
  have hE' : memStr E Gen.elements = true := by simpa [memStr] using hE
  have hb' : (b, m) ∈ bondPrefixes := hb
  have hshape : KeyShape k := Or.inr ⟨E, sgn, dg, ds, rfl, hE', hs, hd, hds⟩
  have hkd : keyChargeDigits k = dg :: ds := keyChargeDigits_charged (elemOK_of_mem hE') hs _
  obtain ⟨_, _, _, h4, h5⟩ := atomSymbol_spec_shape hshape hb'
  rw [hkd] at h4 h5
  have e : '[' :: b ++ k ++ [']'] = ['['] ++ b ++ k ++ [']'] := rfl
  have hnone : Gen.intMaxStrDigits < (dg :: ds).length →
      processAtomSelfiesNoCache ('[' :: b ++ k ++ [']']) = none := fun h => by rw [e]; exact h5 h
  refine ⟨⟨fun h => ?_, fun h => ?_⟩, ?_, fun h => ⟨hnone h, fun Tb => ?_⟩⟩
  · by_cases hl : (dg :: ds).length ≤ Gen.intMaxStrDigits
    · exact hl
    · rw [hnone (by omega)] at h; cases h
  · obtain ⟨a, ha⟩ := h4 h
    rw [e, ha.parse]; rfl
  · rw [validKey_charged_eq hE' hs hd hds, decide_eq_true_eq]
  · unfold processAtomSymbol; rw [hnone h]

-- non-vacuity (small instance of the hypotheses; the long instance is `C07_long_charge_witness`)
example : "Fe".toList ∈ Gen.elements ∧ isDigit19 '1' = true ∧ "0".toList.all isAsciiDigit = true
    ∧ (processAtomSelfiesNoCache "[=Fe+10]".toList).isSome = true
    ∧ validKey "Fe+10".toList = true := by decide +kernel

/-- **Long charges are rejected by `set_semantic_constraints`** (F10 repaired).  A key `E±C` whose
    charge has more than `Gen.intMaxStrDigits` digits fails the key grammar; every dict with `str`
    keys that contains it makes `set_semantic_constraints` raise `ValueError` and leave the
    library state untouched; and no accepted table contains such a key at all. -/
theorem C07_long_charge_rejected {E : Str} (hE : E ∈ Gen.elements) {sgn dg : Char} {ds : Str}
    (hs : sgn = '+' ∨ sgn = '-') (hd : isDigit19 dg = true) (hds : ds.all isAsciiDigit = true)
    (hlen : Gen.intMaxStrDigits < (dg :: ds).length) :
    let k : Str := E ++ sgn :: dg :: ds
    validKey k = false
    ∧ (∀ (d : PyDict) (v : PyVal), (∀ kv ∈ d, ∃ s, kv.1 = PyKey.str s) → (PyKey.str k, v) ∈ d →
        validateDict d = some .ValueError)
    ∧ (∀ (st : CfgState) (ref : Nat) (v : PyVal),
        (∀ kv ∈ st.dictOf ref, ∃ s, kv.1 = PyKey.str s) → (PyKey.str k, v) ∈ st.dictOf ref →
        setConstraints st (.dict ref) = (st, .error .ValueError))
    ∧ (∀ (d : PyDict), validateDict d = none → ∀ c, (k, c) ∉ d.toConstraints) := by
  intro k
  have hE' : memStr E Gen.elements = true := by simpa [memStr] using hE
  have hk : validKey k = false := validKey_long_charge hE' hs hd hds hlen
  refine ⟨hk, fun d v hstr hmem => validateDict_invalid_key hstr hmem hk,
    fun st ref v hstr hmem => setConstraints_rejected (validateDict_invalid_key hstr hmem hk),
    fun d hd' c hkc => ?_⟩
  have := validateDict_keys hd' hkc
  rw [hk] at this; cases this

-- non-vacuity: the hypotheses hold of `C+1000…0` with `Gen.intMaxStrDigits + 1` charge digits,
-- a key the unrepaired grammar accepted
set_option maxRecDepth 100000 in
example : "C".toList ∈ Gen.elements ∧ isDigit19 '1' = true
    ∧ (List.replicate Gen.intMaxStrDigits '0').all isAsciiDigit = true
    ∧ Gen.intMaxStrDigits < ('1' :: List.replicate Gen.intMaxStrDigits '0').length
    ∧ validKey ("C+1".toList ++ List.replicate Gen.intMaxStrDigits '0') = false
    ∧ validKey ("C+1".toList ++ List.replicate (Gen.intMaxStrDigits - 1) '0') = true := by
  decide +kernel

/-- **Witness** (replayed on the repaired code).  The dictionary `{"C+1000…0": 1, "?": 8}` whose
    charge has `Gen.intMaxStrDigits + 1` digits - which the unrepaired library accepted although
    the decoder rejects its alphabet symbol `[C+1000…0]` under every table - is now rejected by
    `set_semantic_constraints` with `ValueError`, in every state, and the state is unchanged.
    With one digit fewer (`Gen.intMaxStrDigits` digits) the dictionary is accepted, its alphabet
    contains `[C+100…0]`, and the decoder's atom reader accepts that symbol. -/
theorem C07_long_charge_witness :
    let k : Str := "C+1".toList ++ List.replicate Gen.intMaxStrDigits '0'
    let d : PyDict := [(PyKey.str k, PyVal.int 1), (PyKey.str "?".toList, PyVal.int 8)]
    let k' : Str := "C+1".toList ++ List.replicate (Gen.intMaxStrDigits - 1) '0'
    let d' : PyDict := [(PyKey.str k', PyVal.int 1), (PyKey.str "?".toList, PyVal.int 8)]
    validateDict d = some .ValueError
    ∧ (∀ (st : CfgState) (ref : Nat), st.dictOf ref = d →
        setConstraints st (.dict ref) = (st, .error .ValueError))
    ∧ (∀ Tb : Table, processAtomSymbol Tb ('[' :: k ++ [']']) = none)
    ∧ validateDict d' = none
    ∧ '[' :: k' ++ [']'] ∈ robustAlphabet d'.toConstraints
    ∧ (∀ Tb : Table, Table.ofDict d'.toConstraints = some Tb →
        ∃ a : Atom, processAtomSymbol Tb ('[' :: k' ++ [']']) = some ((1, none), a)
          ∧ capKey a.element a.charge = k') := by
  intro k d k' d'
  have hpos : 0 < Gen.intMaxStrDigits := by decide
  have hds : ∀ n, (List.replicate n '0').all isAsciiDigit = true := by
    intro n; rw [List.all_eq_true]; intro x hx
    rw [(List.mem_replicate.1 hx).2]; decide
  have hC : "C".toList ∈ Gen.elements := by decide
  have hlen : Gen.intMaxStrDigits < ('1' :: List.replicate Gen.intMaxStrDigits '0').length := by
    simp
  obtain ⟨_, hrej, _, _⟩ :=
    C07_long_charge_rejected hC (sgn := '+') (Or.inl rfl) (dg := '1') (by decide)
      (hds Gen.intMaxStrDigits) hlen
  have hd : validateDict d = some .ValueError :=
    hrej d (.int 1) (by intro kv hkv; simp only [d, List.mem_cons, List.not_mem_nil, or_false] at hkv
                        rcases hkv with rfl | rfl <;> exact ⟨_, rfl⟩)
      (List.mem_cons_self ..)
  have hnone := (C07_charge_bound_needed hC (sgn := '+') (Or.inl rfl) (dg := '1') (by decide)
      (hds Gen.intMaxStrDigits) (b := []) (m := 1) (by decide)).2.2 hlen
  -- the boundary dictionary
  have hlen' : ('1' :: List.replicate (Gen.intMaxStrDigits - 1) '0').length ≤ Gen.intMaxStrDigits := by
    simp; omega
  have hk' : validKey k' = true :=
    validKey_charged (E := ['C']) (by decide) (Or.inl rfl) (d := '1') (by decide)
      (hds _) hlen'
  have hq' : k' ≠ "?".toList := by
    intro h; have := congrArg List.length h; simp [k'] at this
  have hd' : validateDict d' = none := by
    have hq2 : validKey ['?'] = true := by decide
    simp [d', validateDict, validateDict.go, hk', hq2, PyVal.validCapacity, qKey]
  have hmem' : (k', 1) ∈ d'.toConstraints := by
    simp [d', PyDict.toConstraints, PyVal.toNat]
  refine ⟨hd, fun st ref he => setConstraints_rejected (he ▸ hd), hnone.2, hd', ?_, ?_⟩
  · exact mem_robustAlphabet.2 (Or.inl (mem_atomSyms.2
      ⟨k', 1, hmem', hq', [], 1, by decide, Nat.le_refl _, rfl⟩))
  · intro Tb hT
    obtain ⟨_, _, _, _, a, ha, _, _, _, _, _, _, hcap, _⟩ :=
      C07_atom_symbols_valid hd' hT hmem' hq' (b := []) (m := 1) (by decide) (Nat.le_refl _)
    exact ⟨a, ha, hcap⟩

/-! ### end statement: every symbol of the alphabet is accepted by the decoder -/

/-- **Every alphabet symbol is valid** (F10 repaired).  For every dictionary `d` that
    `set_semantic_constraints` accepts, with `T` the table stored from it and `Tb` its total form,
    EVERY symbol of `get_semantic_robust_alphabet()` is accepted by the dispatch cascade of
    `_derive_mol_from_symbols` under `Tb` (`validSymbol`: a branch-tagged symbol in the branch
    table, a ring-tagged symbol in the ring table, or an atom symbol with
    `process_atom_symbol(x) is not None`), and is a bracketed symbol without inner bracket or dot
    (so that the tokenizer returns it unchanged).  This is the hypothesis of `C07_no_error`. -/
theorem C07_alphabet_symbols_valid {d : PyDict} (hd : validateDict d = none) {Tb : Table}
    (hT : Table.ofDict d.toConstraints = some Tb) :
    ∀ x ∈ robustAlphabet d.toConstraints, validSymbol Tb x = true ∧ IsSymbol x := by
  intro x hx
  refine ⟨?_, isSymbol_robustAlphabet
    (fun k c hkc hq => validKey_shape (validateDict_keys hd hkc) hq) x hx⟩
  rcases mem_robustAlphabet.1 hx with h | h | h
  · obtain ⟨k, c, hkc, hq, b, m, hb, hmc, rfl⟩ := mem_atomSyms.1 h
    obtain ⟨_, h1, h2, _, a, ha, _⟩ := C07_atom_symbols_valid hd hT hkc hq hb hmc
    exact validSymbol_atom h1 h2 (by
      have e : ['['] ++ b ++ k ++ [']'] = '[' :: b ++ k ++ [']'] := rfl
      rw [e, ha]; rfl)
  · exact validSymbol_structSyms Tb x h
  · rcases C07_structural_symbols_valid.2.2.2.2 x h with h' | h' | ⟨h1, h2, _, bi, a, _, _, ha⟩
    · exact validSymbol_structSyms Tb x (mem_structSyms.2 (Or.inl h'))
    · exact validSymbol_structSyms Tb x (mem_structSyms.2 (Or.inr h'))
    · exact validSymbol_atom h1 h2 (by rw [ha Tb]; rfl)

-- non-vacuity: the default table is accepted, its alphabet has 69 symbols, all of them valid
example : validateDict (constraintsToPyDict Gen.preset_default) = none
    ∧ Table.ofDict (constraintsToPyDict Gen.preset_default).toConstraints
        = some ⟨Gen.preset_default, 8⟩
    ∧ (robustAlphabet (constraintsToPyDict Gen.preset_default).toConstraints).length = 69
    ∧ validSymbol ⟨Gen.preset_default, 8⟩ "[#N+1]".toList = true
    ∧ validSymbol ⟨Gen.preset_default, 8⟩ "[Xx]".toList = false
    ∧ validSymbol ⟨Gen.preset_default, 8⟩ "[CH9]".toList = false := by decide +kernel

/-! ### the alphabet reflects the table in force -/

/-- **Reflects the current table.**  When the `lru_cache` of the alphabet is empty (as it is after
    every successful `set_semantic_constraints`, see `C07_set_clears_cache`),
    `get_semantic_robust_alphabet()` allocates a new set object holding exactly
    `robustAlphabet` of the table in force at the time of the call, caches it and returns it. -/
theorem C07_reflects_current_table (st : CfgState) (h : st.alphaCache = none) :
    (getAlphabet st).2 = st.nextId
    ∧ (getAlphabet st).1.sets = st.sets ++ [(st.nextId, robustAlphabet st.currentTable)]
    ∧ (getAlphabet st).1.alphaCache = some st.nextId
    ∧ (getAlphabet st).1.currentTable = st.currentTable
    ∧ ((∀ p ∈ st.sets, p.1 ≠ st.nextId) →
        lookup (getAlphabet st).2 (getAlphabet st).1.sets = some (robustAlphabet st.currentTable)) := by
  have e : getAlphabet st =
      ({ st with sets := st.sets ++ [(st.nextId, robustAlphabet st.currentTable)],
                 nextId := st.nextId + 1, alphaCache := some st.nextId }, st.nextId) := by
    simp [getAlphabet, h, CfgState.allocSet]
  rw [e]
  exact ⟨rfl, rfl, rfl, rfl, fun hf => lookup_append_fresh _ _ _ hf⟩

/-- every successful `set_semantic_constraints` empties the alphabet cache -/
theorem C07_set_clears_cache (st : CfgState) (arg : SetArg)
    (h : (setConstraints st arg).2 = .ok ()) : (setConstraints st arg).1.alphaCache = none := by
  unfold setConstraints at h ⊢
  cases arg with
  | name n =>
    simp only at h ⊢
    split
    · rename_i hn; rw [hn] at h; cases h
    · rfl
  | dict ref =>
    simp only at h ⊢
    split
    · rename_i e hn; rw [hn] at h; cases h
    · rfl
  | other => cases h

example : (setConstraints CfgState.init (.name "octet_rule".toList)).2 = .ok ()
    ∧ (setConstraints CfgState.init (.name "nonsense".toList)).2 = .error .ValueError := by
  decide +kernel

/-- `set_semantic_constraints(d)` followed by `get_semantic_robust_alphabet()` yields the alphabet
    of `d` — not of the table that was in force before (object ids below `nextId` are in use) -/
theorem C07_set_then_get (st : CfgState) (ref : Nat)
    (hv : validateDict (st.dictOf ref) = none)
    (hfd : ∀ p ∈ st.dicts, p.1 ≠ st.nextId) (hfs : ∀ p ∈ st.sets, p.1 ≠ st.nextId + 1) :
    let st1 := (setConstraints st (.dict ref)).1
    let r := (getAlphabet st1).2
    (setConstraints st (.dict ref)).2 = .ok ()
    ∧ st1.currentTable = (st.dictOf ref).toConstraints
    ∧ lookup r (getAlphabet st1).1.sets = some (robustAlphabet (st.dictOf ref).toConstraints) := by
  intro st1 r
  have e : setConstraints st (.dict ref) =
      ({ st with dicts := st.dicts ++ [(st.nextId, st.dictOf ref)], nextId := st.nextId + 1,
                 current := st.nextId, alphaCache := none, capCache := [] }, .ok ()) := by
    simp [setConstraints, hv, CfgState.allocDict]
  have hcur : st1.currentTable = (st.dictOf ref).toConstraints := by
    simp only [st1, e, CfgState.currentTable, CfgState.dictOf]
    rw [lookup_append_fresh _ _ _ hfd]; rfl
  have hc := C07_reflects_current_table st1 (by simp [st1, e])
  refine ⟨by rw [e], hcur, ?_⟩
  have := hc.2.2.2.2 (by simpa [st1, e] using hfs)
  rw [hcur] at this
  exact this

-- non-vacuity: in the initial state, set the octet-rule preset copy and read the alphabet
example :
    let st0 := CfgState.init
    let (st1, _) := getPreset st0 "octet_rule".toList
    let ref := st0.nextId
    validateDict (st1.dictOf ref) = none
    ∧ (∀ p ∈ st1.dicts, p.1 ≠ st1.nextId) ∧ (∀ p ∈ st1.sets, p.1 ≠ st1.nextId + 1)
    ∧ st1.alphaCache = none
    ∧ "[#S]".toList ∈ robustAlphabet st1.currentTable
    ∧ "[#S]".toList ∉ robustAlphabet (st1.dictOf ref).toConstraints := by
  decide +kernel

end SV
