/-
  Property C05, completeness clause —
  "For aromatic systems made of the standard aromatic atom kinds it succeeds whenever such an
   assignment exists."

  STATUS.  `find_perfect_matching` searches augmenting paths by a BFS without blossom contraction.
  On NON-bipartite graphs the walk it returns can repeat a vertex and the flip then destroys the
  matching (finding F9, `C05_no_blossom_witness` in Props/C05.lean), so the clause cannot be proved
  in general.  Proved here, for every simple graph that is BIPARTITE (aromatic systems all of whose
  rings are even: benzenoids, biphenylene, pyrene, …) and for every legal choice tape:

    1 `C05_augmenting_path_exists`      (Berge, the direction needed) if a perfect matching exists,
                                        every vertex a valid partial matching leaves unmatched is
                                        the end of a simple augmenting path          [any graph]
    2 `C05_bfs_complete`                if an alternating walk from the unmatched `root` to another
                                        unmatched vertex exists, `_find_augmenting_path` returns a
                                        path (not `None`)                            [any graph]
      `C05_bfs_none_certificate`        when it returns `None` there is a closed set of "outer"
                                        vertices around the root all of whose neighbours are
                                        matched (the Hungarian-tree certificate)     [any graph]
    3 `C05_bipartite_never_none`        bipartite + a perfect matching exists ⇒ the result is never
                                        `None`, for EVERY tape
      `C05_bipartite_complete`          … and for every legal tape it is a perfect matching
      `C05_bipartite_complete_anyTape`  … for an arbitrary tape: a perfect matching, or (model only)
                                        `KeyError` with the tape illegal
      `C05_bipartite_decides`           on bipartite graphs, `None` ⇔ no perfect matching exists
      `C05_legal_tape_exists`           every graph has a legal tape
    4 `C05_kekulize_complete_bipartite` for a well-formed parsed graph (`PWF`) whose pruned
                                        delocalisation subgraph is bipartite and has a perfect
                                        matching, `kekulize` returns `True` (never "kekulization
                                        failed") and leaves `kekResult` of a perfect matching

  Bipartiteness is used only where the flip needs a SIMPLE path (`C05_bipartite_paths_simple`);
  items 1 and 2 hold on every simple graph: the blossom-free BFS is complete (it never marks
  "inner" vertices, so nothing is blocked by parity) but not sound.

  Legal tapes.  `LegalTape g tape` (Proofs/BipartiteComplete.lean) is `C09.TapeOKLoop`
  (Proofs/EncTotalMatch.lean) for the loop exactly as `find_perfect_matching` starts it:
    ∀ m0, greedyMatching g = .ok m0 →
      TapeOKLoop g (len g + 1) [i < len g | m0[i] is None] tape m0
  — whenever the loop pops, the tape has an entry left and it is a member of `unmatched`.
  For `kekulize` the notion is `C09.TapeOK m tape` (Proofs/EncTotalKek.lean), which is `LegalTape` of
  the pruned subgraph (`legalTape_of_tapeOK`, `tapeOK_of_legalTape`).

  NOT PROVED: completeness on non-bipartite graphs (false for soundness reasons, F9; whether the
  routine can also return `None` on a non-bipartite graph that has a perfect matching is not
  settled here — by item 2 it cannot do so in a round whose matching is still valid), and that
  the pruned subgraph of a given SMILES is bipartite (a hypothesis; checkable by
  `isProperColouring`).
-/
import SelfiesVerif.Proofs.KekulizeComplete
import SelfiesVerif.Props.C05

namespace SV
open C09

/-! ### example graphs -/

/-- the pruned delocalisation subgraph of naphthalene `c1ccc2ccccc2c1`, as `kekulize` builds it -/
def naphthaleneGraph : Graph :=
  [[1, 9], [0, 2], [1, 3], [2, 4, 8], [3, 5], [4, 6], [5, 7], [6, 8], [7, 3, 9], [8, 0]]

/-- the carbon skeleton of m-xylylene (a benzene ring with exocyclic carbons on positions 0 and 2):
    bipartite with colour classes of sizes 3 and 5, hence without a perfect matching -/
def mXylyleneGraph : Graph := [[1, 5, 6], [0, 2], [1, 3, 7], [2, 4], [3, 5], [4, 0], [0], [2]]

/-- a bipartite graph with colour classes of EQUAL size (`{0, 4, 5}` and `{1, 2, 3}`) that violates
    Hall's condition (`N({2, 3}) = {0}`), hence has no perfect matching -/
def hallGraph : Graph := [[1, 2, 3], [0, 4, 5], [0], [0], [1], [1]]

theorem hexagon_bipartite : Bipartite hexagon :=
  bipartite_of_colouring (fun i => decide (i % 2 = 0)) (by decide)

theorem naphthaleneGraph_bipartite : Bipartite naphthaleneGraph :=
  bipartite_of_colouring (fun i => decide (i % 2 = 0)) (by decide)

theorem bip10_bipartite : Bipartite bip10 :=
  bipartite_of_colouring (fun i => decide (i < 5)) (by decide)

theorem mXylyleneGraph_bipartite : Bipartite mXylyleneGraph :=
  bipartite_of_colouring (fun i => decide (i % 2 = 0 ∧ i < 6)) (by decide)

theorem hallGraph_bipartite : Bipartite hallGraph :=
  bipartite_of_colouring (fun i => decide (i = 0 ∨ i = 4 ∨ i = 5)) (by decide)

/-- a tape computed by `legalTape` ("always pop the first element") is legal -/
theorem legalTape_of_eq {g : Graph} {m0 : Matching} {tape : List Nat} (h : greedyMatching g = .ok m0)
    (ht : legalTape g (g.length + 1) ((List.range g.length).filter fun i => (m0.getD i none).isNone) m0
      = tape) : LegalTape g tape := by
  intro m0' h'
  rw [h] at h'
  cases h'
  rw [← ht]
  exact legalTape_ok _ _ _ _

/-! ### 1. Berge: an augmenting path from every unmatched vertex -/

/-- Let `m` be a valid partial matching of the simple graph `g`, `p` a perfect matching of `g` and
    `r` a vertex with `m[r] = None`.  Then there is an `m`-augmenting path (`AugPath`, in the order
    `_find_augmenting_path` uses: first vertex = other end, last vertex = root) that ends at `r`, is
    simple, and starts at a vertex other than `r`.  (The walk `r, p(r), m(p(r)), …` through `m Δ p`.) -/
theorem C05_augmenting_path_exists {g : Graph} {m p : Matching} {r : Nat} (hg : GraphOK g)
    (hv : ValidPartial g m) (hp : PerfectMatching g p) (hr : m[r]? = some none) :
    ∃ path, AugPath g m path ∧ path.getLast? = some r ∧ path.Nodup ∧
      ∃ e, path.head? = some e ∧ e ≠ r :=
  exists_augPath_of_perfect hg hv hp hr

/-- the hexagon with the matching `1–2, 3–4`: the walk from `0` through the perfect matching
    `0–1, 2–3, 4–5` is `0, 1, 2, 3, 4, 5` -/
example :
    let m : Matching := [none, some 2, some 1, some 4, some 3, none]
    let p : Matching := [some 1, some 0, some 3, some 2, some 5, some 4]
    isGraphOK hexagon = true ∧ isValidPartial hexagon m = true ∧ isPerfectMatching hexagon p = true ∧
      m[0]? = some none ∧ AugPath hexagon m [5, 4, 3, 2, 1, 0] := by decide

/-! ### 2. the BFS is complete (on every simple graph) -/

/-- If an alternating walk `path` (`AugPath`; it need not be simple) leads from the unmatched vertex
    `root` (last position) to an unmatched vertex other than `root` (first position), then
    `_find_augmenting_path(graph, root, matching)` returns a path — in general a different one —
    and that path is again alternating between `root` and another unmatched vertex. -/
theorem C05_bfs_complete {g : Graph} {m : Matching} {root : Nat} {path : List Nat}
    (hg : GraphOK g) (hv : ValidPartial g m) (hroot : m[root]? = some none) (hap : AugPath g m path)
    (hlast : path.getLast? = some root) (hhead : ∃ e, path.head? = some e ∧ e ≠ root) :
    ∃ path', findAugmentingPath g root m = .ok (some path') ∧ AugPath g m path' ∧
      path'.getLast? = some root ∧ ∃ e, path'.head? = some e ∧ e ≠ root :=
  findAugmentingPath_complete hg hv hroot hap hlast hhead

/-- the hypotheses hold for the walk of item 1; the BFS returns the shorter path `5, 0` -/
example :
    let m : Matching := [none, some 2, some 1, some 4, some 3, none]
    isGraphOK hexagon = true ∧ isValidPartial hexagon m = true ∧ m[0]? = some none ∧
      AugPath hexagon m [5, 4, 3, 2, 1, 0] ∧ [5, 4, 3, 2, 1, 0].getLast? = some 0 ∧
      findAugmentingPath hexagon 0 m = .ok (some [5, 0]) := by decide

/-- the Hungarian-tree certificate: when `_find_augmenting_path` returns `None`, there is a set `S`
    containing the root such that every neighbour `v` of a vertex of `S` is the root or is matched
    to a vertex of `S` — so no alternating walk from the root reaches another unmatched vertex -/
theorem C05_bfs_none_certificate {g : Graph} {m : Matching} {root : Nat} (hv : ValidPartial g m)
    (h : findAugmentingPath g root m = .ok none) :
    ∃ S : Nat → Prop, S root ∧
      ∀ u, S u → ∀ v, Adj g u v → v = root ∨ ∃ w, m[v]? = some (some w) ∧ S w :=
  findAugmentingPath_none_closed hv h

/-- in m-xylylene after the greedy phase, the BFS from `5` finds nothing -/
example :
    let m : Matching := [some 6, some 2, some 1, some 4, some 3, none, some 0, none]
    isValidPartial mXylyleneGraph m = true ∧ findAugmentingPath mXylyleneGraph 5 m = .ok none := by decide

/-! ### 3. completeness of `find_perfect_matching` on bipartite graphs -/

/-- on a simple bipartite graph that has a perfect matching, `find_perfect_matching` never returns
    `None` — for every tape, legal or not -/
theorem C05_bipartite_never_none {g : Graph} (hg : GraphOK g) (hb : Bipartite g)
    (hex : ∃ p, PerfectMatching g p) (tape : List Nat) : findPerfectMatching g tape ≠ .ok none := by
  obtain ⟨p, hp⟩ := hex
  exact findPerfectMatching_ne_none hg hb hp tape

/-- **C05, completeness clause, bipartite case.**  On a simple bipartite graph that has a perfect
    matching, `find_perfect_matching` returns a perfect matching, for every legal tape. -/
theorem C05_bipartite_complete {g : Graph} {tape : List Nat} (hg : GraphOK g) (hb : Bipartite g)
    (hex : ∃ p, PerfectMatching g p) (ht : LegalTape g tape) :
    ∃ m', findPerfectMatching g tape = .ok (some m') ∧ PerfectMatching g m' :=
  findPerfectMatching_complete_of_bipartite hg hb hex ht

/-- for an arbitrary tape: a perfect matching, or — in the model only — `KeyError` because the
    tape is not a legal record of `set.pop()` results -/
theorem C05_bipartite_complete_anyTape {g : Graph} (hg : GraphOK g) (hb : Bipartite g)
    (hex : ∃ p, PerfectMatching g p) (tape : List Nat) :
    (∃ m', findPerfectMatching g tape = .ok (some m') ∧ PerfectMatching g m') ∨
    (findPerfectMatching g tape = .error .KeyError ∧ ¬ LegalTape g tape) :=
  findPerfectMatching_complete_anyTape hg hb hex tape

/-- every graph has a legal tape (so `LegalTape` is never an unsatisfiable hypothesis) -/
theorem C05_legal_tape_exists (g : Graph) : ∃ tape, LegalTape g tape := legalTape_exists g

/-- the 6-cycle (benzene): all hypotheses hold; the greedy phase already matches every vertex -/
example : GraphOK hexagon ∧ Bipartite hexagon ∧ (∃ p, PerfectMatching hexagon p) ∧ LegalTape hexagon [] ∧
    findPerfectMatching hexagon [] = .ok (some [some 1, some 0, some 3, some 2, some 5, some 4]) :=
  ⟨(isGraphOK_iff _).1 (by decide), hexagon_bipartite,
    ⟨[some 5, some 2, some 1, some 4, some 3, some 0], (isPerfectMatching_iff _ _).1 (by decide)⟩,
    legalTape_of_greedy_perfect (m0 := [some 1, some 0, some 3, some 2, some 5, some 4]) (by decide)
      (by decide) [],
    by decide⟩

/-- naphthalene's graph -/
example : GraphOK naphthaleneGraph ∧ Bipartite naphthaleneGraph ∧
    (∃ p, PerfectMatching naphthaleneGraph p) ∧ LegalTape naphthaleneGraph [] ∧
    findPerfectMatching naphthaleneGraph [] =
      .ok (some [some 1, some 0, some 3, some 2, some 5, some 4, some 7, some 6, some 9, some 8]) :=
  ⟨(isGraphOK_iff _).1 (by decide), naphthaleneGraph_bipartite,
    ⟨[some 9, some 2, some 1, some 8, some 5, some 4, some 7, some 6, some 3, some 0],
      (isPerfectMatching_iff _ _).1 (by decide)⟩,
    legalTape_of_greedy_perfect
      (m0 := [some 1, some 0, some 3, some 2, some 5, some 4, some 7, some 6, some 9, some 8])
      (by decide) (by decide) [],
    by decide⟩

/-- a run with a real augmentation round: on `bip10` the greedy phase leaves 4 and 8 unmatched;
    the tape `[4]` is legal and one flip (of a path of 6 vertices) completes the matching -/
example : GraphOK bip10 ∧ Bipartite bip10 ∧ (∃ p, PerfectMatching bip10 p) ∧ LegalTape bip10 [4] ∧
    findAugmentingPath bip10 4
      [some 9, some 7, some 5, some 6, none, some 2, some 3, some 1, none, some 0] =
        .ok (some [8, 1, 7, 0, 9, 4]) ∧
    findPerfectMatching bip10 [4] =
      .ok (some [some 7, some 8, some 5, some 6, some 9, some 2, some 3, some 0, some 1, some 4]) :=
  ⟨(isGraphOK_iff _).1 (by decide), bip10_bipartite,
    ⟨[some 7, some 8, some 5, some 6, some 9, some 2, some 3, some 0, some 1, some 4],
      (isPerfectMatching_iff _ _).1 (by decide)⟩,
    legalTape_of_eq (m0 := [some 9, some 7, some 5, some 6, none, some 2, some 3, some 1, none, some 0])
      (by decide) (by decide),
    by decide, by decide⟩

/-- **on bipartite graphs `find_perfect_matching` decides the existence of a perfect matching**:
    for a legal tape it returns `None` exactly when there is none -/
theorem C05_bipartite_decides {g : Graph} {tape : List Nat} (hg : GraphOK g) (hb : Bipartite g)
    (ht : LegalTape g tape) :
    findPerfectMatching g tape = .ok none ↔ ¬ ∃ p, PerfectMatching g p :=
  findPerfectMatching_none_iff_of_bipartite hg hb ht

/-- a bipartite graph WITHOUT a perfect matching (m-xylylene, colour classes 3 and 5): `None` is
    returned, correctly -/
example : GraphOK mXylyleneGraph ∧ Bipartite mXylyleneGraph ∧ LegalTape mXylyleneGraph [5] ∧
    findPerfectMatching mXylyleneGraph [5] = .ok none ∧ ¬ ∃ p, PerfectMatching mXylyleneGraph p := by
  have hg : GraphOK mXylyleneGraph := (isGraphOK_iff _).1 (by decide)
  have ht : LegalTape mXylyleneGraph [5] :=
    legalTape_of_eq (m0 := [some 6, some 2, some 1, some 4, some 3, none, some 0, none])
      (by decide) (by decide)
  have hn : findPerfectMatching mXylyleneGraph [5] = .ok none := by decide
  exact ⟨hg, mXylyleneGraph_bipartite, ht, hn,
    (C05_bipartite_decides hg mXylyleneGraph_bipartite ht).1 hn⟩

/-- the same with colour classes of equal size (a Hall violator) -/
example : GraphOK hallGraph ∧ Bipartite hallGraph ∧
    ∃ tape, LegalTape hallGraph tape ∧ findPerfectMatching hallGraph tape = .ok none ∧
      ¬ ∃ p, PerfectMatching hallGraph p := by
  have hg : GraphOK hallGraph := (isGraphOK_iff _).1 (by decide)
  have ht : LegalTape hallGraph [3] :=
    legalTape_of_eq (m0 := [some 2, some 4, some 0, none, some 1, none]) (by decide) (by decide)
  have hn : findPerfectMatching hallGraph [3] = .ok none := by decide
  exact ⟨hg, hallGraph_bipartite, [3], ht, hn, (C05_bipartite_decides hg hallGraph_bipartite ht).1 hn⟩

/-! ### 4. kekulization -/

/-- Let `m` be a well-formed parsed graph (`PWF`) with a non-empty delocalisation subgraph, `kept`
    the atoms `_prune_from_ds` keeps, `l2n = sorted(kept)`, `pg` the pruned, relabelled subgraph.
    If `pg` is bipartite and has a perfect matching, then for every legal tape
    `find_perfect_matching(pg)` returns a perfect matching `mt` of `pg` and `kekulize` returns `True`
    leaving `kekResult m l2n mt` (see `C05_kekulize_sound` for what that is) — never `False`. -/
theorem C05_kekulize_complete_bipartite {m : PMol} {kept l2n : List Nat} {pg : Graph}
    {tape : List Nat} (hwf : PWF m) (hne : m.ds.isEmpty = false) (hk : keptNodes m = .ok kept)
    (hl : l2n = kept.mergeSort (· ≤ ·)) (hp : prunedGraph m l2n = .ok pg)
    (hb : Bipartite pg) (hex : ∃ p, PerfectMatching pg p) (ht : TapeOK m tape) :
    ∃ mt, findPerfectMatching pg tape = .ok (some mt) ∧ PerfectMatching pg mt ∧
      m.kekulize tape = .ok (some (kekResult m l2n mt)) :=
  kekulize_complete_of_bipartite hwf hne hk hl hp hb hex ht

/-- with or without aromatic atoms: `kekulize` does not fail -/
theorem C05_kekulize_never_fails_bipartite {m : PMol} {kept : List Nat} {pg : Graph}
    {tape : List Nat} (hwf : PWF m) (hk : keptNodes m = .ok kept)
    (hp : prunedGraph m (kept.mergeSort (· ≤ ·)) = .ok pg)
    (hb : Bipartite pg) (hex : ∃ p, PerfectMatching pg p) (ht : TapeOK m tape) :
    ∃ g', m.kekulize tape = .ok (some g') :=
  kekulize_some_of_bipartite hwf hk hp hb hex ht

/-- naphthalene as `smiles_to_mol("c1ccc2ccccc2c1")` builds it -/
def naphthalene : PMol :=
  { atoms := List.replicate 10 { element := ['C'], isAromatic := true },
    roots := [0],
    adj := [[some { src := 0, dst := 9, order2 := 3, stereo := none, ring := true },
             some { src := 0, dst := 1, order2 := 3, stereo := none, ring := false }],
            [some { src := 1, dst := 2, order2 := 3, stereo := none, ring := false }],
            [some { src := 2, dst := 3, order2 := 3, stereo := none, ring := false }],
            [some { src := 3, dst := 8, order2 := 3, stereo := none, ring := true },
             some { src := 3, dst := 4, order2 := 3, stereo := none, ring := false }],
            [some { src := 4, dst := 5, order2 := 3, stereo := none, ring := false }],
            [some { src := 5, dst := 6, order2 := 3, stereo := none, ring := false }],
            [some { src := 6, dst := 7, order2 := 3, stereo := none, ring := false }],
            [some { src := 7, dst := 8, order2 := 3, stereo := none, ring := false }],
            [some { src := 8, dst := 3, order2 := 3, stereo := none, ring := true },
             some { src := 8, dst := 9, order2 := 3, stereo := none, ring := false }],
            [some { src := 9, dst := 0, order2 := 3, stereo := none, ring := true }]],
    counts2 := [6, 6, 6, 9, 6, 6, 6, 6, 9, 6],
    ringFlags := [true, false, false, true, false, false, false, false, true, true],
    ds := [(0, [1, 9]), (1, [0, 2]), (2, [1, 3]), (3, [2, 4, 8]), (4, [3, 5]), (5, [4, 6]),
           (6, [5, 7]), (7, [6, 8]), (8, [7, 3, 9]), (9, [8, 0])],
    atomAttr := List.replicate 10 none }

set_option maxRecDepth 100000 in
example : smilesToMol "c1ccc2ccccc2c1".toList false = .ok naphthalene := by
  have : (match smilesToMol "c1ccc2ccccc2c1".toList false with
      | .ok m => m.same naphthalene | _ => false) = true := by decide +kernel
  cases h : smilesToMol "c1ccc2ccccc2c1".toList false with
  | error e => rw [h] at this; cases this
  | ok m => rw [h] at this; rw [PMol.eq_of_same this]

theorem naphthalene_kept : keptNodes naphthalene = .ok [0, 1, 2, 3, 4, 5, 6, 7, 8, 9] := by
  decide +kernel

theorem naphthalene_pruned :
    prunedGraph naphthalene [0, 1, 2, 3, 4, 5, 6, 7, 8, 9] = .ok naphthaleneGraph := by decide +kernel

theorem naphthalene_sorted :
    [0, 1, 2, 3, 4, 5, 6, 7, 8, 9] = ([0, 1, 2, 3, 4, 5, 6, 7, 8, 9] : List Nat).mergeSort (· ≤ ·) :=
  (List.mergeSort_of_pairwise (by decide)).symm

theorem naphthalene_tapeOK : TapeOK naphthalene [] := by
  apply tapeOK_of_legalTape naphthalene_kept (by rw [← naphthalene_sorted]; exact naphthalene_pruned)
  exact legalTape_of_greedy_perfect
    (m0 := [some 1, some 0, some 3, some 2, some 5, some 4, some 7, some 6, some 9, some 8])
    (by decide) (by decide) []

/-- all hypotheses of `C05_kekulize_complete_bipartite` hold for naphthalene, hence `kekulize`
    succeeds with a perfect matching of `naphthaleneGraph` -/
example : PWF naphthalene ∧ naphthalene.ds.isEmpty = false ∧
    Bipartite naphthaleneGraph ∧ (∃ p, PerfectMatching naphthaleneGraph p) ∧ TapeOK naphthalene [] ∧
    ∃ mt, PerfectMatching naphthaleneGraph mt ∧
      naphthalene.kekulize [] = .ok (some (kekResult naphthalene [0, 1, 2, 3, 4, 5, 6, 7, 8, 9] mt)) := by
  have hwf : PWF naphthalene := (isPWF_iff _).1 (by decide +kernel)
  have hex : ∃ p, PerfectMatching naphthaleneGraph p :=
    ⟨[some 9, some 2, some 1, some 8, some 5, some 4, some 7, some 6, some 3, some 0],
      (isPerfectMatching_iff _ _).1 (by decide)⟩
  obtain ⟨mt, _, h2, h3⟩ := C05_kekulize_complete_bipartite hwf (by decide) naphthalene_kept
    naphthalene_sorted naphthalene_pruned naphthaleneGraph_bipartite hex naphthalene_tapeOK
  exact ⟨hwf, by decide, naphthaleneGraph_bipartite, hex, naphthalene_tapeOK, mt, h2, h3⟩

/-
  NOT PROVED / OUT OF SCOPE

  * completeness without bipartiteness
      theorem C05_complete : GraphOK g → (∃ p, PerfectMatching g p) → LegalTape g tape →
          ∃ m', findPerfectMatching g tape = .ok (some m') ∧ PerfectMatching g m'
    is FALSE as stated (the result need not be a matching: `C05_no_blossom_witness`).  Items 1 and 2
    show that in every round that starts from a VALID partial matching the BFS does find a walk;
    after a non-simple flip the list is no longer a matching and nothing is claimed.

  * "the pruned subgraph of this SMILES is bipartite" is a hypothesis of item 4 (true of every
    ring system with only even rings; checkable per molecule by `isProperColouring`).
-/

end SV
