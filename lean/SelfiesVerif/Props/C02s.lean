/-
  Property C02 at the level of the returned STRING — "The decoder implements the published
  SELFIES derivation grammar exactly"

  Props/C02.lean compares GRAPHS: the graph the decoder model builds is the graph of the independent
  specification `Spec.decodeGraph` (Spec/Derivation.lean).  Props/C01w.lean shows that the
  explicit-stack SMILES writer returns the structural pre-order rendering `specSmiles`
  (Spec/SmilesTokens.lean) of the graph it is given.  This file composes the two, so that the
  statement is about what `selfies.decoder` RETURNS:

      decoder(s) = out   iff   the documented derivation of `s` gives a molecule `g`
                               and `out` is the structural rendering of `g`.

  `SpecMol.toMol` (Spec/Derivation.lean) turns the specified molecule into the writer's input type
  (`src` of a bond = the row it stands in, no attribution, bond counts not tracked);
  `specSmiles_view`: for a decoded graph `m`, `specSmiles (SpecMol.ofMol m).toMol = specSmiles m`
  (`specSmiles` reads atoms, roots and the rows' `src, dst, order, stereo, ring` only).
  The writer cannot fail on a decoded graph (`C01w_writer_eq_spec` + `C01w_wgraph`), so there is no
  "writer fails" clause.

  The only gap is the known one (finding F2): the specification has no recursion limit, the
  implementation has Python's.  Exact statements:

  `C02s_outcomes`                 for EVERY table, string, flags the body `_decode` does one of three
                                  things: returns the rendering of the documented molecule / raises
                                  `DecoderError` where the documentation rejects / raises
                                  `RecursionError`.
  `C02s_decoder_eq_spec_string`   `decoder T s c = .ok out ↔ decoder T s c ≠ RecursionError ∧
                                     ∃ g, Spec.decodeGraph T s c = .ok g ∧ out = specSmiles g.toMol`
                                  (no hypothesis; `…_string'` has the stack condition as a hypothesis,
                                  `C02s_decoder_sound` is the hypothesis-free direction).
  `C02s_reject_iff_string`        unless the stack is exhausted, `DecoderError` iff the specification
                                  rejects (`C02s_reject_iff_grammar`: iff a bracket is left open or
                                  the derivation reaches a symbol outside the grammar).
  `C02s_api_eq_spec_string`, `C02s_api_reject_iff`, `C02s_api_outcomes`
                                  the same for the API function `decoderApi` (Model/Api.lean), in
                                  which `RecursionError` has become `DecoderError`: it returns `out`
                                  iff the body does not exhaust the stack and the specification gives
                                  a molecule rendered `out`; it raises `DecoderError` iff the
                                  specification rejects OR the body exhausts the stack; nothing else.

  That the third outcome occurs (branch nesting ≥ `recursionBudget` = 960) is
  `C08_recursion_error_reachable` (Props/C08.lean); a sufficient condition for its absence (fewer
  than 960 branch symbols per fragment) is `C08_no_recursion_error_if_shallow`.  Props/C08.lean
  cannot be imported here (`SV.formRings_step` is declared both in Proofs/RingTotal.lean and in
  Proofs/SpecRefineRings.lean), so `catchRecursion_ok_iff` is re-proved locally.
-/
import SelfiesVerif.Props.C02
import SelfiesVerif.Props.C01w
import SelfiesVerif.Model.Api

namespace SV
open SV.Spec

/-! ### 1. the writer's specification reads only what `SpecMol` keeps -/

/-- a bond record without its attribution -/
def DirBond.strip (b : DirBond) : DirBond := { b with attr := none }

theorem bondText_strip (b : DirBond) : bondText b.strip = bondText b := rfl

theorem bondsPre_strip (sub : Nat → List PTok) :
    ∀ l : List DirBond, bondsPre sub (l.map DirBond.strip) = bondsPre sub l
  | [] => rfl
  | b :: rest => by
    have ih := bondsPre_strip sub rest
    have he : (rest.map DirBond.strip).isEmpty = rest.isEmpty := by cases rest <;> rfl
    simp only [List.map_cons, bondsPre, he, ih, bondText_strip]
    rfl

/-- the specified SMILES string depends only on the atoms, the roots and the rows without their
    attribution -/
theorem specSmiles_congr {g g' : Mol} (ha : g'.atoms = g.atoms) (hr : g'.roots = g.roots)
    (hrow : ∀ i, g'.row i = (g.row i).map DirBond.strip) : specSmiles g' = specSmiles g := by
  have hpre : ∀ f, atomPre g' f = atomPre g f := by
    intro f
    induction f with
    | zero => rfl
    | succ f ih =>
      funext i
      simp only [atomPre, Mol.atomTextAt, ha, hrow i, ih, bondsPre_strip]
  have hsp : specPre g' = specPre g := by
    funext r
    unfold specPre
    rw [ha, hpre]
  have hfr : ∀ (roots : List Nat) (log : RingLog), specFragsFrom g' log roots = specFragsFrom g log roots := by
    intro roots
    induction roots with
    | nil => intro log; rfl
    | cons r rest ih =>
      intro log
      simp only [specFragsFrom, hsp, ih]
  unfold specSmiles specFrags
  rw [hr, hfr]

/-- `SpecMol.toMol ∘ SpecMol.ofMol` only drops the attribution (and the tracked counts) when every
    bond of row `k` starts at `k` -/
theorem toMol_ofMol_row {g : Mol}
    (hsrc : ∀ (k : Nat) (row : List DirBond), g.adj[k]? = some row → ∀ b ∈ row, b.src = k) (i : Nat) :
    (SpecMol.ofMol g).toMol.row i = (g.row i).map DirBond.strip := by
  unfold Mol.row SpecMol.toMol SpecMol.ofMol
  simp only [List.getElem?_mapIdx, List.getElem?_map]
  cases hrow : g.adj[i]? with
  | none => rfl
  | some row =>
    simp only [Option.map_some, Option.getD_some, List.map_map]
    apply List.map_congr_left
    intro b hb
    have := hsrc i row hrow b hb
    obtain ⟨src, dst, o, st, r, a⟩ := b
    simp only at this
    subst this
    rfl

/-- the specified string of the specification's view of a decoded graph is that of the graph -/
theorem specSmiles_view {g : Mol} (hg : WGraph g) : specSmiles (SpecMol.ofMol g).toMol = specSmiles g :=
  specSmiles_congr rfl rfl
    (toMol_ofMol_row fun k row hk b hb => (hg.bonds k row hk b hb).1)

/-! ### 2. the body `_decode`: graph, then string -/

/-- the result of the body in terms of the graph construction: the writer never fails on a decoded
    graph and writes `specSmiles` -/
theorem decoderFull_cases (T : Table) (s : Str) (compat attrib : Bool) :
    (∃ g maps, decodeGraph T s compat attrib = .ok g ∧
        decoderFull T s compat attrib = .ok (specSmiles g, maps)) ∨
    (∃ e, decodeGraph T s compat attrib = .error e ∧ decoderFull T s compat attrib = .error e) := by
  cases h : decodeGraph T s compat attrib with
  | error e =>
    refine Or.inr ⟨e, rfl, ?_⟩
    simp [decoderFull, h, bind, Except.bind]
  | ok g =>
    obtain ⟨maps, hm⟩ := C01w_writer_eq_spec (C01w_wgraph h)
    refine Or.inl ⟨g, maps, rfl, ?_⟩
    simp [decoderFull, h, hm, bind, Except.bind]

/-- **The three possible outcomes of `_decode`**, at the level of the returned string:
    (1) the documented derivation gives a molecule `g` and the body returns the structural
        pre-order rendering `specSmiles` of `g` (with some attribution list);
    (2) the documented derivation rejects and the body raises `DecoderError`;
    (3) the body exhausts the Python stack (`RecursionError`, finding F2) — the specification has
        no recursion limit and may say either. -/
theorem C02s_outcomes (T : Table) (s : Str) (compat attrib : Bool) :
    (∃ g maps, Spec.decodeGraph T s compat = .ok g ∧
        decoderFull T s compat attrib = .ok (specSmiles g.toMol, maps)) ∨
    (Spec.decodeGraph T s compat = .error .DecoderError ∧
        decoderFull T s compat attrib = .error .DecoderError) ∨
    decoderFull T s compat attrib = .error .RecursionError := by
  have key := decodeGraph_spec T s compat attrib
  rcases decoderFull_cases T s compat attrib with ⟨g, maps, hg, hf⟩ | ⟨e, hg, hf⟩
  · rw [hg] at key
    refine Or.inl ⟨SpecMol.ofMol g, maps, key, ?_⟩
    rw [specSmiles_view (C01w_wgraph hg)]
    exact hf
  · rw [hg] at key
    unfold GraphRes at key
    cases e <;> first
      | exact Or.inr (Or.inr hf)
      | exact Or.inr (Or.inl ⟨key, hf⟩)
      | exact key.elim

theorem decoder_eq_map (T : Table) (s : Str) (compat : Bool) :
    decoder T s compat = (decoderFull T s compat false).map (·.1) := by
  unfold decoder
  cases decoderFull T s compat false <;> rfl

/-! ### 3. property C02 at the level of the returned string -/

/-- **C02 on strings, acceptance.**  For every table, string and `compatible` flag:
    `decoder` returns `out` exactly when it does not exhaust the Python stack and the documented
    derivation gives a molecule whose structural rendering is `out`. -/
theorem C02s_decoder_eq_spec_string (T : Table) (s : Str) (compat : Bool) (out : Str) :
    decoder T s compat = .ok out ↔
      decoder T s compat ≠ .error .RecursionError ∧
      ∃ g, Spec.decodeGraph T s compat = .ok g ∧ out = specSmiles g.toMol := by
  rw [decoder_eq_map]
  rcases C02s_outcomes T s compat false with ⟨g, maps, hs, hf⟩ | ⟨hs, hf⟩ | hf <;> rw [hf]
  · constructor
    · intro h
      injection h with h
      exact ⟨(fun h' => by cases h'), g, hs, h.symm⟩
    · rintro ⟨_, g', hs', rfl⟩
      rw [hs] at hs'
      injection hs' with hs'
      rw [hs']; rfl
  · constructor
    · intro h; cases h
    · rintro ⟨_, g', hs', _⟩
      rw [hs] at hs'; cases hs'
  · constructor
    · intro h; cases h
    · rintro ⟨h, _⟩; exact absurd rfl h

/-- the same with the stack hypothesis in front, as in `C02_graph_eq_general` -/
theorem C02s_decoder_eq_spec_string' (T : Table) (s : Str) (compat : Bool) (out : Str)
    (h : decoder T s compat ≠ .error .RecursionError) :
    decoder T s compat = .ok out ↔
      ∃ g, Spec.decodeGraph T s compat = .ok g ∧ out = specSmiles g.toMol := by
  rw [C02s_decoder_eq_spec_string]
  exact ⟨fun h' => h'.2, fun h' => ⟨h, h'⟩⟩

/-- one direction needs no hypothesis: whatever `decoder` returns is the rendering of the
    documented molecule -/
theorem C02s_decoder_sound (T : Table) (s : Str) (compat : Bool) (out : Str)
    (h : decoder T s compat = .ok out) :
    ∃ g, Spec.decodeGraph T s compat = .ok g ∧ out = specSmiles g.toMol :=
  ((C02s_decoder_eq_spec_string T s compat out).1 h).2

/-- **C02 on strings, rejection.**  Unless it exhausts the Python stack, `decoder` raises
    `DecoderError` exactly when the documented derivation rejects — i.e. (`C02_reject_iff`) when a
    bracket is left open or the derivation reaches a symbol outside the grammar. -/
theorem C02s_reject_iff_string (T : Table) (s : Str) (compat : Bool)
    (h : decoder T s compat ≠ .error .RecursionError) :
    decoder T s compat = .error .DecoderError ↔
      Spec.decodeGraph T s compat = .error .DecoderError := by
  rw [decoder_eq_map] at h ⊢
  rcases C02s_outcomes T s compat false with ⟨g, maps, hs, hf⟩ | ⟨hs, hf⟩ | hf
  · rw [hf, hs]
    constructor <;> intro h' <;> cases h'
  · rw [hf, hs]
    exact ⟨fun _ => rfl, fun _ => rfl⟩
  · rw [hf] at h; exact absurd rfl h

theorem C02s_reject_iff_grammar (T : Table) (s : Str) (compat : Bool)
    (h : decoder T s compat ≠ .error .RecursionError) :
    decoder T s compat = .error .DecoderError ↔
      (hasUnclosed s = true ∨ reachesInvalid T s compat = true) := by
  rw [C02s_reject_iff_string T s compat h]
  constructor
  · intro hs
    exact (spec_decodeGraph_error_iff T s compat).1 ⟨_, hs⟩
  · intro hr
    obtain ⟨e, he⟩ := (spec_decodeGraph_error_iff T s compat).2 hr
    rw [decoder_eq_map] at h
    rcases C02s_outcomes T s compat false with ⟨g, maps, hs, hf⟩ | ⟨hs, hf⟩ | hf
    · rw [hs] at he; cases he
    · exact hs
    · rw [hf] at h; exact absurd rfl h

/-! ### 4. the API function (`try … except RecursionError → DecoderError`) -/

theorem catchRecursion_ok_iff {α : Type} (e : PyExc) (r : Py α) (v : α) :
    catchRecursion e r = .ok v ↔ r = .ok v := by
  unfold catchRecursion
  split <;> simp_all

/-- **C02 for `selfies.decoder`, acceptance** (any `attribute` flag): the API function returns the
    string `out` (with some attribution list) exactly when the body does not exhaust the stack and
    the documented derivation gives a molecule whose rendering is `out`. -/
theorem C02s_api_eq_spec_string (T : Table) (s : Str) (compat attrib : Bool) (out : Str) :
    (∃ maps, decoderApi T s compat attrib = .ok (out, maps)) ↔
      decoderFull T s compat attrib ≠ .error .RecursionError ∧
      ∃ g, Spec.decodeGraph T s compat = .ok g ∧ out = specSmiles g.toMol := by
  unfold decoderApi
  simp only [catchRecursion_ok_iff]
  rcases C02s_outcomes T s compat attrib with ⟨g, maps, hs, hf⟩ | ⟨hs, hf⟩ | hf <;> rw [hf]
  · constructor
    · rintro ⟨maps', h⟩
      injection h with h
      injection h with h1 h2
      exact ⟨(fun h' => by cases h'), g, hs, h1.symm⟩
    · rintro ⟨_, g', hs', rfl⟩
      rw [hs] at hs'
      injection hs' with hs'
      rw [hs']; exact ⟨maps, rfl⟩
  · constructor
    · rintro ⟨_, h⟩; cases h
    · rintro ⟨_, g', hs', _⟩
      rw [hs] at hs'; cases hs'
  · constructor
    · rintro ⟨_, h⟩; cases h
    · rintro ⟨h, _⟩; exact absurd rfl h

/-- **C02 for `selfies.decoder`, rejection**: the API function raises `DecoderError` exactly when
    the documented derivation rejects OR the body exhausts the Python stack (in which case the
    derivation may well accept: the residual finding F2r). -/
theorem C02s_api_reject_iff (T : Table) (s : Str) (compat attrib : Bool) :
    decoderApi T s compat attrib = .error .DecoderError ↔
      (Spec.decodeGraph T s compat = .error .DecoderError ∨
       decoderFull T s compat attrib = .error .RecursionError) := by
  unfold decoderApi
  rcases C02s_outcomes T s compat attrib with ⟨g, maps, hs, hf⟩ | ⟨hs, hf⟩ | hf <;> rw [hf]
  · rw [hs]
    constructor
    · intro h; cases h
    · rintro (h | h) <;> cases h
  · exact ⟨fun _ => Or.inl hs, fun _ => rfl⟩
  · exact ⟨fun _ => Or.inr rfl, fun _ => rfl⟩

/-- … and nothing else ever comes out of the API function -/
theorem C02s_api_outcomes (T : Table) (s : Str) (compat attrib : Bool) :
    (∃ g maps, Spec.decodeGraph T s compat = .ok g ∧
        decoderApi T s compat attrib = .ok (specSmiles g.toMol, maps)) ∨
    decoderApi T s compat attrib = .error .DecoderError := by
  unfold decoderApi
  rcases C02s_outcomes T s compat attrib with ⟨g, maps, hs, hf⟩ | ⟨hs, hf⟩ | hf <;> rw [hf]
  · exact Or.inl ⟨g, maps, hs, rfl⟩
  · exact Or.inr rfl
  · exact Or.inr rfl

/-! ### 5. non-vacuity: documented strings (Spec/DerivationExamples.lean) with their SMILES -/

set_option maxRecDepth 100000 in
/-- derivation.rst, branch example 2; ring example 2 (a double ring bond); marks at both ends of a
    ring bond (tests/test_specific_cases.py): the decoder's string, the rendering of the specified
    molecule, and the stack hypothesis -/
example : ∀ p ∈ [("[C][=Branch1][Ring2][=C][C][C][Cl]", "C(=CCC)Cl"),
                 ("[C][C][=C][C][=C][C][=Ring1][=Branch1]", "C=1C=CC=CC=1"),
                 ("[C][C][C][C][\\/Ring1][Ring2]", "C\\1CCC/1")],
    decoder T0c p.1.toList = .ok p.2.toList ∧
    (Spec.decodeGraph T0c p.1.toList).map (fun g => specSmiles g.toMol) = .ok p.2.toList ∧
    decoder T0c p.1.toList ≠ .error .RecursionError := by
  decide +kernel

set_option maxRecDepth 100000 in
/-- rejection: an invalid symbol that is reached, an unclosed bracket that is not; and a string with
    an invalid symbol that is NOT reached is accepted -/
example : decoder T0c "[C][C][CH5]".toList = .error .DecoderError ∧
    errOf (Spec.decodeGraph T0c "[C][C][CH5]".toList) = some .DecoderError ∧
    decoder T0c "[C][F][C".toList = .error .DecoderError ∧
    errOf (Spec.decodeGraph T0c "[C][F][C".toList) = some .DecoderError ∧
    decoder T0c "[C][F][CH5]".toList = .ok "CF".toList ∧
    (Spec.decodeGraph T0c "[C][F][CH5]".toList).map (fun g => specSmiles g.toMol) = .ok "CF".toList := by
  decide +kernel

set_option maxRecDepth 100000 in
/-- the API function on the same strings (`compatible=True` and `attribute=True` included) -/
example : (decoderApi T0c "[C][=Branch1][Ring2][=C][C][C][Cl]".toList false true).map (·.1)
      = .ok "C(=CCC)Cl".toList ∧
    (decoderApi T0c "[C@@Hexpl][Branch1_2][Branch1_1][Branch1_1][C][C][Cl][F]".toList true false).map (·.1)
      = .ok "[C@@H1](C)(Cl)F".toList ∧
    (Spec.decodeGraph T0c "[C@@Hexpl][Branch1_2][Branch1_1][Branch1_1][C][C][Cl][F]".toList true).map
      (fun g => specSmiles g.toMol) = .ok "[C@@H1](C)(Cl)F".toList ∧
    decoderApi T0c "[C][Branch4][C]".toList false false = .error .DecoderError ∧
    errOf (Spec.decodeGraph T0c "[C][Branch4][C]".toList) = some .DecoderError := by
  decide +kernel

end SV
