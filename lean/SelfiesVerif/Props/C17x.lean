/-
  Property C17, clause 5 made EXACT — "every output atom is attributed to the atom symbol that
  created it together with the branch symbols enclosing it".

  `Props/C17.lean` proves this clause only in a partial form (the stack consists of branch symbols
  at increasing positions; nothing says these are ALL and ONLY the enclosing ones, nor that an atom
  symbol makes one atom).  Here "encloses" gets a definition that does not mention attribution,
  and the clause is proved with "exactly" and "exactly once", for EVERY table `T`, input `s` and
  both values of `compatible`.

  Definitions (Proofs/AttrSpans.lean, Proofs/AttrExactGlobal.lean)
  * `seenSymbols compat s`: the symbols of `s`, fragment by fragment, `[nop]` dropped, modernised when
    `compatible` — what the derivation reads.  Positions count these symbols over all fragments,
    the numbering of `inputSymbols s` (C17.4).
  * `walk` / `walkAll`: the control flow of the documented derivation (`Spec.derive`: classify the
    symbol, state `X_i`, count-down budget) WITHOUT molecule, ring queue or attribution stack.  It
    records a `Span ⟨j, first, last⟩` for every branch symbol met in a state `> 1` (`j` its position,
    `[first, last)` the positions its nested derivation instance consumed: the symbols after its
    index symbols up to the end of the `Q+1` budget, or of the fragment, or — the budget of a
    branch is charged for a nested branch only after that one has returned — of a nested branch
    that runs over), and the position of every atom symbol that makes an atom (met in state `X_0`,
    or in a state `i > 0` with `min(β, i, capacity) > 0`).
  * `branchSpans`, `atomMakers`: these two records for the whole input.
  * `Encloses j k`: some span of the branch symbol at `j` has `first ≤ k < last`.
  * `enclosingList k`: all `j` below the input length with `Encloses j k`, in increasing order.

  Theorems
  * `C17_atom_attribution_exact`   atoms and `atomMakers` correspond one to one in order; atom `i`,
                                   made at `k = atomMakers[i]`, is the atom `process_atom_symbol`
                                   makes of symbol `k` and carries exactly
                                   `(enclosingList k ++ [k])` with the (modernised) tokens at these
                                   positions.  Both directions: every stack entry encloses, every
                                   enclosing branch symbol is on the stack, outermost first.
  * `C17_made_once`                `atomMakers` is strictly increasing: no symbol makes two atoms,
                                   no atom is attributed to two atom symbols; with the length
                                   equality above, every atom-making position makes exactly one atom.
  * `C17_spans_laminar`            two spans are nested or disjoint (and listed in preorder).
  * `C17_encloses_lt`, `C17_enclosingList_eq`   an enclosing branch symbol precedes what it encloses;
                                   `enclosingList` read off the spans.
  * `C17_entry_attribution_exact`  the same for the entries of `decoder(..., attribute=True)`:
                                   the entry made from atom `i` carries that list.
  * `C17_walk_is_spec_derive`, `C17_makers_match_spec`   `walk` is `Spec.derive` with the molecule
                                   erased: same symbols left, one atom per `made` entry.

  Nothing is false of the model here: no guard on `compatible`, on branch symbols met in a state
  `≤ 1` (they open nothing: no span, see the examples) or on fragment boundaries was needed.
-/
import SelfiesVerif.Proofs.AttrExactGlobal
import SelfiesVerif.Proofs.AttrSpansSpec
import SelfiesVerif.Props.C17

namespace SV
open SV.Spec

variable {T : Table} {s : Str} {compat : Bool}

/-! ### the definitions -/

/-- the branches the derivation of `s` opens: position of the branch symbol and the range of
    positions its nested derivation consumed -/
def branchSpans (T : Table) (s : Str) (compat : Bool) : List Span :=
  (walkAll T (seenSymbols compat s) 0).spans

/-- the positions of the atom symbols that make an atom, in order -/
def atomMakers (T : Table) (s : Str) (compat : Bool) : List Nat :=
  (walkAll T (seenSymbols compat s) 0).made

/-- the branch symbol at input position `j` encloses input position `k` -/
def Encloses (T : Table) (s : Str) (compat : Bool) (j k : Nat) : Prop :=
  ∃ sp ∈ branchSpans T s compat, sp.sym = j ∧ sp.first ≤ k ∧ k < sp.last

instance (T : Table) (s : Str) (compat : Bool) (j k : Nat) : Decidable (Encloses T s compat j k) := by
  unfold Encloses; infer_instance

/-- ALL positions whose branch symbol encloses `k`, in increasing order -/
def enclosingList (T : Table) (s : Str) (compat : Bool) (k : Nat) : List Nat :=
  (List.range (inputSymbols s).length).filter fun j => Encloses T s compat j k

/-- the `Attribution` of input position `j` -/
def attributionAt (s : Str) (compat : Bool) (j : Nat) : Attribution :=
  { index := j, token := symOf compat ((inputSymbols s).getD j []) }

/-! ### the spans -/

theorem seenSymbols_total (compat : Bool) (s : Str) :
    ((seenSymbols compat s).map List.length).sum = (inputSymbols s).length := by
  unfold seenSymbols inputSymbols
  generalize splitOnChar '.' s = frags
  induction frags with
  | nil => rfl
  | cons f rest ih =>
    simp only [List.map_cons, List.sum_cons, List.flatMap_cons, List.length_append, seenFragment_length, ih]

theorem walkAll_input (T : Table) (s : Str) (compat : Bool) :
    Within 0 (inputSymbols s).length (walkAll T (seenSymbols compat s) 0) := by
  have := walkAll_within T (seenSymbols compat s) 0
  rwa [seenSymbols_total, Nat.zero_add] at this

/-- Spans are listed in preorder (`Span.Before`: the later one lies in the body of the earlier
    one, or after it), each lies inside the input, and any two are nested or disjoint. -/
theorem C17_spans_laminar (T : Table) (s : Str) (compat : Bool) :
    (branchSpans T s compat).Pairwise Span.Before ∧
    (∀ sp ∈ branchSpans T s compat, sp.sym < sp.first ∧ sp.first ≤ sp.last ∧ sp.last ≤ (inputSymbols s).length) ∧
    ∀ a ∈ branchSpans T s compat, ∀ b ∈ branchSpans T s compat, a = b ∨
      (a.first ≤ b.sym ∧ b.last ≤ a.last) ∨ (b.first ≤ a.sym ∧ a.last ≤ b.last) ∨
      a.last ≤ b.sym ∨ b.last ≤ a.sym := by
  have hw := walkAll_input T s compat
  refine ⟨hw.laminar, fun sp hsp => (hw.spans sp hsp).2, ?_⟩
  have hl : (branchSpans T s compat).Pairwise Span.Before := hw.laminar
  generalize branchSpans T s compat = l at hl
  induction hl with
  | nil => intro a ha; cases ha
  | cons h1 _ ih =>
    intro a ha b hb
    rcases List.mem_cons.mp ha with rfl | ha'
    · rcases List.mem_cons.mp hb with rfl | hb'
      · exact .inl rfl
      · rcases (h1 b hb').2 with h | h
        · exact .inr (.inl h)
        · exact .inr (.inr (.inr (.inl h)))
    · rcases List.mem_cons.mp hb with rfl | hb'
      · rcases (h1 a ha').2 with h | h
        · exact .inr (.inr (.inl h))
        · exact .inr (.inr (.inr (.inr h)))
      · exact ih a ha' b hb'

/-- an enclosing branch symbol stands before what it encloses, inside the input -/
theorem C17_encloses_lt {j k : Nat} (h : Encloses T s compat j k) : j < k ∧ k < (inputSymbols s).length := by
  obtain ⟨sp, hsp, rfl, h1, h2⟩ := h
  have := (walkAll_input T s compat).spans sp hsp
  omega

/-- `enclosingList` read off the list of spans (which is in preorder) -/
theorem C17_enclosingList_eq (T : Table) (s : Str) (compat : Bool) (k : Nat) :
    enclosingList T s compat k = encl (branchSpans T s compat) k := by
  have hw := walkAll_input T s compat
  apply sorted_ext
  · exact List.pairwise_lt_range.filter _
  · exact encl_sorted hw.laminar k
  · intro j
    rw [mem_encl]
    simp only [enclosingList, List.mem_filter, List.mem_range]
    constructor
    · exact fun h => of_decide_eq_true h.2
    · intro h
      obtain ⟨sp, hsp, rfl, h1, h2⟩ := h
      have := hw.spans sp hsp
      exact ⟨by omega, decide_eq_true ⟨sp, hsp, rfl, h1, h2⟩⟩

/-! ### "exactly once" -/

/-- The atom-making positions are strictly increasing, hence pairwise distinct. -/
theorem C17_made_once (T : Table) (s : Str) (compat : Bool) :
    (atomMakers T s compat).Pairwise (· < ·) ∧ (atomMakers T s compat).Nodup ∧
    ∀ k ∈ atomMakers T s compat, k < (inputSymbols s).length := by
  have hw := walkAll_input T s compat
  exact ⟨hw.sorted, hw.sorted.imp (fun h => Nat.ne_of_lt h), fun k hk => (hw.made k hk).2⟩

/-! ### the exact clause -/

theorem map_index_attr (s : Str) (compat : Bool) (l : List Nat) :
    (l.map (attributionAt s compat)).map (·.index) = l := by
  induction l with
  | nil => rfl
  | cons a l ih => simp only [List.map_cons, ih]; rfl

/-- the `atomAttr` column of the decoded graph, entry by entry -/
theorem decodeGraph_atomAttr {g : Mol} (h : decodeGraph T s compat true = .ok g) :
    g.atomAttr = (atomMakers T s compat).map fun k =>
      some ((enclosingList T s compat k ++ [k]).map (attributionAt s compat)) := by
  unfold decodeGraph at h
  bind_at h with ⟨⟨m, rings⟩, h1, h⟩
  obtain ⟨hA, _⟩ := deriveFragments_attr T compat (inputSymbols s) _ [] _ _ _ _ h1 rfl rfl AInv_empty
    ⟨[], rfl, rfl, fun _ hx => by cases hx⟩
  obtain ⟨_, _, g3⟩ := formRings_attr T _ _ _ _ h hA
  have hw := deriveFragments_walk T compat (inputSymbols s) _ [] _ _ _ _ h1 rfl rfl
  simp only at g3 hw
  rw [g3, hw]
  simp only [List.nil_append]
  apply List.map_congr_left
  intro k _
  rw [C17_enclosingList_eq]
  simp only [attrOf, List.nil_append]
  rfl

/--
**C17.5, exact.**  The atoms of the decoded graph and the atom-making positions correspond one to
one, in order.  Atom `i`, made at position `k = atomMakers[i]`, is the atom `process_atom_symbol`
makes of the (modernised) symbol at `k`, and its attribution is EXACTLY: all branch symbols
enclosing `k`, outermost first, then the atom symbol at `k` — each with its position and token.
-/
theorem C17_atom_attribution_exact {g : Mol} (h : decodeGraph T s compat true = .ok g) :
    g.atoms.length = (atomMakers T s compat).length ∧
    ∀ (i k : Nat), (atomMakers T s compat)[i]? = some k →
      k < (inputSymbols s).length ∧
      (∃ bo a, g.atoms[i]? = some a ∧
        processAtomSymbol T (symOf compat ((inputSymbols s).getD k [])) = some (bo, a)) ∧
      g.atomAttr[i]? = some (some ((enclosingList T s compat k ++ [k]).map (attributionAt s compat))) := by
  have hattr := decodeGraph_atomAttr h
  obtain ⟨hA, hG⟩ := decodeGraph_attr h
  have hlen : g.atoms.length = (atomMakers T s compat).length := by
    rw [← hA.len, hattr, List.length_map]
  refine ⟨hlen, ?_⟩
  intro i k hk
  have hi : i < g.atoms.length := by rw [hlen]; exact (List.getElem?_eq_some_iff.mp hk).1
  have hat : g.atomAttr[i]? = some (some ((enclosingList T s compat k ++ [k]).map (attributionAt s compat))) := by
    rw [hattr, List.getElem?_map, hk]; rfl
  refine ⟨(C17_made_once T s compat).2.2 k (List.mem_of_getElem? hk), ?_, hat⟩
  obtain ⟨o, ho, pos, k', _, _, h3, ⟨bo, h4⟩, _⟩ := hG.atom (List.getElem?_eq_getElem hi)
  refine ⟨bo, g.atoms[i], List.getElem?_eq_getElem hi, ?_⟩
  rw [hat] at ho
  simp only [Option.some.injEq] at ho
  rw [← ho] at h3
  simp only [Option.some.injEq] at h3
  have h5 := congrArg (List.map (·.index)) h3
  have e : (fun j => ({ index := j, token := symOf compat ((inputSymbols s).getD j []) } : Attribution))
      = attributionAt s compat := rfl
  rw [e, map_index_attr, map_index_attr] at h5
  have h6 := List.append_inj_right' h5 rfl
  simp only [List.cons.injEq, and_true] at h6
  rw [h6]; exact h4

/-- The same for the output of `decoder(s, attribute=True)`: for every atom `i` of the decoded
    graph the output has an entry whose token is the atom's SMILES and whose attribution is
    exactly the enclosing branch symbols of `k = atomMakers[i]` followed by the atom symbol. -/
theorem C17_entry_attribution_exact {out : Str} {maps : List AttributionMap}
    (h : decoderFull T s compat true = .ok (out, maps)) :
    ∃ g, decodeGraph T s compat true = .ok g ∧ g.atoms.length = (atomMakers T s compat).length ∧
      ∀ (i k : Nat), (atomMakers T s compat)[i]? = some k → ∃ a, g.atoms[i]? = some a ∧
        ∃ m ∈ maps, atomToSmiles a = .ok m.token ∧
          m.attribution = some ((enclosingList T s compat k ++ [k]).map (attributionAt s compat)) := by
  obtain ⟨g, hg, hent⟩ := C17_every_atom_has_entry h
  obtain ⟨hlen, hex⟩ := C17_atom_attribution_exact hg
  refine ⟨g, hg, hlen, ?_⟩
  intro i k hk
  obtain ⟨_, ⟨_, a, ha, _⟩, hat⟩ := hex i k hk
  obtain ⟨m, hm, h1, h2⟩ := hent i a ha
  exact ⟨a, ha, m, hm, h1, by rw [h2, hat]; rfl⟩

/-! ### `walk` against the documented derivation -/

theorem fragSymbols_eq_spec (f : Str) : fragSymbols f = (symbolsOf false f).1 := by
  unfold fragSymbols tokenizeFragment symbolsOf
  simp only [Bool.false_eq_true, if_false]
  rw [List.map_snd_zip]
  simp

/-- what `walk` reads is what the specification `Spec.decodeGraph` reads -/
theorem seenSymbols_eq_spec (compat : Bool) (s : Str) :
    seenSymbols compat s = ((splitOnChar '.' s).map (symbolsOf compat)).map (·.1) := by
  unfold seenSymbols
  rw [List.map_map]
  apply List.map_congr_left
  intro f _
  simp only [Function.comp, seenFragment, fragSymbols_eq_spec]
  cases compat with
  | false =>
    have e : symOf false = id := funext fun _ => rfl
    rw [e, List.map_id]
  | true =>
    simp only [symbolsOf, if_true, Bool.false_eq_true, if_false]
    apply List.map_congr_left
    intro x _
    rfl

/-- One call: `walk` is `Spec.derive` with the molecule erased — a successful `Spec.derive` (with a
    current atom whenever the state is `> 0`) leaves the symbols `walk` leaves and adds one atom per
    entry of `walk`'s `made`. -/
theorem C17_walk_is_spec_derive (T : Table) (fuel : Nat) (b : Option Nat) (i : Nat) (prev : Option Nat)
    (syms : List Str) (ds : DS) (pos : Nat) (res : List Str × DS)
    (hprev : 0 < i → ∃ p, prev = some p) (h : derive T fuel b i prev syms ds = .ok res) :
    (walk T fuel b i pos syms).left = res.1 ∧
    res.2.mol.atoms.length = ds.mol.atoms.length + (walk T fuel b i pos syms).made.length :=
  walk_derive T fuel b i prev syms ds pos res hprev h

/-- The whole input: the documented derivation (`Spec.deriveAll`, on the symbols `Spec.decodeGraph`
    reads) makes exactly as many atoms as there are atom-making positions. -/
theorem C17_makers_match_spec {ds : DS}
    (h : deriveAll T (((splitOnChar '.' s).map (symbolsOf compat)).map (·.1)) {} = .ok ds) :
    ds.mol.atoms.length = (atomMakers T s compat).length := by
  rw [← seenSymbols_eq_spec] at h
  have := walkAll_deriveAll T _ _ _ 0 h
  simpa [atomMakers] using this

example : ∃ ds, deriveAll T0 (((splitOnChar '.' "[C][C].[C][Branch1][C][O][N]".toList).map
      (symbolsOf false)).map (·.1)) {} = .ok ds ∧ ds.mol.atoms.length = 5 :=
  ok_of_map (f := fun ds : DS => ds.mol.atoms.length) (by decide +kernel)

/-! ### non-vacuity -/

/-- nested branches: `[O]` (6) is enclosed by the branch symbols 1 and 4, `[C]` (3) by 1 only;
    5 atoms are made, at positions 0, 3, 6, 7, 8 -/
example :
    branchSpans T0 "[C][Branch1][Ring2][C][Branch1][C][O][N][F]".toList false = [⟨1, 3, 7⟩, ⟨4, 6, 7⟩] ∧
    atomMakers T0 "[C][Branch1][Ring2][C][Branch1][C][O][N][F]".toList false = [0, 3, 6, 7, 8] ∧
    enclosingList T0 "[C][Branch1][Ring2][C][Branch1][C][O][N][F]".toList false 6 = [1, 4] ∧
    enclosingList T0 "[C][Branch1][Ring2][C][Branch1][C][O][N][F]".toList false 3 = [1] ∧
    enclosingList T0 "[C][Branch1][Ring2][C][Branch1][C][O][N][F]".toList false 7 = [] := by
  decide +kernel

/-- ... and the decoder succeeds on it with these stacks (the hypothesis of the theorem holds) -/
example : ∃ g, decodeGraph T0 "[C][Branch1][Ring2][C][Branch1][C][O][N][F]".toList false true = .ok g ∧
    g.atomAttr.map (fun o => (o.getD []).map fun a => a.index) = [[0], [1, 3], [1, 4, 6], [7], [8]] :=
  ok_of_map (f := fun g : Mol => g.atomAttr.map (fun o => (o.getD []).map fun a => a.index))
    (by decide +kernel)

/-- a branch in the second fragment: positions run on over the fragments -/
example :
    branchSpans T0 "[C][C].[C][Branch1][C][O][N]".toList false = [⟨3, 5, 6⟩] ∧
    atomMakers T0 "[C][C].[C][Branch1][C][O][N]".toList false = [0, 1, 2, 5, 6] ∧
    enclosingList T0 "[C][C].[C][Branch1][C][O][N]".toList false 5 = [3] := by
  decide +kernel

example : ∃ g, decodeGraph T0 "[C][C].[C][Branch1][C][O][N]".toList false true = .ok g ∧
    g.atomAttr.map (fun o => (o.getD []).map fun a => a.index) = [[0], [1], [2], [3, 5], [6]] :=
  ok_of_map (f := fun g : Mol => g.atomAttr.map (fun o => (o.getD []).map fun a => a.index))
    (by decide +kernel)

/-- a branch symbol met in state 1 (after `[F]`) opens NOTHING and reads no index symbol: no span,
    nothing is enclosed, and `[C]` at position 2 (its would-be index symbol) makes an atom -/
example :
    branchSpans T0 "[F][Branch1][C][C][C]".toList false = [] ∧
    atomMakers T0 "[F][Branch1][C][C][C]".toList false = [0, 2, 3, 4] ∧
    enclosingList T0 "[F][Branch1][C][C][C]".toList false 2 = [] ∧
    ¬ Encloses T0 "[F][Branch1][C][C][C]".toList false 1 3 := by
  decide +kernel

example : ∃ g, decodeGraph T0 "[F][Branch1][C][C][C]".toList false true = .ok g ∧
    g.atomAttr.map (fun o => (o.getD []).map fun a => a.index) = [[0], [2], [3], [4]] :=
  ok_of_map (f := fun g : Mol => g.atomAttr.map (fun o => (o.getD []).map fun a => a.index))
    (by decide +kernel)

/-- a nested branch runs over the budget of the enclosing one (`Q + 1 = 2` symbols for the branch
    at 1, but its span takes 5: the nested branch at 4 is charged only after it has returned) -/
example :
    branchSpans T0 "[C][Branch1][Ring1][C][Branch1][Ring1][C][C][C]".toList false = [⟨1, 3, 8⟩, ⟨4, 6, 8⟩] ∧
    atomMakers T0 "[C][Branch1][Ring1][C][Branch1][Ring1][C][C][C]".toList false = [0, 3, 6, 7, 8] ∧
    enclosingList T0 "[C][Branch1][Ring1][C][Branch1][Ring1][C][C][C]".toList false 7 = [1, 4] := by
  decide +kernel

example : ∃ g, decodeGraph T0 "[C][Branch1][Ring1][C][Branch1][Ring1][C][C][C]".toList false true = .ok g ∧
    g.atomAttr.map (fun o => (o.getD []).map fun a => a.index) = [[0], [1, 3], [1, 4, 6], [1, 4, 7], [8]] :=
  ok_of_map (f := fun g : Mol => g.atomAttr.map (fun o => (o.getD []).map fun a => a.index))
    (by decide +kernel)

/-- `compatible=True`: the walk reads the modernised symbols (`[Branch1_2]` is `[=Branch1]`) -/
example :
    branchSpans T0 "[C][Branch1_2][C][O][F]".toList true = [⟨1, 3, 4⟩] ∧
    atomMakers T0 "[C][Branch1_2][C][O][F]".toList true = [0, 3, 4] ∧
    enclosingList T0 "[C][Branch1_2][C][O][F]".toList true 3 = [1] ∧
    attributionAt "[C][Branch1_2][C][O][F]".toList true 1 = ⟨1, "[=Branch1]".toList⟩ := by
  decide +kernel

/-- a fragment that ends right after the branch symbol: the branch is opened (state 3) but its
    span is empty, it encloses nothing; `[C]` of the next fragment is position 3 -/
example :
    branchSpans T0 "[C][C][Branch1].[C]".toList false = [⟨2, 3, 3⟩] ∧
    atomMakers T0 "[C][C][Branch1].[C]".toList false = [0, 1, 3] ∧
    enclosingList T0 "[C][C][Branch1].[C]".toList false 3 = [] := by
  decide +kernel

/-- the nested instance ends at `[F]` (3) and skips the rest of its budget, `[C]` (4): position 4
    is enclosed by the branch symbol 1 but makes no atom; `[N]` (5) is outside -/
example :
    branchSpans T0 "[C][Branch1][Ring1][F][C][N]".toList false = [⟨1, 3, 5⟩] ∧
    atomMakers T0 "[C][Branch1][Ring1][F][C][N]".toList false = [0, 3, 5] ∧
    Encloses T0 "[C][Branch1][Ring1][F][C][N]".toList false 1 4 := by
  decide +kernel

example : ∃ g, decodeGraph T0 "[C][Branch1][Ring1][F][C][N]".toList false true = .ok g ∧
    g.atomAttr.map (fun o => (o.getD []).map fun a => a.index) = [[0], [1, 3], [5]] :=
  ok_of_map (f := fun g : Mol => g.atomAttr.map (fun o => (o.getD []).map fun a => a.index))
    (by decide +kernel)

/-- an atom symbol that makes no atom (`[CH4]`, capacity 0, met in a state `> 0`) is not an
    atom maker, and ends the instance -/
example : atomMakers T0 "[C][CH4][C]".toList false = [0] := by decide +kernel

end SV
