/-
  Token-level specification of the SMILES writer, independent of the writer's loop/stack.

  * `Tok`            the five kinds of SMILES tokens the writer can emit
  * `specPre`        pre-order traversal of the chain-bond forest below a root, purely structural
                     (recursion on a fuel, no stack); ring closures are not numbered yet (`PTok.ring`)
  * `labelToks`      the running ring-label assignment: the first occurrence of an unordered pair
                     gets `log.length + 1`, the second occurrence reuses the number
  * `specFrags`      one token list per root, the ring log threaded through the roots
  * `renderToks`         concatenation of the token texts
  * checkers         `parenPrefixOK`, `parenBalanced`, `adjOK`, `labelOwners`: what "syntactically
                     well formed" means on a token list, stated without reference to the writer

  No Mathlib (linked into the driver).
-/
import SelfiesVerif.Model.Mol

namespace SV

inductive Tok
  | atom (idx : Nat) (text : Str)
  | bond (text : Str)
  | open_
  | close
  | label (n : Nat)
  deriving DecidableEq, Repr, Inhabited

/-- pre-token: like `Tok`, but a ring closure still names its directed bond `src → dst` -/
inductive PTok
  | atom (idx : Nat) (text : Str)
  | bond (text : Str)
  | open_
  | close
  | ring (src dst : Nat)
  deriving DecidableEq, Repr, Inhabited

abbrev RingLog := List ((Nat × Nat) × Nat)

/-- text of an atom token (`atom_to_smiles`; the assertion failure cannot happen on decoded graphs) -/
def atomText (a : Atom) : Str :=
  match atomToSmiles a with
  | .ok s => s
  | .error _ => []

/-- text of a bond token (`bond_to_smiles`) -/
def bondText (b : DirBond) : Str :=
  match bondToSmiles b.order b.stereo with
  | .ok s => s
  | .error _ => []

/-- `adj[i]` (empty out of range) -/
def Mol.row (g : Mol) (i : Nat) : List DirBond := (g.adj[i]?).getD []

def Mol.atomTextAt (g : Mol) (i : Nat) : Str :=
  match g.atoms[i]? with
  | some a => atomText a
  | none => []

/-- tokens of the out-bonds of one atom, in `adj` order; `sub c` = tokens of the subtree at `c`:
    ring bond → bond token + ring closure; chain bond that is not the last out-bond →
    `(` bond subtree `)`; last out-bond, chain → bond subtree -/
def bondsPre (sub : Nat → List PTok) : List DirBond → List PTok
  | [] => []
  | b :: rest =>
    if b.ring then .bond (bondText b) :: .ring b.src b.dst :: bondsPre sub rest
    else if rest.isEmpty then .bond (bondText b) :: sub b.dst
    else .open_ :: .bond (bondText b) :: (sub b.dst ++ .close :: bondsPre sub rest)

/-- pre-order traversal of the subtree at atom `i` (fuel = remaining depth) -/
def atomPre (g : Mol) : Nat → Nat → List PTok
  | 0, _ => []
  | f + 1, i => .atom i (g.atomTextAt i) :: bondsPre (atomPre g f) (g.row i)

/-- the pre-tokens of the fragment rooted at `root`; chain bonds go from a smaller to a larger
    index, so the depth is below the number of atoms -/
def specPre (g : Mol) (root : Nat) : List PTok := atomPre g g.atoms.length root

/-! ### ring labels -/

/-- `ring_log.setdefault(ends, len(ring_log) + 1)` -/
def ringStep (log : RingLog) (a b : Nat) : Nat × RingLog :=
  let ends := (min a b, max a b)
  match lookup ends log with
  | some r => (r, log)
  | none => (log.length + 1, log ++ [(ends, log.length + 1)])

def logAfter : RingLog → List PTok → RingLog
  | log, [] => log
  | log, .ring a b :: rest => logAfter (ringStep log a b).2 rest
  | log, _ :: rest => logAfter log rest

def labelToks : RingLog → List PTok → List Tok
  | _, [] => []
  | log, .ring a b :: rest => .label (ringStep log a b).1 :: labelToks (ringStep log a b).2 rest
  | log, .atom i t :: rest => .atom i t :: labelToks log rest
  | log, .bond t :: rest => .bond t :: labelToks log rest
  | log, .open_ :: rest => .open_ :: labelToks log rest
  | log, .close :: rest => .close :: labelToks log rest

/-- the directed ring bonds in the order they are written, each with the label it gets -/
def ringOcc : RingLog → List PTok → List ((Nat × Nat) × Nat)
  | _, [] => []
  | log, .ring a b :: rest => ((a, b), (ringStep log a b).1) :: ringOcc (ringStep log a b).2 rest
  | log, _ :: rest => ringOcc log rest

/-- token lists of the fragments, the ring log shared between them (`mol_to_smiles`) -/
def specFragsFrom (g : Mol) : RingLog → List Nat → List (List Tok)
  | _, [] => []
  | log, r :: rest => labelToks log (specPre g r) :: specFragsFrom g (logAfter log (specPre g r)) rest

def specFrags (g : Mol) : List (List Tok) := specFragsFrom g [] g.roots

/-- all pre-tokens of the molecule, fragment after fragment -/
def specPreAll (g : Mol) : List PTok := (g.roots.map (specPre g)).flatten

/-- the ring log after the whole molecule has been written -/
def specLog (g : Mol) : RingLog := logAfter [] (specPreAll g)

/-! ### rendering -/

/-- one digit, or `%` followed by the decimal number -/
def labelText (n : Nat) : Str := if n ≥ 10 then '%' :: natToStr n else natToStr n

def Tok.text : Tok → Str
  | .atom _ s => s
  | .bond s => s
  | .open_ => ['(']
  | .close => [')']
  | .label n => labelText n

def renderToks (ts : List Tok) : Str := (ts.map Tok.text).flatten

/-- the SMILES string according to the specification -/
def specSmiles (g : Mol) : Str := joinWith ['.'] ((specFrags g).map renderToks)

/-! ### what "well formed" means on a token list -/

def Tok.isOpen : Tok → Bool | .open_ => true | _ => false
def Tok.isClose : Tok → Bool | .close => true | _ => false
def Tok.isBond : Tok → Bool | .bond _ => true | _ => false
def Tok.isAtom : Tok → Bool | .atom _ _ => true | _ => false

def opens (ts : List Tok) : Nat := ts.countP Tok.isOpen
def closes (ts : List Tok) : Nat := ts.countP Tok.isClose

/-- balanced parentheses: no prefix closes more than it opened, and the totals agree -/
def ParenBalanced (ts : List Tok) : Prop :=
  (∀ k, closes (ts.take k) ≤ opens (ts.take k)) ∧ opens ts = closes ts

/-- running depth, `none` as soon as a `)` has no partner -/
def parenDepth : Nat → List Tok → Option Nat
  | d, [] => some d
  | d, .open_ :: rest => parenDepth (d + 1) rest
  | 0, .close :: _ => none
  | d + 1, .close :: rest => parenDepth d rest
  | d, _ :: rest => parenDepth d rest

/-- local shape: `(` is followed by a bond token and an atom token (a branch is never empty);
    `)` is followed by a bond token or `(` (a branch is never the last thing at its atom);
    a label is preceded by a bond token (checked from the bond side: see `labelsAfterBond`) -/
def adjOK : List Tok → Bool
  | [] => true
  | .open_ :: rest =>
    (match rest with
     | .bond _ :: .atom _ _ :: _ => true
     | _ => false) && adjOK rest
  | .close :: rest =>
    (match rest with
     | .bond _ :: _ => true
     | .open_ :: _ => true
     | _ => false) && adjOK rest
  | _ :: rest => adjOK rest

/-- the atom a ring label belongs to, by the SMILES reading of a token list: the most recent atom
    at the current nesting level (`(` remembers the atom, `)` returns to it) -/
def labelOwners : Option Nat → List (Option Nat) → List Tok → List (Nat × Option Nat)
  | _, _, [] => []
  | _, st, .atom i _ :: rest => labelOwners (some i) st rest
  | cur, st, .open_ :: rest => labelOwners cur (cur :: st) rest
  | cur, st, .close :: rest =>
    (match st with
     | [] => labelOwners cur [] rest
     | p :: st' => labelOwners p st' rest)
  | cur, st, .label n :: rest => (n, cur) :: labelOwners cur st rest
  | cur, st, .bond _ :: rest => labelOwners cur st rest

/-- the atom tokens' indices in order -/
def atomIdxs : List Tok → List Nat
  | [] => []
  | .atom i _ :: rest => i :: atomIdxs rest
  | _ :: rest => atomIdxs rest

/-- the label numbers in order -/
def labelNums : List Tok → List Nat
  | [] => []
  | .label n :: rest => n :: labelNums rest
  | _ :: rest => labelNums rest

end SV
