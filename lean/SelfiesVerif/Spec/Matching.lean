/-
  Specification notions for property C05 (matching on the pruned delocalisation subgraph).
  No Mathlib.  Everything here is stated on the model's own types `Graph = List (List Nat)` and
  `Matching = List (Option Nat)`.
-/
import SelfiesVerif.Model.Kekulize

namespace SV

/-- `j` is listed in the adjacency list of `i` -/
def Adj (g : Graph) (i j : Nat) : Prop := ∃ l, g[i]? = some l ∧ j ∈ l

/-- a simple undirected graph given by adjacency lists: entries in range, no self-loops,
    symmetric, no duplicate entries -/
structure GraphOK (g : Graph) : Prop where
  inRange : ∀ (i j : Nat), Adj g i j → j < g.length
  noLoop : ∀ (i : Nat), ¬ Adj g i i
  symm : ∀ (i j : Nat), Adj g i j → Adj g j i
  nodup : ∀ (i : Nat) (l : List Nat), g[i]? = some l → l.Nodup

/-- a (partial) matching: `m[i] = some j` means `i` and `j` are matched.
    Symmetric and along edges of `g`; injectivity follows from symmetry. -/
structure ValidPartial (g : Graph) (m : Matching) : Prop where
  length_eq : m.length = g.length
  matched : ∀ (i j : Nat), m[i]? = some (some j) → j < g.length ∧ Adj g i j ∧ m[j]? = some (some i)

/-- a perfect matching: a valid matching that leaves no vertex unmatched -/
structure PerfectMatching (g : Graph) (m : Matching) : Prop where
  valid : ValidPartial g m
  total : ∀ (i : Nat), m[i]? ≠ some none

/-! ### decidable checkers (evaluated by the harness on the real code's output) -/

def isGraphOK (g : Graph) : Bool :=
  (List.range g.length).all fun i =>
    let l := g.getD i []
    decide l.Nodup && l.all fun j =>
      decide (j < g.length) && j != i && (g.getD j []).contains i

def isValidPartial (g : Graph) (m : Matching) : Bool :=
  m.length == g.length &&
  (List.range m.length).all fun i =>
    match m[i]? with
    | some (some j) => decide (j < g.length) && (g.getD i []).contains j && m[j]? == some (some i)
    | _ => true

def isPerfectMatching (g : Graph) (m : Matching) : Bool :=
  isValidPartial g m && m.all Option.isSome

/-! ### augmenting paths, in the order in which `_find_augmenting_path` lists them

  `path = [v0, v1, v2, …, v_{2k+1}]` with `v0 = other_end`, `v_{2k+1} = root`:
  * `v0` and `v_{2k+1}` are unmatched;
  * `v_{2i}` is listed in `graph[v_{2i+1}]`  (the edges `_flip_augmenting_path` turns into matching
    edges: it pairs `(path[0], path[1]), (path[2], path[3]), …`);
  * `matching[v_{2i+1}] = v_{2i+2}`           (the old matching edges, which disappear). -/

/-- the part of the path after the vertex `b = v_{2i+1}` -/
def AltTail (g : Graph) (m : Matching) : Nat → List Nat → Prop
  | b, [] => m[b]? = some none
  | _, [_] => False
  | b, c :: d :: rest => m[b]? = some (some c) ∧ Adj g d c ∧ AltTail g m d rest

/-- an alternating path between two unmatched vertices, as `_find_augmenting_path` returns it -/
def AugPath (g : Graph) (m : Matching) : List Nat → Prop
  | a :: b :: rest => m[a]? = some none ∧ Adj g b a ∧ AltTail g m b rest
  | _ => False

/-- the pairs `(path[0], path[1]), (path[2], path[3]), …` are matched to each other in `m'` -/
def PairedAlong (m' : Matching) : List Nat → Prop
  | a :: b :: rest => m'[a]? = some (some b) ∧ m'[b]? = some (some a) ∧ PairedAlong m' rest
  | [_] => False
  | [] => True

/-- a proper 2-colouring -/
def Bipartite (g : Graph) : Prop := ∃ c : Nat → Bool, ∀ i j, Adj g i j → c i ≠ c j

/-! ### the run of `find_perfect_matching` in which every augmenting path is checked to be simple -/

/-- `augmentLoop` with an additional `assert len(set(path)) == len(path)` after the BFS -/
def augmentLoopSimple (graph : Graph) : Nat → List Nat → List Nat → Matching → Py (Option Matching)
  | 0, unmatched, _, m => if unmatched.isEmpty then .ok (some m) else .error .NonTermination
  | fuel + 1, unmatched, tape, m =>
    if unmatched.isEmpty then .ok (some m)
    else
      match tape with
      | [] => .error .KeyError
      | root :: tape =>
        if !unmatched.contains root then .error .KeyError
        else do
          let unmatched := unmatched.filter (· != root)
          match ← findAugmentingPath graph root m with
          | none => pure none
          | some path => do
            pyAssert (decide path.Nodup)
            let m ← flipPath path m
            let unmatched := unmatched.filter fun x => !(some x == path.head? || some x == path.getLast?)
            augmentLoopSimple graph fuel unmatched tape m

/-- `find_perfect_matching` with the simplicity assertion: fails with `AssertionError` exactly on
    the runs in which the blossom-free BFS produced a path with a repeated vertex -/
def findPerfectMatchingSimple (graph : Graph) (tape : List Nat) : Py (Option Matching) := do
  let m ← greedyMatching graph
  let unmatched := (List.range graph.length).filter fun i => (m.getD i none).isNone
  augmentLoopSimple graph (graph.length + 1) unmatched tape m

end SV
