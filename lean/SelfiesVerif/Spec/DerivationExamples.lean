/-
  Driver-independent sanity check of `Spec.Derivation`: the specified molecule, written out with
  the model's SMILES writer, is the SMILES that derivation.rst (v1 symbols renamed to v2) and
  tests/test_specific_cases.py give.  Every rule is exercised at least once.
-/
import SelfiesVerif.Spec.Derivation

namespace SV.Spec.Examples
open SV SV.Spec

def T0 : Table := { entries := Gen.preset_default, dflt := 8 }

/-- the documented molecule as SMILES -/
def smiles (s : String) : Py String :=
  match decodeGraph T0 s.toList with
  | .error e => .error e
  | .ok g =>
    match molToSmiles g.toMol with
    | .error e => .error e
    | .ok r => .ok (String.ofList r.1)

set_option maxRecDepth 100000

/-! #### derivation.rst, atomic symbols -/
example : smiles "[F][=C][=C][#N]" = .ok "FC=C=N" := by decide +kernel
example : smiles "[C][=C][C][#C][13C]" = .ok "C=CC#C[13C]" := by decide +kernel
example : smiles "[C][F][C][C][C][C]" = .ok "CF" := by decide +kernel          -- symbols after termination ignored
example : smiles "[C][O][=C][#O][C][F]" = .ok "COC=O" := by decide +kernel      -- bond order reduced minimally

/-! #### derivation.rst, index symbols -/
example : indexValue 3 ["[C]".toList, "[Branch1]".toList, "[O]".toList] = 57 := by decide +kernel
example : indexValue 2 ["[O]".toList] = 144 := by decide +kernel               -- missing symbol = 0
example : indexValue 1 ["[foo]".toList] = 0 := by decide +kernel               -- unknown symbol = 0

/-! #### derivation.rst, branch symbols (examples 1, 2, 3, 5) -/
example : smiles "[C][Branch1][C][F][Cl]" = .ok "C(F)Cl" := by decide +kernel
example : smiles "[C][=Branch1][Ring2][=C][C][C][Cl]" = .ok "C(=CCC)Cl" := by decide +kernel
example : smiles "[S][=Branch1][C][=O][=Branch1][C][=O][Branch1][C][O-1][O-1]"
    = .ok "S(=O)(=O)([O-1])[O-1]" := by decide +kernel
example : smiles "[C][=Branch1][Branch1][Branch1][C][C][Cl][F]" = .ok "C(C)(Cl)F" := by decide +kernel

/-! #### derivation.rst, ring symbols (examples 1, 2, 3, 5, 6) -/
example : smiles "[C][=C][C][=C][C][=C][Ring1][=Branch1]" = .ok "C1=CC=CC=C1" := by decide +kernel
example : smiles "[C][C][=C][C][=C][C][=Ring1][=Branch1]" = .ok "C=1C=CC=CC=1" := by decide +kernel
example : smiles "[C][C][=Ring1][C]" = .ok "C#C" := by decide +kernel          -- ring on an existing bond
example : smiles "[C][C][C][C][Branch1][C][C][Ring1][Ring2][C][C]" = .ok "C1CCC1(C)CC" := by decide +kernel
example : smiles "[C][C][C][C][=Ring1][Ring2][#Ring1][Ring2]" = .ok "C#1CCC#1" := by decide +kernel

/-! #### special symbols -/
example : smiles "[epsilon][C][epsilon][C]" = .ok "C" := by decide +kernel    -- X_0 → X_0, X_i → ε
example : smiles "[C][nop][O][nop]" = .ok "CO" := by decide +kernel
example : smiles "[C][O].[N][=O]" = .ok "CO.N=O" := by decide +kernel
example : smiles "[C].[C][C][Ring1][P]" = .ok "C1.CC1" := by decide +kernel    -- atom numbers and ring queue shared

/-! #### tests/test_specific_cases.py (v2 behaviour) -/
example : smiles "[Branch1][Ring1][Ring3][C][S][C][O]" = .ok "CSCO" := by decide +kernel   -- X_0: skipped
example : smiles "[C][C][O][Branch1][C][I]" = .ok "CCOCI" := by decide +kernel             -- X_1: skipped, no index read
example : smiles "[C][C][C][Ring1][Ring1][#C]" = .ok "C1CC1=C" := by decide +kernel        -- ring spends state
example : smiles "[C][O][C][C][=Ring1][Ring1][#C]" = .ok "COCCC" := by decide +kernel      -- ... down to termination
example : smiles "[C][=C][Branch1][C][=C][#C]" = .ok "C=C(C)C" := by decide +kernel
example : smiles "[C][C][C][C][#Branch3][O][O]" = .ok "CCCC" := by decide +kernel          -- string ends in the index
example : smiles "[C][Branch2][O][O][C][C][S][F][C]" = .ok "CCCSF" := by decide +kernel    -- oversized branch
example : smiles "[C][C][C][C][Ring2][O]" = .ok "C1CCC1" := by decide +kernel              -- oversized ring
example : smiles "[C][Ring1][O]" = .ok "C" := by decide +kernel                            -- ring onto itself
example : smiles "[C][Branch1][Ring1][C][Branch1][Ring1][C][C][C]" = .ok "C(CCC)C" := by decide +kernel  -- nested budget
example : smiles "[C][C][C][C][C][S][#Branch1][#Branch1][Ring1][Branch1][Branch1][C][Br][Cl][F]"
    = .ok "CC1CCCS1(Br)(Cl)F" := by decide +kernel
example : smiles "[C][C][C][C][C][C][C][Branch1][Ring2][O][C][O][Branch1][C][F][Ring1][Branch1]"
    = .ok "CCC1CCCC1(OCO)F" := by decide +kernel
example : smiles "[C][C][C][C][#Ring1][Ring2][=Ring1][Ring2]" = .ok "C#1CCC#1" := by decide +kernel
example : smiles "[C][C][C][C][\\/Ring1][Ring2]" = .ok "C\\1CCC/1" := by decide +kernel     -- marks at both ends
example : smiles "[C][/C][Ring1][C]" = .ok "C=C" := by decide +kernel
example : smiles "[CH4][C][C]" = .ok "[CH4]" := by decide +kernel                          -- capacity 0 in X_0
example : smiles "[C][Branch1][Ring2][C][=CH4][C][=C]" = .ok "C(C)=C" := by decide +kernel -- capacity 0 in X_i
example : smiles "[C@@][Branch1][C][Cl][Branch1][C][F][Branch1][C][Br][Branch1][C][I]"
    = .ok "[C@@](Cl)(F)(Br)CI" := by decide +kernel

/-! #### rejection -/
example : smiles "[C][C][CH5]" = .error .DecoderError := by decide +kernel
example : smiles "[C][F][CH5]" = .ok "CF" := by decide +kernel             -- not reached: not validated
example : smiles "[C][F][C" = .error .DecoderError := by decide +kernel    -- unclosed bracket, even if not reached
example : smiles "[C][Branch4][C]" = .error .DecoderError := by decide +kernel
example : reachesInvalid T0 "[C][F][C".toList = false ∧ hasUnclosed "[C][F][C".toList = true := by decide +kernel

/-! #### `compatible=True` -/
example : (decodeGraph T0 "[C@@Hexpl][Branch1_2][Branch1_1][Branch1_1][C][C][Cl][F]".toList true)
    = decodeGraph T0 "[C@@H1][=Branch1][Branch1][Branch1][C][C][Cl][F]".toList := by decide +kernel

end SV.Spec.Examples
