/-
  Specification notions for property C03 (SMILES → SELFIES → SMILES preserves the molecule).

  * `SameMolecule g m` / `sameMolecule g m`: the parsed graph `g : PMol` (what `smiles_to_mol` +
    `kekulize` hand to the encoder) and the decoded graph `m : Mol` (what the decoder builds before
    writing) are the same molecule, atom for atom and bond for bond.
  * the inductive VIEW of a parsed graph (`Tree`, `Items`): a forest with one tree per fragment,
    atoms numbered in pre-order, every atom carrying the list of its bonds in the order the SMILES
    string wrote them (ring-closure digits and branches interleaved as written; the last `child`
    item is the continuation of the main chain).  `graphOf` turns a forest back into the `PMol` the
    parser would have built, `forestOf` reconstructs the forest from a `PMol` (executable), and
    `isParsedWF` checks that a `PMol` is `graphOf` of a well-formed forest.
  * `Tree.encode`: the symbol list `_fragment_to_selfies` is specified to emit for a tree.

  No Mathlib; everything here is executable (the harness evaluates `isParsedWF`, `roundTripReady`
  and `sameMolecule` on every graph the real parser / decoder produce).
-/
import SelfiesVerif.Model.Encoder
import SelfiesVerif.Model.Decoder

namespace SV

deriving instance DecidableEq for PMol
deriving instance DecidableEq for Mol

/-! ### same molecule -/

/-- every stored bond record of the parsed graph as `(min, max, order in half units)`; a ring bond
    is stored at both of its atoms and therefore appears twice, a chain bond once -/
def PMol.records (g : PMol) : List (Nat × Nat × Nat) :=
  g.adj.flatMap fun row => row.filterMap fun ob =>
    ob.map fun b => (min b.src b.dst, max b.src b.dst, b.order2)

/-- the same for the decoded graph (integer orders, doubled) -/
def Mol.records (m : Mol) : List (Nat × Nat × Nat) :=
  m.adj.flatMap fun row => row.map fun b => (min b.src b.dst, max b.src b.dst, 2 * b.order)

/-- atom `b` of the decoded graph is atom `a` of the input: same element, isotope, formal charge,
    hydrogen count, not aromatic.  (The `@`/`@@` tag is not compared here: the encoder flips it
    when the decoder's neighbour order is an odd permutation of the written one, property C04.) -/
def AtomAgrees (a b : Atom) : Prop :=
  b.element = a.element ∧ b.isotope = a.isotope ∧ b.charge = a.charge ∧ b.hCount = a.hCount
    ∧ b.isAromatic = false

instance (a b : Atom) : Decidable (AtomAgrees a b) := by unfold AtomAgrees; infer_instance

/-- **Same molecule.**  Same number of atoms, the `i`-th atoms agree, and the bond records
    (unordered atom pair + order) agree as multisets: no bond dropped, added, merged, re-ordered
    between other atoms or changed in order. -/
def SameMolecule (g : PMol) (m : Mol) : Prop :=
  m.atoms.length = g.atoms.length
  ∧ (∀ (i : Nat) (a b : Atom), g.atoms[i]? = some a → m.atoms[i]? = some b → AtomAgrees a b)
  ∧ g.records.Perm m.records

/-- executable version -/
def sameMolecule (g : PMol) (m : Mol) : Bool :=
  m.atoms.length == g.atoms.length
  && (g.atoms.zip m.atoms).all (fun ab => decide (AtomAgrees ab.1 ab.2))
  && g.records.isPerm m.records

/-! ### the tree view of a parsed graph -/

mutual
/-- an atom with its index and the list of its bonds as written -/
inductive Tree
  | node (idx : Nat) (a : Atom) (items : Items)
/-- the out-bonds of an atom in written order -/
inductive Items
  | nil
  /-- a ring-closure digit at this atom: the partner atom, the bond order (half units), the stereo
      mark stored at this end and the one stored at the partner's end.  It OPENS the ring when
      `partner > idx` and CLOSES it when `partner < idx`. -/
  | ring (partner order2 : Nat) (sHere sThere : Option Char) (rest : Items)
  /-- a chain bond to a subtree (a parenthesised branch, or — the last `child` — the continuation
      of the chain) -/
  | child (order2 : Nat) (stereo : Option Char) (t : Tree) (rest : Items)
end

deriving instance Repr for Tree
deriving instance Repr for Items
deriving instance DecidableEq for Tree, Items

def Tree.idx : Tree → Nat
  | .node i _ _ => i

def Tree.atom : Tree → Atom
  | .node _ a _ => a

def Tree.items : Tree → Items
  | .node _ _ its => its

def ringBond (i p o2 : Nat) (s : Option Char) : PBond :=
  { src := i, dst := p, order2 := o2, stereo := s, ring := true }

def chainBond (i j o2 : Nat) (s : Option Char) : PBond :=
  { src := i, dst := j, order2 := o2, stereo := s, ring := false }

/-- the adjacency row of atom `i` -/
def Items.row (i : Nat) : Items → List PBond
  | .nil => []
  | .ring p o s _ rest => ringBond i p o s :: rest.row i
  | .child o s t rest => chainBond i t.idx o s :: rest.row i

def Items.hasKid : Items → Bool
  | .nil => false
  | .ring _ _ _ _ rest => rest.hasKid
  | .child _ _ _ _ => true

/-- one atom of the forest: the bond through which it is entered, its index, the atom, its items -/
structure NodeInfo where
  into : Option PBond
  idx : Nat
  atom : Atom
  items : Items

mutual
/-- the atoms of a tree in pre-order -/
def Tree.nodes (into : Option PBond) : Tree → List NodeInfo
  | .node i a its => ⟨into, i, a, its⟩ :: its.nodes i
def Items.nodes (i : Nat) : Items → List NodeInfo
  | .nil => []
  | .ring _ _ _ _ rest => rest.nodes i
  | .child o s t rest => t.nodes (some (chainBond i t.idx o s)) ++ rest.nodes i
end

abbrev PForest := List Tree

def PForest.nodes (f : PForest) : List NodeInfo := f.flatMap (Tree.nodes none)

def NodeInfo.row (n : NodeInfo) : List PBond := n.items.row n.idx

def NodeInfo.intoOrder2 (n : NodeInfo) : Nat :=
  match n.into with
  | some b => b.order2
  | none => 0

/-- `_bond_counts[idx]` in half units: the bond into the atom plus all its out-bonds -/
def NodeInfo.count2 (n : NodeInfo) : Nat := n.intoOrder2 + (n.row.map (·.order2)).sum

/-- the parsed graph of a forest: atoms in pre-order, adjacency rows in written order -/
def graphOf (f : PForest) : PMol :=
  let ns := f.nodes
  { atoms := ns.map (·.atom)
    roots := f.map Tree.idx
    adj := ns.map fun n => n.row.map some
    counts2 := ns.map NodeInfo.count2
    ringFlags := ns.map fun n => n.row.any (·.ring)
    ds := []
    atomAttr := ns.map fun _ => none }

/-! ### well-formedness of a forest -/

/-- atoms are numbered `0, 1, 2, …` in pre-order -/
def PForest.wellNumbered (f : PForest) : Bool := f.nodes.map (·.idx) == List.range f.nodes.length

/-- opening ring items of a node as `(opener, closer, order2, stereo at opener, stereo at closer)` -/
def Items.opens (i : Nat) : Items → List (Nat × Nat × Nat × Option Char × Option Char)
  | .nil => []
  | .ring p o s s' rest => if i < p then (i, p, o, s, s') :: rest.opens i else rest.opens i
  | .child _ _ _ rest => rest.opens i

/-- closing ring items of a node, in the same format -/
def Items.closes (i : Nat) : Items → List (Nat × Nat × Nat × Option Char × Option Char)
  | .nil => []
  | .ring p o s s' rest => if i < p then rest.closes i else (p, i, o, s', s) :: rest.closes i
  | .child _ _ _ rest => rest.closes i

/-- all ring closures of the forest in the order of the closing atoms -/
def PForest.closes (f : PForest) : List (Nat × Nat × Nat × Option Char × Option Char) :=
  f.nodes.flatMap fun n => n.items.closes n.idx

/-- the ring items come in matching open/close pairs: the openings written at atom `i` are, up to
    order, exactly the closures that point back to `i` (same order, same two stereo marks) -/
def PForest.ringsPaired (f : PForest) : Bool :=
  f.nodes.all fun n => (n.items.opens n.idx).isPerm (f.closes.filter fun c => c.1 == n.idx)

/-- no atom is bonded twice to the same atom, none to itself -/
def PForest.simple (f : PForest) : Bool :=
  f.nodes.all fun n => decide ((n.row.map (·.dst)).Nodup) && n.row.all fun b => b.dst != n.idx

def PForest.wf (f : PForest) : Bool := f.wellNumbered && f.simple && f.ringsPaired

/-- `g` is the parsed graph of a well-formed forest -/
def ParsedWF (g : PMol) : Prop := ∃ f : PForest, f.wf = true ∧ g = graphOf f

/-! ### reconstructing the forest (executable) -/

mutual
def treeOf (g : PMol) : Nat → Nat → Option Tree
  | 0, _ => none
  | fuel + 1, i =>
    match g.atoms[i]?, g.adj[i]? with
    | some a, some row =>
      match itemsOf g fuel i row with
      | some its => some (.node i a its)
      | none => none
    | _, _ => none
def itemsOf (g : PMol) : Nat → Nat → List (Option PBond) → Option Items
  | 0, _, _ => none
  | _ + 1, _, [] => some .nil
  | _ + 1, _, none :: _ => none
  | fuel + 1, i, some b :: rest =>
    if b.ring then
      match g.getDirBond b.dst i, itemsOf g fuel i rest with
      | .ok rev, some its => some (.ring b.dst b.order2 b.stereo rev.stereo its)
      | _, _ => none
    else
      match treeOf g fuel b.dst, itemsOf g fuel i rest with
      | some t, some its => some (.child b.order2 b.stereo t its)
      | _, _ => none
end

def forestOf (g : PMol) : Option PForest :=
  g.roots.mapM (treeOf g (2 * (g.size + g.totalOut) + 2))

/-- executable: `g` is exactly `graphOf` of the well-formed forest reconstructed from it -/
def isParsedWF (g : PMol) : Bool :=
  match forestOf g with
  | some f => f.wf && decide (g = graphOf f)
  | none => false

theorem isParsedWF_sound (g : PMol) (h : isParsedWF g = true) : ParsedWF g := by
  unfold isParsedWF at h
  split at h
  · rename_i f _
    rw [Bool.and_eq_true, decide_eq_true_eq] at h
    exact ⟨f, h.1, h.2⟩
  · cases h

/-! ### the symbols the encoder is specified to emit -/

def okOr {α} (d : α) : Py α → α
  | .ok x => x
  | .error _ => d

/-- `_atom_to_selfies(bond_into, atom)` -/
def atomSym (into : Option PBond) (a : Atom) : Str := okOr [] (atomToSelfies into a)

/-- `get_selfies_from_index(n)` -/
def idxSyms (n : Nat) : List Str := okOr [] (getSelfiesFromIndex (n : Int))

/-- the ring symbol written at the closing atom `i` for the ring to `p < i`, with its index symbols -/
def ringSyms (i p o2 : Nat) (sHere sThere : Option Char) : List Str :=
  let q := idxSyms (i - p - 1)
  ringSymbol (okOr [] (ringBondsToSelfies (ringBond p i o2 sThere) (ringBond i p o2 sHere)))
    "Ring".toList q.length :: q

/-- the branch symbol with its index symbols for a branch of `len` symbols -/
def branchSyms (b : PBond) (len : Nat) : List Str :=
  let q := idxSyms (len - 1)
  ringSymbol (okOr [] (bondToSelfies b false)) "Branch".toList q.length :: q

/-- ring symbols of an atom: one per CLOSING ring item, in written order -/
def Items.encRings (i : Nat) : Items → List Str
  | .nil => []
  | .ring p o s s' rest => if i < p then rest.encRings i else ringSyms i p o s s' ++ rest.encRings i
  | .child _ _ _ rest => rest.encRings i

mutual
/-- **the specified output of `_fragment_to_selfies`** for the subtree `t` entered through `into`:
    the atom symbol, the ring symbols of the closing ring items, every child but the last as
    `[branch symbol] ++ index symbols (length − 1) ++ encoding of the child`, the last child inline -/
def Tree.encode (into : Option PBond) : Tree → List Str
  | .node i a its => atomSym into a :: (its.encRings i ++ its.encKids i)
def Items.encKids (i : Nat) : Items → List Str
  | .nil => []
  | .ring _ _ _ _ rest => rest.encKids i
  | .child o s t rest =>
    let b := chainBond i t.idx o s
    if rest.hasKid then
      branchSyms b (t.encode (some b)).length ++ t.encode (some b) ++ rest.encKids i
    else t.encode (some b)
end

/-- the whole SELFIES string: fragments joined by dots -/
def PForest.encode (f : PForest) : Str :=
  joinWith ['.'] (f.map fun t => (t.encode none).flatten)

/-- what `selfies.encoder` does with the prepared (parsed, kekulized, constraint-checked,
    chirality-adjusted) graph: `_fragment_to_selfies` on every root, joined by dots -/
def encodeGraph (g : PMol) : Py Str := do
  let (fragments, _) ← encoderFull.frags g g.roots 0 [] []
  pure (joinWith ['.'] fragments)

theorem encoder_eq_prepare_encodeGraph (T : Table) (smiles : Str) (strict : Bool) (tape : List Nat) :
    encoder T smiles strict tape = (do
      let g ← encodePrepare T smiles strict false tape
      encodeGraph g) := by
  unfold encoder encoderFull encodeGraph
  cases encodePrepare T smiles strict false tape with
  | error e => rfl
  | ok g =>
    simp only [bind, Except.bind]
    cases encoderFull.frags g g.roots 0 [] [] with
    | error e => rfl
    | ok r => rfl

/-! ### the hypotheses of the round-trip theorem, executable -/

def okOrder2 (o : Nat) : Prop := o = 2 ∨ o = 4 ∨ o = 6

instance (o : Nat) : Decidable (okOrder2 o) := by unfold okOrder2; infer_instance

def okStereo (s : Option Char) : Prop := s = none ∨ s = some '/' ∨ s = some '\\'

instance (s : Option Char) : Decidable (okStereo s) := by unfold okStereo; infer_instance

/-- the ring items `(partner, order2, sHere, sThere)` of an atom -/
def Items.rings : Items → List (Nat × Nat × Option Char × Option Char)
  | .nil => []
  | .ring p o s s' rest => (p, o, s, s') :: rest.rings
  | .child _ _ _ rest => rest.rings

/-- kekulized: no aromatic atom, every bond order is 1, 2 or 3 (2, 4, 6 half units), every stereo
    mark is `/` or `\` -/
def PForest.kekulized (f : PForest) : Bool :=
  f.nodes.all fun n => !n.atom.isAromatic
    && (n.row.all fun b => decide (okOrder2 b.order2) && decide (okStereo b.stereo))
    && n.items.rings.all fun r => decide (okStereo r.2.2.2)

/-- the atom is one `smiles_to_atom` can produce (so that its SELFIES symbol is read back as the
    same atom, C10): known element, chirality `@`/`@@`, `h_count = None` only on a bare organic
    atom, H count ≤ 9, isotope and charge within `int()`'s digit limit -/
def Atom.wfb (a : Atom) : Bool :=
  memStr a.element Gen.elements
  && (a.chirality == none || a.chirality == some ['@'] || a.chirality == some ['@', '@'])
  && (match a.hCount with
      | none => a.isotope == none && a.chirality == none && a.charge == 0
                && memStr a.element Gen.organicSubset
      | some h => decide (h ≤ 9))
  && (match a.isotope with
      | none => true
      | some n => decide (n < 10 ^ Gen.intMaxStrDigits))
  && decide (a.charge.natAbs < 10 ^ Gen.intMaxStrDigits)

def PForest.atomsOK (f : PForest) : Bool := f.nodes.all fun n => n.atom.wfb

/-- the graph obeys the constraint table `T` (`_check_bond_constraints` finds nothing) -/
def PForest.obeys (T : Table) (f : PForest) : Bool :=
  f.nodes.all fun n => decide ((n.count2 : Int) ≤ 2 * n.atom.bondingCapacity T)

mutual
/-- every ring span and every branch length fits in three index symbols -/
def Tree.spanOK : Tree → Bool
  | .node i _ its => its.spanOK i
def Items.spanOK (i : Nat) : Items → Bool
  | .nil => true
  | .ring p _ _ _ rest => (decide (i < p) || decide (i - p - 1 < 16 ^ 3)) && rest.spanOK i
  | .child o s t rest =>
    t.spanOK && rest.spanOK i
      && (!rest.hasKid || decide ((t.encode (some (chainBond i t.idx o s))).length - 1 < 16 ^ 3))
end

mutual
/-- branch nesting depth: the Python recursion depth of `_fragment_to_selfies` and of
    `_derive_mol_from_symbols` on the encoding -/
def Tree.bdepth : Tree → Nat
  | .node _ _ its => its.bdepth
def Items.bdepth : Items → Nat
  | .nil => 0
  | .ring _ _ _ _ rest => rest.bdepth
  | .child _ _ t rest => if rest.hasKid then max (1 + t.bdepth) rest.bdepth else t.bdepth
end

/-- all hypotheses of the round-trip theorem on a forest -/
def PForest.ready (T : Table) (f : PForest) : Bool :=
  f.wf && f.kekulized && f.atomsOK && f.obeys T && f.all Tree.spanOK
    && f.all fun t => decide (t.bdepth + 1 < recursionBudget)

/-- … and on a graph: it is the graph of a forest that satisfies them (executable; the harness
    evaluates it on every graph `encodePrepare` returns) -/
def roundTripReady (T : Table) (g : PMol) : Bool :=
  match forestOf g with
  | some f => f.ready T && decide (g = graphOf f)
  | none => false

end SV
