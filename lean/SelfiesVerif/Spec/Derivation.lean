/-
  Spec.Derivation — an executable rendering of the *published* SELFIES derivation grammar.

  Sources, in the order in which they were read:
  1. /repo/docs/source/derivation.rst  (the derivation rules; written for the v1 symbol names);
  2. /repo/CHANGELOG.md, section v2.0.0 (`[BranchL_M]` became `[BranchL]`, `[=BranchL]`,
     `[#BranchL]`; `[Expl=RingL]` became `[=RingL]`; `expl` dropped from atom symbols;
     "more logically consistent behaviour of `[Ring]` symbols");
  3. /repo/tests/test_specific_cases.py (pins the v2 behaviour where the .rst is stale).

  Places where the .rst (v1) is superseded and this file follows CHANGELOG / tests:
  (a) SYMBOL NAMES.  The .rst spells `[Branch<L>_<M>]`, `[Expl<B>Ring<L>]`, `[C@@Hexpl]`; v2 spells
      `[<B>Branch<L>]` (the bond prefix IS the `<M>` of the .rst: none = 1, `=` = 2, `#` = 3),
      `[<B>Ring<L>]`, `[C@@H]`.  The index alphabet of the .rst is renamed accordingly
      (`[Branch1_2]` is `[=Branch1]`, ...).  Symbol-level reading is not this file's subject: it
      reuses `processBranchSymbol`, `processRingSymbol`, `processAtomSymbol`, `indexDigit`.
  (b) A RING SYMBOL SPENDS STATE.  The .rst says `X_i → R(Q) X_i`; the code and
      `test_branch_and_ring_decrement_state` (`[C][C][C][Ring1][Ring1][#C]` gives `C1CC1=C`,
      `[C][O][C][C][=Ring1][Ring1][#C]` gives `COCCC`) say: a ring symbol of order β read in state
      `i > 0` asks for a ring bond of order `min(β, i)` and continues in state `i − min(β, i)`;
      when that is 0 the derivation instance terminates (after reading the index symbols).
  (c) RING TARGET.  .rst: `n = max(1, m − (Q + 1))` with 1-based atom numbers counted over the
      whole molecule, i.e. 0-based `max(0, m − (Q+1))`; a ring onto the atom itself is not formed
      (`test_oversized_ring`: `[C][Ring1][O]` gives `C`).
  (d) SECOND PASS.  .rst: "A ring bond will be made if its connected atoms can make the ring bond
      without violating any bond constraints"; the code and `test_consecutive_rings` reduce the
      order *minimally* (`min(order, free valence at both ends)`) and skip the ring only when an
      end has no free valence at all; on an existing bond the orders add up, capped at 3.
  (e) BUDGET OF A BRANCH.  .rst: "B(Q, X_n) takes the next Q+1 symbols".  The code counts: the
      symbols a *nested* branch or a ring symbol reads (index symbols, nested body) are charged to
      the enclosing budget only after they have been read, so a nested derivation is never cut
      short by the enclosing budget
      (`[C][Branch1][Ring1][C][Branch1][Ring1][C][C][C]` gives `C(CCC)C`).
  (f) A SKIPPED branch (`i ≤ 1`) or ring (`i = 0`) symbol does not read index symbols
      (`test_branch_at_state_X1`, `test_branch_and_ring_at_state_X0`).
  (g) CAPACITY 0.  An atom symbol that can make no bond (`[CH4]`) read in a state `> 0` is not
      added and terminates the instance (`test_explicit_hydrogen_symbols`); in `X_0` it is added.
  (h) After termination (`X_i → ε`) the rest of the *current* budget is skipped without being
      validated; an unclosed bracket makes the whole call fail (see `decodeGraph`).

  Style: one classification per symbol (`classify`), a big-step function over a plain list of
  symbols with a count-DOWN budget (`derive`), a molecule that is a list of atoms, a list of bonds
  and the written neighbour order (no tracked bond counts: free valence is recomputed from the
  bond list), ring formation as a second pass.  No Mathlib; everything is executable and
  kernel-reducible.
-/
import SelfiesVerif.Model.Mol
import SelfiesVerif.Model.Tokenize

namespace SV.Spec
open SV

/-! ### 1. what a symbol means -/

inductive Sym
  /-- `[<B><A>]`: bond multiplicity β, optional cis/trans mark, the atom -/
  | atom (order : Nat) (stereo : Option Char) (a : Atom)
  /-- `[<B>Branch<L>]`: `order` is the `<M>` of the .rst -/
  | branch (order L : Nat)
  /-- `[<B>Ring<L>]`: bond multiplicity, number of index symbols, marks at the two ends -/
  | ring (order L : Nat) (ls rs : Option Char)
  | epsilon
  /-- outside the grammar -/
  | invalid
  deriving Repr, DecidableEq

/-- The tests are made in the implementation's order: `s[-4:-2] = "ch"` means branch symbol or
    nothing, `s[-4:-2] = "ng"` means ring symbol or nothing, a symbol containing `eps` is
    `[epsilon]`, everything else is an atom symbol or nothing. -/
def classify (T : Table) (s : Str) : Sym :=
  if sliceFromEnd s 4 2 == ['c', 'h'] then
    match processBranchSymbol s with
    | some (m, l) => .branch m l
    | none => .invalid
  else if sliceFromEnd s 4 2 == ['n', 'g'] then
    match processRingSymbol s with
    | some (o, l, (ls, rs)) => .ring o l ls rs
    | none => .invalid
  else if containsSub s ['e', 'p', 's'] then .epsilon
  else
    match processAtomSymbol T s with
    | some ((o, st), a) => .atom o st a
    | none => .invalid

/-- α: the number of bonds the atom can make under table `T` -/
def cap (T : Table) (a : Atom) : Nat := (a.bondingCapacity T).toNat

/-! ### 2. index symbols -/

/-- The `L` symbols after a branch / ring symbol, a missing one (end of the string) as `none`. -/
def indexSymbols (L : Nat) (syms : List Str) : List (Option Str) :=
  (syms.take L).map some ++ List.replicate (L - syms.length) none

/-- `Q`: the base-16 number spelled by the next `L` symbols, most significant first;
    unknown and missing symbols count 0. -/
def indexValue (L : Nat) (syms : List Str) : Nat :=
  (indexSymbols L syms).foldl (fun acc c => acc * 16 + indexDigit c) 0

/-! ### 3. the molecule under construction -/

/-- A bond between atoms `a < b` (numbers in derivation order).  A chain bond carries its
    cis/trans mark in `markA`; a ring bond has one mark per end. -/
structure Bond where
  a : Nat
  b : Nat
  order : Nat
  markA : Option Char := none
  markB : Option Char := none
  ring : Bool := false
  deriving Repr, DecidableEq

def Bond.joins (e : Bond) (i j : Nat) : Bool := (e.a == i && e.b == j) || (e.a == j && e.b == i)
def Bond.touches (e : Bond) (k : Nat) : Bool := e.a == k || e.b == k

structure Build where
  atoms : List Atom := []
  /-- first atoms of the fragments -/
  roots : List Nat := []
  bonds : List Bond := []
  /-- for every atom the neighbours it is written with, in written order, without the atom it
      was chained to (that one always comes first) -/
  nbrs : List (List Nat) := []
  deriving Repr

/-- a ring bond waiting for the second pass: from atom `a` to the later atom `b` -/
structure RingCand where
  a : Nat
  b : Nat
  order : Nat
  ls : Option Char
  rs : Option Char
  deriving Repr, DecidableEq

/-- what a derivation threads through: the molecule and the ring queue -/
structure DS where
  mol : Build := {}
  queue : List RingCand := []
  deriving Repr

/-- a new atom that starts a fragment -/
def Build.addRoot (B : Build) (x : Atom) : Build :=
  { B with atoms := B.atoms ++ [x], roots := B.roots ++ [B.atoms.length], nbrs := B.nbrs ++ [[]] }

/-- a new atom chained to atom `p` -/
def Build.addChained (B : Build) (p : Nat) (x : Atom) (μ : Nat) (mark : Option Char) : Build :=
  let n := B.atoms.length
  { B with atoms := B.atoms ++ [x],
           bonds := B.bonds ++ [{ a := p, b := n, order := μ, markA := mark }],
           nbrs := B.nbrs.modify p (· ++ [n]) ++ [[]] }

/-! ### 4. the derivation -/

/-- `X_i → ε`: the rest of the current budget is passed over unread -/
def skip {α : Type} : Option Nat → List α → List α
  | none, _ => []
  | some k, syms => syms.drop k

/-- charge `k` symbols to a budget (a budget never goes below 0) -/
def spend (budget : Option Nat) (k : Nat) : Option Nat := budget.map (· - k)

/--
`derive fuel budget i prev syms ds`: one derivation instance in state `X_i` whose current atom
is `prev`, allowed to take `budget` more symbols (`none`: no limit) from `syms`.
Returns the symbols it left and the molecule/queue.  `fuel` only makes the recursion
structural; `syms.length + 1` is always enough (every call eats a symbol).
-/
def derive (T : Table) : Nat → Option Nat → Nat → Option Nat → List Str → DS → Py (List Str × DS)
  | 0, _, _, _, syms, ds => .ok (syms, ds)
  | fuel + 1, budget, i, prev, syms, ds =>
    if budget = some 0 then .ok (syms, ds) else
    match syms with
    | [] => .ok ([], ds)
    | s :: rest =>
      let budget := spend budget 1
      match classify T s with
      | .invalid => .error .DecoderError
      | .epsilon =>
        if i = 0 then derive T fuel budget 0 prev rest ds else .ok (skip budget rest, ds)
      | .branch m l =>
        if i ≤ 1 then derive T fuel budget i prev rest ds
        else
          let n := min (i - 1) m
          let q := indexValue l rest
          let body := rest.drop l
          match derive T fuel (some (q + 1)) n prev body ds with
          | .error e => .error e
          | .ok (after, ds) =>
            -- index symbols and everything the branch took are charged only now
            let used := min l rest.length + (body.length - after.length)
            derive T fuel (spend budget used) (i - n) prev after ds
      | .ring β l ls rs =>
        if i = 0 then derive T fuel budget 0 prev rest ds
        else
          let μ := min β i
          let q := indexValue l rest
          let after := rest.drop l
          let budget := spend budget (min l rest.length)
          let ds := match prev with
            | some m => { ds with queue := ds.queue ++ [{ a := m - (q + 1), b := m, order := μ, ls, rs }] }
            | none => ds   -- cannot happen: a state above 0 has a current atom
          if i - μ = 0 then .ok (skip budget after, ds)
          else derive T fuel budget (i - μ) prev after ds
      | .atom β mark x =>
        let α := cap T x
        let m := ds.mol.atoms.length
        if i = 0 then
          -- X_0: the atom starts a new fragment
          let ds := { ds with mol := ds.mol.addRoot x }
          if α = 0 then .ok (skip budget rest, ds) else derive T fuel budget α (some m) rest ds
        else
          let μ := min β (min i α)
          if μ = 0 then .ok (skip budget rest, ds)   -- α = 0: not added, terminates
          else
            match prev with
            | none => .ok (skip budget rest, ds)   -- cannot happen
            | some p =>
              let ds := { ds with mol := ds.mol.addChained p x μ mark }
              if α - μ = 0 then .ok (skip budget rest, ds)
              else derive T fuel budget (α - μ) (some m) rest ds

/-! ### 5. the second pass: ring bonds -/

/-- the valence atom `k` already uses: the sum of the orders of the bonds at `k` -/
def usedValence (bonds : List Bond) (k : Nat) : Nat :=
  (bonds.map fun e => if e.touches k then e.order else 0).sum

/-- the number of ring bonds at `k` -/
def ringDegree (bonds : List Bond) (k : Nat) : Nat :=
  bonds.countP fun e => e.ring && e.touches k

def freeValence (T : Table) (B : Build) (k : Nat) : Nat :=
  match B.atoms[k]? with
  | some x => cap T x - usedValence B.bonds k
  | none => 0

/-- one queued ring -/
def formRing (T : Table) (B : Build) (r : RingCand) : Build :=
  if r.a = r.b then B   -- onto itself: not formed
  else
    let fa := freeValence T B r.a
    let fb := freeValence T B r.b
    if fa = 0 ∨ fb = 0 then B   -- no room at one end
    else
      let o := min r.order (min fa fb)   -- reduced minimally
      if B.bonds.any (·.joins r.a r.b) then
        -- already bonded: the orders add up (at most 3), the mark stays
        { B with bonds := B.bonds.map fun e =>
            if e.joins r.a r.b then { e with order := min (e.order + o) 3 } else e }
      else
        -- written before all chain bonds and after the earlier ring bonds, at both ends
        let pa := ringDegree B.bonds r.a
        let pb := ringDegree B.bonds r.b
        { B with bonds := B.bonds ++ [{ a := r.a, b := r.b, order := o, markA := r.ls, markB := r.rs, ring := true }],
                 nbrs := (B.nbrs.modify r.a (insertAt · pa r.b)).modify r.b (insertAt · pb r.a) }

/-- in order of appearance -/
def formRings (T : Table) (queue : List RingCand) (B : Build) : Build :=
  queue.foldl (formRing T) B

/-! ### 6. the result -/

/-- one written neighbour of an atom -/
structure Nbr where
  atom : Nat
  order : Nat
  /-- the cis/trans mark written at this end -/
  mark : Option Char
  ring : Bool
  deriving Repr, DecidableEq

/-- The derived molecule: atoms in derivation order, the first atom of every fragment, and for
    every atom its written neighbours (bonded pairs, bond orders, marks, order of writing).
    A chain bond is listed at its earlier atom only: the later atom's first neighbour is always
    the atom it was chained to.  A ring bond is listed at both ends. -/
structure _root_.SV.SpecMol where
  atoms : List Atom
  roots : List Nat
  nbrs : List (List Nbr)
  deriving Repr, DecidableEq

/-- how atom `k` sees its neighbour `d` -/
def Build.look (B : Build) (k d : Nat) : Nbr :=
  match B.bonds.find? (·.joins k d) with
  | some e => { atom := d, order := e.order, mark := if e.a == k then e.markA else e.markB, ring := e.ring }
  | none => { atom := d, order := 0, mark := none, ring := false }   -- cannot happen

def Build.view (B : Build) : SpecMol :=
  { atoms := B.atoms, roots := B.roots, nbrs := B.nbrs.mapIdx fun k ns => ns.map (B.look k) }

/-- every bond once: `(a, b, order)` with `a < b`, grouped by `a` in written order -/
def _root_.SV.SpecMol.bondList (g : SpecMol) : List (Nat × Nat × Nat) :=
  (g.nbrs.mapIdx fun k ns => (ns.filter (k < ·.atom)).map fun n => (k, n.atom, n.order)).flatten

/-! ### 7. strings -/

/-- `modernize_symbol` as a total function (`compatible=True`) -/
def modern (x : Str) : Str :=
  match modernizeSymbol x with
  | .ok y => y
  | .error _ => x

/-- the symbols of one dot-free fragment (tokenisation is property C14's subject: `splitSelfies`),
    `[nop]` removed; and whether a bracket is left open -/
def symbolsOf (compat : Bool) (frag : Str) : List Str × Bool :=
  let (items, unclosed) := splitSelfies frag
  let items := items.filter (· != nopSym)
  (if compat then items.map modern else items, unclosed)

/-- fragment after fragment, every one from `X_0` without budget, sharing atom numbers and the
    ring queue -/
def deriveAll (T : Table) : List (List Str) → DS → Py DS
  | [], ds => .ok ds
  | syms :: more, ds =>
    match derive T (syms.length + 1) none 0 none syms ds with
    | .error e => .error e
    | .ok (_, ds) => deriveAll T more ds

/--
The molecule the documented derivation gives for the string `s` under table `T`.
`DecoderError` iff a bracket is left open somewhere or the derivation reaches a symbol outside
the grammar.  (The code meets the open bracket lazily, after deriving the complete symbols before
it; since an invalid symbol raises the same class of error the order cannot be observed.)
-/
def decodeGraph (T : Table) (s : Str) (compat : Bool := false) : Py SpecMol :=
  let frags := (splitOnChar '.' s).map (symbolsOf compat)
  if frags.any (·.2) then .error .DecoderError
  else
    match deriveAll T (frags.map (·.1)) {} with
    | .error e => .error e
    | .ok ds => .ok (formRings T ds.queue ds.mol).view

/-- does the derivation reach a symbol outside the grammar? -/
def reachesInvalid (T : Table) (s : Str) (compat : Bool := false) : Bool :=
  match deriveAll T ((splitOnChar '.' s).map fun f => (symbolsOf compat f).1) {} with
  | .error _ => true
  | .ok _ => false

def hasUnclosed (s : Str) : Bool := (splitOnChar '.' s).any fun f => (splitSelfies f).2

/-! ### 8. comparison with the implementation's graph -/

/-- forget the tracked bond counts and the attribution -/
def _root_.SV.SpecMol.ofMol (m : Mol) : SpecMol :=
  { atoms := m.atoms, roots := m.roots,
    nbrs := m.adj.map fun row => row.map fun d =>
      { atom := d.dst, order := d.order, mark := d.stereo, ring := d.ring } }

/-- back to the writer's input (for running `molToSmiles` on a specified molecule) -/
def _root_.SV.SpecMol.toMol (g : SpecMol) : Mol :=
  { atoms := g.atoms, roots := g.roots,
    adj := g.nbrs.mapIdx fun k ns => ns.map fun n =>
      { src := k, dst := n.atom, order := n.order, stereo := n.mark, ring := n.ring },
    counts := g.atoms.map fun _ => 0,
    atomAttr := g.atoms.map fun _ => none }

private def optNat : Option Nat → Nat
  | none => 0
  | some n => n + 1

private def optChar : Option Char → Nat
  | none => 0
  | some c => c.toNat + 1

/-- A canonical dump as rows of numbers, for differential comparison:
    row 0 = `0 :: roots`; then one row per atom
    `[1, isotope+1|0, hCount+1|0, charge sign (0/1/2), |charge|, aromatic, #chirality chars] ++
     chirality code points ++ element code points`; then one row per atom
    `2 :: (neighbour, order, mark+1|0, ring)*`. -/
def dump (g : SpecMol) : List (List Nat) :=
  [0 :: g.roots] ++
  g.atoms.map (fun a =>
    [1, optNat a.isotope, optNat a.hCount,
     (if a.charge = 0 then 0 else if a.charge > 0 then 1 else 2), a.charge.natAbs,
     (if a.isAromatic then 1 else 0), (a.chirality.getD []).length + (if a.chirality.isSome then 1 else 0)]
    ++ (a.chirality.getD []).map Char.toNat ++ a.element.map Char.toNat) ++
  g.nbrs.map (fun ns => 2 :: (ns.map fun n => [n.atom, n.order, optChar n.mark, if n.ring then 1 else 0]).flatten)

end SV.Spec
