import SelfiesVerif.Model.Decoder
import SelfiesVerif.Model.Encoder
import SelfiesVerif.Model.Api
import SelfiesVerif.Model.Encoding
import SelfiesVerif.Model.Config
import SelfiesVerif.Spec.Derivation
import SelfiesVerif.Spec.SameMolecule
import SelfiesVerif.Proofs.KekulizeSound
import SelfiesVerif.Spec.Matching
import SelfiesVerif.Proofs.AttrExactGlobal

namespace SV.Driver
open SV

def hexVal (c : Char) : Nat :=
  if '0' ≤ c && c ≤ '9' then c.toNat - 48
  else if 'a' ≤ c && c ≤ 'f' then c.toNat - 87
  else if 'A' ≤ c && c ≤ 'F' then c.toNat - 55 else 0

def parseHex (s : String) : Nat := s.toList.foldl (fun a c => a * 16 + hexVal c) 0

/-- `x5b,43,5d` → `[C]` -/
def decStr (s : String) : Str :=
  let body := (s.drop 1).toString
  if body.isEmpty then [] else (body.splitOn ",").map fun h => Char.ofNat (parseHex h)

def hexDigits (n : Nat) : String := String.ofList (Nat.toDigits 16 n)

def encStr (s : Str) : String :=
  "x" ++ ",".intercalate (s.map fun c => hexDigits c.toNat)

def encOptStr : Option Str → String
  | none => "N"
  | some s => encStr s

def encOptNat : Option Nat → String
  | none => "N"
  | some n => toString n

def encOptChar : Option Char → String
  | none => "N"
  | some c => encStr [c]

def encAtom (a : Atom) : String :=
  s!"{encStr a.element}|{a.isAromatic}|{encOptNat a.isotope}|{encOptStr a.chirality}|{encOptNat a.hCount}|{a.charge}"

def encPy {α} (f : α → String) : Py α → String
  | .ok v => "ok\t" ++ f v
  | .error e => "err\t" ++ e.name

/-- `k1=v1;k2=v2` with keys as encoded strings -/
def decDict (s : String) : Constraints :=
  if s.isEmpty || s == "-" then [] else
  (s.splitOn ";").filterMap fun kv =>
    match kv.splitOn "=" with
    | [k, v] => some (decStr k, v.toNat!)
    | _ => none

def encAttr (a : Option (List Attribution)) : String :=
  match a with
  | none => "N"
  | some l => "[" ++ ";".intercalate (l.map fun x => s!"{x.index}:{encStr x.token}") ++ "]"

def encMaps (ms : List AttributionMap) : String :=
  "|".intercalate (ms.map fun m => s!"{m.index}~{encStr m.token}~{encAttr m.attribution}")

def encBond (b : DirBond) : String :=
  s!"{b.src}>{b.dst}:{b.order}:{encOptChar b.stereo}:{if b.ring then 1 else 0}"

def encMol (m : Mol) : String :=
  let atoms := ";".intercalate (m.atoms.map encAtom)
  let adj := ";".intercalate (m.adj.map fun out => ",".intercalate (out.map encBond))
  s!"atoms={atoms}\troots={m.roots}\tadj={adj}\tcounts={m.counts}"

def encPBond (ob : Option PBond) : String :=
  match ob with
  | none => "P"
  | some b => s!"{b.src}>{b.dst}:{b.order2}:{encOptChar b.stereo}:{if b.ring then 1 else 0}"

def encPMol (m : PMol) : String :=
  let atoms := ";".intercalate (m.atoms.map encAtom)
  let adj := ";".intercalate (m.adj.map fun out => ",".intercalate (out.map encPBond))
  let ds := ";".intercalate (m.ds.map fun (k, v) => s!"{k}:{v}")
  s!"atoms={atoms}\troots={m.roots}\tadj={adj}\tcounts2={m.counts2}\tflags={m.ringFlags}\tds={ds}"

def decNatList (s : String) : List Nat :=
  if s.isEmpty || s == "-" then [] else (s.splitOn ",").map String.toNat!

def decGraph (s : String) : Graph :=
  if s == "-" then [] else (s.splitOn ";").map decNatList

def encMatching (m : Option Matching) : String :=
  match m with
  | none => "N"
  | some l => ",".intercalate (l.map encOptNat)

def encTok (t : SmilesTok) : String :=
  let k := match t.kind with | .atom => "A" | .branch => "B" | .ring => "R" | .dot => "D"
  s!"{k}{encOptChar t.bondChar}{encStr t.text}"

def decPyKey (s : String) : PyKey := if s == "O" then .other else .str (decStr s)
def decPyVal (s : String) : PyVal :=
  if s == "O" then .other
  else if s == "bT" then .bool true
  else if s == "bF" then .bool false
  else .int (s.drop 1).toString.toInt!

/-- `k=v;k=v` with PyKey / PyVal wire forms -/
def decPyDict (s : String) : PyDict :=
  if s.isEmpty || s == "-" then [] else
  (s.splitOn ";").filterMap fun kv =>
    match kv.splitOn "=" with
    | [k, v] => some (decPyKey k, decPyVal v)
    | _ => none

def encPyKey : PyKey → String
  | .str s => encStr s
  | .other => "O"

def encPyDict (d : PyDict) : String :=
  ";".intercalate (d.map fun (k, v) => s!"{encPyKey k}={v.toNat}")

def decEncType (s : String) : EncType :=
  if s == "label" then .label else if s == "one_hot" then .oneHot else if s == "both" then .both else .other

def decVocabStoi (s : String) : VocabStoi :=
  if s.isEmpty || s == "-" then [] else
  (s.splitOn ";").filterMap fun kv =>
    match kv.splitOn "=" with
    | [k, v] => some (decStr k, v.toInt!)
    | _ => none

def decVocabItos (s : String) : VocabItos :=
  if s.isEmpty || s == "-" then [] else
  (s.splitOn ";").filterMap fun kv =>
    match kv.splitOn "=" with
    | [k, v] => some (k.toInt!, decStr v)
    | _ => none

def decIntList (s : String) : List Int :=
  if s.isEmpty || s == "-" then [] else (s.splitOn ",").map String.toInt!

def decIntRows (s : String) : List (List Int) :=
  if s == "-" then [] else (s.splitOn ";").map decIntList

def encEncoded (e : Encoded) : String :=
  let l := match e.label with | none => "N" | some l => ",".intercalate (l.map toString)
  let h := match e.oneHot with
    | none => "N"
    | some rows => ";".intercalate (rows.map fun (r : List Nat) => ",".intercalate (r.map toString))
  s!"{l}\t{h}"

structure St where
  table : Table := (Table.ofDict Gen.initialConstraints).getD { entries := [], dflt := 0 }
  cfg : CfgState := CfgState.init
  handles : List (Nat × Nat) := []

def St.sync (st : St) : St :=
  match Table.ofDict st.cfg.currentTable with
  | some t => { st with table := t }
  | none => st

def St.ref (st : St) (h : String) : Nat := (lookup h.toNat! st.handles).getD 0

def handle (st : St) (fields : List String) : St × String :=
  match fields with
  | ["T", d] =>
    match Table.ofDict (decDict d) with
    | some t => ({ st with table := t }, "ok")
    | none => (st, "err\tKeyError")
  | ["dec", flags, s] =>
    let compat := flags.contains 'c'
    let attrib := flags.contains 'a'
    let r := decoderApi st.table (decStr s) compat attrib
    (st, encPy (fun (p : Str × List AttributionMap) =>
      if attrib then encStr p.1 ++ "\t" ++ encMaps p.2 else encStr p.1) r)
  | ["specdec", flags, s] =>
    -- the INDEPENDENT rendering of derivation.rst (Spec/Derivation.lean), written out with the model's writer
    (st, encPy encStr (do
      let g ← Spec.decodeGraph st.table (decStr s) (flags.contains 'c')
      let r ← molToSmiles g.toMol
      pure r.1))
  | ["encl", flags, s] =>
    -- C17: for every atom-making input position k (in order), the positions of the branch symbols ENCLOSING it
    -- (attribution-free walk of the derivation, Proofs/AttrSpans.lean) followed by k itself
    let w := walkAll st.table (seenSymbols (flags.contains 'c') (decStr s)) 0
    (st, "ok\t" ++ ";".intercalate (w.made.map fun k =>
      ",".intercalate ((encl w.spans k ++ [k]).map toString)))
  | ["decg", flags, s] =>
    (st, encPy encMol (decodeGraph st.table (decStr s) (flags.contains 'c') false))
  | ["enc", flags, tape, s] =>
    let strict := flags.contains 's'
    let attrib := flags.contains 'a'
    let r := encoderApi st.table (decStr s) strict attrib (decNatList tape)
    (st, encPy (fun (p : Str × List AttributionMap) =>
      if attrib then encStr p.1 ++ "\t" ++ encMaps p.2 else encStr p.1) r)
  | ["hyp", flags, tape, s] =>
    -- the decidable hypotheses of the theorems, evaluated on the graphs the (modelled) parser produces:
    -- isPWF (C05_kekulize_sound) on the parsed graph, roundTripReady (C03_roundtrip) on the prepared graph
    let pw := match smilesToMol (decStr s) false with | .ok g => (if isPWF g then "1" else "0") | .error _ => "-"
    let rr := match encodePrepare st.table (decStr s) (flags.contains 's') false (decNatList tape) with
      | .ok g => (if roundTripReady st.table g then "1" else "0")
      | .error _ => "-"
    (st, s!"ok\t{pw}\t{rr}")
  | ["pmcheck", g, m] =>
    (st, s!"ok\t{isPerfectMatching (decGraph g) ((m.splitOn ",").map fun x => if x == "N" then none else some x.toNat!)}")
  | ["parse", s] => (st, encPy encPMol (smilesToMol (decStr s) false))
  | ["kek", tape, s] =>
    (st, encPy (fun (o : Option PMol) => match o with | none => "N" | some m => encPMol m)
      (do let m ← smilesToMol (decStr s) false; m.kekulize (decNatList tape)))
  | ["tok", s] =>
    (st, match tokenizeSmiles ((decStr s).length + 1) (decStr s) with
      | none => "err\tSMILESParserError"
      | some l => "ok\t" ++ " ".intercalate (l.map encTok))
  | ["pm", g, tape] => (st, encPy encMatching (findPerfectMatching (decGraph g) (decNatList tape)))
  | ["greedy", g] => (st, encPy (fun m => encMatching (some m)) (greedyMatching (decGraph g)))
  | ["c.reset"] => ({ st with cfg := CfgState.init, handles := [] }.sync, "ok")
  | ["c.preset", name, h] =>
    let (cfg, r) := getPreset st.cfg (decStr name)
    match r with
    | .ok ref => ({ st with cfg := cfg, handles := (h.toNat!, ref) :: st.handles }, "ok")
    | .error e => ({ st with cfg := cfg }, "err\t" ++ e.name)
  | ["c.get", h] =>
    let (cfg, ref) := getConstraints st.cfg
    ({ st with cfg := cfg, handles := (h.toNat!, ref) :: st.handles }, "ok")
  | ["c.alpha", h] =>
    let (cfg, ref) := getAlphabet st.cfg
    ({ st with cfg := cfg, handles := (h.toNat!, ref) :: st.handles }, "ok")
  | ["c.newdict", h, d] =>
    let (cfg, ref) := st.cfg.allocDict (decPyDict d)
    ({ st with cfg := cfg, handles := (h.toNat!, ref) :: st.handles }, "ok")
  | ["c.set", "name", n] =>
    let (cfg, r) := setConstraints st.cfg (.name (decStr n))
    ({ st with cfg := cfg }.sync, encPy (fun _ => "") r)
  | ["c.set", "dict", h] =>
    let (cfg, r) := setConstraints st.cfg (.dict (st.ref h))
    ({ st with cfg := cfg }.sync, encPy (fun _ => "") r)
  | ["c.set", "other"] =>
    let (cfg, r) := setConstraints st.cfg .other
    ({ st with cfg := cfg }.sync, encPy (fun _ => "") r)
  | ["c.mutd", h, k, v] =>
    ({ st with cfg := mutateDict st.cfg (st.ref h) (decPyKey k) (decPyVal v) }.sync, "ok")
  | ["c.muts", h, x] =>
    ({ st with cfg := mutateSet st.cfg (st.ref h) (decStr x) }, "ok")
  | ["c.readd", h] => (st, "ok\t" ++ encPyDict (st.cfg.dictOf (st.ref h)))
  | ["c.reads", h] =>
    (st, "ok\t" ++ " ".intercalate (((lookup (st.ref h) st.cfg.sets).getD []).map encStr))
  | ["alphabet"] => (st, "ok\t" ++ " ".intercalate ((robustAlphabet st.table.entries).map encStr))
  | ["validkey", k] => (st, s!"ok\t{validKey (decStr k)}")
  | ["s2e", s, vocab, pad, et] =>
    (st, encPy encEncoded (selfiesToEncoding (decStr s) (decVocabStoi vocab) pad.toInt! (decEncType et)))
  | ["e2s", et, labels, rows, vocab] =>
    (st, encPy encStr (encodingToSelfies (decIntList labels) (decIntRows rows) (decVocabItos vocab) (decEncType et)))
  | ["l2s", labels, vocab] => (st, encPy encStr (labelToSelfies (decIntList labels) (decVocabItos vocab)))
  | ["h2s", rows, vocab] => (st, encPy encStr (oneHotToSelfies (decIntRows rows) (decVocabItos vocab)))
  | "bs2f" :: vocab :: pad :: batch =>
    (st, encPy (fun (rows : List (List Nat)) => ";".intercalate (rows.map fun r => ",".intercalate (r.map toString)))
      (batchSelfiesToFlatHot (batch.map decStr) (decVocabStoi vocab) pad.toInt!))
  | ["bf2s", rows, vocab] =>
    (st, encPy (fun (l : List Str) => " ".intercalate (l.map encStr)) (batchFlatHotToSelfies (decIntRows rows) (decVocabItos vocab)))
  | ["split", s] =>
    let (items, bad) := splitSelfies (decStr s)
    (st, (if bad then "err\tValueError\t" else "ok\t") ++ " ".intercalate (items.map encStr))
  | ["len", s] => (st, s!"ok\t{lenSelfies (decStr s)}")
  | "alph" :: strs =>
    match alphabetFromSelfies (strs.map decStr) with
    | some a => (st, "ok\t" ++ " ".intercalate (a.map encStr))
    | none => (st, "err\tValueError")
  | "idx" :: syms =>
    (st, s!"ok\t{getIndexFromSelfies (syms.map fun s => if s == "N" then none else some (decStr s))}")
  | ["sfi", n] =>
    (st, encPy (fun l => " ".intercalate (l.map encStr)) (getSelfiesFromIndex n.toInt!))
  | ["atom", s] =>
    match processAtomSelfiesNoCache (decStr s) with
    | none => (st, "ok\tN")
    | some ((o, sc), a) => (st, s!"ok\t{o}\t{encOptChar sc}\t{encAtom a}")
  | ["patom", s] =>
    match processAtomSymbol st.table (decStr s) with
    | none => (st, "ok\tN")
    | some ((o, sc), a) => (st, s!"ok\t{o}\t{encOptChar sc}\t{encAtom a}\t{a.bondingCapacity st.table}")
  | ["s2a", s] =>
    match smilesToAtom (decStr s) with
    | none => (st, "ok\tN")
    | some a =>
      (st, s!"ok\t{encAtom a}\t" ++ (if a.isAromatic then "arom" else
        encPy encStr (atomToSmiles a true) ++ "\t" ++ encPy encStr (atomToSmiles a false)))
  | ["mod", s] => (st, encPy encStr (modernizeSymbol (decStr s)))
  | ["br", s] =>
    (st, match processBranchSymbol (decStr s) with | none => "ok\tN" | some (a, b) => s!"ok\t{a}\t{b}")
  | ["rg", s] =>
    (st, match processRingSymbol (decStr s) with
      | none => "ok\tN" | some (a, b, (l, r)) => s!"ok\t{a}\t{b}\t{encOptChar l}\t{encOptChar r}")
  | ["nas", a, b, c] =>
    let r := nextAtomState a.toNat! b.toNat! c.toNat!
    (st, s!"ok\t{r.1}\t{encOptNat r.2}")
  | ["nbs", a, b] =>
    (st, encPy (fun (r : Nat × Nat) => s!"{r.1}\t{r.2}") (nextBranchState a.toNat! b.toNat!))
  | ["nrs", a, b] =>
    (st, encPy (fun (r : Nat × Option Nat) => s!"{r.1}\t{encOptNat r.2}") (nextRingState a.toNat! b.toNat!))
  | _ => (st, "bad-op")

partial def loop (h : IO.FS.Stream) (out : IO.FS.Stream) (st : St) : IO Unit := do
  let line ← h.getLine
  if line.isEmpty then return ()
  let line := (line.dropEndWhile (fun c => c == '\n' || c == '\r')).toString
  let (st', reply) := handle st (line.splitOn "\t")
  out.putStrLn reply
  loop h out st'

def main : IO Unit := do
  let stdin ← IO.getStdin
  let stdout ← IO.getStdout
  loop stdin stdout {}

end SV.Driver
