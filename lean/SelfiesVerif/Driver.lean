import SelfiesVerif.Model.Decoder
import SelfiesVerif.Model.Encoder

namespace SV.Driver
open SV

def hexVal (c : Char) : Nat :=
  if '0' ≤ c && c ≤ '9' then c.toNat - 48
  else if 'a' ≤ c && c ≤ 'f' then c.toNat - 87
  else if 'A' ≤ c && c ≤ 'F' then c.toNat - 55 else 0

def parseHex (s : String) : Nat := s.toList.foldl (fun a c => a * 16 + hexVal c) 0

/-- `x5b,43,5d` → `[C]` -/
def decStr (s : String) : Str :=
  let body := (s.drop 1).toString
  if body.isEmpty then [] else (body.splitOn ",").map fun h => Char.ofNat (parseHex h)

def hexDigits (n : Nat) : String := String.ofList (Nat.toDigits 16 n)

def encStr (s : Str) : String :=
  "x" ++ ",".intercalate (s.map fun c => hexDigits c.toNat)

def encOptStr : Option Str → String
  | none => "N"
  | some s => encStr s

def encOptNat : Option Nat → String
  | none => "N"
  | some n => toString n

def encOptChar : Option Char → String
  | none => "N"
  | some c => encStr [c]

def encAtom (a : Atom) : String :=
  s!"{encStr a.element}|{a.isAromatic}|{encOptNat a.isotope}|{encOptStr a.chirality}|{encOptNat a.hCount}|{a.charge}"

def encPy {α} (f : α → String) : Py α → String
  | .ok v => "ok\t" ++ f v
  | .error e => "err\t" ++ e.name

/-- `k1=v1;k2=v2` with keys as encoded strings -/
def decDict (s : String) : Constraints :=
  if s.isEmpty || s == "-" then [] else
  (s.splitOn ";").filterMap fun kv =>
    match kv.splitOn "=" with
    | [k, v] => some (decStr k, v.toNat!)
    | _ => none

def encAttr (a : Option (List Attribution)) : String :=
  match a with
  | none => "N"
  | some l => "[" ++ ";".intercalate (l.map fun x => s!"{x.index}:{encStr x.token}") ++ "]"

def encMaps (ms : List AttributionMap) : String :=
  "|".intercalate (ms.map fun m => s!"{m.index}~{encStr m.token}~{encAttr m.attribution}")

def encBond (b : DirBond) : String :=
  s!"{b.src}>{b.dst}:{b.order}:{encOptChar b.stereo}:{if b.ring then 1 else 0}"

def encMol (m : Mol) : String :=
  let atoms := ";".intercalate (m.atoms.map encAtom)
  let adj := ";".intercalate (m.adj.map fun out => ",".intercalate (out.map encBond))
  s!"atoms={atoms}\troots={m.roots}\tadj={adj}\tcounts={m.counts}"

def encPBond (ob : Option PBond) : String :=
  match ob with
  | none => "P"
  | some b => s!"{b.src}>{b.dst}:{b.order2}:{encOptChar b.stereo}:{if b.ring then 1 else 0}"

def encPMol (m : PMol) : String :=
  let atoms := ";".intercalate (m.atoms.map encAtom)
  let adj := ";".intercalate (m.adj.map fun out => ",".intercalate (out.map encPBond))
  let ds := ";".intercalate (m.ds.map fun (k, v) => s!"{k}:{v}")
  s!"atoms={atoms}\troots={m.roots}\tadj={adj}\tcounts2={m.counts2}\tflags={m.ringFlags}\tds={ds}"

def decNatList (s : String) : List Nat :=
  if s.isEmpty || s == "-" then [] else (s.splitOn ",").map String.toNat!

def decGraph (s : String) : Graph :=
  if s == "-" then [] else (s.splitOn ";").map decNatList

def encMatching (m : Option Matching) : String :=
  match m with
  | none => "N"
  | some l => ",".intercalate (l.map encOptNat)

def encTok (t : SmilesTok) : String :=
  let k := match t.kind with | .atom => "A" | .branch => "B" | .ring => "R" | .dot => "D"
  s!"{k}{encOptChar t.bondChar}{encStr t.text}"

structure St where
  table : Table := (Table.ofDict Gen.initialConstraints).getD { entries := [], dflt := 0 }

def handle (st : St) (fields : List String) : St × String :=
  match fields with
  | ["T", d] =>
    match Table.ofDict (decDict d) with
    | some t => ({ st with table := t }, "ok")
    | none => (st, "err\tKeyError")
  | ["dec", flags, s] =>
    let compat := flags.contains 'c'
    let attrib := flags.contains 'a'
    let r := decoderFull st.table (decStr s) compat attrib
    (st, encPy (fun (p : Str × List AttributionMap) =>
      if attrib then encStr p.1 ++ "\t" ++ encMaps p.2 else encStr p.1) r)
  | ["decg", flags, s] =>
    (st, encPy encMol (decodeGraph st.table (decStr s) (flags.contains 'c') false))
  | ["enc", flags, tape, s] =>
    let strict := flags.contains 's'
    let attrib := flags.contains 'a'
    let r := encoderFull st.table (decStr s) strict attrib (decNatList tape)
    (st, encPy (fun (p : Str × List AttributionMap) =>
      if attrib then encStr p.1 ++ "\t" ++ encMaps p.2 else encStr p.1) r)
  | ["parse", s] => (st, encPy encPMol (smilesToMol (decStr s) false))
  | ["kek", tape, s] =>
    (st, encPy (fun (o : Option PMol) => match o with | none => "N" | some m => encPMol m)
      (do let m ← smilesToMol (decStr s) false; m.kekulize (decNatList tape)))
  | ["tok", s] =>
    (st, match tokenizeSmiles ((decStr s).length + 1) (decStr s) with
      | none => "err\tSMILESParserError"
      | some l => "ok\t" ++ " ".intercalate (l.map encTok))
  | ["pm", g, tape] => (st, encPy encMatching (findPerfectMatching (decGraph g) (decNatList tape)))
  | ["greedy", g] => (st, encPy (fun m => encMatching (some m)) (greedyMatching (decGraph g)))
  | ["split", s] =>
    let (items, bad) := splitSelfies (decStr s)
    (st, (if bad then "err\tValueError\t" else "ok\t") ++ " ".intercalate (items.map encStr))
  | ["len", s] => (st, s!"ok\t{lenSelfies (decStr s)}")
  | "alph" :: strs =>
    match alphabetFromSelfies (strs.map decStr) with
    | some a => (st, "ok\t" ++ " ".intercalate (a.map encStr))
    | none => (st, "err\tValueError")
  | "idx" :: syms =>
    (st, s!"ok\t{getIndexFromSelfies (syms.map fun s => if s == "N" then none else some (decStr s))}")
  | ["sfi", n] =>
    (st, encPy (fun l => " ".intercalate (l.map encStr)) (getSelfiesFromIndex n.toInt!))
  | ["atom", s] =>
    match processAtomSelfiesNoCache (decStr s) with
    | none => (st, "ok\tN")
    | some ((o, sc), a) => (st, s!"ok\t{o}\t{encOptChar sc}\t{encAtom a}")
  | ["patom", s] =>
    match processAtomSymbol st.table (decStr s) with
    | none => (st, "ok\tN")
    | some ((o, sc), a) => (st, s!"ok\t{o}\t{encOptChar sc}\t{encAtom a}\t{a.bondingCapacity st.table}")
  | ["s2a", s] =>
    match smilesToAtom (decStr s) with
    | none => (st, "ok\tN")
    | some a =>
      (st, s!"ok\t{encAtom a}\t" ++ (if a.isAromatic then "arom" else
        encPy encStr (atomToSmiles a true) ++ "\t" ++ encPy encStr (atomToSmiles a false)))
  | ["mod", s] => (st, encPy encStr (modernizeSymbol (decStr s)))
  | ["br", s] =>
    (st, match processBranchSymbol (decStr s) with | none => "ok\tN" | some (a, b) => s!"ok\t{a}\t{b}")
  | ["rg", s] =>
    (st, match processRingSymbol (decStr s) with
      | none => "ok\tN" | some (a, b, (l, r)) => s!"ok\t{a}\t{b}\t{encOptChar l}\t{encOptChar r}")
  | ["nas", a, b, c] =>
    let r := nextAtomState a.toNat! b.toNat! c.toNat!
    (st, s!"ok\t{r.1}\t{encOptNat r.2}")
  | ["nbs", a, b] =>
    (st, encPy (fun (r : Nat × Nat) => s!"{r.1}\t{r.2}") (nextBranchState a.toNat! b.toNat!))
  | ["nrs", a, b] =>
    (st, encPy (fun (r : Nat × Option Nat) => s!"{r.1}\t{encOptNat r.2}") (nextRingState a.toNat! b.toNat!))
  | _ => (st, "bad-op")

partial def loop (h : IO.FS.Stream) (out : IO.FS.Stream) (st : St) : IO Unit := do
  let line ← h.getLine
  if line.isEmpty then return ()
  let line := (line.dropEndWhile (fun c => c == '\n' || c == '\r')).toString
  let (st', reply) := handle st (line.splitOn "\t")
  out.putStrLn reply
  loop h out st'

def main : IO Unit := do
  let stdin ← IO.getStdin
  let stdout ← IO.getStdout
  loop stdin stdout {}

end SV.Driver
