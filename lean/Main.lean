/-
  Line-protocol driver for the executable model (tie b).  One request per line, fields
  separated by TAB; strings are sent as `x` followed by comma-separated hexadecimal code points.
  One reply line per request.  No Mathlib below this file.
-/
import SelfiesVerif.Driver

def main : IO Unit := SV.Driver.main
