#!/bin/bash
# confirm a seeded change in a fresh scratch worktree and file it under /verif/seeded/<id>/
# usage: confirm_seeded.sh <dir with patch.diff demo.py notes.md> <id> <property> "<needs>"
src=$1; id=$2; prop=$3; needs=$4
set -u
w=/tmp/confirm_$id
git -C /repo worktree remove --force $w >/dev/null 2>&1
git -C /repo worktree add -q $w HEAD || exit 2
cp $src/demo.py $w/demo.py
cd $w
PYTHONPATH=$w timeout 600 /venv/bin/python demo.py > $w/demo_without.log 2>&1; rc0=$?
git apply $src/patch.diff || { echo "patch does not apply"; cd /; git -C /repo worktree remove --force $w; exit 2; }
PYTHONPATH=$w timeout 600 /venv/bin/python demo.py > $w/demo_with.log 2>&1; rc1=$?
PYTHONPATH=$w timeout 1800 /venv/bin/python -m pytest -q -p no:cacheprovider --timeout=900 2>&1 | tail -6 > $w/suite.log
suite=$(tail -1 $w/suite.log)
failed=$(grep -c "^FAILED" $w/suite.log)
extra=$(grep "^FAILED" $w/suite.log | grep -v "test_path1\]\|test_path6\]" | tr '\n' ';')
mkdir -p /verif/seeded/$id
cp $src/patch.diff /verif/seeded/$id/patch.diff
cp $src/demo.py /verif/seeded/$id/demo.py
[ -f $src/notes.md ] && cp $src/notes.md /verif/seeded/$id/notes.md
/venv/bin/python - "$id" "$prop" "$needs" "$rc0" "$rc1" "$suite" "$extra" <<'PY'
import json, sys
id_, prop, needs, rc0, rc1, suite, extra = sys.argv[1:8]
meta = {"id": id_, "property": prop, "needs_to_manifest": needs,
        "confirmed": {"demo_exit_without_change": int(rc0), "demo_exit_with_change": int(rc1),
                      "suite_with_change": suite, "suite_failures_other_than_the_two_empty_datasets": extra,
                      "how": "fresh scratch worktree of /repo HEAD; PYTHONPATH=<worktree> /venv/bin/python demo.py without and with `git apply patch.diff`; full pytest suite with the change"}}
json.dump(meta, open("/verif/seeded/%s/meta.json" % id_, "w"), indent=1)
print(json.dumps(meta["confirmed"]))
PY
cd /; git -C /repo worktree remove --force $w
