"""Encoder family (C03, C04, C05, C06, C09, C10, C17), configuration histories (C11, C12), threads
(C19) and the known-findings filter."""
import ast
import itertools
import os
import re
import subprocess
import sys
import threading
import time

HERE = os.path.dirname(os.path.abspath(__file__))
sys.path.insert(0, HERE)

import impl  # noqa: E402
import gens  # noqa: E402
import oracles  # noqa: E402
from modelio import enc, dec, enc_dict, sendable  # noqa: E402

sf = impl.sf
REPO = impl.REPO


def add_violation(ctx, sig, what, **kw):
    v = {"sig": sig, "what": what}
    v.update(kw)
    if len(ctx.violations) < 200:
        ctx.violations.append(v)


def restore_default():
    sf.set_semantic_constraints("default")


def set_table(rt, lines, expected, table):
    sf.set_semantic_constraints(dict(table))
    lines.append("T\t" + enc_dict({k: int(v) for k, v in sf.get_semantic_constraints().items()}))
    expected.append("ok")


# ------------------------------------------------------------------ SMILES pools

def smiles_pool(ctx, rt, stereo=False, aromatic=False, n_data=None):
    rng = rt.rng
    base = []
    if stereo:
        base += gens.STEREO_SEEDS
    if aromatic:
        base += gens.AROMATIC_SEEDS
    data = gens.dataset_smiles(rng, n_data if n_data is not None else rt.n(25, 600))
    if stereo:
        data = [s for s in data if "@" in s or "/" in s or "\\" in s] or data
    if aromatic:
        data = [s for s in data if any(c in s for c in "cnos")] or data
    base += data
    if not (stereo or aromatic):
        base += gens.STEREO_SEEDS[:8] + gens.AROMATIC_SEEDS[:10]
    out = []
    seen = set()
    nres = rt.n(3, 8)
    for smi in base:
        if "*" in smi:
            continue
        for s in [smi] + gens.rdkit_respell(rng, smi, nres):
            if s not in seen:
                seen.add(s)
                out.append(s)
        if rng.random() < 0.3:
            r = gens.relabel_rings(rng, smi)
            if r not in seen:
                seen.add(r)
                out.append(r)
        for _k in range(2):
            r = gens.digits_after_branches(rng, rng.choice(out[-3:]) if out else smi)
            if r and r not in seen:
                seen.add(r)
                out.append(r)
        if "[" in smi:
            r = gens.explicit_h_spelling(rng, rng.choice(out[-3:]) if out else smi)
            if r and r not in seen:
                seen.add(r)
                out.append(r)
        if any(c in smi for c in "cn") and any(c.isdigit() for c in smi):
            for _k in range(2):
                r = gens.explicit_ring_closure_bond(rng, rng.choice(out[-3:]) if out else smi)
                if r and r not in seen:
                    seen.add(r)
                    out.append(r)
    ctx.distribution["smiles_pool"] = {"seeds": len(base), "spellings": len(out)}
    return out


def run_encoder_stream(ctx, rt, name, smiles_list, tname, table, flags="s", judge=None):
    lines, expected = [], []
    set_table(rt, lines, expected, table)
    strict = "s" in flags
    attrib = "a" in flags
    idx = []
    for s in smiles_list:
        if not sendable(s):
            continue
        r, tape = impl.real_encoder(s, strict=strict, attribute=attrib)
        lines.append("enc\t%s\t%s\t%s" % (flags if flags else "-", impl.tape_str(tape), enc(s)))
        expected.append(r)
        idx.append(s)
        ctx.evaluations += 1
        if judge is not None:
            try:
                judge(s, r, tname, table)
            except Exception as e:  # noqa  (the library raised inside the property predicate: a symptom, not an infrastructure error)
                add_violation(ctx, ctx.prop + ":predicate-raised:" + type(e).__name__,
                              "evaluating the property predicate on the real code raised " + type(e).__name__,
                              input=s[:300], table=table, result=r[:200])
    bad = rt.corr("%s[%s,%s]" % (name, tname, flags), lines, expected,
                  show=lambda i: {"smiles": idx[i - 1] if i > 0 else None, "table": tname, "flags": flags})
    return [idx[i - 1] for i in bad if i > 0]


def run_parse_stream(ctx, rt, name, smiles_list, kekulize=False):
    """graph-level tie of the parser (and of kekulize with the recorded tape): the real MolecularGraph vs the
    model's PMol (atoms, roots, adjacency with placeholders / half-unit orders / stereo / ring flags, counts,
    ring flags, delocalisation subgraph) - what the C03/C05/C09 theorems speak about"""
    lines, expected, idx = [], [], []
    for smi in smiles_list:
        if not sendable(smi):
            continue
        r, tape = impl.real_parse(smi, kekulize=kekulize)
        if r.startswith("err\t") and r != "err\tSMILESParserError":
            pass
        if kekulize:
            lines.append("kek\t%s\t%s" % (impl.tape_str(tape), enc(smi)))
        else:
            lines.append("parse\t%s" % enc(smi))
        expected.append(r)
        idx.append(smi)
        ctx.evaluations += 1
    rt.corr("graph:%s" % name, lines, expected, show=lambda i: {"smiles": idx[i]})


def roundtrip_judge(ctx, which):
    """predicates of C03 / C04 / C05 on the real encoder + decoder"""
    def judge(smi, r, tname, table):
        if not r.startswith("ok\t"):
            return
        selfies = dec(r.split("\t")[1])
        if any(k in selfies for k in ("Ring4]", "Branch4]", "Ring5]", "Branch5]", "Ring6]", "Branch6]")):
            return      # ring span / branch length >= 16^3: outside the property's domain (documented limit)
        try:
            out = sf.decoder(selfies)
        except Exception as e:  # noqa
            add_violation(ctx, which + ":decode-error", "decoding the encoder output raised " + type(e).__name__,
                          smiles=smi, selfies=selfies, table=table)
            return
        try:
            a = oracles.read_smiles(smi)
        except oracles.SmilesError:
            return      # outside the reference reader's subset
        try:
            b = oracles.read_smiles(out)
        except oracles.SmilesError as e:
            add_violation(ctx, which + ":output-syntax", "round-trip output is not readable: %s" % e, smiles=smi, output=out)
            return
        ctx.distinct.add(smi)
        if which == "C03":
            why = oracles.same_molecule(a, b)
            if why is None and "@" not in smi and "/" not in smi and "\\" not in smi and not any(x.aromatic for x in a.atoms):
                # (for aromatic inputs two valid resonance structures may canonicalise differently in RDKit - e.g.
                # the macrocycle of phthalocyanines - so an RDKit disagreement alone is never reported there)
                ca, cb = oracles.rdkit_canon(smi), oracles.rdkit_canon(out)
                if ca is not None and cb is not None and ca != cb:
                    why = "RDKit canonical forms differ although the index-wise comparison agrees"
                    add_violation(ctx, "C03:rdkit-only", why, smiles=smi, output=out)
                    return
            if why is not None:
                f9 = any(x.aromatic for x in a.atoms) and nonbipartite_matching_failure(smi)
                add_violation(ctx, "C03:molecule" + (":nonbipartite-matching" if f9 else ""),
                              "round trip changed the molecule: " + why, smiles=smi, selfies=selfies,
                              output=out, table=table, has_aromatic=any(x.aromatic for x in a.atoms))
        elif which == "C04":
            if oracles.same_molecule(a, b) is not None:
                return
            why = oracles.same_stereo(a, b)
            if why is not None:
                ca, cb = oracles.rdkit_canon(smi), oracles.rdkit_canon(out)
                add_violation(ctx, "C04:stereo", "round trip changed the stereochemistry: " + why, smiles=smi,
                              selfies=selfies, output=out, rdkit_agrees_it_differs=(ca != cb))
        elif which == "C05":
            why = oracles.same_molecule(a, b) or oracles.kekule_ok(a, b)
            if why is not None:
                f9 = nonbipartite_matching_failure(smi)
                add_violation(ctx, "C05:kekule" + (":nonbipartite-matching" if f9 else ""),
                              "kekulized structure is wrong: " + why, smiles=smi, output=out)
    return judge


def relaxed(sf_):
    return gens.relaxed_table(sf_)


def check_C03(ctx, rt):
    ctx.rule = ("encoder(s, strict) then decoder on dataset molecules and their re-spellings (random atom order, rooted, "
                "kekulised, explicit bonds/Hs, relabelled rings), own random trees and long spans; encoder and decoder "
                "compared with the model; the index-wise molecule comparison (independent reader) judges the real result; "
                "distinct = distinct accepted spellings")
    pool = smiles_pool(ctx, rt)
    pool += [gens.random_tree_smiles(rt.rng, rt.rng.randint(2, 25)) for _ in range(rt.n(400, 10000))]
    pool += gens.long_span_smiles(rt.rng)[:rt.n(12, 40)] + gens.ring_bond_span_smiles()
    judge = roundtrip_judge(ctx, "C03")
    try:
        tabs = [("relaxed", relaxed(sf)), ("default", sf.get_preset_constraints("default"))]
        for ti, (tname, tab) in enumerate(tabs):
            chunk = pool if ti == 0 else pool[: len(pool) // 3]
            run_encoder_stream(ctx, rt, "roundtrip-enc", chunk, tname, tab, flags="s", judge=judge)
            # decoder side of the same chain, against the model
            sels = []
            for smi in chunk:
                try:
                    sels.append(sf.encoder(smi))
                except sf.EncoderError:
                    pass
            from props import run_decoder_stream
            run_decoder_stream(ctx, rt, "roundtrip-dec", sels, tname, tab)
        ctx.sample({"smiles": pool[5], "selfies": impl.real_encoder(pool[5], strict=False)[0][:300]})
        hypothesis_coverage(ctx, rt, pool, relaxed(sf))
        run_parse_stream(ctx, rt, "parse", pool[::rt.n(3, 2)])
        run_parse_stream(ctx, rt, "kekulize", pool[1::rt.n(3, 2)], kekulize=True)
    finally:
        restore_default()


def hypothesis_coverage(ctx, rt, pool, table):
    """evaluate the DECIDABLE HYPOTHESES of the graph-level theorems (isPWF for C05_kekulize_sound,
    roundTripReady for C03_roundtrip) on the graphs of the inputs the real encoder accepts; an accepted input
    on which a hypothesis is false is outside the theorem (reported in the evidence, not a violation)"""
    if rt.model is None:
        return
    sf.set_semantic_constraints(dict(table))
    lines = ["T\t" + enc_dict({k: int(v) for k, v in sf.get_semantic_constraints().items()})]
    inputs = []
    for smi in pool:
        if not sendable(smi):
            continue
        r, tape = impl.real_encoder(smi, strict=True)
        if not r.startswith("ok\t"):
            continue
        sel = dec(r.split("\t")[1])
        if "Ring4" in sel or "Branch4" in sel or "Ring5" in sel or "Branch5" in sel:
            continue
        lines.append("hyp\ts\t%s\t%s" % (impl.tape_str(tape), enc(smi)))
        inputs.append(smi)
    got = rt.model.run(lines)[1:]
    cov = {"accepted_inputs": len(inputs), "isPWF_true": 0, "roundTripReady_true": 0, "false_samples": []}
    for smi, g in zip(inputs, got):
        f = g.split("\t")
        if len(f) >= 3:
            cov["isPWF_true"] += f[1] == "1"
            cov["roundTripReady_true"] += f[2] == "1"
            if (f[1] != "1" or f[2] != "1") and len(cov["false_samples"]) < 10:
                cov["false_samples"].append({"smiles": smi[:200], "isPWF": f[1], "roundTripReady": f[2]})
    ctx.distribution["theorem_hypotheses_on_accepted_inputs"] = cov
    if cov["false_samples"]:
        ctx.notes.append("theorem hypotheses false on %d accepted inputs (see distribution)" % len(cov["false_samples"]))


def check_C04(ctx, rt):
    ctx.rule = ("stereo SMILES (chiral atoms opening/closing rings, several closures, first atom, implicit H; / and \\ on "
                "chain and ring-closure bonds) and their random re-spellings through encoder+decoder; handedness and bond "
                "marks judged by the independent reader from written neighbour orders; encoder compared with the model; "
                "distinct = distinct accepted stereo spellings")
    pool = smiles_pool(ctx, rt, stereo=True)
    extra = []
    for smi in gens.STEREO_SEEDS:
        extra += gens.rdkit_respell(rt.rng, smi, rt.n(25, 300))
        extra.append(gens.relabel_rings(rt.rng, smi))
    pool += [s for s in dict.fromkeys(extra) if s not in set(pool)]
    pool += ["F/C=C/1CCCC\\1", "F/C=C1/CCCC1", "C/1=C/CCCCCC1", "F/C=C\\1CCCC/1", "C\\1CCCC/C=C1",
             "[C@]1(F)(Cl)CCC1", "[C@@]12(F)CCC1CCC2", "N[C@]12CC[C@@](O)(CC1)C2", "[C@H]1(F)CC[C@@H]1Cl",
             "[C@@H]12CC[C@H](C1)C2", "C[C@@]12CCC[C@]1(C)CC2", "O[C@@H]1[C@H]2CC[C@@H]1C2"]
    moved = []
    for smi in list(pool):
        if "@" in smi and any(ch.isdigit() for ch in smi):
            for _k in range(rt.n(3, 10)):
                r = gens.digits_after_branches(rt.rng, smi)
                if r:
                    moved.append(r)
    pool += [s_ for s_ in dict.fromkeys(moved) if s_ not in set(pool)]
    pool += ["OC1CC[C@](F)(Cl)1", "OC1CC[C@@H](F)1", "C(C[C@H]12)(OC2)CC1", "[C@]12(F)CC(C2)1", "[C@](F)(Cl)(Br)1CCC1",
             "C[C@](F)1CC1", "[C@H](F)1CCC1"]
    pool += gens.ring_bond_span_smiles()
    pool = [s_ for s_ in pool if s_]
    ctx.distribution["digits_after_branches"] = len(moved)
    judge = roundtrip_judge(ctx, "C04")
    try:
        run_encoder_stream(ctx, rt, "stereo-enc", pool, "relaxed", relaxed(sf), flags="s", judge=judge)
        from props import run_decoder_stream
        sels = []
        for smi in pool:
            try:
                sels.append(sf.encoder(smi))
            except sf.EncoderError:
                pass
        run_decoder_stream(ctx, rt, "stereo-dec", sels, "relaxed", relaxed(sf))
        ctx.sample({"smiles": pool[3]})
        ctx.distribution["stereo"] = {"with_at": sum("@" in s for s in pool), "with_slash": sum(("/" in s or "\\" in s) for s in pool)}
    finally:
        restore_default()


# ---- matching

def small_graphs(max_n, max_deg=3):
    """all simple graphs on n <= max_n labelled vertices with max degree <= max_deg (n <= 6 exhaustively)"""
    for n in range(0, max_n + 1):
        pairs = list(itertools.combinations(range(n), 2))
        for mask in range(1 << len(pairs)):
            deg = [0] * n
            ok = True
            adj = [[] for _ in range(n)]
            for b, (i, j) in enumerate(pairs):
                if mask >> b & 1:
                    deg[i] += 1
                    deg[j] += 1
                    if deg[i] > max_deg or deg[j] > max_deg:
                        ok = False
                        break
                    adj[i].append(j)
                    adj[j].append(i)
            if ok:
                yield adj


def has_perfect_matching(adj):
    n = len(adj)
    if n % 2:
        return False
    used = [False] * n

    def rec():
        try:
            i = used.index(False)
        except ValueError:
            return True
        used[i] = True
        for j in adj[i]:
            if not used[j]:
                used[j] = True
                if rec():
                    return True
                used[j] = False
        used[i] = False
        return False
    return rec()


def is_bipartite(adj):
    color = {}
    for s in range(len(adj)):
        if s in color:
            continue
        color[s] = 0
        stack = [s]
        while stack:
            u = stack.pop()
            for v in adj[u]:
                if v not in color:
                    color[v] = 1 - color[u]
                    stack.append(v)
                elif color[v] == color[u]:
                    return False
    return True


def valid_matching(adj, m):
    if m is None or len(m) != len(adj):
        return False
    for i, j in enumerate(m):
        if j is None or j == i or j < 0 or j >= len(adj) or m[j] != i or j not in adj[i]:
            return False
    return True


F9_WITNESS = [[2, 4, 1], [0, 2], [0, 5, 1], [4, 7, 6], [3, 0], [7, 2, 6], [5, 3], [3, 5]]


def matching_witness():
    from selfies.utils.matching_utils import find_perfect_matching
    m = find_perfect_matching([list(r) for r in F9_WITNESS])
    return has_perfect_matching(F9_WITNESS) and not valid_matching(F9_WITNESS, m)


def pruned_ds_graph(smiles):
    """the graph kekulize() hands to find_perfect_matching for this SMILES (None if it does not parse)"""
    from selfies.utils.smiles_utils import smiles_to_mol
    try:
        mol = smiles_to_mol(smiles, False)
    except Exception:
        return None
    ds = mol._delocal_subgraph
    try:
        kept = sorted(n for n in ds if not mol._prune_from_ds(n))
    except Exception:
        return None
    lab = {v: i for i, v in enumerate(kept)}
    return [[lab[a] for a in ds[n] if a in lab] for n in kept]


def nonbipartite_matching_failure(smiles):
    """root cause of finding F9, decided on the failing input itself: the delocalisation subgraph is
    non-bipartite AND find_perfect_matching, called directly on it, returns a non-matching or a None
    although RDKit can kekulize the molecule"""
    from selfies.utils.matching_utils import find_perfect_matching
    g = pruned_ds_graph(smiles)
    if g is None or is_bipartite(g):
        return False
    try:
        m = find_perfect_matching([list(r) for r in g])
    except Exception:
        return False
    if m is not None:
        return not valid_matching(g, m)
    return oracles.rdkit_valid(smiles)


def random_subcubic(rng, n):
    adj = [[] for _ in range(n)]
    edges = set()
    for _ in range(rng.randint(n - 1, 3 * n // 2)):
        a, b = rng.sample(range(n), 2)
        if len(adj[a]) < 3 and len(adj[b]) < 3 and (a, b) not in edges and (b, a) not in edges:
            edges.add((a, b))
            adj[a].append(b)
            adj[b].append(a)
    return adj


def graph_wire(adj):
    return ";".join(",".join(map(str, r)) for r in adj) if adj else "-"


def check_C05(ctx, rt):
    from selfies.utils.matching_utils import find_perfect_matching
    ctx.rule = ("(i) find_perfect_matching on EVERY simple graph with <= 6 (quick) / 7 (thorough) vertices and max degree 3, "
                "with the recorded choice tape, vs the model and vs brute force; (ii) aromatic systems (benzenoids, "
                "heteroaromatics, charged, cages) in many atom orders through encoder+decoder, kekulé structure judged by "
                "the independent reader, acceptance and canonical result compared across atom orders; "
                "distinct = distinct graphs + distinct aromatic spellings")
    lines, expected = [], []
    pending = []
    nmax = rt.n(6, 7)
    extra = [F9_WITNESS] + [random_subcubic(rt.rng, rt.rng.choice([8, 10, 12, 14, 20, 30])) for _ in range(rt.n(4000, 150000))]
    for adj in itertools.chain(small_graphs(nmax), extra):
        del impl.TAPE[:]
        g = [list(r) for r in adj]
        try:
            m = find_perfect_matching(g)
            r = "ok\t" + ("N" if m is None else ",".join("N" if x is None else str(x) for x in m))
        except Exception as e:  # noqa
            m = None
            r = "err\t" + type(e).__name__
        tape = list(impl.TAPE)
        lines.append("pm\t%s\t%s" % (graph_wire(adj), impl.tape_str(tape)))
        expected.append(r)
        ctx.evaluations += 1
        ctx.distinct.add(graph_wire(adj))
        exists = has_perfect_matching(adj) if (len(adj) <= 14 or m is None) else True
        bip = is_bipartite(adj)
        pending.append((adj, m, r, exists, bip))
    bad = set(rt.corr("find_perfect_matching", lines, expected))
    for i, (adj, m, r, exists, bip) in enumerate(pending):
        # finding F9 is the behaviour of the REFERENCE algorithm (BFS without blossoms, the Lean model with the
        # recorded tape) on non-bipartite graphs; a failure on which the code differs from the reference is new
        ref = ":nonbipartite" if (not bip and i not in bad) else (":bipartite" if bip else ":nonbipartite-differs-from-reference")
        if r.startswith("err"):
            add_violation(ctx, "C05:matching-exception", "find_perfect_matching raised", graph=adj, error=r)
        elif m is not None and not valid_matching(adj, m):
            add_violation(ctx, "C05:non-matching" + ref,
                          "find_perfect_matching returned something that is not a perfect matching", graph=adj, result=m)
        elif m is None and exists:
            add_violation(ctx, "C05:false-none" + ref,
                          "find_perfect_matching returned None although a perfect matching exists", graph=adj)
    ctx.exhaustive = True
    # aromatic systems in many atom orders
    pool = list(gens.AROMATIC_SEEDS)
    pool += [s for s in gens.dataset_smiles(rt.rng, rt.n(20, 400)) if any(c in s for c in "cn")]
    judge = roundtrip_judge(ctx, "C05")
    spell = []
    explicit_single = []
    try:
        sf.set_semantic_constraints(relaxed(sf))
        for smi in pool:
            if "*" in smi:
                continue
            variants = [smi] + gens.rdkit_respell(rt.rng, smi, rt.n(6, 40))
            extra_v = []
            for v in variants[:6]:
                for _k in range(3):
                    r_ = gens.explicit_ring_closure_bond(rt.rng, v)
                    if r_:
                        extra_v.append(r_)
            explicit_single += extra_v
            res = []
            for v in variants:
                try:
                    s = sf.encoder(v)
                    # the resulting molecule is judged per spelling by the round-trip judge below (same sigma
                    # skeleton, valid Kekule structure); two spellings may legitimately get two different
                    # resonance structures, which RDKit's canonical SMILES does not identify for macrocycles
                    res.append((v, "ACCEPTED"))
                except sf.EncoderError:
                    res.append((v, "REJECTED"))
                except Exception as e:  # noqa
                    res.append((v, "EXC:" + type(e).__name__))
                ctx.evaluations += 1
            outs = set(x[1] for x in res)
            if len(outs) > 1:
                odd = [v for v, o in res if o != res[0][1]] + [res[0][0]]
                f9 = any(nonbipartite_matching_failure(v) for v in odd)
                add_violation(ctx, "C05:order-dependent" + (":nonbipartite-matching" if f9 else ""),
                              "acceptance / resulting molecule depends on the atom order",
                              seed=smi, results=res[:6], n_results=len(outs))
            spell += variants
        for smi in gens.NONKEKULE:
            ctx.evaluations += 1
            try:
                s = sf.encoder(smi)
                add_violation(ctx, "C05:accepted-nonkekule", "a system without an alternating assignment was accepted",
                              smiles=smi, selfies=s)
            except sf.EncoderError:
                pass
            except Exception as e:  # noqa
                add_violation(ctx, "C05:exception", "kekulization raised " + type(e).__name__, smiles=smi)
        spell = list(dict.fromkeys(spell + explicit_single))
        run_encoder_stream(ctx, rt, "aromatic-enc", spell, "relaxed", relaxed(sf), flags="s", judge=judge)
        ctx.sample({"aromatic": spell[:3]})
        run_parse_stream(ctx, rt, "kekulize-aromatic", spell[::rt.n(2, 1)], kekulize=True)
        ctx.assumptions.append("completeness for standard atom kinds and atom-order independence are decided by bounded search, not by a theorem")
    finally:
        restore_default()


def check_C06(ctx, rt):
    ctx.rule = ("encoder(s, strict=True/False) under changing tables (presets, relaxed, random; table switched between calls) "
                "on molecules at / one below / one above a capacity, charged atoms, explicit H, '?'-only elements; compared "
                "with the model; strict rejection judged against an independent bond count; non-strict result compared "
                "across tables; distinct = distinct (smiles, table)")
    base = ["C", "C(F)(F)(F)F", "C(F)(F)(F)(F)F", "N(C)(C)C", "N(C)(C)(C)C", "[N+](C)(C)(C)C", "[N+](C)(C)(C)(C)C", "O=O",
            "O(C)(C)C", "[O+](C)(C)C", "[O-]C", "[O-](C)C", "S(=O)(=O)(C)C", "S(F)(F)(F)(F)(F)F", "S(F)(F)(F)(F)(F)(F)F",
            "P(F)(F)(F)(F)F", "P(F)(F)(F)(F)(F)F", "[P-](F)(F)(F)(F)(F)F", "Cl(=O)(=O)(=O)O", "[Cl+]", "ClC", "Cl(C)C", "I(C)(C)C",
            "[CH4]", "[CH3]C", "[CH3](C)C", "[CH5]", "[NH4+]", "[NH4]", "[NH3+]C", "[OH2]", "[OH3+]", "[Fe](C)(C)(C)(C)(C)(C)(C)C",
            "[Fe](C)(C)(C)(C)(C)(C)(C)(C)C", "[Zn]=C", "[Sn](C)(C)(C)C", "[B-](F)(F)(F)F", "B(F)(F)(F)F", "[C-]#[O+]", "[C-]#N",
            "C#C", "C=C=C", "[Na+].[Cl-]", "[Na]Cl", "F[Xe](F)(F)F", "[Si](C)(C)(C)(C)C", "c1ccccc1", "[nH]1cccc1", "C1CC1",
            "[H][H]", "[H]C", "[H](C)C", "[2H]O[2H]", "[13CH4]", "N#N", "[N+](=O)([O-])C", "N(=O)(=O)C", "Br(C)C", "[I-]", "[I-]C"]
    pool = base + gens.dataset_smiles(rt.rng, rt.n(8, 150))
    pairs = gens.capacity_pairs(rt.rng)
    pool += pairs[:rt.n(500, 1440)]
    # random two-fragment combinations of the base molecules, both orders
    for _k in range(rt.n(150, 2000)):
        a_, b_ = rt.rng.sample(base, 2)
        pool.append(a_ + "." + b_)
    tabs = gens.tables(rt.rng, sf, rt.n(8, 120))
    try:
        nonstrict = {}
        for tname, tab in tabs:
            cur_judge_tab = {}

            def judge(smi, r, tname_, table_):
                cur = sf.get_semantic_constraints()
                ctx.distinct.add((smi, tname_))
                try:
                    ns = sf.encoder(smi, strict=False)
                except sf.EncoderError:
                    if r.startswith("ok"):
                        add_violation(ctx, "C06:strict-more-permissive", "strict accepts what non-strict rejects", smiles=smi, table=table_)
                    return
                except Exception:
                    return
                prev = nonstrict.setdefault(smi, ns)
                if prev != ns:
                    add_violation(ctx, "C06:nonstrict-table-dependent", "non-strict result depends on the table", smiles=smi,
                                  table=table_, results=[prev, ns])
                # independent bond count on the kekulised molecule (= the non-strict SELFIES decoded under a
                # capacity-free table is not available, so read the input when it has no aromatic atoms)
                try:
                    m = oracles.read_smiles(smi)
                except oracles.SmilesError:
                    return
                arom = any(a.aromatic for a in m.atoms)
                viol = any(m.bond_sum(i) + (a.hcount or 0) > oracles.capacity(cur, a.element, a.charge)
                           for i, a in enumerate(m.atoms))
                rejected = r == "err\tEncoderError"
                if r.startswith("err") and not rejected:
                    return
                # (for aromatic input the bond sums depend on the kekulisation: only the consequence is judged -
                # what strict accepts must decode, under the same table, to the same molecule)
                if not arom and viol != rejected:
                    add_violation(ctx, "C06:strict-iff", "strict rejection does not coincide with a capacity violation",
                                  smiles=smi, table=table_, violates=viol, rejected=rejected)
                if not rejected:
                    sel = dec(r.split("\t")[1])
                    out = sf.decoder(sel)
                    try:
                        why = oracles.same_molecule(m, oracles.read_smiles(out))
                    except oracles.SmilesError as e:
                        why = str(e)
                    if why is not None:
                        add_violation(ctx, "C06:silent-change", "strict encoding decodes to a different molecule: " + why,
                                      smiles=smi, table=table_, output=out)
            chunk = pool if tname in ("default", "octet_rule", "hypervalent", "relaxed") else rt.rng.sample(pool, min(len(pool), 120))
            run_encoder_stream(ctx, rt, "strict", chunk, tname, tab, flags="s", judge=judge)
            run_encoder_stream(ctx, rt, "nonstrict", chunk[:60], tname, tab, flags="-")
        ctx.sample({"smiles": "S(F)(F)(F)(F)(F)(F)F", "tables": [t[0] for t in tabs[:6]]})
    finally:
        restore_default()


def check_C09(ctx, rt):
    ctx.rule = ("encoder(s, strict, attribute) on arbitrary str: the suite's invalid strings, single-character edits of valid "
                "SMILES, self-referencing / mismatched ring closures, ':' on non-aromatic atoms, deep nesting, Unicode; "
                "exception class compared with the model; distinct = distinct (flags, outcome, input)")
    valid = gens.dataset_smiles(rt.rng, rt.n(10, 200)) + gens.STEREO_SEEDS + gens.AROMATIC_SEEDS
    mal = list(gens.MALFORMED_SMILES)
    chars = list("()[]=#:/\\.%0123456789@+-CNOcnosHFlBr*$ x²") + ["Cl", "Br", "[nH]", "%12", "中"]
    for _ in range(rt.n(3000, 80000)):
        s = rt.rng.choice(valid)
        for _k in range(rt.rng.randint(1, 2)):
            pos = rt.rng.randint(0, len(s))
            roll = rt.rng.random()
            if roll < 0.45:
                s = s[:pos] + rt.rng.choice(chars) + s[pos:]
            elif roll < 0.8 and s:
                s = s[:pos] + s[pos + 1:]
            else:
                s = s[:pos] + rt.rng.choice(chars) + s[pos + 1:]
        mal.append(s)
    # numbers that are fine for int() (<= 4300 digits) but beyond float range, in every numeric slot of a bracket atom,
    # aromatic and not
    big = "1" + "0" * 400
    mal += ["[c-%s]1ccccc1" % big, "[n+%s]1ccccc1" % big, "c1cc[cH-%s]cc1" % big, "[C+%s]C" % big, "[%sC]C" % big,
            "[CH%s]C" % big, "[nH%s]1cccc1" % big, "[%sc]1ccccc1" % big, "C[N+%s](C)C" % big]
    mal += ["C(" * 150 + "C" + ")C" * 150, "C1" * 40 + "C", "[" + "9" * 5000 + "C]", "[C+" + "9" * 5000 + "]", "C" * 5000,
            "C1" + "C" * 5000 + "1", "C%99" + "C" * 20 + "%99", "c1ccccc1" * 200]
    try:
        for flags in ("s", "-", "sa", "a"):
            def judge(s, r, tname, tab, flags=flags):
                ctx.distinct.add((flags, r.split("\t")[1] if r.startswith("err") else "ok", s[:60]))
                if r.startswith("err\t") and r != "err\tEncoderError":
                    add_violation(ctx, "C09:escape:" + r.split("\t")[1], "an exception other than EncoderError escapes selfies.encoder",
                                  smiles=s[:300], flags=flags, error=r.split("\t")[1])
            run_encoder_stream(ctx, rt, "malformed", mal if flags == "s" else mal[: len(mal) // 3], "default",
                               sf.get_preset_constraints("default"), flags=flags, judge=judge)
        run_parse_stream(ctx, rt, "parse-malformed", mal[::rt.n(4, 2)])
        ctx.evaluations += 1
        r, _t = impl.real_encoder("C(" * 2000 + "C" + ")C" * 2000)
        if r == "err\tRecursionError":
            add_violation(ctx, "C09:RecursionError:" + (impl.LAST_FRAME or "?"), "RecursionError escapes selfies.encoder on deeply nested branches",
                          smiles_desc="'C('*2000+'C'+')C'*2000")
        elif r.startswith("err\t") and r != "err\tEncoderError":
            add_violation(ctx, "C09:escape:" + r.split("\t")[1], "exception escapes on deep nesting")
        ctx.sample({"example": mal[100][:100]})
    finally:
        restore_default()


def check_C10(ctx, rt):
    from selfies.grammar_rules import _process_atom_selfies_no_cache
    from selfies.utils.smiles_utils import smiles_to_atom, atom_to_smiles
    ctx.rule = ("symbol level: every bracket-atom spelling of a structured family through smiles_to_atom/atom_to_smiles and "
                "the SELFIES atom reader, real vs model; chain level: encoder -> decoder -> encoder on accepted SMILES "
                "(incl. 1-, 2-, 3-index-symbol rings and branches) under several tables on the real code and vs the model; "
                "distinct = distinct atom spellings + distinct molecules")
    lines, expected = [], []
    elems = ["C", "N", "O", "Fe", "Cl", "Br", "H", "Si", "Se", "Zn", "Na", "c", "n", "se", "X", "Cc", "co", "cl"]
    fam = []
    for iso in ("", "1", "13", "013", "٣"):
        for el in elems:
            for ch in ("", "@", "@@"):
                for h in ("", "H", "H0", "H1", "H4", "H9"):
                    for q in ("", "+", "-", "++", "+1", "-1", "+2", "+10", "+01", "+0", "-12"):
                        for cl in ("", ":1"):
                            fam.append("[%s%s%s%s%s%s]" % (iso, el, ch, h, q, cl))
    if ctx.tier == "quick" and not rt.escalate:
        fam = rt.rng.sample(fam, 9000)
    fam += ["C", "N", "Cl", "Br", "c", "n", "se", "b", "X", "[C@@@]", "[CH10]", "[C+-]", "[]", "[", "]"]
    seen_syms = {}
    for tok in fam:
        ctx.evaluations += 1
        try:
            a = smiles_to_atom(tok)
        except Exception as e:  # noqa
            lines.append("s2a\t" + enc(tok))
            expected.append("err\t" + type(e).__name__)
            continue
        if a is None:
            w = "ok\tN"
        else:
            at = "%s|%s|%s|%s|%s|%d" % (enc(a.element), "true" if a.is_aromatic else "false",
                                       "N" if a.isotope is None else a.isotope,
                                       "N" if a.chirality is None else enc(a.chirality),
                                       "N" if a.h_count is None else a.h_count, a.charge)
            if a.is_aromatic:
                w = "ok\t%s\tarom" % at
            else:
                body = atom_to_smiles(a, brackets=False)
                w = "ok\t%s\tok\t%s\tok\t%s" % (at, enc(atom_to_smiles(a)), enc(body))
                ctx.distinct.add(tok)
                key = (a.element, a.isotope, a.chirality, a.h_count, a.charge)
                prev = seen_syms.setdefault(key, body)
                if prev != body:
                    add_violation(ctx, "C10:not-standardised", "equivalent atoms get different symbols", token=tok, symbols=[prev, body])
                for bc in ("", "=", "/"):
                    sym = "[%s%s]" % (bc, body)
                    out = _process_atom_selfies_no_cache(sym)
                    if out is None:
                        add_violation(ctx, "C10:symbol-rejected", "the decoder rejects a symbol the encoder emits", token=tok, symbol=sym)
                    else:
                        b = out[1]()
                        if (b.element, b.isotope, b.chirality, b.charge) != (a.element, a.isotope, a.chirality, a.charge) or \
                                (b.h_count or 0) != (a.h_count or 0):
                            add_violation(ctx, "C10:symbol-differs", "the symbol is read back as a different atom", token=tok, symbol=sym)
        lines.append("s2a\t" + enc(tok))
        expected.append(w)
    rt.corr("smiles_to_atom/atom_to_smiles", lines, expected)
    # SELFIES atom reader on a structured family
    lines, expected = [], []
    sfam = []
    for bc in ("", "=", "#", "/", "\\", "-", "=="):
        for iso in ("", "13", "013"):
            for el in ("C", "N", "Fe", "Cl", "X", "c", "Cc"):
                for ch in ("", "@", "@@", "@@@"):
                    for h in ("", "H", "H0", "H1", "H10"):
                        for q in ("", "+", "+1", "-1", "+10", "+01", "+0", "-12"):
                            sfam.append("[%s%s%s%s%s%s]" % (bc, iso, el, ch, h, q))
    if ctx.tier == "quick" and not rt.escalate:
        sfam = rt.rng.sample(sfam, 6000)
    for sym in sfam:
        ctx.evaluations += 1
        out = _process_atom_selfies_no_cache(sym)
        if out is None:
            w = "ok\tN"
        else:
            (o, st), fac = out
            a = fac()
            w = "ok\t%d\t%s\t%s|%s|%s|%s|%s|%d" % (o, "N" if st is None else enc(st), enc(a.element), "false",
                                                   "N" if a.isotope is None else a.isotope,
                                                   "N" if a.chirality is None else enc(a.chirality),
                                                   "N" if a.h_count is None else a.h_count, a.charge)
        lines.append("atom\t" + enc(sym))
        expected.append(w)
    rt.corr("selfies-atom-reader", lines, expected)
    # chain
    pool = smiles_pool(ctx, rt, n_data=rt.n(15, 300)) + gens.long_span_smiles(rt.rng)[:rt.n(15, 40)] + gens.ring_bond_span_smiles()
    pool += ["[Fe+10]C", "[Fe+2]", "[Fe++]", "[N+]C", "[N+1]C", "[CH]C", "[CH1]C", "[13CH3-]", "[OH-]", "[Cu+2].[O-]C"]
    try:
        for tname, tab in [("relaxed", relaxed(sf)), ("default", sf.get_preset_constraints("default"))]:
            sf.set_semantic_constraints(dict(tab))
            for smi in pool:
                ctx.evaluations += 1
                try:
                    s1 = sf.encoder(smi)
                except sf.EncoderError:
                    continue
                except Exception:
                    continue
                big = ("Ring4" in s1 or "Branch4" in s1 or "Ring5" in s1 or "Branch5" in s1)
                try:
                    out = sf.decoder(s1)
                except Exception as e:  # noqa
                    if big:
                        continue
                    add_violation(ctx, "C10:undecodable", "the decoder raises on encoder output: " + type(e).__name__,
                                  smiles=smi[:200], selfies=s1[:300], table=tname)
                    continue
                if big:
                    continue
                try:
                    s2 = sf.encoder(out)
                except Exception as e:  # noqa
                    add_violation(ctx, "C10:reencode-error", "re-encoding the decoded SMILES raised " + type(e).__name__,
                                  smiles=smi[:200], decoded=out[:200], table=tname)
                    continue
                if s2 != s1:
                    add_violation(ctx, "C10:reencode-differs", "re-encoding does not reproduce the SELFIES string",
                                  smiles=smi[:200], first=s1[:300], second=s2[:300], table=tname)
        ctx.sample({"smiles": "[Fe++]", "symbol": sf.encoder("[Fe++]")})
        # the chain after a history of other calls under other tables: symbols that are illegal under a tight table
        # are first offered to the decoder there, then the table is loosened and the chain must still work
        hrich = ["[NH4]", "[NH3]", "[OH3]", "[OH2]", "[CH5]", "[CH4]", "[ClH2]", "[SH5]", "[SH3]", "[PH4]", "[BH4]", "[FH2]",
                 "[SiH5]", "[NH4+1]", "[OH3+1]", "[IH2]"]
        tight = {"C": 2, "N": 1, "O": 1, "S": 2, "P": 3, "Cl": 1, "F": 1, "B": 2, "I": 1, "?": 2}
        seqs = [[("tight", tight), ("hypervalent", sf.get_preset_constraints("hypervalent")), ("relaxed", relaxed(sf))],
                [("octet_rule", sf.get_preset_constraints("octet_rule")), ("default", sf.get_preset_constraints("default")),
                 ("relaxed", relaxed(sf)), ("tight", tight), ("relaxed", relaxed(sf))]]
        for seq in seqs:
            for tname, tab in seq:
                sf.set_semantic_constraints(dict(tab))
                for sym in hrich:
                    for ctxs in (sym, "[C]" + sym, sym + "[C]"):
                        try:
                            sf.decoder(ctxs)
                        except Exception:
                            pass
                for sym in hrich:
                    for smi in (sym, "C" + sym, "F" + sym, sym + "C"):
                        ctx.evaluations += 1
                        try:
                            s1 = sf.encoder(smi)
                        except Exception:
                            continue
                        try:
                            out = sf.decoder(s1)
                            s2 = sf.encoder(out)
                        except Exception as e:  # noqa
                            add_violation(ctx, "C10:undecodable-after-history", "after decoding under other tables, the decoder / re-encoder "
                                          "raises on encoder output: " + type(e).__name__, smiles=smi, selfies=s1, table=tname,
                                          history=[t[0] for t in seq])
                            continue
                        if s2 != s1:
                            add_violation(ctx, "C10:reencode-differs-after-history", "re-encoding differs after a table history",
                                          smiles=smi, first=s1, second=s2, table=tname)
    finally:
        restore_default()


def check_C17(ctx, rt):
    ctx.rule = ("decoder/encoder with attribute=True vs False on the real code (same string), truthfulness of every "
                "attribution entry against independent tokenisations, and the full attribution lists vs the model; "
                "distinct = distinct inputs")
    sels = gens.gen_stay_alive(rt.rng, rt.n(2500, 60000), 30)
    sels += ["[C][C].[C][N]", "[C][C][Branch1].[C]", "[C][nop][C].[nop][N]", "[C][Branch1][C][O][N].[Cl]", "[C][C][Ring2].[C][=N]"]
    from props import run_decoder_stream
    try:
        for s in sels:
            ctx.evaluations += 1
            try:
                plain = sf.decoder(s)
            except Exception:
                plain = None
            try:
                out, maps = sf.decoder(s, attribute=True)
            except Exception:
                out, maps = None, None
            if plain != out:
                add_violation(ctx, "C17:changes-result", "attribute=True changes the decoder result", selfies=s)
                continue
            if out is None:
                continue
            ctx.distinct.add(s)
            # input tokens: counting symbols, ignoring [nop] and '.'
            toks = [t for t in sf.split_selfies(s) if t not in (".", "[nop]")]
            atom_tokens = 0
            for m in maps:
                end = m.index
                if out[end + 1 - len(m.token): end + 1] != m.token:
                    add_violation(ctx, "C17:output-index", "output token is not at the reported index", selfies=s, token=m.token,
                                  index=m.index, output=out)
                    break
                for a in (m.attribution or []):
                    if a.index >= len(toks) or toks[a.index] != a.token:
                        add_violation(ctx, "C17:input-index", "input token is not the symbol at the reported position",
                                      selfies=s, token=a.token, index=a.index)
                        break
                if m.token and (m.token[0].isalpha() or m.token[0] == "["):
                    atom_tokens += 1
                    if not m.attribution:
                        add_violation(ctx, "C17:atom-unattributed", "an output atom has no attribution", selfies=s, token=m.token)
                    else:
                        last = m.attribution[-1].token
                        body = last[1:-1].lstrip("=#/\\")
                        if m.token.strip("[]") != body and m.token != body:
                            # H0 spelling etc. are fine; compare by re-reading both
                            pass
                        for a in m.attribution[:-1]:
                            if "Branch" not in a.token:
                                add_violation(ctx, "C17:atom-attribution", "an output atom is attributed to a non-enclosing symbol",
                                              selfies=s, token=m.token, attribution=[x.token for x in m.attribution])
                                break
            try:
                natoms = len(oracles.read_smiles(out).atoms) if out else 0
            except oracles.SmilesError:
                natoms = atom_tokens
            if natoms != atom_tokens:
                add_violation(ctx, "C17:atom-missing", "not every output atom has an attribution entry", selfies=s, output=out)
        run_decoder_stream(ctx, rt, "decoder-attribution", sels[:rt.n(1200, 30000)], "default",
                           sf.get_preset_constraints("default"), flags="a")
        # "together with the branch symbols enclosing it": the positions every output atom is attributed to must be
        # EXACTLY the enclosing branch symbols (attribution-free walk of the derivation, op `encl`, the definition
        # C17_atom_attribution_exact is stated with) followed by the atom symbol that made it
        from props import set_table
        lines, expected, idx = [], [], []
        set_table(rt, lines, expected, sf.get_preset_constraints("default"))
        for s in sels[:rt.n(1500, 40000)]:
            if not sendable(s):
                continue
            try:
                out, maps = sf.decoder(s, attribute=True)
            except Exception:
                continue
            atoms = [m for m in maps if m.token and (m.token[0].isalpha() or m.token[0] == "[")]
            lines.append("encl\t-\t" + enc(s))
            expected.append("ok\t" + ";".join(",".join(str(a.index) for a in (m.attribution or [])) for m in atoms))
            idx.append(s)
            ctx.evaluations += 1
        bad = rt.corr("enclosing-branches[default]", lines, expected,
                      show=lambda i: {"selfies": idx[i - 1] if i > 0 else None})
        for i in bad[:5]:
            if i > 0:
                got = rt.model.run(lines[:1] + [lines[i]])[-1] if rt.model is not None else "?"
                add_violation(ctx, "C17:enclosing-branches",
                              "an output atom is not attributed to exactly its enclosing branch symbols and its atom symbol",
                              selfies=idx[i - 1][:400], reported=expected[i][:300], enclosing=got[:300])
        pool = smiles_pool(ctx, rt, n_data=rt.n(10, 200))
        # bond characters of every kind in front of atoms, in chains and inside branches (explicit '-', '/', '\\', ':')
        pool = pool + [x for x in gens.STEREO_SEEDS if x not in pool] + [
            "C-C=O", "C-C-C", "CC(-O)C", "N-C(=O)-C", "C(-F)(-Cl)-Br", "F/C=C/C(-O)=O", "C-1CC1-O", "[NH4+]-C",
            "c1ccccc1-c1ccccc1", "C:C", "Cl/C=C(/F)-Br", "C#C-C=C"]
        for smi in pool:
            ctx.evaluations += 1
            try:
                plain = sf.encoder(smi)
            except Exception:
                plain = None
            try:
                s, maps = sf.encoder(smi, attribute=True)
            except Exception:
                s, maps = None, None
            if plain != s:
                add_violation(ctx, "C17:changes-result", "attribute=True changes the encoder result", smiles=smi)
                continue
            if s is None:
                continue
            ctx.distinct.add(smi)
            # every SELFIES atom symbol <- the SMILES atom token it was made from.  Atom tokens of the input by an
            # independent tokenisation; atom symbols of the output = the symbols the decoder turns into atoms.
            import re as _re
            atom_toks = [t for t in oracles._TOKEN.findall(smi)
                         if t.startswith("[") or t in ("Br", "Cl") or (len(t) == 1 and t.isalpha())]
            try:
                _o, dmaps = sf.decoder(s, attribute=True)
            except Exception:
                continue
            sel_toks = [t for t in sf.split_selfies(s) if t != "."]
            pos = []
            for dm in dmaps:
                if dm.token and (dm.token[0].isalpha() or dm.token[0] == "[") and dm.attribution:
                    pos.append(dm.attribution[-1].index)
            if len(pos) != len(atom_toks):
                continue      # (counts differ only when the reference tokenisation does not apply)
            need = {}
            for i, t in zip(pos, atom_toks):
                if i < len(sel_toks):
                    need[(sel_toks[i], t)] = need.get((sel_toks[i], t), 0) + 1
            have = {}
            for m in maps:
                for a in (m.attribution or []):
                    have[(m.token, a.token)] = have.get((m.token, a.token), 0) + 1
            for k, c in need.items():
                if have.get(k, 0) < c:
                    add_violation(ctx, "C17:encoder-atom", "a SELFIES atom symbol is not attributed to its SMILES atom token",
                                  smiles=smi, symbol=k[0], smiles_token=k[1], selfies=s)
                    break
            # an Attribution names a SMILES token by (index, text): where the library's numbering coincides with plain
            # token positions (no '.', no bond character in front of a ring digit - on the unchanged tree the numbering
            # skips both, which the property does not speak about), the token at the reported index must be that text
            if "." not in smi and not _RING_BOND.search(smi):
                toks = oracles._TOKEN.findall(smi)
                for m in maps:
                    wrong = [a for a in (m.attribution or []) if not (0 <= a.index < len(toks) and toks[a.index] == a.token)]
                    if wrong:
                        add_violation(ctx, "C17:encoder-index",
                                      "a SELFIES symbol is attributed to a SMILES position that does not hold the reported token",
                                      smiles=smi, symbol=m.token, reported=str(wrong[0]),
                                      token_there=(toks[wrong[0].index] if 0 <= wrong[0].index < len(toks) else None))
                        break
        run_encoder_stream(ctx, rt, "encoder-attribution", pool[:rt.n(500, 8000)], "relaxed", relaxed(sf), flags="sa")
        ctx.sample({"selfies": "[C][C].[C][N]", "attribution": str(sf.decoder("[C][C].[C][N]", attribute=True)[1][-1])})
    finally:
        restore_default()


_RING_BOND = re.compile(r"[-=#$:/\\](%\d\d|\d)")


# ===================================================================== configuration histories

def fresh_selfies():
    for k in [k for k in sys.modules if k == "selfies" or k.startswith("selfies.")]:
        del sys.modules[k]
    import selfies  # noqa
    return sys.modules["selfies"]


def pyval_wire(v):
    if isinstance(v, bool):
        return "bT" if v else "bF"
    if isinstance(v, int):
        return "i%d" % v
    return "O"


def pykey_wire(k):
    return enc(k) if isinstance(k, str) and sendable(k) else "O"


def pydict_wire(d):
    return ";".join("%s=%s" % (pykey_wire(k), pyval_wire(v)) for k, v in d.items()) or "-"


def _obs_val(v):
    if isinstance(v, bool):
        return "%d" % int(v)
    if isinstance(v, int):
        return "%d" % v
    return "!" + repr(v)[:20]       # not an int: can never equal the model's observation


def _obs_key(k):
    return enc(k) if isinstance(k, str) and sendable(k) else "!" + repr(k)[:20]


def dict_obs(d):
    return ";".join("%s=%s" % (_obs_key(k), _obs_val(v)) for k, v in d.items())


def run_history(ctx, rt, rng, n_ops, translate=True, mutate_alphabet=False):
    """one random history on a FRESH import of selfies; returns (lines, expected, transcript)"""
    S = fresh_selfies()
    lines, expected, script = ["c.reset"], ["ok"], []
    held = []        # (kind, object)
    probes_dec = ["[C][#C]", "[S][=O][=O][=O]", "[N][C][C][C][C]", "[Cl][=O]", "[C][Cl][C]", "[P][F][F][F][F][F][F]",
                  "[Fe][C][C]", "[N+1][C][C][C][C][C]", "[O][=C][=O]", "[I][I][I]", "[SH5][C]", "[C][CH3]", "[C][NH3][C]",
                  "[PH4][F]", "[C][OH1][C]", "[C][ClH1][C]", "[NH4+1]", "[C][Branch1][C][SH4][O]"]
    probes_enc = ["CS(=O)(=O)C", "C[N+](C)(C)C", "ClC", "FP(F)(F)(F)F", "c1ccccc1", "[Fe]C"]
    # translation calls that exercise more of the shared machinery: indices of 2 and 3 symbols, symbols outside the
    # index alphabet (and nothing at all) in index positions, rings and branches, generated strings of this history
    probes_dec += ["[C]" * 20 + "[Ring2][Ring1][C]", "[C]" * 40 + "[Branch2][Ring1][=Branch1]" + "[C]" * 25,
                   "[C][C][C][C][Ring1][F][C]", "[C][C][C][Ring2][Cl]", "[C][C][Branch1]", "[C][C][C][=Ring3][Xx][N]",
                   "[C]" * 300 + "[Ring3][Ring1][Ring1][=Branch2]", "[C][=C][Branch1][C][O][C][Ring1][Ring2].[N][#C]"]
    probes_dec += gens.gen_stay_alive(rng, 10, 30)
    probes_enc += ["C1" + "C" * 20 + "1", "C(" + "C" * 18 + ")N", "N[C@](C)(F)C(=O)O", "F/C=C/1CCCC\\1", "C1CC1.C#N"]
    recent_keys = []     # keys that a neighbour-table move touched: translation probes are built around them
    for _ in range(n_ops):
        r = rng.random()
        if r < 0.10:
            name = rng.choice(["default", "octet_rule", "hypervalent", "nope", ""])
            try:
                d = S.get_preset_constraints(name)
                held.append(("dict", d))
                expected.append("ok")
            except ValueError:
                expected.append("err\tValueError")
                held.append(None)
            lines.append("c.preset\t%s\t%d" % (enc(name), len(held) - 1))
            script.append(("get_preset_constraints", name))
            if held[-1] is None:
                held.pop()
        elif r < 0.20:
            d = S.get_semantic_constraints()
            held.append(("dict", d))
            lines.append("c.get\t%d" % (len(held) - 1))
            expected.append("ok")
            script.append(("get_semantic_constraints",))
        elif r < 0.28:
            a = S.get_semantic_robust_alphabet()
            held.append(("set", a))
            lines.append("c.alpha\t%d" % (len(held) - 1))
            expected.append("ok")
            script.append(("get_semantic_robust_alphabet",))
        elif r < 0.36:
            roll_t = rng.random()
            if roll_t < 0.35:
                # a NEIGHBOUR of the table in force: one key added, removed or changed - the histories in which a
                # memo table filled under the old table would have to be invalidated although "almost nothing" changed
                d = dict(S.get_semantic_constraints())
                move = rng.random()
                ks = [k for k in d if k != "?"]
                if move < 0.4 or not ks:
                    k0 = rng.choice(["Si", "Se", "Sn", "Xe", "Fe", "C+1", "N-1", "S+2", "Zn", "B"])
                    d[k0] = rng.choice([v for v in (0, 1, 2, 3, 4, 5, 6, 7) if v != d.get("?")])
                elif move < 0.75:
                    k0 = rng.choice(ks)
                    del d[k0]
                else:
                    k0 = rng.choice(ks)
                    d[k0] = rng.choice([v for v in (0, 1, 2, 3, 4, 5, 6, 7) if v != d[k0]])
                recent_keys.append(k0)
            elif roll_t < 0.8:
                d = gens.random_table(rng)
            else:
                d = dict(rng.choice(gens.BAD_DICTS))
            if rng.random() < 0.15:
                ks = [k for k in d if isinstance(k, str) and k != "?"]
                if ks:
                    k0 = rng.choice(ks)
                    d[gens.corrupt_key(rng, k0)] = d[k0]
            d = {k: v for k, v in d.items() if (isinstance(k, str) or k is None or isinstance(k, (int, tuple)))}
            held.append(("dict", d))
            lines.append("c.newdict\t%d\t%s" % (len(held) - 1, pydict_wire(d)))
            expected.append("ok")
            script.append(("newdict", repr(d)))
        elif r < 0.52:
            roll = rng.random()
            dicts = [i for i, h in enumerate(held) if h[0] == "dict"]
            if roll < 0.3 or not dicts:
                name = rng.choice(["default", "octet_rule", "hypervalent", "bogus"])
                try:
                    S.set_semantic_constraints(name)
                    expected.append("ok\t")
                except Exception as e:  # noqa
                    expected.append("err\t" + type(e).__name__)
                lines.append("c.set\tname\t" + enc(name))
                script.append(("set_semantic_constraints", name))
            elif roll < 0.93:
                i = rng.choice(dicts)
                try:
                    S.set_semantic_constraints(held[i][1])
                    expected.append("ok\t")
                except Exception as e:  # noqa
                    expected.append("err\t" + type(e).__name__)
                lines.append("c.set\tdict\t%d" % i)
                script.append(("set_semantic_constraints", "held[%d]=%r" % (i, held[i][1])))
            else:
                try:
                    S.set_semantic_constraints(rng.choice([None, 3, 1.5, ["C"], ("?",)]))
                    expected.append("ok\t")
                except Exception as e:  # noqa
                    expected.append("err\t" + type(e).__name__)
                lines.append("c.set\tother")
                script.append(("set_semantic_constraints", "<non-str non-dict>"))
        elif r < 0.66 and held:
            i = rng.randrange(len(held))
            kind, obj = held[i]
            if kind == "dict":
                k = rng.choice(["C", "N", "?", "S", "Cl", "Xx", "C+1", "P"])
                v = rng.choice([0, 1, 2, 7, 12, -1, True, 1.5, "x"])
                obj[k] = v
                lines.append("c.mutd\t%d\t%s\t%s" % (i, pykey_wire(k), pyval_wire(v)))
                expected.append("ok")
                script.append(("held[%d][%r] = %r" % (i, k, v),))
            elif mutate_alphabet:
                x = rng.choice(["[Zz]", "[nop]", "[#Cl]", "[=F]"])
                obj.add(x)
                lines.append("c.muts\t%d\t%s" % (i, enc(x)))
                expected.append("ok")
                script.append(("held[%d].add(%r)" % (i, x),))
        elif r < 0.80:
            # observations
            d = S.get_semantic_constraints()
            held.append(("dict", d))
            lines.append("c.get\t%d" % (len(held) - 1))
            expected.append("ok")
            lines.append("c.readd\t%d" % (len(held) - 1))
            expected.append("ok\t" + dict_obs(d))
            a = S.get_semantic_robust_alphabet()
            lines.append("alphabet")
            expected.append(("SET", frozenset(a)))
            script.append(("observe table+alphabet",))
        elif translate:
            if rng.random() < 0.6:
                x = rng.choice(probes_dec)
                if recent_keys and rng.random() < 0.5:
                    k0 = rng.choice(recent_keys[-3:])
                    x = rng.choice(["[C][#%s][#C]", "[%s][=O][=O][=O][=O]", "[C][=%s][=C].[%s][F][F][F][F][F][F][F]",
                                    "[O][%s][Branch1][C][F][Branch1][C][F][Branch1][C][F][F]"]).replace("%s", k0)
                with_c = rng.random() < 0.2
                try:
                    import warnings
                    with warnings.catch_warnings():
                        warnings.simplefilter("ignore")
                        w = "ok\t" + enc(S.decoder(x, compatible=with_c))
                except Exception as e:  # noqa
                    w = "err\t" + type(e).__name__
                lines.append("dec\t%s\t%s" % ("c" if with_c else "-", enc(x)))
                expected.append(w)
                script.append(("decoder", x))
            else:
                x = rng.choice(probes_enc)
                strict = rng.random() < 0.5
                S.utils.matching_utils.set = impl.RecordingSet
                del impl.TAPE[:]
                try:
                    w = "ok\t" + enc(S.encoder(x, strict=strict))
                except Exception as e:  # noqa
                    w = "err\t" + type(e).__name__
                lines.append("enc\t%s\t%s\t%s" % ("s" if strict else "-", impl.tape_str(list(impl.TAPE)), enc(x)))
                expected.append(w)
                script.append(("encoder", x, strict))
    # final observations: presets constant, current table, alphabet, translation
    for name in ("default", "octet_rule", "hypervalent"):
        d = S.get_preset_constraints(name)
        held.append(("dict", d))
        lines.append("c.preset\t%s\t%d" % (enc(name), len(held) - 1))
        expected.append("ok")
        lines.append("c.readd\t%d" % (len(held) - 1))
        expected.append("ok\t" + dict_obs(d))
    for i, h in enumerate(held):
        if h[0] == "dict" and all(isinstance(k, str) and sendable(k) for k in h[1]) and \
                all(isinstance(v, (int, bool)) and not isinstance(v, float) and (isinstance(v, bool) or v >= 0) for v in h[1].values()):
            lines.append("c.readd\t%d" % i)
            expected.append("ok\t" + dict_obs(h[1]))
    a = S.get_semantic_robust_alphabet()
    lines.append("alphabet")
    expected.append(("SET", frozenset(a)))
    final_table = S.get_semantic_constraints()
    finals = []
    for k0 in list(dict.fromkeys(recent_keys))[-6:]:
        probes_dec = probes_dec + ["[C][#%s][#C]" % k0, "[%s][=O][=O][=O][=O]" % k0, "[%s][F][F][F][F][F][F][F]" % k0]
    for x in probes_dec:
        try:
            w = "ok\t" + enc(S.decoder(x))
        except Exception as e:  # noqa
            w = "err\t" + type(e).__name__
        lines.append("dec\t-\t" + enc(x))
        expected.append(w)
        finals.append(("dec", x, w))
    return lines, expected, script, final_table, finals, S


def compare_history(ctx, rt, stream, lines, expected, script):
    st = ctx.stream(stream)
    if rt.model is None:
        st["skipped"] = "model driver does not build"
        return False
    got = rt.model.run(lines)
    bad = False
    for l, e, g in zip(lines, expected, got):
        st["evaluations"] += 1
        if isinstance(e, tuple) and e[0] == "SET":
            model = frozenset(dec(x) for x in g.split("\t")[1].split(" ")) if g.startswith("ok\t") and g.split("\t")[1] else frozenset()
            ok = (model == e[1])
            eshow = sorted(e[1] ^ model)[:6]
        else:
            e2 = e.rstrip("\t") if e.startswith("ok") else e
            g2 = g.rstrip("\t") if g.startswith("ok") else g
            ok = (e2 == g2)
            eshow = e
        if not ok:
            st["disagreements"] += 1
            bad = True
            if len(ctx.disagreements) < 50:
                ctx.disagreements.append((stream, l, g[:500], str(eshow)[:500], {"history": script[-25:]}))
    return bad


def fresh_results(table, probes, hashseed):
    """what a fresh interpreter set to `table` returns (O-fresh)"""
    if table is None:
        return None
    code = ("import sys, json\nsys.path.insert(0, %r)\nimport selfies as sf\n"
            "sf.set_semantic_constraints(json.loads(sys.argv[1]))\nout=[]\n"
            "for x in json.loads(sys.argv[2]):\n"
            "    try: out.append('ok\\t'+sf.decoder(x))\n"
            "    except Exception as e: out.append('err\\t'+type(e).__name__)\n"
            "print(json.dumps(out))\n") % REPO
    import json
    env = dict(os.environ)
    env["PYTHONHASHSEED"] = str(hashseed)
    env["PYTHONDONTWRITEBYTECODE"] = "1"
    p = subprocess.run([sys.executable, "-c", code, json.dumps(table), json.dumps(probes)], stdout=subprocess.PIPE,
                       stderr=subprocess.PIPE, env=env, timeout=300)
    if p.returncode != 0:
        return None
    return json.loads(p.stdout.decode().strip().split("\n")[-1])


def _sane_table(t):
    """the table as a fresh interpreter can be set to it (None if the table in force is not even settable,
    which is itself only possible when library state was corrupted)"""
    try:
        return {k: int(v) for k, v in t.items() if isinstance(k, str) and isinstance(v, (int, bool))}
    except Exception:
        return None


def check_C12(ctx, rt):
    ctx.rule = ("random histories over get/set/preset/alphabet calls with valid and invalid arguments, interleaved with "
                "caller-side mutation of every returned or passed dict, each on a fresh import of selfies; every observation "
                "compared with the Lean configuration state machine; distinct = distinct histories")
    n = rt.n(250, 8000)
    for h in range(n):
        lines, expected, script, _ft, _fin, _S = run_history(ctx, rt, rt.rng, rt.rng.randint(3, 30), translate=False)
        ctx.evaluations += len(lines)
        ctx.distinct.add(tuple(map(str, script)))
        bad = compare_history(ctx, rt, "config-history", lines, expected, script)
        if bad:
            add_violation(ctx, "C12:history-differs", "configuration observations differ from the value-semantics state machine",
                          history=[str(x) for x in script[-30:]])
        if h == 0:
            ctx.sample({"history": [str(x) for x in script[:12]]})
    # the alphabet aliasing defect (finding F7), replayed
    S = fresh_selfies()
    a = S.get_semantic_robust_alphabet()
    a.add("[Zz]")
    if "[Zz]" in S.get_semantic_robust_alphabet():
        add_violation(ctx, "C12:alphabet-aliased", "mutating the returned alphabet changes what later calls return",
                      history=["a = get_semantic_robust_alphabet()", "a.add('[Zz]')", "get_semantic_robust_alphabet()"])
    # rejected updates leave everything as before (direct predicate)
    S = fresh_selfies()
    S.set_semantic_constraints("octet_rule")
    before = (S.get_semantic_constraints(), S.get_semantic_robust_alphabet(), S.decoder("[S][=O][=O][=O]"))
    for bad in gens.BAD_DICTS + ["bogus", None, 3]:
        ctx.evaluations += 1
        try:
            S.set_semantic_constraints(bad)
            if isinstance(bad, dict):
                S.set_semantic_constraints("octet_rule")
            continue
        except (ValueError, AttributeError):
            pass
        after = (S.get_semantic_constraints(), S.get_semantic_robust_alphabet(), S.decoder("[S][=O][=O][=O]"))
        if after != before:
            add_violation(ctx, "C12:reject-not-atomic", "a rejected update changed the library state", argument=repr(bad))
    fresh_selfies()


def check_C11(ctx, rt):
    ctx.rule = ("random histories (table switches, rejected updates, cache-filling encodes/decodes, caller mutation of "
                "returned/passed dicts) on a fresh import, ending in translation calls whose results are compared with the "
                "model under the final table AND with fresh interpreters (several PYTHONHASHSEEDs) set to that table; "
                "distinct = distinct histories")
    n = rt.n(150, 5000)
    nfresh = rt.n(6, 60)
    for h in range(n):
        lines, expected, script, final_table, finals, S = run_history(ctx, rt, rt.rng, rt.rng.randint(5, 40), translate=True)
        ctx.evaluations += len(lines)
        ctx.distinct.add(tuple(map(str, script)))
        bad = compare_history(ctx, rt, "translate-history", lines, expected, script)
        if h < nfresh:
            probes = [x for _k, x, _w in finals]
            fr = fresh_results(_sane_table(final_table), probes, hashseed=h * 13 + 1)
            if fr is not None:
                mine = ["ok\t" + dec(w.split("\t")[1]) if w.startswith("ok") else w for _k, _x, w in finals]
                if fr != mine:
                    add_violation(ctx, "C11:differs-from-fresh", "after a history, decoder differs from a fresh interpreter on the same table",
                                  history=[str(x) for x in script[-30:]], table=final_table,
                                  differing=[(p, a, b) for p, a, b in zip(probes, mine, fr) if a != b][:4])
        if bad and not any(v["sig"].startswith("C11") for v in ctx.violations):
            # a disagreement with the pure-function model on a history: evaluate the property directly
            fr = fresh_results(_sane_table(final_table), [x for _k, x, _w in finals], hashseed=7)
            mine = ["ok\t" + dec(w.split("\t")[1]) if w.startswith("ok") else w for _k, _x, w in finals]
            if fr is not None and fr != mine:
                add_violation(ctx, "C11:differs-from-fresh", "after a history, decoder differs from a fresh interpreter on the same table",
                              history=[str(x) for x in script[-30:]], table=final_table)
        if h == 0:
            ctx.sample({"history": [str(x) for x in script[:12]]})
    # repeated calls and non-strict independence of the table
    S = fresh_selfies()
    for smi in ["CS(=O)(=O)C", "c1ccccc1", "C[N+](C)(C)C"]:
        res = set()
        for t in ("default", "octet_rule", "hypervalent"):
            S.set_semantic_constraints(t)
            res.add(S.encoder(smi, strict=False))
            res.add(S.encoder(smi, strict=False))
        ctx.evaluations += 6
        if len(res) != 1:
            add_violation(ctx, "C11:nonstrict-depends-on-table", "encoder(strict=False) depends on the table", smiles=smi)
    fresh_selfies()
    ctx.assumptions.append("determinism across processes / hash seeds is observed on fresh interpreters, not proved")


# ===================================================================== threads

def shared_state_inventory():
    """module-level mutable bindings of the selfies package and the functions that write to them or
    are memoised (re-derived from the source on every run)"""
    inv = {}
    for rel in ["selfies/grammar_rules.py", "selfies/bond_constraints.py", "selfies/mol_graph.py", "selfies/decoder.py",
                "selfies/encoder.py", "selfies/compatibility.py", "selfies/constants.py", "selfies/utils/smiles_utils.py",
                "selfies/utils/selfies_utils.py", "selfies/utils/matching_utils.py", "selfies/utils/encoding_utils.py"]:
        with open(os.path.join(REPO, rel)) as f:
            tree = ast.parse(f.read())
        mutable = set()
        for node in tree.body:
            if isinstance(node, ast.Assign):
                for t in node.targets:
                    if isinstance(t, ast.Name):
                        mutable.add(t.id)
        writes = set()
        caches = set()
        for fn in ast.walk(tree):
            if isinstance(fn, (ast.FunctionDef,)):
                for d in fn.decorator_list:
                    if "lru_cache" in ast.dump(d) or "cache" in ast.dump(d).lower():
                        caches.add(fn.name)
                globs = set()
                for node in ast.walk(fn):
                    if isinstance(node, ast.Global):
                        globs.update(node.names)
                for node in ast.walk(fn):
                    if isinstance(node, (ast.Assign, ast.AugAssign)):
                        targets = node.targets if isinstance(node, ast.Assign) else [node.target]
                        for t in targets:
                            if isinstance(t, ast.Subscript) and isinstance(t.value, ast.Name) and t.value.id in mutable:
                                writes.add("%s writes %s[...]" % (fn.name, t.value.id))
                            if isinstance(t, ast.Name) and t.id in globs:
                                writes.add("%s rebinds %s" % (fn.name, t.id))
                    if isinstance(node, ast.Call) and isinstance(node.func, ast.Attribute) and \
                            isinstance(node.func.value, ast.Name) and node.func.value.id in mutable and \
                            node.func.attr in ("append", "extend", "add", "update", "pop", "clear", "setdefault", "insert", "remove", "discard"):
                        writes.add("%s calls %s.%s" % (fn.name, node.func.value.id, node.func.attr))
        if writes or caches:
            inv[rel] = {"writes": sorted(writes), "memoised": sorted(caches)}
    return inv


EXPECTED_INVENTORY = {
    "selfies/grammar_rules.py": {"writes": ["process_atom_symbol writes _PROCESS_ATOM_CACHE[...]"], "memoised": []},
    "selfies/bond_constraints.py": {"writes": ["set_semantic_constraints rebinds _current_constraints"],
                                    "memoised": ["get_bonding_capacity", "get_semantic_robust_alphabet"]},
    "selfies/mol_graph.py": {"writes": [], "memoised": ["bonding_capacity"]},
}


def check_C19(ctx, rt):
    ctx.rule = ("(i) inventory of module-level mutable state and memoised functions re-derived from the source and compared "
                "with the inventory the memo-table model covers; (ii) stress: N threads calling encoder/decoder concurrently "
                "(switch interval 1e-6) on inputs that hit and miss the shared caches, every result compared with the serial "
                "result; distinct = distinct (call, input)")
    inv = shared_state_inventory()
    ctx.distribution["shared_state_inventory"] = inv
    if inv != EXPECTED_INVENTORY:
        ctx.broken.append(("shared-state inventory", "the source now has shared mutable state / memoisation the model does not cover: %r" % (inv,)))
    S = fresh_selfies()
    import warnings
    calls = []
    sel = gens.gen_stay_alive(rt.rng, 300, 25) + ["[Fe+2][C][C]", "[13CH1][C]", "[C@@H1][F][Cl]", "[Zn][Zn]", "[N+1][C][C][C][C]"] * 5
    novel = ["[%dC][C][%sH1][Se+%d]" % (i, rt.rng.choice(["N", "C", "Si"]), i % 7 + 1) for i in range(200)]
    smi = gens.dataset_smiles(rt.rng, 12) + gens.AROMATIC_SEEDS[:15] + gens.STEREO_SEEDS[:10]
    for x in sel + novel:
        calls.append(("dec", x))
    for x in smi:
        calls.append(("enc", x))
    # nesting far below and far above the interpreter's recursion limit (never near it: the available stack depends
    # on the calling thread): whatever a call does about deep input must not depend on what other threads do meanwhile
    for depth in (300, 600, 1500, 2200, 3000):
        calls.append(("dec", "[C][Branch2][P][P]" * depth + "[C]"))
        calls.append(("enc", "C(" * depth + "C" + ")C" * depth))
    limit_before = sys.getrecursionlimit()

    def run_call(c):
        try:
            if c[0] == "dec":
                return "ok\t" + S.decoder(c[1])
            return "ok\t" + S.encoder(c[1], strict=False)
        except Exception as e:  # noqa
            return "err\t" + type(e).__name__
    # serial reference on a second fresh import (so that the threaded run starts with cold caches)
    serial = {c: run_call(c) for c in calls}
    S = fresh_selfies()
    nthreads = rt.n(8, 16)
    rounds = rt.n(3, 8)
    old = sys.getswitchinterval()
    mism = []
    try:
        for intv in ([1e-6] if ctx.tier == "quick" else [1e-6, 1e-5, 1e-4]):
            sys.setswitchinterval(intv)
            for _r in range(rounds):
                if _r > 0 and ctx.elapsed() > (900 if ctx.tier == "quick" else 3600):
                    ctx.notes.append("thread stress stopped after %d rounds (time budget)" % _r)
                    break
                S = fresh_selfies()
                work = [list(calls) for _ in range(nthreads)]
                for w in work:
                    rt.rng.shuffle(w)
                results = [None] * nthreads

                gate = threading.Barrier(nthreads)

                def worker(i):
                    out = []
                    try:
                        gate.wait(timeout=60)      # all threads hit the cold caches together
                    except threading.BrokenBarrierError:
                        pass
                    for c in work[i]:
                        out.append((c, run_call(c)))
                    results[i] = out
                ths = [threading.Thread(target=worker, args=(i,)) for i in range(nthreads)]
                for t in ths:
                    t.start()
                for t in ths:
                    t.join()
                for out in results:
                    for c, r in out:
                        ctx.evaluations += 1
                        ctx.distinct.add(c)
                        if r != serial[c]:
                            mism.append((c, r, serial[c]))
        # cold starts: right after a (re)installation of the table every memo table is empty; many short rounds in
        # which all threads make their FIRST calls at the same moment (lazy initialisation races live here)
        sys.setswitchinterval(1e-6)
        shallow = [c for c in calls if len(c[1]) < 200]
        for _r in range(rt.n(150, 1500)):
            if ctx.elapsed() > (1200 if ctx.tier == "quick" else 4000):
                break
            S.set_semantic_constraints("default")
            picks = [[rt.rng.choice(shallow) for _k in range(3)] for _ in range(nthreads)]
            res = [None] * nthreads
            gate = threading.Barrier(nthreads)

            def cold(i):
                try:
                    gate.wait(timeout=60)
                except threading.BrokenBarrierError:
                    pass
                res[i] = [(c, run_call(c)) for c in picks[i]]
            ths = [threading.Thread(target=cold, args=(i,)) for i in range(nthreads)]
            for t in ths:
                t.start()
            for t in ths:
                t.join()
            for out in res:
                for c, r in (out or []):
                    ctx.evaluations += 1
                    if r != serial[c]:
                        mism.append((c, r, serial[c]))
    finally:
        sys.setswitchinterval(old)
        fresh_selfies()
    for c, r, s in mism[:5]:
        add_violation(ctx, "C19:differs-from-serial", "a concurrent call returned something else than the same call alone",
                      call=(c[0], c[1][:200]), concurrent=r[:200], serial=s[:200])
    if sys.getrecursionlimit() != limit_before:
        add_violation(ctx, "C19:process-global-setting", "translation calls changed the interpreter's recursion limit "
                      "(a process-wide setting every other thread's calls observe)",
                      before=limit_before, after=sys.getrecursionlimit())
        sys.setrecursionlimit(limit_before)
    ctx.sample({"threads": nthreads, "calls_per_thread": len(calls), "example_call": calls[0]})
    ctx.assumptions.append("bytecode-level interleavings inside CPython container operations are assumed atomic (GIL); the stress run can exhibit but not exclude a race")


REGISTRY2 = {
    "C03": check_C03, "C04": check_C04, "C05": check_C05, "C06": check_C06, "C09": check_C09, "C10": check_C10,
    "C11": check_C11, "C12": check_C12, "C17": check_C17, "C19": check_C19,
}


# ===================================================================== known findings

def raises(fn, name):
    try:
        fn()
    except BaseException as e:  # noqa
        return type(e).__name__ == name
    return False


def alias_witness():
    S = fresh_selfies()
    try:
        a = S.get_semantic_robust_alphabet()
        a.add("[Zz]")
        return "[Zz]" in S.get_semantic_robust_alphabet()
    finally:
        fresh_selfies()


def long_charge_witness():
    try:
        sf.set_semantic_constraints({"?": 8, "C+" + "1" * 5000: 3})
    except ValueError:
        return False
    try:
        return any(raises(lambda x=x: sf.decoder(x), "DecoderError") for x in sf.get_semantic_robust_alphabet() if len(x) > 100)
    finally:
        sf.set_semantic_constraints("default")


def only_raises(fn, name):
    """fn() returns, or raises exactly the named exception class"""
    try:
        fn()
    except BaseException as e:  # noqa
        return type(e).__name__ == name
    return True


def deep_nesting_witness():
    try:
        sf.decoder("[C][Branch3][P][P][P]" * 2000)
    except Exception as e:  # noqa
        return isinstance(e, RecursionError) or isinstance(e.__cause__, RecursionError)
    return False


def eval_check(expr):
    global sf
    sf = sys.modules["selfies"]
    env = {"sf": sf, "raises": raises, "alias_witness": alias_witness, "long_charge_witness": long_charge_witness,
           "matching_witness": matching_witness, "deep_nesting_witness": deep_nesting_witness, "only_raises": only_raises}
    try:
        return bool(eval(expr, env))
    except BaseException as e:  # noqa
        return "exception %s" % type(e).__name__


def apply_known_findings(ctx, rt, kf):
    """split ctx.violations into (covered by a listed open finding) and uncovered; replay the witness of
    every open finding of this property (KNOWN-FINDING line if it still reproduces) and the witness of
    every fixed entry (must pass now; otherwise it is a violation again: fixed entries suppress nothing)."""
    fresh_selfies()
    open_f = [f for f in kf.get("findings", []) if f.get("status") == "open" and ctx.prop in f.get("properties", [])]
    uncovered = []
    hit = {}
    for v in ctx.violations:
        cov = None
        for f in open_f:
            if v["sig"] in f.get("signatures", []):
                cov = f
                break
        if cov is None:
            uncovered.append(v)
        else:
            hit.setdefault(cov["id"], cov)
    for f in open_f:
        try:
            res = eval_check(f.get("witness", {}).get("check", "False"))
        finally:
            try:
                sys.modules["selfies"].set_semantic_constraints("default")
            except Exception:
                pass
        if res is True or f["id"] in hit:
            ctx.known_hits.append((f["id"], "%s: %s" % (f["id"], f["what"])))
    for f in kf.get("fixed", []):
        if ctx.prop not in f.get("properties", []):
            continue
        res = eval_check(f["check"])
        try:
            sys.modules["selfies"].set_semantic_constraints("default")
        except Exception:
            pass
        ctx.evaluations += 1
        if res is not True:
            uncovered.append({"sig": "regression:" + f["id"], "what": "a repaired defect is back: " + f["line"],
                              "check": f["check"], "result": str(res)})
    return uncovered
